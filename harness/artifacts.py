"""Helpers to build protobuf artefacts and to run real Check objects on them."""
import ast
from paranoid_crypto import paranoid_pb2
from paranoid_crypto.lib import util, consts


def rsa_key(n, e=65537):
  k = paranoid_pb2.RSAKey()
  k.rsa_info.n = util.Int2Bytes(n)
  k.rsa_info.e = util.Int2Bytes(e)
  return k


def entry(test_info, name):
  for r in test_info.test_results:
    if r.test_name == name:
      return r
  return None


def factors(test_info, info_name=None):
  info_name = info_name or consts.INFO_NAME_N_FACTORS
  for a in test_info.attached_info:
    if a.info_name == info_name:
      return sorted(int(h, 16) for h in ast.literal_eval(a.value))
  return []


def run_single(check, n, e=65537):
  """Runs a real check object on a fresh one-key batch.

  Returns (return_value, result, sorted factors, severity) or raises."""
  k = rsa_key(n, e)
  ret = check.Check([k])
  ent = entry(k.test_info, check.check_name)
  return ret, (ent.result if ent is not None else None), factors(k.test_info), (
      ent.severity if ent is not None else None), k


def fmt_verdict(check, n, e=65537):
  """'ok <weak> <sorted factors> <sevUnknown>' or 'err X' — matches Driver fmtVerdict up to
  factor order (the harness sorts both sides)."""
  from framework import L, B
  try:
    ret, res, fs, sev, k = run_single(check, n, e)
  except Exception as ex:  # noqa
    return 'err ' + type(ex).__name__
  sev_unknown = bool(res) and sev == paranoid_pb2.SeverityType.SEVERITY_UNKNOWN and (
      check.severity != paranoid_pb2.SeverityType.SEVERITY_UNKNOWN)
  if ret != bool(res) or k.test_info.weak != bool(res):
    return 'inconsistent ret=%r result=%r weak=%r' % (ret, res, k.test_info.weak)
  return 'ok %s %s %s' % (B(res), L(fs), B(sev_unknown))


def sort_model_verdict(resp):
  """sorts the factor list inside a model verdict 'ok w f1,f2 s' / 'w f1,f2 s'."""
  parts = resp.split(' ')
  idx = 2 if parts[0] == 'ok' else 1
  if parts[0] == 'err' or len(parts) <= idx or parts[idx] == '[]':
    return resp
  fs = sorted(set(int(x, 16) for x in parts[idx].split(',')))
  parts[idx] = ','.join('%x' % f for f in fs)
  return ' '.join(parts)
