import sys, random
import os; sys.path.insert(0, os.path.dirname(os.path.dirname(os.path.abspath(__file__))))
import shims; shims.install()
from paranoid_crypto import paranoid_pb2
from paranoid_crypto.lib import paranoid
from paranoid_crypto.lib import ec_util, cr50_u2f_weakness as cr50, lll, ecdsa_sig_checks as esc
rng = random.Random(int(sys.argv[1]) if len(sys.argv) > 1 else 1)
CID = 1
CID = int(CID)
c = ec_util.CURVE_FACTORY[CID]
n = int(c.n); words = n.bit_length() // 32
d = rng.randrange(1, n)
Q = c.Multiply(c.g, d)
def tb(v, ln=None):
  v = int(v); ln = ln or max(1, (v.bit_length() + 7) // 8)
  return v.to_bytes(ln, 'big')
sigs = []; meta = []
for i in range(2):
  digs = [rng.randrange(1, 256) for _ in range(words)]
  k = sum(cj * 0x01010101 << (32*j) for j, cj in enumerate(digs))
  assert 0 < k < n
  R = c.Multiply(c.g, k)
  mh = rng.randbytes(20)
  z = int.from_bytes(mh, 'big') % n
  r = int(R[0]) % n
  s = pow(k, -1, n) * (z + r*d) % n
  sg = paranoid_pb2.ECDSASignature()
  sg.issuer_key_info.curve_type = CID
  sg.issuer_key_info.x = tb(Q[0]); sg.issuer_key_info.y = tb(Q[1])
  sg.ecdsa_sig_info.r = tb(r); sg.ecdsa_sig_info.s = tb(s); sg.ecdsa_sig_info.message_hash = mh
  sigs.append(sg); meta.append(dict(digs=digs, k=k, r=r, s=s, z=z, mh=mh))
events = []
real_reduce = lll.reduce
def rec_reduce(L):
  out = real_reduce(L)
  events.append(('lll', [[int(x) for x in r] for r in out]))
  return out
real_g = cr50.Cr50U2fGuesses
def rec_g(*a):
  events.append(('call', tuple(int(x) for x in a)))
  out = real_g(*a)
  events.append(('ans', [int(x) for x in out]))
  return out
real_d = esc._IssuerDLogs
def rec_d(guesses, pks, curve):
  events.append(('guesses', [int(x) for x in guesses]))
  return real_d(guesses, pks, curve)
lll.reduce = rec_reduce; cr50.Cr50U2fGuesses = rec_g; esc._IssuerDLogs = rec_d
try:
  ret = esc.CheckCr50U2f().Check(sigs)
finally:
  lll.reduce = real_reduce; cr50.Cr50U2fGuesses = real_g; esc._IssuerDLogs = real_d
def BL(b): return '[' + ', '.join(str(x) for x in b) + ']'
def L(l): return '[' + ', '.join(str(int(x)) for x in l) + ']'
def M(rows): return '[' + ',\n    '.join(L(r) for r in rows) + ']'
calls = [e[1] for e in events if e[0] == 'call']
anss = [e[1] for e in events if e[0] == 'ans']
llls = [e[1] for e in events if e[0] == 'lll']
guesses = [e[1] for e in events if e[0] == 'guesses'][0]
assert len(calls) == 2 and len(llls) == 2, (len(calls), len(llls))
uniq = [calls[0][0:3], calls[0][3:6]]
assert calls[1][0:3] == uniq[1]
print('-- CheckCr50U2f on secp192r1 returned %s; d = %d' % (ret, d))
print('def exCrD : Nat := %d' % d)
print('def exCrKey : Key := (%d, %d)' % (int(Q[0]), int(Q[1])))
print('def exCrBatch : List Sig :=\n  [' + ',\n   '.join('⟨%d, %s, %s, %s, %s, %s⟩' % (
    CID, BL(s_.issuer_key_info.x), BL(s_.issuer_key_info.y), BL(s_.ecdsa_sig_info.r), BL(s_.ecdsa_sig_info.s),
    BL(s_.ecdsa_sig_info.message_hash)) for s_ in sigs) + ']')
print('def exCrV1 : Triple := (%d, %d, %d)' % uniq[0])
print('def exCrV2 : Triple := (%d, %d, %d)' % uniq[1])
by = {(m['r'], m['s'], m['z']): m for m in meta}
print('def exCrC1 : List Int := %s' % L(by[uniq[0]]['digs']))
print('def exCrC2 : List Int := %s' % L(by[uniq[1]]['digs']))
print('def exCrBasis0 : List (List Int) :=\n   %s' % M(llls[0]))
print('def exCrBasis1 : List (List Int) :=\n   %s' % M(llls[1]))
print('def exCrAns0 : List Int := %s' % L(anss[0]))
print('def exCrAns1 : List Int := %s' % L(anss[1]))
print('def exCrGuesses : List Int := %s' % L(guesses))
pl = by[uniq[0]]['digs'] + by[uniq[1]]['digs'] + [-256, 0]
print('-- planted in basis0:', pl in llls[0], [-x for x in pl] in llls[0])
for s_ in sigs:
  print('--', [(e.test_name, e.result) for e in s_.test_info.test_results], [(a.info_name, a.value) for a in s_.test_info.attached_info])
