import sys
import toy
from toy import *
rng = toy.rng
def L(l): return '[' + ', '.join(str(int(x)) for x in l) + ']'
def M(rows): return '[' + ',\n    '.join(L(r) for r in rows) + ']'
def T(v): return '(%d, %d, %d)' % v
def sig(x, y, v, hb): return '⟨2, [%d], [%d], [%d], [%d], [%d]⟩' % (x, y, v[0], v[1], hb)
d2 = 5; Q2 = mul(5, G); assert Q2 == (89, 43)
def other(bias):
  """one signature of the second issuer (key 5), random nonce, solved by the real solver"""
  global d
  while True:
    k = rng.randrange(2, n); hb = rng.randrange(2, 256)
    z = (hb >> 1) % n; r = mul(k, G)[0] % n
    if r == 0: continue
    s = pow(k, -1, n) * (z + r*d2) % n
    if s == 0: continue
    v = (r, s, z)
    a, b = params(v)
    lat = hnp.GetLattice([a], [b], None, n, hnp.Bias(bias))
    red = [[int(x) for x in row] for row in lll.reduce(lat)]
    real = lll.reduce; lll.reduce = lambda L_: red
    try: gs = hnp.HiddenNumberProblem([a], [b], None, n, hnp.Bias(bias))
    finally: lll.reduce = real
    return v, hb, red, sorted(int(g) for g in gs)
def emit(name, bias, vals, hbs, red, gs, extra):
  v2, hb2, red2, gs2 = other(bias)
  gl = []
  for g in list(gs) + list(gs2):
    if g not in gl: gl.append(g)
  out = []
  out.append('-- %s: values %s' % (name, extra.get('comment', '')))
  out.append('def %sVals : List Triple := [%s]' % (name, ', '.join(T(v) for v in vals)))
  out.append('def %sBatch : List Sig :=\n  [%s,\n   %s,\n   ⟨99, [23], [61], [5], [3], [16]⟩]' % (
      name, ',\n   '.join(sig(23, 61, v, hb) for v, hb in zip(vals, hbs)), sig(89, 43, v2, hb2)))
  out.append('def %sBasis : List (List Int) :=\n   %s' % (name, M(red)))
  out.append('def %sBasis2 : List (List Int) :=\n   %s' % (name, M(red2)))
  out.append('def %sLll : Nat → Nat → LllAnswers := fun j _ _ => if j = 0 then %sBasis else %sBasis2' % (name, name, name))
  out.append('def %sO : Nat → GroupOracle := fun _ =>\n  { uniq := fun j => if j = 0 then %sVals else [%s]\n    answer := fun j _ => if j = 0 then %s else %s\n    guessList := %s }' % (
      name, name, T(v2), L(gs), L(gs2), L(gl)))
  for k, v in extra.items():
    if k != 'comment': out.append('-- %s = %s' % (k, v))
  return '\n'.join(out)
def find(bias, m, gen):
  for _ in range(200):
    ks, meta = gen(m)
    if any(k < 2 or k >= n or mul(k, G)[0] % n == 0 for k in ks): continue
    vals, hbs, a, b, lat, red, gs = tryit(bias, ks)
    if d not in gs: continue
    w = int(lat[-1][-1]) // n
    rows = [r for r in red if r[0] % n]
    res = meta(ks, w, rows)
    if res is None: continue
    return ks, vals, hbs, a, b, lat, red, sorted(int(g) for g in gs), w, res
  raise SystemExit('no instance for bias %d' % bias)
out = []
# MSB: bits = 4
def gen_msb(m): return [rng.randrange(2, 8) for _ in range(m)], lambda ks, w, rows: ({} if any(r == [n*w+1, d] + [k*w for k in ks] or [-x for x in r] == [n*w+1, d] + [k*w for k in ks] for r in rows) else None)
ks, vals, hbs, a, b, lat, red, gs, w, res = find(1, 3, gen_msb)
out.append(emit('exMsb', 1, vals, hbs, red, gs, dict(comment='nonces %s (< 8 = 2^(7-4)), w = 2^128' % ks, ks=ks, a=a, b=b)))
# prefix
def gen_pre(m):
  top = rng.choice([16, 32, 48, 64, 80]); es = [rng.randrange(0, 8) for _ in range(m)]
  def meta(ks, w, rows):
    for r in rows:
      for t in (1, -1):
        rr = [t*x for x in r]
        if rr[0] == n*w+1 and rr[1] % n == d and all(x % w == 0 for x in rr[2:]):
          e = [x // w for x in rr[2:]]
          tp = ks[0] - e[0]
          if all(k == tp + ei for k, ei in zip(ks, e)) and all(abs(ei) < 8 for ei in e) and rr[1] == d:
            return dict(top=tp, e=e)
    return None
  return [top + e for e in es], meta
ks, vals, hbs, a, b, lat, red, gs, w, res = find(2, 4, gen_pre)
out.append(emit('exPre', 2, vals, hbs, red, gs, dict(comment='nonces %s = top + e, |e| < 8, w = 2^64' % ks, ks=ks, a=a, b=b, **res)))
# postfix
def gen_post(m):
  fb = int(n.bit_length() / m * 1.25); beta = max(3, fb); w = 2**beta
  low = rng.randrange(0, w)
  ks = [low + w*rng.randrange(0, (n-low)//w) for _ in range(m)]
  def meta(ks, w_, rows):
    assert w_ == w, (w_, w)
    for r in rows:
      for t in (1, -1):
        rr = [t*x for x in r]
        if rr[0] == n*w+1 and rr[1] == d and all(x % w == 0 for x in rr[2:]):
          h = [x // w for x in rr[2:]]
          lo = ks[0] - w*h[0]
          if all(k == lo + w*hi for k, hi in zip(ks, h)) and all(abs(hi) < 2**(7-beta) for hi in h):
            return dict(low=lo, hi=h, fb=fb, beta=beta)
    return None
  return ks, meta
ks, vals, hbs, a, b, lat, red, gs, w, res = find(3, 5, gen_post)
out.append(emit('exPost', 3, vals, hbs, red, gs, dict(comment='nonces %s = low + 8*hi, w = 2^3' % ks, ks=ks, a=a, b=b, **res)))
# generalized
def gen_gen(m):
  mult = rng.randrange(2, n); mi = pow(mult, -1, n)
  top = rng.choice([16, 32, 48, 64, 80]); es = [rng.randrange(0, 8) for _ in range(m)]
  ks = [(top + e) * mi % n for e in es]
  def meta(ks, w, rows):
    for r in rows:
      for t in (1, -1):
        rr = [t*x for x in r]
        if (rr[0] - mult) % n == 0 and (rr[1] - mult*d) % n == 0 and all(x % w == 0 for x in rr[2:]):
          e = [x // w for x in rr[2:]]
          tp = (rr[0]*ks[0] - e[0]) % n
          if all((rr[0]*k - tp - ei) % n == 0 for k, ei in zip(ks, e)) and all(abs(ei) < 8 for ei in e):
            return dict(mult=rr[0], y=rr[1], top=tp, e=e, secret_mult=mult)
    return None
  return ks, meta
ks, vals, hbs, a, b, lat, red, gs, w, res = find(4, 6, gen_gen)
out.append(emit('exGen', 4, vals, hbs, red, gs, dict(comment='mult*nonce = top + e mod n, |e| < 8, w = 2^64', ks=ks, a=a, b=b, **res)))
print('\n\n'.join(out))
