import sys
import toy
from toy import *
from paranoid_crypto.lib import lcg_constants
from paranoid_crypto import paranoid_pb2
rng = toy.rng
def L(l): return '[' + ', '.join(str(int(x)) for x in l) + ']'
def M(rows): return '[' + ',\n    '.join(L(r) for r in rows) + ']'
def T(v): return '(%d, %d, %d)' % v
def sig(x, y, v, hb): return '⟨2, [%d], [%d], [%d], [%d], [%d]⟩' % (x, y, v[0], v[1], hb)
consts = [(1, 40), (2, 80)]; W = 256
real_factory = lcg_constants.CONSTANT_FACTORY
name = list(lcg_constants.LcgName)[0]
entry = dict(real_factory[0])
entry.update(curve=2, lcg=name, sample_size=4, min_signatures=2, sliding_window_size=4, w=W, constants=consts)
lcg_constants.CONSTANT_FACTORY = [entry]
def solve(a, b):
  subs = list(hnp._HiddenNumberProblemSubsets(a, b, 2, name, hnp.SearchStrategy(7)))
  bases = []; guesses = []
  for a0, b0, cs, w in subs:
    rec = {}
    real = lll.reduce
    def r_(Lm):
      out = real(Lm); rec['red'] = [[int(x) for x in r] for r in out]; return out
    lll.reduce = r_
    try: gs = hnp.HiddenNumberProblemWithPrecomputation(a0, b0, n, cs, w)
    finally: lll.reduce = real
    bases.append(rec['red']); guesses += [int(g) for g in gs]
  return subs, bases, guesses
def cent(v): v %= n; return v if v <= n//2 else v - n
for trial in range(200):
  es = [rng.randrange(-3, 4) for _ in range(3)]
  ks = [40 + e for e in es]
  if any(mul(k, G)[0] % n == 0 for k in ks): continue
  vals = []; hbs = []
  for k in ks:
    while True:
      hb = rng.randrange(2, 256); v = sign(k, hb)
      if v[1] and v not in vals and hb not in hbs: break
    vals.append(v); hbs.append(hb)
  ab = [params(v) for v in vals]
  a = [x for x, _ in ab]; b = [y for _, y in ab]
  subs, bases, gs = solve(a, b)
  if d not in gs or len(subs) != 1: continue
  a0, b0, cs, w = subs[0]
  et = [cent(((ai*c - dd) % n) + ((bi*c) % n) * d) for ai, bi in zip(a0, b0) for c, dd in cs]
  pl = [n*w+1, d] + [e*w for e in et]
  if pl in bases[0] or [-x for x in pl] in bases[0]:
    break
else:
  raise SystemExit('none')
# second issuer
d2 = 5
while True:
  k2 = rng.randrange(2, n); hb2 = rng.randrange(2, 256)
  z = (hb2 >> 1) % n; r = mul(k2, G)[0] % n
  if r == 0: continue
  s = pow(k2, -1, n) * (z + r*d2) % n
  if s == 0: continue
  v2 = (r, s, z); break
a2, b2 = params(v2)
subs2, bases2, gs2 = solve([a2], [b2])
gl = []
for g in gs + gs2:
  if g not in gl: gl.append(g)
print('-- nonces %s = 40 + e, e = %s; constants %s, w = %d; e_t = %s' % (ks, es, consts, W, et))
print('def exLcgVals : List Triple := [%s]' % ', '.join(T(v) for v in vals))
print('def exLcgBatch : List Sig :=\n  [%s,\n   %s,\n   ⟨99, [23], [61], [5], [3], [16]⟩]' % (',\n   '.join(sig(23, 61, v, hb) for v, hb in zip(vals, hbs)), sig(89, 43, v2, hb2)))
print('def exLcgBases : List (List (List Int)) :=\n  [%s]' % ',\n   '.join(M(b_) for b_ in bases))
print('def exLcgBases2 : List (List (List Int)) :=\n  [%s]' % ',\n   '.join(M(b_) for b_ in bases2))
print('def exLcgAns : List Int := %s' % L(sorted(set(gs))))
print('def exLcgAns2 : List Int := %s' % L(sorted(set(gs2))))
print('def exLcgGuesses : List Int := %s' % L(gl))
print('def exLcgV2 : Triple := %s' % T(v2))
print('def exLcgEs : List Int := %s' % L(et))
print('-- subsets2', [(x[0], x[1], len(x[2])) for x in subs2], 'ab', a, b)
