import sys, random
import os; sys.path.insert(0, os.path.dirname(os.path.dirname(os.path.abspath(__file__))))
import shims; shims.install()
from paranoid_crypto.lib import hidden_number_problem as hnp, lll, cr50_u2f_weakness as cr50
p, A, B, n = 101, -3, 6, 109
G = (0, 39)
def add(P, Q):
  if P is None: return Q
  if Q is None: return P
  if P[0] == Q[0] and (P[1] + Q[1]) % p == 0: return None
  if P == Q: l = (3*P[0]*P[0] + A) * pow(2*P[1], -1, p) % p
  else: l = (Q[1]-P[1]) * pow(Q[0]-P[0], -1, p) % p
  x = (l*l - P[0] - Q[0]) % p
  return (x, (l*(P[0]-x) - P[1]) % p)
def mul(k, P):
  R = None
  for _ in range(k): R = add(R, P)
  return R
assert mul(109, G) is None and mul(7, G) == (23, 61), mul(7,G)
d = 7
def sign(k, hb):
  z = (hb >> 1) % n
  r = mul(k, G)[0] % n
  s = pow(k, -1, n) * (z + r*d) % n
  return r, s, z
def params(v):
  r, s, z = v
  si = pow(s, -1, n)
  return z*si % n, r*si % n
rng = random.Random(int(sys.argv[1]) if len(sys.argv) > 1 else 1)
def tryit(bias, ks, w=None):
  hbs = []
  vals = []
  for k in ks:
    while True:
      hb = rng.randrange(2, 256)
      v = sign(k, hb)
      if v[0] and v[1] and v not in vals and hb not in hbs: break
    vals.append(v); hbs.append(hb)
  ab = [params(v) for v in vals]
  a = [x for x, _ in ab]; b = [y for _, y in ab]
  lat = hnp.GetLattice(a, b, w, n, hnp.Bias(bias))
  red = [[int(x) for x in row] for row in lll.reduce(lat)]
  real = lll.reduce
  lll.reduce = lambda L: red
  try: gs = hnp.HiddenNumberProblem(a, b, w, n, hnp.Bias(bias))
  finally: lll.reduce = real
  return vals, hbs, a, b, lat, red, gs
if __name__ == '__main__':
  pass
