"""./check <property> [--tier quick|thorough] [--replay f] [--search]

exit 0: property held on everything explored (KNOWN-FINDING lines possible)
exit 1: VIOLATION line printed
exit 2: infrastructure failure (never a VIOLATION line)
"""
import argparse
import importlib
import json
import os
import random
import sys
import time
import traceback

HERE = os.path.dirname(os.path.abspath(__file__))
sys.path.insert(0, HERE)
import framework as fw  # noqa


def main():
  ap = argparse.ArgumentParser()
  ap.add_argument('prop')
  ap.add_argument('--tier', default=os.environ.get('VERIF_TIER', 'quick'))
  ap.add_argument('--replay')
  ap.add_argument('--search', action='store_true')
  ap.add_argument('--no-build', action='store_true')
  args = ap.parse_args()
  tier = 'thorough' if args.tier.startswith('t') else 'quick'
  seed = int(os.environ.get('VERIF_SEED', '1') or 1)
  prop = args.prop
  import shims
  shims.install()
  try:
    mod = importlib.import_module('corr.' + prop.lower())
  except ImportError:
    traceback.print_exc()
    print('no check module for', prop)
    return 2
  rep = fw.Report(prop, tier, seed)
  rng = random.Random('%s/%s/%s' % (prop, tier, seed))

  if args.replay:
    rj = json.load(open(args.replay))
    if (rj.get('info') or {}).get('kind') == 'solver-raise':
      # an exception of a real ECDSA check / entry point on a well-formed batch (C02 C08 C16 C17 C18 runs):
      # the stored protobufs through the stored real entry point, exit 1 iff it raises again
      from corr import c02s
      return c02s.replay_solver_raise(rj)
    if hasattr(mod, 'replay'):
      return mod.replay(rj)
    # generic replay: re-run the correspondence with the recorded seed/tier and look for the
    # same request line among the violations / divergences
    seed = int(rj.get('seed', seed))
    tier = rj.get('tier', tier)
    rep = fw.Report(prop, tier, seed)
    rng = random.Random('%s/%s/%s' % (prop, tier, seed))
    fw.lake_build(['driver'])
    mod.correspondence(rep, rng, tier)
    want = rj.get('line')
    hits = [v for v in rep.violations if want is None or v.get('line') == want]
    divs = [d for d in rep.divergences if want is None or d.get('line') == want]
    if hits or (rj.get('kind') == 'obligation-broken' and rep.divergences):
      print('replay: reproduced: %s' % fw.trunc((hits or rep.divergences)[0].get('what') or
                                                  (hits or rep.divergences)[0].get('line')))
      print('VIOLATION property=%s replay=%s' % (prop, args.replay))
      return 1
    print('replay: not reproduced on the current tree (property holds on this input; '
          '%d divergences on that line)' % len(divs))
    return 0

  # 1. translator part: regenerate constants from /repo
  try:
    import gen_consts
    gen_consts.regenerate()
  except Exception as e:  # noqa
    traceback.print_exc()
    rep.broken.append('gen_consts: %r' % (e,))

  # 2. proof obligations: theorems of Props/<id>.lean (and what they import) + driver
  names, _ = fw.theorem_names(prop)
  rep.obligations = len(names)
  driver_ok = True
  if not args.no_build:
    ok, log = fw.lake_build(['ParanoidModel.Props.' + m for m in fw.props_modules(prop)])
    if not ok:
      rep.broken.append('lake build ParanoidModel.Props.%s failed' % prop)
      rep.notes.append(fw.trunc(log[-3000:], 3000))
    ok2, log2 = fw.lake_build(['driver'])
    if not ok2:
      driver_ok = False
      rep.broken.append('lake build driver failed')
      rep.notes.append(fw.trunc(log2[-3000:], 3000))
  else:
    ok = True
  hits = fw.audit_tokens()
  if hits:
    rep.broken.append('forbidden tokens: ' + '; '.join(hits[:10]))
  if ok:
    aok, axioms, alog = fw.audit_axioms(prop)
    rep.theorems = axioms
    rep.discharged = sum(1 for n in names
                         if n in axioms and set(axioms[n]) <= fw.ACCEPTED_AXIOMS)
    if not aok:
      rep.broken.append('axiom audit failed')
      rep.notes.append(fw.trunc(alog, 2000))
    if hits:
      rep.discharged = 0

  # 3. known findings replay, corpus, correspondence
  try:
    if hasattr(mod, 'known_findings'):
      mod.known_findings(rep)
    if driver_ok:
      mod.correspondence(rep, rng, tier)
    # 4. failing-input search when an obligation or the correspondence broke
    if (rep.broken or rep.divergences or args.search) and not rep.violations:
      if hasattr(mod, 'search'):
        mod.search(rep, rng, tier)
  except Exception as e:  # noqa
    traceback.print_exc()
    print('infrastructure failure in %s: %r' % (prop, e))
    return 2
  meta = getattr(mod, 'META', {})
  return fw.finish(
      rep, '', meta.get('trusted_base', []) + COMMON_TRUSTED,
      meta.get('assumptions', []),
      'cd lean/ParanoidModel && lake build ParanoidModel.Props.%s && '
      '#print axioms on each theorem (harness/framework.py audit_axioms)' % prop)


COMMON_TRUSTED = [
    'Lean 4.33.0 kernel',
    'axioms: propext, Classical.choice, Quot.sound only (audited per theorem by #print axioms)',
    'Mathlib v4.33.0 (proof files only)',
    'correspondence harness /verif/harness (model vs implementation on generated inputs)',
    'protobuf/pybind shims harness/shims.py regenerated from /repo sources',
    'CPython int, gmpy2 primitives (differentially tested against the model: basic.* ops)',
]

if __name__ == '__main__':
  sys.exit(main())
