# claims table, exec'd by mkmanifest.py
NOT_CLAIMED = {}

claim('C01',
      'Lean theorems (Props/C01.lean): for every n, every parameter and every oracle answer (LLL basis, float cube root), '
      'each of the nine factor-returning functions of rsa_util / special_case_factoring returns only lists [x,y] with x*y = n '
      '(gcd-derived ones: g | n and 1 < g < n), and factors come only together with the weak verdict. '
      'Model tied to /repo by differential correspondence over ~9k generated moduli/oracle answers per run, incl. adversarial LLL rows.',
      'Trusted: Lean kernel, correspondence harness, shims. Oracles need no assumption for soundness. Check-level bookkeeping (AttachFactors, CheckGCD record) is covered under C16/C03.',
      'Lean 4 proof of soundness over an executable model + differential correspondence with the Python implementation',
      'DESIGN.md section 5 C01')

claim('C03',
      'Lean theorems (Props/C03.lean): for EVERY batch of positive values (any length, any multiplicities), every other_values_prod and '
      'every enumeration order of Python\'s set(values), rsa_util.BatchGCD returns at position i exactly '
      'gcd(values[i], prod(set(values) - {values[i]}) * other\') with other\' = 1 for None/0 (batchGCD_spec, order_independent); proved through '
      'FastProduct = product, the product-tree invariant (T = sum_i prod_{j!=i} u_j, top node prod u, each level the pairwise product of the one below), '
      'T mod v, and the remainder-tree invariant. Corollaries: a key is flagged by CheckGCD iff its modulus shares a divisor > 1 with another DISTINCT modulus '
      '(flagged_iff_shares, checkGCD_any_weak); identical moduli never accuse each other; the answer depends on the value set only (permutation-equivariance); '
      'adding a coprime modulus changes nothing; the recorded factors are [g, n/g] with g | n, and g = n iff n divides the product of the others; '
      'CheckGCDN1 flags iff gcd(n-1, prod of the other distinct n\'-1) >= bound and attaches [gcd]. Empty batch: [] / not weak for the code after '
      'fixes/D1-batchgcd-empty.diff; on the pinned tree BatchGCD([]) raises IndexError (defect D1, theorem empty_batch_pinned_raises, reported as KNOWN-FINDING while listed in known_findings.json). '
      'Model tied to /repo by differential correspondence: every batch size 0..130 (thorough 0..400 + sampled to 5000) x 10 batch families x 5 kinds of other, '
      'the product tree and FastProduct alone, the set() order actually used by CPython, and CheckGCD/CheckGCDN1 through real protobuf artifacts with bounds around the gcd values.',
      'Trusted: Lean kernel, correspondence harness, protobuf shim. No oracle. Hypothesis of the theorems: values > 0 (a zero among >= 2 distinct values raises ZeroDivisionError in code and model, theorem zero_value_raises); '
      'CheckGCDN1 needs moduli >= 2 for the theorem, modulus 0 (value -1) is outside the model. AttachFactors set union with pre-existing factors and SetTestResult bookkeeping are C16.',
      'Lean 4 proof model = specification over an executable model + differential correspondence with the Python implementation',
      'DESIGN.md section 5 C03, section 6 D1')

claim('C04',
      'Fermat clause proved at full strength (Props/C04.lean fermat_exact): for all distinct odd primes p<q and every step bound, FermatFactor(pq, steps) = (q,p) '
      'iff (p+q)/2 - ceil(sqrt(pq)) < steps, else None; even and square moduli by the shortcuts. For the guess-based clauses: the exact success condition of the '
      'Fermat step inside FactorWithGuess (fwg_one_step: ceil(sqrt(4uvn)) = uq+vp iff (uq-vp)^2 < 2(uq+vp)-1), what it returns (fwg_step_post: both primes), '
      'the guess algebra (sud_guess_exact) and the list of differences tried (sud_differences) are theorems; soundness is C01. NOT proved: that every modulus of the '
      'equal-high/low-bits, small-upper-difference and unseeded-PRNG families reaches that condition (depends on a float cube root and on continued-fraction convergents); '
      'those clauses are evaluated directly on the implementation on every run for generated members of each family (all six differences, every listed unseeded output size, '
      '(r,s) splits at the boundary) and any miss is reported as a violation with the modulus as replay. Two genuine defects found this way were repaired in /repo (D6a, D6b).',
      'Trusted: Lean kernel, correspondence harness. Float cube root is an oracle value recomputed by the harness with the same expression. Family-completeness clauses are search, not proof.',
      'Lean 4 proof (exact characterisation of Fermat; one-step condition) + differential correspondence + property search on the implementation',
      'DESIGN.md section 5 C04, section 6 D6')

claim('C05',
      'Pollard clause proved at full strength (Props/C05.lean pollard_flag): for all distinct odd primes, every product m and gcd bound, if p-1 and q-1 share g >= bound with g | m and (p-1) | (n-1)m '
      'then Pollardpm1 flags n, with factors [p,q] unless 2^((n-1)m) = 1 mod q as well (then flagged without factors). Lattice families: fraction_post — if the LLL basis contains a row whose value '
      'is a multiple of p and not of q, CheckFraction returns both primes, for every other content of the basis; soundness for every basis is C01. Check-level models of CheckBitPatterns / '
      'CheckPermutedBitPatterns / CheckPollardpm1 / CheckLowHammingWeight / CheckContinuedFractions (Model/RsaChecks.lean: which denominators are tried, in which order, first success wins, '
      'UNKNOWN severity when unfactored) are tied to the real Check objects on protobuf keys by correspondence with recorded LLL answers. NOT claimed: that LLL finds the planted vector, that the '
      'best-first Hamming-weight search succeeds for weight <= 32, or the continued-fraction heuristic (oracle / heuristic success).',
      'Trusted: Lean kernel, correspondence harness, fpylll as oracle (answers recorded at rsa_util.lll.reduce). powMod is proved equal to b^e mod m.',
      'Lean 4 proof (Pollard clause; completeness given the oracle row) + differential correspondence with recorded oracle answers',
      'DESIGN.md section 5 C05')
