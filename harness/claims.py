# claims table, exec'd by mkmanifest.py
NOT_CLAIMED = {}

claim('C01',
      'Lean theorems (Props/C01.lean): for every n, every parameter and every oracle answer (LLL basis, float cube root), '
      'each of the eight factor-returning functions of rsa_util / special_case_factoring (the ninth, BatchGCD, is C03) returns only lists [x,y] with x*y = n '
      '(gcd-derived ones: g | n and 1 < g < n), and factors come only together with the weak verdict. '
      'Model tied to /repo by differential correspondence over ~9k generated moduli/oracle answers per run, incl. adversarial LLL rows.',
      'Trusted: Lean kernel, correspondence harness, shims. Oracles need no assumption for soundness. Check-level bookkeeping (AttachFactors, CheckGCD record) is covered under C16/C03.',
      'Lean 4 proof of soundness over an executable model + differential correspondence with the Python implementation',
      'DESIGN.md section 5 C01')

claim('C03',
      'Lean theorems (Props/C03.lean): for EVERY batch of positive values (any length, any multiplicities), every other_values_prod (None or a natural number; a negative value is not modelled) and '
      'every enumeration order of Python\'s set(values), rsa_util.BatchGCD returns at position i exactly '
      'gcd(values[i], prod(set(values) - {values[i]}) * other\') with other\' = 1 for None/0 (batchGCD_spec, order_independent); proved through '
      'FastProduct = product, the product-tree invariant (T = sum_i prod_{j!=i} u_j, top node prod u, each level the pairwise product of the one below), '
      'T mod v, and the remainder-tree invariant. Corollaries: a key is flagged by CheckGCD iff its modulus shares a divisor > 1 with another DISTINCT modulus '
      '(flagged_iff_shares, checkGCD_any_weak); identical moduli never accuse each other; the answer depends on the value set only (permutation-equivariance); '
      'adding a coprime modulus changes nothing; the recorded factors are [g, n/g] with g | n — followed, since the D2 repair, by the proper split [gcd(n, (R/n) mod n), …] when g = n and such a split exists (checkGCDKey_spec, checkGCD_recorded_proper; C01 proper clause) — and g = n iff n divides the product of the others; '
      'CheckGCDN1 flags iff gcd(n-1, prod of the other distinct n\'-1) >= bound and attaches [gcd]. Empty batch: [] / not weak for the code after '
      'fixes/D1-batchgcd-empty.diff; on the pinned tree BatchGCD([]) raises IndexError (defect D1, theorem empty_batch_pinned_raises, reported as KNOWN-FINDING while listed in known_findings.json). '
      'Model tied to /repo by differential correspondence: every batch size 0..130 (thorough 0..400 + sampled to 5000) x 10 batch families x 5 kinds of other (the other-value kinds for sizes <= 24 only), '
      'the product tree and FastProduct alone, the set() order actually used by CPython, and CheckGCD/CheckGCDN1 through real protobuf artifacts with bounds around the gcd values.',
      'Trusted: Lean kernel, correspondence harness, protobuf shim. No oracle. Hypothesis of the theorems: values > 0 (a zero among >= 2 distinct values raises ZeroDivisionError in code and model, theorem zero_value_raises); '
      'CheckGCDN1 needs moduli >= 2 for the theorem, modulus 0 (value -1) is outside the model. AttachFactors set union with pre-existing factors and SetTestResult bookkeeping are C16.',
      'Lean 4 proof model = specification over an executable model + differential correspondence with the Python implementation',
      'DESIGN.md section 5 C03, section 6 D1')

claim('C04',
      'Fermat clause proved at full strength (Props/C04.lean fermat_exact): for all distinct odd primes p<q and every step bound, FermatFactor(pq, steps) = (q,p) '
      'iff (p+q)/2 - ceil(sqrt(pq)) < steps, else None; even and square moduli by the shortcuts. For the guess-based clauses: the exact success condition of the '
      'Fermat step inside FactorWithGuess (fwg_one_step: ceil(sqrt(4uvn)) = uq+vp iff (uq-vp)^2 < 2(uq+vp)-1), what it returns (fwg_step_post: both primes), '
      'the guess algebra (sud_guess_exact) and the list of differences tried (sud_differences) are theorems; soundness is C01. That the three families REACH that condition is proved too — see the additions below (hlbe_complete; Props/C04Guess.lean) — under an explicit gap bound and oracle hypothesis; '
      'in addition those clauses are evaluated directly on the implementation on every run for generated members of each family (all six differences, every listed unseeded output size, '
      '(r,s) splits at the boundary) and any miss is reported as a violation with the modulus as replay. Two genuine defects found this way were repaired in /repo (D6a, D6b).',
      'Trusted: Lean kernel, correspondence harness. Float cube root is an oracle value recomputed by the harness with the same expression. Family completeness is proved under the explicit gap bound GapOK and the oracle hypothesis CbrtOK (see the additions); that real prime gaps satisfy GapOK is number theory, not proved.',
      'Lean 4 proof (exact characterisation of Fermat; one-step condition) + differential correspondence + property search on the implementation',
      'DESIGN.md section 5 C04, section 6 D6')

claim('C05',
      'Pollard clause: for all distinct odd primes, every product m and gcd bound, if p-1 and q-1 share g >= bound with g | m and (p-1) | (n-1)m '
      'then Pollardpm1 flags n, with factors [p,q] unless 2^((n-1)m) = 1 mod q as well — then flagged without factors, in particular when (q-1) | (n-1)m (Props/C05.lean pollard_flag, stated for an ARBITRARY m). Which g divide the product the constructor really builds is characterised exactly for EVERY exponent list the float expression int(math.log(bound, p)) may return (Props/C05PollardExps.lean product_dvd_iff: every prime power r^k of g has k <= the entry of the list at r\'s position in the sieve; pollard_flag_exps), and in readable form for the documented exponents (Props/C05Pollard.lean defaultM_dvd_iff: r^k <= 2^64 for r <= 863, k = 1 for 863 < r < 2^20; userM_dvd_iff; bound 0 is the default product). On every run the exponent list the real constructor used is determined; for the DEFAULT product it must be the documented one (a violation otherwise), so pollard_default_flag / _of_smooth / _both_smooth (non-vacuity: both_smooth_witness) are about the real default check. '
      'For user bounds the float exponent is one below floor(log_p bound) at the prime powers 243, 4913, 29791, 59049, 68921, 571787 (all bounds <= 2^20 enumerated): there the real product lacks one factor p, userM_dvd_iff / pollard_user_flag describe the documented product only, and bound243_documented_vs_real is a kernel-checked key (Pratt-certified primes) satisfying every hypothesis of pollard_user_flag that the real CheckPollardpm1(243) does not flag — an OBSERVATION on the user-bound path (patch fixes/pollard-user-bound-exponent.diff), not a C05 violation: the clause of C05 is about the default Pollard product. Constructor arguments outside Option Nat (negative: ValueError, float: TypeError, True: m = 1) are recorded on the implementation only. '
      'PROPERTY-TEXT LIMITATION: "share a 2^20-smooth factor of at least 2^60" is not sufficient: g = 1009^7 is 2^20-smooth and >= 2^60, but the default product contains 1009 only once and Pollardpm1 returns (False, []) for n = (24g+1)(2*1048721*g+1) (C05Pollard.literal_text_fails with Pratt-certified primes, smooth_not_enough; reproduced on the implementation every run); the clause is read as "share a factor of at least 2^60 that divides the Pollard product". The limitation rests on reading "smooth enough" as (p-1) | (n-1)m (what Pollardpm1 needs); under the reading (p-1) | m the literal clause holds for any shared factor >= 2^60 (C05PollardExps.literal_clause_of_pm1_dvd; the witness has (p-1) not dividing m: literal_witness_not_dvd). The kernel witness has 166 bits; a 1024-bit witness is evaluated on the implementation every run. Lattice families: fraction_post — if the LLL basis contains a row whose value '
      'is a multiple of p and not of q, CheckFraction returns both primes, for every other content of the basis; soundness for every basis is C01. Check-level models of CheckBitPatterns / '
      'CheckPermutedBitPatterns / CheckPollardpm1 / CheckLowHammingWeight / CheckContinuedFractions (Model/RsaChecks.lean: which denominators are tried, in which order, first success wins, '
      'UNKNOWN severity when unfactored) are tied to the real Check objects on protobuf keys by correspondence with recorded LLL answers. NOT claimed: that LLL finds the planted vector (oracle; bit-pattern and permuted-limb clauses); that the best-first Hamming-weight search succeeds for weight <= 32 (heuristic; no theorem beyond soundness — evaluated on the implementation with default parameters every run); that a flagged two-pattern key is also factored.',
      'Trusted: Lean kernel, correspondence harness, fpylll as oracle (answers recorded at rsa_util.lll.reduce). powMod is proved equal to b^e mod m.',
      'Lean 4 proof (Pollard clause; completeness given the oracle row) + differential correspondence with recorded oracle answers',
      'DESIGN.md section 5 C05')

claim('C09',
      'Lean theorems (Props/C09.lean), all universally quantified with no size bound: (1) hnparams — for every prime order n and every d, k, z, r, s with '
      's = k^-1 (z + r d) in ZMod n, k != 0, s != 0, HiddenNumberParams(r,s,z) returns (a,b), a,b < n, with k = a + b d (mod n); generalised to any n >= 2 with gcd(s,n) = 1 '
      '(r, s, z negative or >= n included) and ZeroDivisionError exactly when gcd(s,n) != 1; (2) transform_rfc6979 — for every n > 0, hlen and h < 2^hlen, '
      'TransformOrderLen(h,hlen) = bits2int of RFC 6979 section 2.3.2 (stated over explicit bit lists, MSB first) on the hlen-bit string of h, reduced mod n, for hlen shorter, equal and '
      'longer than qlen = bit_length(n) incl. qlen = 521; "% n" equals RFC 6979\'s single conditional subtraction because bits2int < 2^qlen <= 2n; (3) ECDSAValues = Bytes2Int on r, s and '
      'TransformOrderLen(Bytes2Int(hash), 8*len(hash)), i.e. bits2int of the hash\'s own bit sequence mod n, for every byte string incl. empty; end-to-end nonce_relation theorem over the '
      'byte fields; (4) Bytes2Int(Int2Bytes(v)) = v for all v >= 0, Int2Bytes(Bytes2Int(b)) = b without leading zero bytes, Int2Bytes(v<0) raises OverflowError, Hex2Bytes on L hex digits gives '
      'ceil(L/2) bytes with the same base-16 value (odd length padded on the LEFT), only ValueError otherwise; (5) invMod (gmpy2.invert) specification with fuel sufficiency. '
      'Model tied to /repo by differential correspondence on all 9 curves of CURVE_FACTORY (orders read at run time): ~7.6k cases per run — real SHA-1..SHA-512 digests, synthetic 0..80-byte hashes, '
      'r/s with leading zero bytes in the protobuf fields, signatures from an independent textbook ECDSA (r as x-coordinate of kG via an independent affine ladder, and random r), s = 0 mod n, composite toy orders.',
      'Trusted: Lean kernel, correspondence harness, protobuf shim. Primality of the 9 curve orders is a hypothesis of hnparams (validated per run by gmpy2.is_prime; hnparams_general needs only gcd(s,n)=1). '
      'Only the order n enters these functions, so no EC point arithmetic is involved. bytes.fromhex whitespace handling is modelled (CPython 3.12 semantics) and differentially tested, the theorem covers digit-only strings.',
      'Lean 4 proofs over an executable model mirroring ec_util.py/util.py + differential correspondence with the Python implementation',
      'DESIGN.md section 5 C09')

# (C06 is claimed below: both halves are merged)

claim('C20',
      'Lean theorems (Props/C20.lean) over an exact model of every generator class of randomness_tests/rng.py: for every n (no bound), every integer seed '
      '(and, via the *_unseeded theorems, every state the seed=None path can draw from os.urandom) and every constructor parameter, RandomBits(n) < 2^n for '
      'XorShift128plus, XorShiftStar, Xorwow, JavaRandom, LcgNist, Mwc, Lehmer and the repaired TruncLcgRand; for the wrappers Urandom, Shake128, Mt19937, '
      'NumpyRng (pcg64/philox/sfc64), SubsetSum the same for EVERY oracle answer of the promised length. JavaRandom.RandomBits(n, seed) equals '
      'new BigInteger(n, new java.util.Random(seed)) as transcribed from the Java SE documentation / OpenJDK into BitVec 64/32/8 semantics (java_spec, all n, all seeds; '
      'the spec itself reproduces the real-Java outputs recorded in rng_test). The repaired TruncLcgRand equals the low n bits of the concatenated high halves of the LCG states '
      '(GMP lc_2exp-style, byte-framed); the pinned one coincides with it for n % 8 = 0. registry_covered: every entry of the CURRENT rng.RNGS (regenerated constants) is one of the '
      'modelled classes with constructor attributes equal to the modelled constructor and meeting all side conditions. '
      'KNOWN FINDING D5: the pinned TruncLcgRand.RandomBits returns values >= 2^n for n % 8 != 0 (truncLcg_range_fails, kernel-evaluated witness TruncLcgRand(20), n=63, seed=123456 -> 0xA3A607D44D04A862); '
      'for it only truncLcg_range_partial (< 2^(8*ceil(n/8)); < 2^n when n % 8 = 0) is claimed. '
      'Purity holds by construction (the models are functions of (parameters, n, seed[, oracle])); the correspondence run ties the model to /repo on every registry name x n in 1..300 + all residues mod 64 up to 2048 + '
      'sizes up to 2^16 (thorough: all 1..2048 + 64 residues up to 2^16) x 3 random non-zero seeds (16-bit, 64-bit, >160-bit) + 32 boundary/negative seeds, seed=None/0 paths through recorded os.urandom, '
      'adversarial oracles, and checks range and reproducibility under repeated, shuffled and A,B,A interleaved calls directly on the implementation.',
      'Trusted: Lean kernel, correspondence harness, transcription of the Java documentation (Spec/JavaRandom.lean) and of the GMP manual (Spec/TruncLcg.lean). '
      'os.urandom, SHAKE128, MT19937 (random.getrandbits) and the numpy bit generators are oracles, not modelled: only their output length (getrandbits: < 2^n) is assumed; seeded ones are re-derived independently by the harness. '
      'Urandom and SubsetSum ignore the seed by design (`del seed`), so the reproducibility clause is not applicable to them and not claimed. numpy rejects negative seeds (ValueError); negative seeds are exercised on all other generators. '
      'Not GMP-bit-compatible by design of rng.py: multipliers from L\'Ecuyer/Steele-Vigna, whole-byte framing of each output. Non-terminating constructor parameters (none of them in the registry) are modelled with an explicit `diverges` outcome and checked under an alarm / scripted oracle (ops rng.total, rng.entry_ok); negative constructor parameters and negative n are NOT modelled (naturals) — their real behaviour is tabulated in the header of Props/C20Total.lean and re-checked on every run (NEGATIVE_EXPECTED).',
      'Lean 4 proofs (range, model = Java/LCG specification, counter-example for the pinned TruncLcgRand) over an executable model + dual-variant differential correspondence with the Python implementation',
      'DESIGN.md section 5 C20, section 3.8, section 6 D5')

claim('C14',
      'Lean theorems (Props/C14.lean, Props/C14Cpp.lean). PROVED FOR ALL INPUTS (no size bound): '
      '(1) native_is_shortest_lfsr: for every bit sequence s (as an integer) and every length, the model of LinearComplexityNative '
      '(the sb/sc big-integer loop, mirrored line by line) does not raise and returns the length of the shortest LFSR generating s_0..s_{len-1} '
      '(an LFSR of that length generates the sequence and none shorter does; equivalently the brute-force minimum over all tap vectors). '
      'Proof: native_simulates_textbook (register invariant sc = (C*S) >> (n-m), sb = (B*S) >> (n+1-x) over carry-less products, giving '
      'native = textbook Berlekamp-Massey with explicit discrepancy s_n + sum C_i s_{n-i}) and textbook_correct (Massey\'s theorem). '
      '(2) THE C++ CODE, modelled word by word (Model/BMCpp.lean: byte packing of LfsrLength, both variants of LfsrLengthImpl over vectors of uint64 words, LfsrLengthStr; '
      'an out-of-bounds vector access is an explicit outcome of the model): '
      'packing / packing_bits (the (|seq|+7)/8 words carry sum 256^i seq[i]; bit k of the sequence = bit k mod 8 of byte k/8, zero padding of the last word); '
      'portable_step_simulates + cpp_portable_simulates_native (portable #else variant: the Nat value of the word vector sb IS the big integer sb, that of sc IS sc >> m; '
      'the shift with carries across words is /2, the word-wise xor is xor; preserved by one bit step); '
      'clmul_spec (the model of the intrinsic, shift-and-xor over the 64 bits of x, returns ((x (*) y) / 2^64, (x (*) y) % 2^64) for the GF(2)[X] product clMul; clMul_is_polynomial_product); '
      'clmul_block_is_64_steps + cpp_clmul_simulates_native (CLMUL variant: the uint64 bit loop on sb0, sc0 with a, b, c, d, carry_a, carry_c tracks polynomials A, B, C, D with '
      'sb_i = (A (*) sb + B (*) sc) >> i, sc_i = (C (*) sb + D (*) sc) >> i, deg A, C <= i, deg B, D < i so that only a and c need a carry; the first 64 steps depend on the low words only; '
      'the word loop with four clmuls per word assembles (A (*) sb + B (*) sc) >> 64; hence one block = 64 steps of LinearComplexityNative modulo the dead top word, and the tail loop finishes); '
      'cpp_simulates_native: for every byte list and n OF THE WORD-LEVEL MODEL (unbounded ints; a statement about the real C++ only within BMCpp.CppSizeOk: n <= 2^30 and (|seq|+7)/8 < 2^31 words, i.e. |seq| <= 2^34 - 8 bytes), LfsrLengthStr of either variant = -1 if n < 0 or n > 8|seq|, else LinearComplexityNative(int.from_bytes(seq, little), n); '
      'cpp_no_undefined_behaviour (no out-of-bounds access reachable through LfsrLengthStr, incl. the n == 0 early return of the D8 fix); cpp_variants_agree; cpp_minus_one_iff; cpp_ignores_high_bits; '
      'cpp_matches_wrapper_model (the value Model/BM.lean assumed for the C++ result inside LinearComplexity — wrapper_agrees — is the value the word-level model computes); '
      'cpp_is_shortest_lfsr: for 0 <= n <= 8|seq| both C++ variants return the length of the shortest LFSR generating the first n bits. '
      '(3) textbook_count / textbook_count_finset / model_count: for all n >= 1 and all m the number of n-bit sequences of linear '
      'complexity m is LfsrCount(n, m); count_total: sum_m LfsrCount(n, m) = 2^n; logprob_count: LfsrCount(n, m) = 2^(n + LfsrLogProbability(n, m)) '
      'wherever LfsrLogProbability does not raise, and it raises exactly outside 1 <= n, 0 <= m <= n (logprob_raises_iff); native_step_structure. '
      'BOUNDED KERNEL ENUMERATION ONLY (redundant cross-checks of the executable definitions, labelled bounded): bounded_agree (all sequences of length <= 8: native = textbook = brute force), '
      'bounded_native_textbook_le10; bounded_cpp_le10 (both word-level C++ variants = bmLength on all 2047 sequences of length <= 10), '
      'bounded_cpp_boundary (lengths 63, 64, 65, 127, 128, 129 x 13 hand-picked patterns, both variants). '
      'CORRESPONDENCE (differential runs; what ties the models to the real code): the two Python functions against Model/BM.lean; BOTH C++ builds from the working tree '
      '(portable; -mpclmul -msse2 -D__CLMUL__) against their OWN word-level model (ops bm.cpp_portable, bm.cpp_clmul on the raw bytes) AND against the big-integer routine (bm.cpp): '
      'every sequence of length 0..14 (thorough 0..20), lengths 0..1100 around every 64-bit word boundary x {random, sparse, 0..0, 1..1, periodic, leading/trailing zeros, LFSR, '
      'LFSR with a flipped bit at a block edge, zero run then random}, 12k structured multi-word cases, sampled lengths to 2^14 (thorough 2^17, word-level models to 2^15, and ASan/UBSan builds of both variants), '
      'byte strings longer/shorter than needed, n out of range; the model of the intrinsic (bm.clmul) against the repo\'s own inline clmul() exported from a -D__CLMUL__ build (the real PCLMULQDQ instruction), '
      'with a Python shift-and-xor reference as predicate; values of s with bits above length, negative/huge lengths for the Python entry points. '
      'Seeded defects C14-1 (tc = sc in the carry path of the CLMUL variant) and C14-2 (whole-word skip in the portable variant) are reported as VIOLATION. '
      'Known findings (reported, exit 0): CLMUL variant crashes on the empty sequence (D8, fixed in the working tree); LfsrCount(0, 0) = 0 although the empty sequence exists (count_length_zero_pinned; count_repaired proves the patched guard exact for every n).',
      'Trusted: Lean kernel, correspondence harness, ctypes shim standing in for pybind11 (g++ builds of berlekamp_massey.cc from the working tree). '
      'SPECIFICATION, not derived: _mm_clmulepi64_si128(x, y, 0x00) / vmull_p64 = 64x64-bit carry-less product as defined by BMCpp.clmul (differentially tested against the instruction on every run). '
      'C++ semantics assumed by the word-level model: std::vector<uint64_t> = list of UInt64 with wrapping shifts, C int variables (n, i, j, lfsr_len, size) as unbounded naturals — exact for n <= 2^30 and fewer than 2^31 words (CppSizeOk, explicit hypothesis of the end-to-end theorem); '
      'for 2^30 < n < 2^31 the expression 2 * lfsr_len can overflow a 32-bit int once lfsr_len >= 2^30 (not reachable in practice: the algorithm is quadratic), which is outside the model; '
      'the interleaved updates of tb and tc in the CLMUL word loop are modelled as two independent passes (they touch disjoint vectors). '
      's is a non-negative integer in the model; negative s is only probed (LinearComplexityNative then equals its value on s mod 2^length; LinearComplexity raises OverflowError). '
      'setup.py passes -mpclmul, which defines __PCLMUL__ and not __CLMUL__ with gcc, so a stock build uses the portable variant (recorded in the evidence, not a violation).',
      'Lean 4 proofs (Massey\'s theorem, simulation invariants native<->textbook, C++ portable<->native, C++ CLMUL block<->64 native steps, counting recursion) over executable models + differential correspondence with two Python and two C++ implementations',
      'DESIGN.md section 5 C14, section 6 D8')

claim('C15',
      'Lean theorems (Props/C15.lean), for EVERY bit string, length and parameter (no size bound), over an executable model of '
      'randomness_tests/util.py: BitCount = sum of the bits; Runs = number of maximal constant blocks; LongestRunOfOnes = length of the '
      'longest run of ones (doubling + binary refinement, via f_k = s & s>>1 & ... & s>>(k-1)); OverlappingRunsOfOnes = number of start '
      'positions of m consecutive ones; ReverseBits = bit i -> bit n-1-i (incl. the OverflowError case and dropped garbage bits); '
      'Bits = +-1 expansion (with fixes/D15-bits-empty.diff; the pinned code is proved wrong exactly for length 0); SplitSequence both '
      'paths = (seq >> i*m) % 2^m; Scatter = streams of bits i, i+m, ...; SubSequences = the windows (all cyclic windows exactly once '
      'with wrap); FrequencyCount slow path AND 4-bit-stride fast path = #{i | window i = pattern} with and without wrap-around, hence '
      'fast = slow; _BinaryMatrixRankSmall AND the table-driven _BinaryMatrixRankLarge: 2^rank = number of distinct GF(2) combinations of the '
      'rows, the large path never raises, hence large = small and BinaryMatrixRank is the rank on both sides of the 50-row threshold. '
      'Model tied to /repo by differential correspondence: exhaustive over all strings of length <= 12 (thorough 16) x every parameter '
      '0..length+1 incl. forced slow/fast paths, sampled up to 2^16 bits at every length residue mod 8 and both sides of 50*2^m < length, '
      'block sizes 0..70, matrices with 0..257 (thorough 8191..8193) rows through BinaryMatrixRank and both private helpers.',
      'Theorems assume well-formed strings (seq < 2^length); behaviour on strings with high garbage bits is mirrored '
      'by the model and covered by correspondence only. FrequencyCount with the empty pattern (m = 0) and wrap=False returns [length] while '
      'the definition gives [length+1]: treated as outside the domain (SubSequences rejects m <= 0), recorded in theorem '
      'frequencyCount_empty_pattern_nowrap. Known finding: Bits with length == 0 (D15). The side m >= 24 of the fast-path guard needs '
      'strings of > 8e8 bits and is not exercised by the harness (covered by frequencyCount_def, which holds for either branch). '
      'Trusted: Lean kernel, correspondence harness, gmpy2.popcount / int.to_bytes / bytes.translate / format as modelled.',
      'Lean 4 proof that an executable model equals the one-line definitions + differential correspondence with the Python implementation',
      'DESIGN.md section 5 C15')

claim('C13',
      'DECIDED (third sentence of C13 only): Lean theorems (Props/C13.lean) over an abstract number type — every comparison '
      'semantics incl. ties and NaN, every fail/repeat level, every minimum repetition count, every value of the float tail '
      'Igamc(k, sum -log p), every history of test outcomes (named lists, empty lists, names that disappear, single floats/ints '
      'treated as [("result", p)], InsufficientDataError): after any history a sub-test is FAILED iff CombinedPValue(p-values) < fail level, '
      'PASSED iff not failed and CombinedPValue([repeat]*k) < CombinedPValue(p-values), UNDECIDED otherwise (ties are undecided / not failed); '
      'the recorded combined value is CombinedPValue of the recorded p-values (empty sample raises, singleton is itself, minimum == 0 gives 0); '
      'finished iff InsufficientDataError, or no sub-test of the last result undecided and runs >= min_repetitions; TestSource runs exactly the '
      'unfinished structures each round, loops exactly while one is unfinished and returns True iff some sub-test of some test is FAILED (None when '
      'no test is selected); TestBitString runs each test once with fail = repeat level and returns True iff some sub-test is FAILED. '
      'NOT DECIDED and not claimed: sentences 1-2 of C13 (p-values of a cryptographic generator are not systematically small; the documented '
      'weak generators fail the documented tests) — distributional statements, see DESIGN.md section 7.',
      'Trusted: Lean kernel, correspondence harness (real TestStructure/TestSource/TestBitString/CombinedPValue driven with scripted test outcomes, '
      '~6k histories per run, recorded Igamc values passed as exact ratios), shims. The statistical tests themselves and scipy gammaincc/math.log are oracles. '
      'TestSource termination is not claimed (the model loop is fuelled; NaN p-values keep a sub-test UNDECIDED forever).',
      'Lean 4 proof of the decision logic over an executable model + differential correspondence with the Python implementation',
      'DESIGN.md section 5 C13')

claim('C16',
      'Lean theorems (Props/C16.lean). util.py: for EVERY history of SetTestResult/AttachInfo/AttachFactors calls on EVERY TestInfo (fresh, annotated by an '
      'earlier run, hand-edited): weak flag never reset; old entries kept position by position with result and severity never lowered; entries never '
      'duplicated (names stay unique if they were); version set once by the first SetTestResult and never changed; "weak = some entry positive" preserved; '
      'attached factor set = union of the initial set and everything attached under that name (never loses a factor) unless overwritten by a plain AttachInfo; '
      'GetHighestSeverity = max severity of the positive entries. Checks/_CheckArtifacts/CheckAllRSA/CheckAllEC/CheckAllECDSASigs for every batch, every '
      'sub-list/order/repetition of checks and EVERY per-check verdict oracle: pre-annotated artefacts keep all of the above and '
      '(some artefact weak afterwards) <-> (one was weak before or the call returned True); fresh artefacts carry exactly one entry per active check applicable '
      'to them (registry regenerated from /repo; needsCurve checks skip unknown curves; CheckIssuerKey always applies), named after the check, with the '
      'documented severity (CheckLowHammingWeight: UNKNOWN when flagged but unfactored; CheckIssuerKey: highest severity among the issuer key\'s failed EC checks), '
      'weak <-> some entry positive, version recorded, return value <-> some artefact weak. issuer_verdict: with issuer keys de-duplicated by (curve_type,x,y) a '
      'signature\'s CheckIssuerKey entry is positive iff the EC checks flag the ECKey built from that signature\'s issuer_key_info. '
      'KNOWN FINDING on the pinned tree: CheckIssuerKey de-duplicates by (x,y) only, so a signature whose issuer coordinates also occur with another curve_type '
      'receives the other key\'s verdict (Lean: issuer_verdict_pinned_fails; partial theorem for batches where equal points have equal curves; '
      'repair fixes/issuer-key-dedup-curve.diff); the check reports it as KNOWN-FINDING and accepts either variant.',
      'Trusted: Lean kernel, correspondence harness (real protobufs through the shim; ~2k random util histories; ~150 _CheckArtifacts / entry-point calls per run on '
      'mixed weak/healthy, fresh/pre-annotated/re-run batches with a spy recording each check\'s verdict), shims, skeleton flags read off the Check sources by '
      'harness/consts/checks.py. Exceptions other than AttachFactors on an unparsable stored value (e.g. BatchGCD([]) on the pinned tree) are outside the model (C18). '
      'quick tier replaces ExtendedBatchDL / HNP solvers / Pollard bound / max_diff by planted-answer stubs or smaller parameters in most scenarios.',
      'Lean 4 proof of invariants by induction over operation histories over an executable model + differential correspondence with the Python implementation',
      'DESIGN.md section 5 C16')

claim('C11',
      'Lean theorems (Props/C11.lean) over the executable model Model/Ec.lean of ec_util.EcCurve (with fixes/D3-ec-add-double.diff applied), '
      'specification = Mathlib group law on WeierstrassCurve.Affine.Point over ZMod p, abstraction toPoint = reduce coordinates mod p: '
      'for p prime, p != 2, 4a^3+27b^2 != 0 and ALL on-curve inputs with arbitrary (unreduced, congruent-only) integer coordinates: '
      'Negate/Double/Add/Subtract never raise, stay on the curve and equal the group law (incl. infinity, P=Q, P=-Q, 2-torsion); '
      'DoubleJacobian (both a==-3 branches) / AddJacobian / AffineToJacobian / JacobianToAffine preserve the represented element for every triple JacobianToAffine accepts; '
      'MultiplyAffine and Multiply return k*P for every integer k; IsValidPublicKey answers exactly its four documented conditions; '
      'BatchInverse = entry-wise gmpy.invert, raises exactly when a non-skipped entry is 0 mod p, its self-check raise is unreachable; '
      'BatchAddList/BatchDouble/BatchAdd/BatchAddX/BatchAddSubtractX = list map of the scalar operation for ALL lists (no on-curve hypothesis), '
      'BatchJacobianToAffine/X likewise for lists without (0,0,0); comb identity and BatchMultiplyG = [(s mod n)*G] for every cache satisfying cache[k]=k*G (cache invariant preserved, cache only grows); '
      'PointSequence[i] = i*base; PointTable content for every split m>=1. '
      'On the constants regenerated from CURVE_FACTORY, by kernel evaluation for all nine named curves: p>3 odd, 4a^3+27b^2 != 0 mod p, G reduced, on the curve, != infinity, n*G = infinity with the model\'s own Multiply, h = 1; '
      'the ten binary-field CurveTypes map to None; with n prime the order of G is exactly n. '
      'Primality of the field primes and group orders is PROVED by the kernel from Pratt/Lucas certificates (Proofs/Pratt.lean, Mathlib lucas_primality; certificates regenerated by harness/consts/pratt.py) '
      'for all 18 numbers: on all nine curves the curve is elliptic over the field ZMod p and G has order exactly n with no hypothesis (Props/C11Primes.lean, C11.curve_primes_certified, C11.generator_order_certified). '
      'Kernel-checked counter-examples show the PINNED Add/Double/BatchDouble are not the group law on congruent-but-unequal coordinates and y = 0 mod p (defect D3). '
      'Model tied to /repo by differential correspondence: every operation exhaustively over the whole group of 5 toy curves (prime order 101..1009 and one of order 2q, cofactor 2) and on the nine named curves with edge operands, ~0.5M lines per run.',
      'Primality of p and n is no longer a hypothesis for the nine named curves (kernel-checked Pratt certificates; evidence coverage.primality_kernel_certified lists them, coverage.primality_hypothesis_gmpy2_only is empty; the factoring search and its cache harness/consts/pratt_cache.json are untrusted hints). '
      'Jacobian theorems require z == 0 or z != 0 mod p (a triple with z = k*p, k != 0, is not recognised as infinity by AddJacobian; no library function produces one and JacobianToAffine raises on it). '
      'Model domain mod >= 1, n >= 1. The cache content after an exception inside BatchMultiplyG is not modelled (exception proved impossible on a valid curve). '
      'On the pinned tree the check prints KNOWN-FINDING lines for the D3 input classes (exit 0); with the patch applied there is no divergence.',
      'Lean 4 refinement proof against Mathlib\'s elliptic-curve group law over an executable model + kernel evaluation on regenerated curve constants + differential correspondence with the Python implementation',
      'DESIGN.md section 5 C11, section 6 D3')

claim('C07',
      'What a theorem can carry is proved (Props/C07.lean): a modulus >= 2^2047 with exponent 65537 (any byte encoding) is not flagged by the size/exponent checks; distinct odd primes '
      'whose Fermat distance is at least the step bound are not flagged by CheckFermat; a modulus coprime to every other modulus of the batch is not flagged by CheckGCD and adding it changes '
      'nobody else\'s gcd (non-interference); a semiprime can only ever be "factored" into its own two primes (C01 soundness); the entry points return the OR over artefacts (C16); and the EXACT '
      'acceptance rates of the two ROCA fingerprints on the regenerated prime tuples: ROCA accepts between 2^-31 and 2^-30 of all residue vectors (2^-28..2^-27 of unit residues) — which is NOT '
      '<= 2^-37 as the property\'s quantifier text assumes (roca_fp_rate_not_37) — and the variant exactly 2^-48 of unit residues. NOT decided by proof: the probability that a heuristic check '
      '(continued fraction bound, gcd(n-1,m) gate, low Hamming weight, lattice checks, HNP) accuses a random healthy artefact. Every run pushes fresh healthy 2048/3072(/4096)-bit RSA keys '
      '(alone, batched, next to weak neighbours), EC keys on all eight strong curves and ECDSA signatures with uniform nonces through the real checks (the real CheckAll* entry points in the '
      'thorough tier) and reports any accusation with the artefact as replay.',
      'Trusted: Lean kernel, harness. The probabilistic main clause is a search, not a theorem; thresholds are tied to the model at their boundaries by the C05/C06 correspondences.',
      'Lean 4 proof of the deterministic corollaries and exact rates + search for accusations on the implementation',
      'DESIGN.md section 5 C07, section 7')

# C17 claimed below

claim('C19',
      'Lean theorems (Props/C19.lean + Props/C19Shipped.lean, 126 kernel-checked statements, no size bounds; 20 of the 94 in Props/C19.lean are HISTORICAL: they describe the functions as they were before the fixes 275bdf4 (D7), cdbbb74 (D16), 02ff5e0 (D9), are kept as the refutations that motivated those fixes, are marked so in their docstrings, and get no correspondence runs any more). '
      'ntheory_util: Inverse2exp returns None iff n is even and otherwise a with a*n = 1 mod 2^k for every k (reduced for k >= 2); '
      'InverseSqrt2exp returns a with a*a*n % 2^k == 1 and returns None exactly when no such a exists (for k >= 3: iff n % 8 != 1; k = 0 always None, literal docstring reading); '
      'Sqrt2exp raises ValueError for even n / negative k and for odd n returns exactly the reduced square roots of n mod 2^k: each is a root, pairwise distinct, none missing, none or four for k >= 3, empty iff no root exists; '
      'ContinuedFraction(a,b) equals Euclid\'s quotient list with the convergents of the textbook recurrence (the model\'s fuel 2*bitlen(b)+2 provably never runs out), r_{i+1} t_i - r_i t_{i+1} = (-1)^i, every convergent in lowest terms, last convergent = (a/gcd, b/gcd); '
      'DivmodRounded AS SHIPPED (d = b // 2 if b > 0 else (b + 1) // 2, /repo HEAD since fix cdbbb74; Props/C19Shipped.lean): ZeroDivisionError exactly for b = 0 and no other exception, total for b != 0, r = a - q*b, exact remainder range -b <= 2r < b for b > 0 and b < 2r <= -b for b < 0 (odd or even), hence |2r| <= |b|, q a nearest integer, ties towards +infinity (every integer at least as close is <= q), closed form q = (2a + b) // (2b) = floor(a/b + 1/2) for every b != 0 (round half up, not Python round-half-even), the characterisation (q, r) is the result IFF identity + range, exact division, every power of two incl. 1 (DivmodRounded(a, 1) = (a, 0)), and the two chained calls of CheckContinuedFraction give N = a*x^2 + b*x + c with balanced digits. HISTORICAL (D16, fixed by cdbbb74): before the fix d = (b + 1) // 2 made the docstring claim false for odd b > 0 (DivmodRounded(1,3) was (1,-2)): divmodRounded_round_fails and 10 further theorems about the pre-fix function are kept as that refutation; shipped = pre-fix for even b and for b < 0; '
      'Sieve(n) = the increasing list of primes below n. '
      'linalg_util: upper_triangular_solve returns x with (upper triangle of a) x = b, None iff a zero on the diagonal, shape errors as coded; every step of echelon_form (elimination with non-zero pivot, row move, exact division) preserves the solution set; solve_right AS SHIPPED (zero-pivot move a.insert(nrows - 1, a.pop(i)), /repo HEAD since fix 275bdf4) returns the unique solution of any consistent system whenever it returns a vector, under the hypothesis that every //= was exact (Bareiss exactness is a hypothesis, monitored at run time). HISTORICAL (D7, fixed by 275bdf4): a kernel-checked 5x4 counter-example for the pre-fix row move (solveRight_pinned_d7, solveRight_pinned_d7_wrong). '
      'lattice_suite / util / small_roots: PseudoAverage picks the first minimiser of the stated variance difference (exact ring identity for every integer n), which FOR n > 0 is the global minimum over all 2^m shift selections, result in [0,n) for n > 0; each Bias summand is, FOR n > 0, the distance to the nearest multiple of n and 0 <= 2t/n <= len. Outside n > 0 (Props/C19Shipped.lean, run against the real code): n = 0 raises ZeroDivisionError in both functions for every input (pseudoAverage_n_zero, bias_n_zero; the empty list also raises for every n; totality iff-statements pseudoAverage_total_iff, bias_total_iff); for n < 0 PseudoAverage returns a value in (n, 0] and its loop selects a prefix shift of MAXIMAL variance (pseudoAverage_range_neg, pseudoAverage_neg_max_variance), every Bias summand lies in [n, n/2] and 2t/n in [len, 2 len], so for a non-empty list the p-value is 1.0 (bias_term_neg, bias_normalized_range_neg); UniformSumCdf\'s running binomial is C(n,k) and its exact value is the Irwin-Hall sum (n <= 36), branch structure incl. reflection; CombinedPValue decision logic; small-root guards AS SHIPPED (abs(y) > 1 and n % y == 0, /repo HEAD since fix 02ff5e0): for every polynomial, modulus n > 0 and EVERY candidate list (every LLL / factorisation / solve_right answer) a returned candidate is one of the candidates and a true root modulo a proper divisor d of n, 1 < d < n (uni_tail_repaired_true_root, guard_multi_repaired_true_root; C19Shipped.guard_uni_sound, uni_tail_sound, guard_multi_sound, guard_uni_rejects_unit); multivariate_modn: a returned tuple is a root modulo n. HISTORICAL (D9, fixed by 02ff5e0): the pre-fix guard y != 0 accepted f(r) = +-1 (guard_uni_fails and 6 further theorems about the pre-fix guard are kept as that refutation). '
      'Model tied to /repo by differential correspondence: exhaustive n < 4096, k <= 12 for the 2-adic routines, 1..4096-bit random values with k up to 2050, Fibonacci worst cases up to 4200 bits, all |a|,|b| <= 60 for DivmodRounded, Sieve for n <= 300 and up to 2^20, integer matrices up to 8x5 incl. planted zero rows/pivots/dependent rows, float results of UniformSumCdf/CombinedPValue/Bias within 1e-9 of the exact model value (mpmath), planted-root polynomials with recorded and adversarial LLL answers (~325k inputs per quick run); DivmodRounded, PseudoAverage (n <= 0) and Bias (n <= 0) predicates are evaluated on the implementation for EVERY generated case, incl. the exact tie rule. '
      'FIND THE PLANTED ROOT (oracle/search only, no theorem - LLL is not modelled): gated by measurement. Inside the region PLANTED_ROOT_GATE of harness/corr/c19_misc.py (univariate_modp, k in {2,3}: ub <= floor((k-1)*bits/(2k-1)) - 2; multivariate_modp bivariate: m=3 and u1+u2 <= floor(3*bits/16) - 3, or m=4 and u1+u2 <= floor(bits/4) - 3; multivariate_modn m=1: u1+u2 <= floor(2*bits/3) - 10; balanced unknowns, 64 <= bits <= 1024 resp. 256) the real finders recovered the planted root in 2000 of 2000 measured instances of every quick-tier family and 500 of 500 of every thorough-tier family, and a miss there is reported as a failing input; outside the region (margin 0/1 bit, or beyond the lattice bound) the counts in planted_root_found are statistics only. multivariate_modp with m = 2 never finds a planted root (0 of 1500, any bound: the 6x5 linearised system is inconsistent) and is not used as a planted-root family. '
      'NOT claimed: that the small-root finders find the planted root outside the measured region or for other polynomial shapes (depends on LLL), exactness of the fraction-free divisions (hypothesis), UniformSumCdf for n > 36 being the Irwin-Hall CDF (it is the documented normal approximation, within the 1e-3 the repo\'s test states), validity of any p-value.',
      'D7 (solve_right wrong vector for a consistent system), D9 (guard accepted f(r) = +-1) and D16 (DivmodRounded for odd divisors) WERE defects of the pinned tree; they are fixed in /repo (commits 275bdf4, 02ff5e0, cdbbb74), are not listed in known_findings.json and are not reported by ./check any more; should the correspondence run ever find the pre-fix behaviour again it is a VIOLATION, not a known finding. '
      'Arguments are modelled in the ranges the callers use (n, a, b >= 0 for the ntheory functions; DivmodRounded on all integers). '
      'Trusted: Lean kernel, Mathlib definitions of Nat.Prime / ModEq / gcd / Rat, correspondence harness, in-memory application of the D7 diff, mpmath for the float tail, gmpy2.mpq normalisation.',
      'Lean 4 proofs over an executable model + differential correspondence with the Python implementation; the three repaired defects are carried as historical pre-fix model variants next to the shipped ones',
      'DESIGN.md section 5 C19, repaired defects D7 D9 D16')

# C18 claimed below

# ---- C08 (integer-lattice half; see NOT_CLAIMED until the ECDSA check layer is merged)
DRAFT_CLAIMS = {}


def draft_claim(pid, text, note, technique, design_ref):
  DRAFT_CLAIMS[pid] = dict(text=text, note=note, technique=technique, design_ref=design_ref)

claim('C08',
      'Lean theorems (Props/C08.lean). LATTICE HALF over models of hidden_number_problem.py and cr50_u2f_weakness.py with the LLL answer universally quantified. '
      'PRE: for every Bias (MSB, COMMON_PREFIX, COMMON_POSTFIX, GENERALIZED) and all lists a, b, every x, w, n: with k_i = a_i + b_i x - c_i n the planted vector '
      '(n w + 1, x, k_i w ...) resp. (n w + 1, x, e_i w ...) for a common part s, resp. (m, m x, e_i w ...) for a secret multiplier m, is an explicitly given integer combination of the rows of the matrix GetLattice builds '
      '(hnp_pre_msb/prefix/postfix/generalized), entries bounded by B w for nonce parts below B (hnp_pre_bound); the common-suffix case is reduced to the common-prefix one exactly as the code does by multiplying with w^-1 mod n (postfix_reduction); '
      'same for HiddenNumberProblemWithPrecomputation (precomp_pre; precomp_entries: each entry is c_j k_i - d_j mod n) and for the Cr50 U2F sub-problem: for nonces sum c_j 0x01010101 2^(32j) the vector (c1, c2, -256, 0) is in the lattice (cr50_pre). '
      'POST: for EVERY reduced basis whose rows cannot make gmpy.invert raise (automatic for prime n: rows_ok_prime) a row (u, u x, ...) with gcd(u, n) = 1 - in particular any multiple t*target with n not dividing t*T0, t = +-1 included - makes HiddenNumberProblem / '
      '...WithPrecomputation / ...ForCurve return x mod n among the guesses (hnp_post, hnp_post_prime, precomp_post, forcurve_post), and a reduced row +-(c1, c2, ...) makes Cr50U2fGuesses return x mod n (cr50_post); every reported guess is v1 v0^-1 mod n of some row (hnp_guess_origin). '
      'DECISION LOGIC: full table of _HiddenNumberProblemSubsets for every length and flag set (subsets_logic), sliding windows cover every signature (windows_cover), shipped CONSTANT_FACTORY metadata never raises and never truncates the constant slice '
      '(shipped_meta_ok, subsets_total_shipped, shipped_enough_constants, regenerated from /repo), argument checks of HiddenNumberProblemForCurve (forcurve_errors). '
      'TOTALITY: the sanity raise in Cr50U2fGuesses is unreachable for all integer inputs, every modulus and every LLL answer; its only exception is ZeroDivisionError for n = 0 or a non-invertible r, impossible for r in [1, n-1] with n prime '
      '(cr50_sanity_unreachable, cr50_only_zero_division, cr50_total_prime); orders whose bit length is not a multiple of 32 give the empty set, which among shipped curves is exactly secp521r1 (cr50_not_implemented, cr50_curves). '
      'Model tied to /repo by differential correspondence (~108k evaluations per quick run): GetLattice for every bias, sizes 0..40, all nine curve orders and toy moduli, given and default w; post-processing with recorded fpylll output and with adversarial bases substituted into the real code '
      '(zero rows, multiples of n, +-t*target, wrong signs, huge entries, short and empty rows, non-units for composite n); planted-bias instances (16/32/64 biased bits, counts around 2*curve size/bits, >= 24 for GENERALIZED); Cr50 on every curve and toy orders; '
      'the generator exhaustively for len 0..130 x 8 flag sets x every shipped metadata triple; HiddenNumberProblemForCurve on GMP-LCG emulated nonces (emulation self-checked against the shipped constants), TruncLcgRand nonces and the shipped test samples. '
      'NOT claimed: that LLL returns the planted vector ("number of signatures x biased bits >= 2 x curve size => detected", "as many signatures as the shipped model declares"): hits/misses per family are reported as statistics only.',
      'Trusted: Lean kernel, correspondence harness, fpylll as oracle (answers recorded at lll.reduce), the float expression int(n.bit_length()/len(a)*1.25) as an oracle value (equal to floor(5 bl/(4 len)) on bl<600, len<=130 on every run). '
      'CHECK LAYER (BiasedBaseCheck / CheckCr50U2f, proved in Props/C02S.lean and re-exported): the (a,b) handed to the solvers are HiddenNumberParams of each unique (r,s,z); windows 24/48/120 cover every value; if any solver call of the curve group returns a private key of an issuer key tuple WITH COORDINATES BELOW p (KeyReduced: necessary — a key given as x+p is never matched), with reduced generator/caches (FactoryReduced: a theorem for CURVE_FACTORY) and list(guesses) an enumeration of the answers (GuessConsistent), EVERY signature of that issuer is flagged; the recorded value is the LAST guess of list(guesses) that is a key of the tuple — congruent to d mod n, equal to d when the answers come from the solver models, which reduce mod n (all_of_issuer_flagged, C08Chain.chain_core); a signature\'s verdict depends only on the answers for its own curve group and only a key of its own issuer key can flag it (group_isolation, flagged_only_by_own_key).',
      'Lean 4 proof (pre/post sandwich around the LLL oracle, decision tables, unreachability) + differential correspondence with recorded and adversarial oracle answers',
      'DESIGN.md section 5 C08, section 7')

# C08 claimed (both halves merged)


claim('C10',
      'Lean theorems (Props/C10.lean) over the executable model Model/Bsgs.lean of ec_util.EcCurve.BatchDL / ExtendedBatchDL / BatchDLOfDifferences (the mutable attributes _table/_table_size are explicit state; '
      'the values of int(math.sqrt(.)) are explicit arguments, so nothing depends on floats) and of CheckWeakECPrivateKey / CheckECKeySmallDifference, specification = Mathlib group of the curve through C11\'s toPoint. '
      'For p prime and a curve object passing the parameter check (all nine named curves by kernel evaluation): '
      'batchDL_complete — for EVERY state satisfying the table invariant (cached table larger or smaller than requested), every requested table size ts >= 1, every list of on-curve points of any length and every bound n, BatchDL does not raise, '
      'keeps the invariant, and for every reduced point P = x*G with 0 <= x < n the entry is some v with v*G = P; it is x itself when 2n + (2ts-1) + V <= order (V = number of multiples in the table in use; about 2^34 against 2^190 in the checks). '
      't = 2*table_size-1 is taken from the REQUESTED size also when a larger cached table is kept, and completeness still holds (superset table). BatchDL([]) raises IndexError for n >= 2 (batchDL_empty_raises; the checks guard with `if not keys`). '
      'extended_complete — every private key d = i*2^(8j) (i < 2^32, 8j+32 <= bits) or d = i*(2^(32r)-1)/(2^32-1) (2 <= r <= bits//32) is recorded with a value v, v*G = P, v = d (mod n) when n is prime; '
      'v = int(dlog*multiplier) is NOT reduced (on curves with n < 2^33 it can be d+n; negative values occur); the multiplier list is exactly that of the property (multipliers_spec) and every multiplier is invertible mod n on the nine named curves (named_multipliers_invertible). '
      'diff_complete — all points finite, reduced, on the curve: every key P for which another key Q of the call (points or other_points) has P != Q, P-Q = k*G, |k| < max(cached table size, max_diff) is flagged, hence both keys of such a pair; diff_identical_not_flagged — a key whose companions are all the same point is not flagged. '
      'history_invariant / history_monotone — after ANY sequence of the three calls with any arguments and oracle values, _table is {} or exactly PointTable(g, _table_size), _table_size never decreases, and everything BatchDL guarantees from the fresh state it guarantees from that state. '
      'Check level (checkWeakECPrivateKey_spec, checkECKeySmallDifference_spec): for every batch mixing keys of all curves, unknown and None curve ids, every factory with unique ids: no exception; keys without curve get no result; result <-> info attached; structured keys are flagged with DISCRETE_LOG v, v*G = P, v = d mod n — for EVERY batch: the key itself must be on its curve and reduced, its neighbours may be anything (off-curve, unreduced; Props/C10Any.lean checkWeakECPrivateKey_every_batch; reachable tables); close keys are both flagged with a true relation naming another key of the same curve — proved when ALL keys of that curve group are on the curve and reduced (SDHyp); with degenerate neighbours this clause is searched on the implementation only (corr/c18ec tag valid-among-degenerate). '
      'driver_model_agree: the hash-map instance run by the native driver returns the same answers as the association-list instance the theorems are about. '
      'Model tied to /repo by differential correspondence (~57k lines per quick run, 0 divergences): BatchDL exhaustively on a toy curve of prime order 37..61 (every x of the group x every bound 0..order+1 x list lengths 1..12 x states fresh / after-small / after-large obtained from all 16 ordered pairs of earlier BatchDL/BatchDLOfDifferences calls, the dict compared entry by entry and in order), '
      'sampled on orders 101..1009, named curves at the giant-step boundaries x = j*t +- (ts-1), j*t +- ts, n-1, n, 0, negative logs, bounds up to 2^20, cached-equal/larger/smaller tables; ExtendedBatchDL on supersingular toy curves with 40- and 64-bit prime-order subgroups (thorough: 32..97 bits and three named curves), '
      'BatchDLOfDifferences on every pair of keys of the toy group x several max_diff x three cached tables; the four EC checks on real protobuf ECKey artefacts with toy curves planted in CURVE_FACTORY. Predicates evaluated on the implementation for every case: recorded log / relation recomputed with an independent affine implementation; planted logs found.',
      'Hypotheses not proved: primality of p (and of n where "= d mod n" is stated) for the named curves (validated per run by gmpy2.is_prime in C11). Points are assumed reduced (0 <= x,y < p) for completeness: BatchDL compares raw integers, an unreduced representative of x*G is not found (mirrored by the model, shown by the correspondence run). '
      'NOT asserted: the literal statement "whatever was found from the fresh state is found from every later state" (def history_superset): for an arbitrary PointTable split m the table also holds up to m-1 multiples beyond table_size, which a later table built with another split may lack (kernel-checked counter-example history_superset_fails_for_some_split, for a split the float would not produce and a log outside [0,n)); with the real m = int(sqrt(ts)) the covered range is monotone, a float fact outside the theorems — the harness compares fresh / after-small / after-large answers of the implementation on ~7k exhaustive toy calls per run and reports any loss as a violation. '
      'Negative logs (-x small) are found by the code (the `elif y[1] == -p[1] % mod` branch) but not promised by the property; a mutation removing that branch is reported as a broken correspondence without failing input. '
      'The state left behind by a call that raises is not modelled (no call raises on on-curve inputs). Domain n >= 0, max_diff >= 0; INFINITY among the points of BatchDLOfDifferences raises TypeError in code and model (never reached from the checks).',
      'Lean 4 proof of soundness/completeness of baby-step giant-step over Mathlib\'s elliptic-curve group + state invariant over all call histories + differential correspondence (exhaustive on toy curves) with the Python implementation',
      'DESIGN.md section 5 C10, C02')


claim('C06',
      'Lean theorems (Props/C06.lean), each an EXACT characterisation, universally quantified over the artefact and (where an oracle is involved) over every oracle answer / supplied list. '
      'RSA half: sizes_iff (flagged <-> n < 2^2047, every byte encoding), exponent_iff (<-> e != 65537, all encodings incl. leading zeros), hasDlog_iff / roca_iff / rocaVariant_iff '
      '(the 39-prime loop <-> n is a power of 65537 modulo each of the 39 smallest odd primes; QR tables <-> squares; variant excludes ROCA-positive), openssl_iff (every SHA-1 oracle, every deny list, %X formatting lemmas), '
      'keypair_step (every table, every generator oracle), roca_tuples_spec and the exact acceptance rates (roca_fp_rate: about 2^-30, not <= 2^-37; variant exactly 2^-48). '
      'EC half: validKey_iff — for p prime, p != 2, 4a^3+27b^2 != 0 and ANY integer coordinates IsValidPublicKey never raises and is True exactly when 0 <= x,y < p, y^2 = x^3+ax+b (mod p) and (h <= 1 or n*P = infinity in the Mathlib group); '
      'INFINITY is invalid; with cofactor <= 1 the answer is that closed-form criterion for any curve parameters with p > 0 (validKey_iff_cofactor_one; p = 0 would be a ZeroDivisionError in Python and is not a constructible curve). checkValidECKey_iff — for every batch and every factory of cofactor-1 curves CheckValidECKey never raises, '
      'writes a result for every key, attaches nothing and flags exactly the keys whose curve_type is absent from CURVE_FACTORY or maps to None (unknown and binary-field ids) or whose point is out of range or off the curve; validKeyOne_general adds the subgroup test for cofactor > 1. '
      'weakCurve_iff — CheckWeakCurve gives NO result to keys of unknown/None curves and flags the others exactly when bit_length(n) < 224, i.e. n < 2^223 (weakCurve_threshold). '
      'On the factory regenerated from /repo (curve_factory_eq: nine prime-field curves under ids 2,4,1,3,5,6,17,18,19, all of cofactor 1; ids 7..16 -> None), by kernel evaluation: only id 1 = secp192r1 (192-bit order) is flagged, secp224r1 (224 bits) is not (weakCurve_factory). '
      'Models tied to /repo by differential correspondence: RSA half ~8.4k cases per run (harness/corr/c06.py correspondence_rsa); EC half ~1.7k real protobuf ECKey artefacts per run through CheckValidECKey / CheckWeakCurve for every curve id of the current factory '
      '(prime-field, binary-field, unknown), boundary coordinates 0, p, p-1, p+x, 2p+x, y+7p, 2^600+x, off-curve, negated, empty byte strings, toy curves of cofactor 2 and 4 planted under real ids (points outside the subgroup), each key in a batch, alone and in shuffled order.',
      'Trusted: Lean kernel, correspondence harness, protobuf shim. SHA-1 digest and keypair_generator output are oracles recorded at the call site. That the shipped keypair table contains every covered seed is a finite data check by execution (thorough tier: all 768 entries), not a theorem. '
      'EC half: primality of the field modulus is a hypothesis of validKey_iff (not of the cofactor-1 theorems); no curve of CURVE_FACTORY has a cofactor, so the subgroup test is exercised on toy curves only. The property text "2^-37" for the ROCA false-positive rate is NOT confirmed (see C07).',
      'Lean 4 proof of exact closed-form characterisations over an executable model + kernel evaluation on regenerated constants + differential correspondence with the Python implementation',
      'DESIGN.md section 5 C06')


NOTES_C02S = (
    'Lean theorems (Props/C02S.lean, namespace Paranoid.C02S) over the executable model Model/EcdsaChecks.lean of ecdsa_sig_checks.py: '
    '_MapIssuerSigIndexes, _IssuerDLogs, BiasedBaseCheck.__init__/.Check (CheckLCGNonceGMP, CheckLCGNonceJavaUtilRandom, CheckNonceMSB, '
    'CheckNonceCommonPrefix, CheckNonceCommonPostfix, CheckNonceGeneralized) and CheckCr50U2f.Check. The lattice solvers '
    '(HiddenNumberProblem, HiddenNumberProblemForCurve, Cr50U2fGuesses) and Python set iteration order (unique_vals, list(guesses)) are oracles. '
    'C02 signature half: issuerDLogs_sound (EVERY guess list, every dict, every cache with _cache[k]=k*G: idx->d implies d is a guess, idx is listed under a key tuple k, '
    'k lies on the curve and equals (d mod n)*G in the Mathlib group; isKeyOf_zsmul: = d*G when n*G = 0; isKeyOf_congr: d unique mod n when ord G = n) and '
    'weak_only_with_key (every nonce check, every batch, every oracle answer: an entry is positive only with DISCRETE_LOG = format(d,"x") for such a d of the signature\'s OWN issuer key and OWN curve group). '
    'C08 last clause: group_isolation (the verdict depends on the oracle only through the answers for the signature\'s curve group), verdict_exact / all_of_issuer_flagged '
    '(reduced generator and caches: flagged IFF the issuer key tuple has coordinates < p and some guess of the group is a private key of it; recorded value = LAST such guess of list(guesses); '
    'every signature of the batch with that curve and key gets the same positive verdict; a key given as x+p or off the curve is never matched), '
    'hnp_args + hnp_args_relation (the (a_i,b_i) handed over are HiddenNumberParams of each unique (r,s,z): k = a + b d mod n), windows_plan / windows_cover (24/48/120, stop after first size >= len, every unique signature in some window), cr50_args. '
    'C17: mapIssuer_partition (distinct keys, increasing non-empty index lists, permutation of range(len)), writes_by_index (exactly one entry per signature with a known curve, none otherwise), '
    'verdict_independent (verdict = function of curve, own key tuple, list(guesses) of own group: not of batch, position, order, check kind, cache content, earlier calls), flagged_monotone '
    '(flagged stays flagged when the guess set grows), check_preserves (curve objects satisfy all hypotheses again after every call). '
    'C18: check_total (never raises when every known-curve signature has s invertible mod n — any r, hash length 0.., key, curve id, batch size incl. empty, any oracle answer; CheckCr50U2f: check layer only — the solver is an answer oracle there; composed with the solver model in Props/C18Ec.lean it needs n not dividing r), '
    'check_error + check_raises (exact set of raising inputs: a BiasedBaseCheck on a batch containing ONE known-curve signature with s = 0 mod n raises ZeroDivisionError for the whole batch; nothing else raises), '
    'namedFactory_ok (hypotheses hold for CURVE_FACTORY as regenerated, primality of the nine field moduli and group orders is kernel-checked: C11Primes, EcAll.fieldPrimes, C02.namedFactory_ok_certified). '
    'Correspondence (harness/corr/c02s.py, ~800 lines per quick run, 3 seeds green): every Check call of the seven real check objects on batches of 1-3 issuers x 1-2 curves with planted MSB/prefix/postfix/Cr50 bias '
    '(real solvers recover the key), healthy, duplicate, same-(r,s)-other-hash signatures, unreduced/invalid keys, unknown curve ids, r/s out of range, empty batch, hash lengths 0..64, window boundaries 1..130, '
    'repeated calls of the same object, alone/batch/permuted; solver ARGUMENTS predicted exactly, ANSWERS real or adversarial (0, n, n+-1, d, d+-n, -d, 2d, other keys, random, huge, duplicates, mpz); '
    '_IssuerDLogs, _MapIssuerSigIndexes and __init__ also directly. 14 mutants of ecdsa_sig_checks.py all detected (VIOLATION with replay). '
    'Not covered: exceptions raised INSIDE the solvers (observed: Cr50U2fGuesses raises ZeroDivisionError for r = 0 mod n when its sub-problem has a solution — outside r in [1,n-1]); '
    'verdicts already written for earlier curve groups when a later group raises; injectivity of format(d,"x"); primality of the field primes (hypothesis). '
    'Observed behaviour worth knowing (no property violated): one signature with s = 0, n, 2n.. makes the six BiasedBaseCheck.Check calls (hence CheckAllECDSASigs) raise for the whole batch.')



claim('C02',
      'Lean theorems (Props/C02.lean, over Mathlib\'s group of the curve via toPoint): (1) BatchDL — every reported value v satisfies v*G = P, both sign branches, for every cached state, bound and float-oracle value; '
      '(2) ExtendedBatchDL / CheckWeakECPrivateKey — for a valid point (n*P = 0) the recorded value is a true discrete log, and the hypothesis is needed (kernel-evaluated counter-example on a 2-torsion point); '
      '(3) BatchDLOfDifferences / CheckECKeySmallDifference — a recorded relation "key - (x,y) = k*G" names another key of the call with P - Q = k*G, mirrored with -k; '
      '(4) ECDSA nonce checks — for EVERY list of guesses returned by the lattice solvers (LLL noise, adversarial lists), _IssuerDLogs assigns d to a signature only if BatchMultiplyG([d]) equals that signature\'s own issuer key tuple '
      '(issuerDLogs_sound, on top of C11 batchMultiplyG_spec), and a nonce/LCG/U2F check marks a signature weak only together with such a key (weak_only_with_key). '
      'Model tied to /repo by the C10 (BSGS, EC checks through protobuf keys, toy curves exhaustively, cache histories) and C02S (real checks with recorded and adversarial solver answers, several issuers and curves, repeated calls) correspondences; '
      'every recorded log / relation is re-verified with independent affine arithmetic on the implementation.',
      'Trusted: Lean kernel, harness. Hypothesis of the theorems: the field prime p (and for order statements n) is prime — validated per run with gmpy2.is_prime. LLL and the float sqrt are oracles quantified away.',
      'Lean 4 proof of soundness over an executable model (refined to Mathlib\'s elliptic-curve group) + differential correspondence with recorded and adversarial oracle answers',
      'DESIGN.md section 5 C02')


claim('C17',
      'Lean theorems (Props/C17.lean): SINGLE checks — in the model every single check is runCheck with a per-artefact verdict, and the annotated artefact at position k of ANY batch equals the result of checking that artefact '
      'alone (runCheckFrom_pointwise, single_check_alone_eq_batch): position, neighbours, batch order are irrelevant by construction; for the ECDSA nonce checks the verdict is a function of (curve, own issuer key, guess list of '
      'the own curve group) only (sig_verdict_independent), grouping by issuer is a partition of the indices (issuer_groups_partition). JOINT checks — BatchGCD is permutation-equivariant, a function of the value SET, and unchanged by '
      'adding coprime moduli (gcd_perm, gcd_set_function, gcd_add_healthy); the cached discrete-log table: after ANY sequence of earlier BatchDL / ExtendedBatchDL / BatchDLOfDifferences calls everything guaranteed from a fresh '
      'state is still found (dl_history_monotone). That the REAL checks have this shape (no hidden state) is established by differential runs: every real RSA single check on an artefact alone vs in random batches at random '
      'positions vs after unrelated calls on the singleton check objects; CheckGCD under permutation / healthy addition; EC checks with every order of earlier calls leaving larger or smaller cached tables (model gets the state); '
      'ECDSA checks with repeated calls of the same check object and same (r,s) under different hashes. NOT proved: for the lattice checks the windowing depends on Python set order and LLL output (oracle order is an argument of the model).',
      'Trusted: Lean kernel, harness. Python set/dict iteration orders are recorded and passed to the model; theorems hold for every order.',
      'Lean 4 proof (pointwise structure, equivariance, cache monotonicity) + differential runs alone/batch/history on the implementation',
      'DESIGN.md section 5 C17')

claim('C18',
      'Lean theorems (Props/C18.lean and the files it builds on): none of the per-key RSA checks raises for ANY modulus, parameter and well-formed oracle answer (CheckFermat, CheckHighAndLowBitsEqual — the internal ArithmeticError and the '
      'None % 2 TypeError are unreachable —, CheckContinuedFractions, CheckBitPatterns, CheckPermutedBitPatterns, CheckSmallUpperDifferences, CheckUnseededRand); BatchGCD / CheckGCD / CheckGCDN1 never raise on positive moduli incl. the empty batch '
      '(after fix D1); the bookkeeping layer is total on fresh artefacts (C16); EC Add / Double / Subtract never raise for any integer coordinates (C11 add_double_total, after fix D3), EC keys (Props/C18Ec.lean, review finding F2): for ANY natural-number coordinates (0, p, p+x, 2^600, off-curve, (0,0), keys equal mod p), ANY content of the cached _table, any ExtendedBatchDL bound >= 1 and any max_diff below 2^1024 (beyond it the real int(math.sqrt(.)) raises OverflowError: the float oracle has no value), any mixture of curve ids, '
      'CheckValidECKey, CheckWeakCurve, CheckWeakECPrivateKey, CheckECKeySmallDifference and CheckAllEC return — CheckValidECKey with an entry for every key, the others with an entry exactly for the keys on known curves (weakECPrivateKey_total_any, smallDifference_total_any, checkAllEC_total_any; hypotheses: one _table state per curve object, float sqrt oracles >= 1 incl. those of the inner CheckAllEC of CheckIssuerKey, correct _cache contents (FactoryOK: _cache[k] = k*G — any _table is allowed, not any _cache), well-formed LCG metadata (MetaOk); '
      'CURVE_FACTORY validity incl. field primality is proved). EcCurve.Multiply raises (ValueError) exactly for scalar 2, y a non-zero multiple of p and 3x^2+a = 0 mod p (multiply_raises_iff, e.g. Multiply((1,p),2) on secp256r1); no check reaches it (ext_inverse_ne_two). '
      'ECDSA: with the solver ANSWERS as oracles the check layer never raises when gcd(s,n) = 1, for any r, hash, issuer key (sig_checks_total; CheckAllECDSASigs incl. CheckIssuerKey on invalid / unreduced issuer keys: checkAllECDSASigs_total_any); COMPOSED with the solver models (HiddenNumberProblem, ...ForCurve, Cr50U2fGuesses) '
      'the checks and the entry point never raise for r, s in [1, n-1], any hash length, any issuer key (sig_checks_solver_total, checkAllECDSASigs_solver_total — the run takes the solver answers from the oracle and every recorded solver call is then shown to return in the solver model; sufficient for totality because the check layer is total for EVERY answer; remaining oracles: lll.reduce output with rows of length >= 2, one float, set orders); the Cr50 sanity raise is unreachable (C08). '
      'Outside the domain, characterised: r = 0 mod n makes Cr50U2fGuesses raise ZeroDivisionError (cr50_solver_raises); Characterised, outside the property\'s domain: s = 0 (mod n) makes the six BiasedBaseCheck checks raise ZeroDivisionError; moduli under 64 bits make CheckKeypairDenylist raise. '
      'Every run pushes degenerate well-formed batches (sizes 0,1,2,24; prime/even/square/power-of-two/odd-length moduli with any exponent; every curve id incl. unknown and binary-field; coordinates 0, p, p+x, huge, off-curve, y = 0; duplicates; '
      'empty and 64-byte hashes; invalid issuer keys) through every real check (the real CheckAll* entry points in the thorough tier) and reports any exception with the batch as replay.',
      'Trusted: Lean kernel, harness. Exceptions raised INSIDE oracles (fpylll, scipy, sympy) are outside the model; the lattices handed to LLL are triangular with non-zero diagonal.',
      'Lean 4 proof of totality through Except-valued models + degenerate-batch search on the implementation',
      'DESIGN.md section 5 C18')


claim('C12',
      'Lean theorems (Props/C12.lean, 49 theorems; 127 with the extension files below) over an exact executable model of every NIST SP 800-22 test in nist_suite.py except Spectral (float FFT: cross-check only) '
      'and of LargeBinaryMatrixRank / LinearComplexityScatter (Model/Nist.lean: parameter choice or Python exception, integer counts, '
      'exact rational statistic), for every bit string and length: '
      '(1) parameter ladders and insufficient-data conditions as iff-characterisations (BlockFrequency n<100 and block size; LongestRuns n<128 and '
      '128/6272/750000; rank n<38rc; Universal n<387840 and L = largest admissible; LinearComplexity; template size; Serial/ApEn m_max; large rank n<4096); '
      '(2) the statistic equals the NIST definition over the bit list for frequency, runs, block frequency (chi-square as exact rational), '
      'longest-run histogram, cusum forward/backward maxima, excursion cycle count, per-cycle visit histograms and visit totals, '
      'and the pattern counts of the template / Serial / ApproximateEntropy tests (all levels: psi-square sums of squares and ApEn count multisets); '
      '(3) invariance of the exact statistic under complement (frequency, runs, block frequency), reversal (frequency, runs), '
      'forward-cusum(reversed) = backward-cusum, and cyclic rotation (Serial / ApEn pattern counts); '
      '(4) tables by kernel computation on constants regenerated from the source: LongestRuns M=8 row = exact distribution over all 256 blocks '
      'rounded to 4 digits, M=128 row rounded/truncated (via a recurrence checked against brute force for M=8,10), LinearComplexity pi = exact '
      'probabilities (central classes) and tail sums up to 1/(3*2^m), RandomExcursionsDistribution = NIST closed form and sums to 1; '
      '(5) ranges: every chi-square >= 0, Serial first differences >= 0, shape parameters > 0, runs denominator > 0. '
      'NOT proved, only cross-checked on every run against mpmath (50 digits, tolerance max(1e-9, 1e-7 p)) on ~48k inputs (exhaustive to length 10/14, '
      'every harvested threshold +-1, constant/periodic/one-sided/de Bruijn/random strings to 2^16/2^20, all optional parameters): the floating-point tail '
      '(erfc, igamc, erf, log, sqrt, matrix_power, binom.cdf, FFT of the spectral test) and hence the value and the [0,1] range of each p-value; '
      'Serial second difference >= 0 and correctness of the longest-run recurrence for all M are stated but unproved; ApEn chi-square >= 0 is not rational (not stated). '
      'Undecided: NIST constants that are not rationally derivable (Universal expected value/variance, asymptotic rank tables: numerically cross-checked only). '
      'Findings: D4, D10-D14 confirmed, D19 (Universal always uses L=6) and D20 (NIST M=10000 LongestRuns row is not the exact distribution) new; '
      'the model carries the repaired behaviour, the pinned behaviour is refuted on concrete witnesses.',
      'Trusted: Lean kernel, mpmath as float-tail oracle, correspondence harness, shims; per-block linear complexities are an oracle recorded from the implementation (C14); '
      'bit primitives of util.py are replaced by list-level definitions in the model and cross-checked by the correspondence (their own proofs are C15). '
      'Preconditions: bits < 2^n, optional parameters >= 1 (UniversalImpl with L = 1 returns p = 2 because NIST\'s c-formula is negative there: observed, outside the documented range).',
      'Lean 4 proofs over an exact executable model + differential correspondence with mpmath re-evaluation of the floating-point tail',
      'DESIGN.md section 5 C12')



NOTES_RSAALL = (
    'End-to-end model of paranoid.CheckAllRSA (Model/RsaAll.lean checkAllRSAFull): the seventeen per-check models (Model/RsaChecks, ClosedForm, BatchGcd) '
    'are plugged into the bookkeeping layer (Model/Checks checkAllRSA) in place of its verdict oracle, dispatching on the check NAME of the regenerated registry '
    '(a registry name without a model is an error: unknown_check_is_error, registry_modelled). Oracles left: LLL bases per (key, d0), float cube root, unseeded candidate order, '
    'SHA-1 digest, keypair generator output, Pollard product, deny list, keypair table, constructor defaults. '
    'Lean theorems (Props/RsaAll.lean, namespace Paranoid.RsaAll, 12 theorems, axioms propext/Classical.choice/Quot.sound), all by COMPOSITION of C01/C03/C06/C16/C18: '
    'checkAllRSA_total (C18 end to end: returns for every batch incl. empty of moduli >= 2^63 of any shape, any exponent, every oracle answer with LLL rows of length >= 2, non-zero listed PRNG outputs, parsable keypair metadata; '
    'checkAllRSA_needs_64_bits: conversely a returning run saw only moduli >= 2^63), '
    'checkAllRSA_entries (C16 end to end: length kept; per key exactly one entry per registry check in registry order, entry j = (name_j, verdict_j.positive, severity rule) with verdict_j = rsaVerdict name_j on THAT key; '
    'weak <-> some entry positive; version recorded; return value <-> some key weak; entry_severity: documented severity except CheckLowHammingWeight UNKNOWN when flagged without factors, and it is the only check with that rule; lhw_verdict), '
    'checkAllRSA_factors_sound (C01 end to end on the final protobuf: N_FACTORS / N-1_FACTORS readable, every stored value is a natural number dividing n resp. n-1, an existing record is non-empty, any record => key weak; for EVERY oracle answer), '
    'record_names (only CheckGCDN1 writes N-1_FACTORS and nothing else; no RSA check calls AttachInfo), '
    'checkAllRSA_factors_proper_partial (proper-divisor clause for the records of CheckContinuedFractions, CheckBitPatterns, CheckPermutedBitPatterns, CheckPollardpm1, CheckUnseededRand, CheckSmallUpperDifferences and CheckGCD: '
    'the final N_FACTORS contains a proper divisor unless — CheckGCD only — n divides another different modulus of the batch); the full clause ProperClause is a def, NOT asserted: for CheckFermat / CheckHighAndLowBitsEqual / CheckLowHammingWeight '
    'only x*y = n is proved (trivial pair needs e.g. a Fermat step bound ~ n/2), and for CheckKeypairDenylist it needs the hypothesis that the generator returns values > 1 (properClause_needs_generator: kernel-evaluated counterexample with a generator answering (1, n)), '
    'checkAllRSA_single_independent (C17 end to end: two runs — any batches, positions, neighbours — that agree on one key (n, e), on that key\'s oracle answers and on the singleton state give it the same fifteen single-check entries and verdicts). '
    'Correspondence (harness/corr/rsaall.py, ./check RsaAll, 53 batches per quick run, seeds 1-9 green, 35-75 s): REAL paranoid.CheckAllRSA on fresh protobufs, batches of 0-6 keys of 512-1024 bits (plus one 2048-bit healthy key: the only not-weak outcome, '
    'and 62-bit moduli: ValueError on both sides) mixing healthy keys with every weak family (Fermat, equal high/low bits, bit patterns, smooth p-1 one/both sides, low Hamming weight factored / only suspected, leading ones, small upper difference, unseeded PRNG with 1023- and 1024-bit moduli, '
    'exponent, OpenSSL deny list, keypair deny list and same-prefix decoys, ROCA, ROCA variant, duplicates, shared primes, pq|pr|qs triangle, nested moduli, n-1 gcd above/below 2^128, nine degenerate shapes); all oracles recorded at the call site or re-evaluated on the model\'s input; '
    'the model must reproduce the COMPLETE test_info of every key (entries, order, severities, weak, version, factor sets under both names) and the return value. Constructor parameters exercised: Pollard bound 2^12 (product passed as register), Fermat step bound 100000 / 20000 / 3000 / 0, '
    'synthetic + shipped deny list and keypair table. pred on every case (implementation only): C01 clauses on the final protobufs AND per check via a spy on the util calls (factors only with a positive entry of THAT check, right record name, divisibility, proper divisor unless nested), '
    'C16 clauses, C18 (no exception on moduli >= 2^63), planted expectations of the deterministic families. Mutants of /repo detected (VIOLATION with failing input and replay): CheckPollardpm1 attaching factors without result=True; CheckGCDN1 attaching under N_FACTORS; '
    '_CheckArtifacts skipping the last check; CheckUnseededRand with psize = bit_length // 2. '
    'Not covered: pre-annotated protobufs through the composed model (C16 covers them with verdict oracles); partially annotated state after an exception; the INFO name constants are literals of Model/RsaAll.lean compared with consts.py by the op rsaall.names on every run.')



NOTES_ECALL = (
    'End-to-end models of the two entry points paranoid.CheckAllEC and paranoid.CheckAllECDSASigs (Model/EcAll.lean, Mathlib-free, linked into the driver): '
    'checkAllECFull = Checks.checkAllEC .repaired O I arts and checkAllECDSASigsFull = Checks.checkAllECDSASigs .repaired O I arts in which the per-check verdict oracle O and the '
    'inner CheckAllEC verdicts I of CheckIssuerKey are no longer inputs: they are COMPUTED, by check NAME over the regenerated registries Consts.ecAllChecks / Consts.ecdsaAllChecks, '
    'from the check models of Model/Bsgs.lean (CheckValidECKey, CheckWeakCurve, CheckWeakECPrivateKey, CheckECKeySmallDifference on CURVE_FACTORY as regenerated) and of '
    'Model/EcdsaChecks.lean (six BiasedBaseCheck kinds, CheckCr50U2f). _table/_table_size of every process-wide EcCurve object is threaded through the checks in registry order, '
    'also through the inner CheckAllEC of CheckIssuerKey (same curve objects); _cache is threaded through the nonce checks. Remaining oracles (arguments, recorded at the call site): '
    'int(math.sqrt(.)) of BatchDL / PointTable, lattice-solver answers, list(set) orders. A registry name without a model is Err.noModel, a disagreement between a check model and the '
    'bookkeeping layer about which artefacts get an entry is Err.shape (proved impossible) - never a silent pass. Verdict conversion: DISCRETE_LOG = format(d,"x"), '
    'DISCRETE_LOG_DIFF = "key - (%x, %x) = %d * G". '
    'Theorems (Props/EcAll.lean, namespace Paranoid.EcAll, 9 theorems, axioms propext / Classical.choice / Quot.sound; all are compositions of C02S / C06 / C10 / C16 / C18 through the glue of '
    'Proofs/EcAll.lean; FieldPrimes = the nine field moduli are prime is now a THEOREM, EcAll.fieldPrimes, from the C11Primes certificates): '
    'checkAllECFull_total, checkAllECDSASigsFull_total (C18 end to end: on well-formed calls - ECWF: reachable _table states, every key with a known curve id is a reduced point of its curve, '
    'float oracles >= 1 where a table is built; SigWF: valid curve objects = CURVE_FACTORY up to _cache, enumerating set-order oracles, s invertible mod n, well-formed inner CheckAllEC call on the '
    'distinct issuer keys - with the literal 2**32 and any max_diff, every registered check returns, model and bookkeeping agree on applicability, the bookkeeping does not raise on any pre-existing '
    'test_info, and the states left behind satisfy the hypotheses again); '
    'checkAllEC_dlogs_sound (C02 end to end, ANY batch incl. off-curve / unreduced / duplicate / unknown-curve neighbours, any bound, max_diff, table state and float values: on fresh keys a DISCRETE_LOG '
    'attached to a key on a known curve is format(v,"x") with v*G = P whenever the key is a valid point; a DISCRETE_LOG_DIFF is the string of a relation that - when all keys of that curve id are on the '
    'curve - names ANOTHER key Q of the batch on the same curve with P != Q and P - Q = d*G); '
    'checkAllECDSA_weak_only_with_key + checkAllECDSA_issuer_entry + checkAllECDSA_weak_only_with_key_or_weak_issuer (C02 end to end: a fresh signature is weak afterwards only if a registered nonce check '
    'recorded a positive entry because a guess d handed to _IssuerDLogs for its own curve group is a private key of its OWN issuer key tuple, or its CheckIssuerKey entry is positive; every DISCRETE_LOG it carries is '
    'format(d,"x") of such a d; the CheckIssuerKey entry is positive IFF the end-to-end CheckAllEC model, run on the de-duplicated (curve id, x, y) issuer keys from the table state the earlier checks left, marks '
    'that signature\'s own issuer key weak - C16.issuer_verdict with the real inner model - and then carries the HIGHEST severity among the key\'s failed EC checks, SEVERITY_UNKNOWN otherwise); '
    'checkAllEC_entries, checkAllECDSA_entries (C16 end to end on fresh artefacts: exactly one entry per registered check that applies - all checks iff the curve id is in CURVE_FACTORY, else CheckValidECKey / '
    'CheckIssuerKey alone -, in registry order, each (check_name, verdict of the check model, documented severity); weak iff some entry positive; version recorded; return value iff some artefact weak; length and key material kept). '
    'Non-vacuity: ECWF with the REAL parameters on a mixed batch, and kernel-evaluated runs of both composed models (3*G on secp192r1 gets DISCRETE_LOG "3"; unknown / binary-field issuer curves get CheckIssuerKey severity 2). '
    'Correspondence (harness/corr/ecall.py, check id EcAll): the REAL paranoid.CheckAllEC / paranoid.CheckAllECDSASigs on fresh (and re-run) protobufs, every oracle recorded at its call site, the model asked for the WHOLE batch; '
    'compared: complete test_info of every artefact, return value, _table_size of every curve object, len(_cache), solver-call arguments of every registered check, set-order consistency. quick: 59 batches (~25 s; '
    'CheckECKeySmallDifference(max_diff=2**10), BatchDL bound 2**16 - both parameters of the model -, JavaUtilRandom LCG solver substituted by a stub except once); thorough: 220+ batches incl. the registered singletons with 2**32 / 2**24 (~10 min). '
    'Batches: 1-7 EC keys over 2-3 curves (healthy, i*2^(8j), repeated 32-bit word, n - small, small-difference pairs and triples, duplicates, off-curve, (0,0), unreduced x+p / y+p, unknown and binary-field ids, secp192r1, P and -P, '
    'same private key on two curves, table history); 4-12 signatures over 1-2 curves and 1-3 issuers (planted MSB bias with 8 signatures - real LLL finds the key -, healthy, fake, duplicate signatures, issuer key structured / '
    'close to another issuer / invalid / unreduced / unknown curve / weak curve, same coordinates under two curve ids, substituted Cr50 answer d+n). pred (always evaluated, independent affine arithmetic of corr/c11.py): the C02 clauses '
    'above and the C16 clauses on the final protobufs, CheckIssuerKey against a fresh real CheckAllEC run on the distinct issuer keys. Mutants detected with VIOLATION + replay (3 seeds for the first): CheckWeakECPrivateKey attaches '
    'the previous key\'s dlog; CheckIssuerKey copies SEVERITY_UNKNOWN; CheckValidECKey stops after the first invalid key; CheckIssuerKey de-duplicates by (x,y) only (D18 reverted); mirrored difference relation with the wrong sign. '
    'driver_model_agree: the hash-map instance the native driver runs and the association-list instance of the theorems give the same error or the same annotated batch, return value, per-check outputs and related states, for every bound. '
    'Not covered by a theorem: the quick-tier instance of the model with bound != 2**32 for TOTALITY (soundness, entries and driver agreement hold for every bound); state left behind by a raising call.')



# ---- additions after the end-to-end compositions, Pratt certificates and completeness lemmas
def _add(pid, more, note_more=None):
  CLAIMS[pid]['text'] = CLAIMS[pid]['text'] + ' ' + more
  if note_more:
    CLAIMS[pid]['note'] = CLAIMS[pid]['note'] + ' ' + note_more


_add('C01', 'END TO END (Props/C16RsaAll.lean, audited by ./check C16): with every per-check verdict computed by its model (no verdict oracle left), after CheckAllRSA on fresh keys every value stored under N_FACTORS divides n, every value under '
            'N-1_FACTORS divides n-1, any record implies the key is weak (checkAllRSA_factors_sound), no other record exists (checkAllRSA_records), and records made by the gcd-based checks contain a proper divisor unless (CheckGCD) n divides another '
            'modulus (checkAllRSA_factors_proper_partial; for Fermat/HLBE/LHW only x*y = n is provable for every constructor parameter, and for the keypair check it needs the generator to return values > 1: properClause_needs_generator).')
_add('C04', 'The equal-high-and-low-bits clause is now a theorem too (Props/C04Hlbe.lean hlbe_complete): for distinct odd primes of equal bit length agreeing on r >= 3 low and s high bits with r + s >= bitlen(n)/4 + 2, FactorHighAndLowBitsEqual(n, 3) '
            'returns the factors or FermatFactor finds them in its first step (hlbe_complete_sharp: for every middle_bits and every step bound >= 1), via the loop invariant of the bit-fixing walk (hlbe_walk_invariant) and uniqueness of 2-adic square roots.')
_add('C05', 'The PRE half of the lattice sandwich is proved (Props/C05Pre.lean): for p = (a*w + c)/d the vector (c*x, -a*x, c*e) is an explicit integer combination of the rows of the lattice CheckFraction builds, with entry bounds 2|c|d, 2|a|d, |c|(|c|m + d - 1) '
            '(fraction_pre, fraction_vector_small = the docstring\'s derivation), its value is x*d*p (fraction_vector_value), so any basis containing +- that row yields both primes (fraction_sandwich); a w-bit word repeated k times apart from t low bits has exactly this form with '
            'd = 2^w - 1 and |c| < 2^(w+t) (repetition_is_fraction, repetition_sandwich); the denominators tried by CheckBitPatterns / CheckPermutedBitPatterns are exactly the documented lists, first success wins (bitpatterns_enum, permuted_enum, tried_first_success). '
            'Permuted limbs (Props/C05Permuted.lean): a ps-bit word (ps odd) written from the top over 2M ws-bit limbs with adjacent limbs swapped, plus a deviation delta, satisfies D*p = a*2^h + c for the check\'s denominator D = (2^ps-1)(2^(ps*ws)+1)/(2^ws+1), with explicit a, c and |A_s| < 2(2^ws+1)D (permuted_is_fraction, permuted_sandwich) — for EVERY odd ps, no hypothesis ps < ws. CheckPermutedBitPatterns tries only ws in {8,16,32,64}, 3 <= ps < ws odd, bits(D) <= bitlen/8 (C05PermutedRegion.permuted_tried_region); the property\'s family also contains ps >= ws (8-bit limbs, w = 9, 11, 13, 15, 31), never tried: KNOWN FINDING D25 (d25_witness: 1024-bit replay input factored by no check, although CheckFraction(n, D(8,11)) factors it: d25_would_be_factored; patch fixes/permuted-psize-range.diff proposed, it repairs every measured cell except 1024 bits / w = 11 with more than ~20 deviating bits). Cut, non-aligned repetitions of any word size are covered by cut_repetition_is_fraction / cut_repetition_sandwich. '
            'The continued-fraction clause is PROVED without oracle (Props/C05Cf.lean cf_clause_default): both primes odd, each a word of <= 64 bits cut to L >= 512 bits plus a deviation < 2^32, then CheckContinuedFractions() flags the key (via CfLarge.euclid_large_quot: a rational within E/(bd) of a/b with (K+3)Ed <= b+E forces a partial quotient >= K). Unproved links that remain: (1) LLL returns +- the planted vector; (2) the low-Hamming-weight search. '
            'Completeness clauses are evaluated on the implementation for planted members of every family on every run (cut repetitions for every default w, swapped limbs, two patterned primes, exact Hamming weights 16 / 32, Pollard families with prime powers inside / at / beyond the exponent limits); a miss inside the property region is a violation (measured before gating: 15783 bit-pattern keys 0 misses, 899/899 permuted with 3 <= ps < ws (ps >= ws keys are statistics plus the fixed D25 probe), 2881/2881 two-pattern flagged, 136/136 low-weight flagged); permuted limbs with bitlen/10 < bits(D) <= bitlen/8 are missed in 42 of 129 measured keys (outside the property).')
_add('C11', 'Primality of all 18 curve constants (field primes and group orders of the nine curves) is no longer a hypothesis: kernel-checked Pratt certificates regenerated with the constants (Props/C11Primes.lean, curve_primes_certified; factorisations cached in harness/consts/pratt_cache.json are hints, the kernel re-checks every certificate), '
            'hence hypothesis-free: G has order exactly n and the curve is elliptic over the field ZMod p for every named curve (generator_order_certified, curves_elliptic_certified).')
_add('C16', 'END TO END: the verdict oracle is instantiated by the per-check models for all three entry points (Props/C16RsaAll.lean, Props/C16EcAll.lean): checkAllRSA_entries / checkAllEC_entries / checkAllECDSA_entries (exactly the registry entries in registry order with the documented severities, weak iff some entry positive, return iff some artefact weak), '
            'checkAllECDSA_issuer_entry (issuer verdict = the full EC entry point on the de-duplicated issuer keys); the real CheckAllRSA / CheckAllEC / CheckAllECDSASigs are compared with these composed models on whole batches every run, every oracle (LLL, float roots, set orders, hashes, generator) recorded at its call site.')
_add('C17', 'End to end: checkAllRSA_single_independent (Props/C16RsaAll.lean) — two runs that agree on a key and its oracle answers give it identical entries for the fifteen single checks.')
_add('C18', 'End to end: checkAllRSA_total (every n >= 2^63, well-formed oracles, any exponent, empty batch included), checkAllECFull_total, checkAllECDSASigsFull_total (Props/C16RsaAll.lean, Props/C16EcAll.lean).')
_add('C02', 'End to end (Props/C16EcAll.lean): checkAllEC_dlogs_sound and checkAllECDSA_weak_only_with_key_or_weak_issuer state the same on the final protobufs of the real entry points.')

_add('C01', 'PROPER-DIVISOR CLAUSE at full strength (Props/C01Proper.lean): fermat_proper (holds whenever the step bound is below (n+1)/2 - floor(sqrt n); sharp for prime n: fermat_trivial_for_huge_bound; fermat_proper_default for the default 100000 and n >= 2^63), hlbe_proper and lhw_proper without any size hypothesis, hence '
            'checkAllRSA_factors_proper: after CheckAllRSA every non-empty N_FACTORS record contains a proper divisor unless n divides another modulus of the batch — for all 17 checks, given a keypair generator returning values > 1 and a Fermat step bound below that limit. '
            'The clause is FALSE for an absurd Fermat step bound: properClause_fails (witness: bound n on a Pratt-certified 64-bit prime n records {n, 1}); the property quantifies over "every constructor parameter", so this corner is recorded as a documented limitation of the property text, not of the code.')

# ---- hypotheses and coverage of the end-to-end / signature layers, disclosed in level_note (review finding F3)
for _pid in ('C02', 'C08', 'C17', 'C18'):
  _add(_pid, '', 'SIGNATURE-CHECK LAYER: ' + NOTES_C02S)
for _pid in ('C01', 'C16', 'C18'):
  _add(_pid, '', 'CheckAllRSA END TO END: ' + NOTES_RSAALL)
for _pid in ('C02', 'C10', 'C16', 'C18'):
  _add(_pid, '', 'CheckAllEC / CheckAllECDSASigs END TO END: ' + NOTES_ECALL)

# D21 (found by the independent review, fixed in /repo 8de8de4)
_add('C06', 'CheckKeypairDenylist after the D21 repair: a modulus of odd bit length is never flagged and the generator is not consulted for it (keypair_odd_size, keypair_gen_even_only; product_size_never_odd is the reason the real generate_key(odd) cannot return), '
            'so keypair_step needs an even bit length; table prefixes in front of odd- and even-sized moduli are generated on every run under a 20 s alarm.')
_add('C18', 'D21 (repaired): before 8de8de4 CheckKeypairDenylist.Check / CheckAllRSA did not RETURN for a modulus of odd bit length whose 64 leading bits are a key of the keypair table (generate_key(odd) loops forever) — the model had taken the generator as a total oracle; '
            'the model now consults the oracle for even sizes only (keypair_gen_even_only), so checkAllRSA_total no longer relies on generate_key(odd) returning; odd-sized table-prefix moduli are part of every C06 / C18 / RsaAll run, under an alarm.')

# C12 extension (Props/C12More.lean)
_add('C12', 'Props/C12More.lean (25 further theorems): serial_second_difference_nonneg (all m >= 2, every bit string) and apen_chi_square_nonneg / apen_le_log_two (Gibbs inequality over the reals) — both statistics are >= 0, so the p-value argument is in range; '
            'longestRuns_recurrence_correct (the recurrence = brute-force count over all 2^M strings, every M) making longestRuns_table_M128 unconditional and giving the exact M = 10000 row in full (D20: NIST\'s printed row differs in every entry); '
            'binaryRank_is_span_rank + rank_histogram (the rank statistic is the GF(2) rank through C15, histogram = definition), rankDistribution_formula / _classical (the in-place recurrence equals the exact rank distribution for all r, c; model in exact rationals, compared with the float code every run), '
            'rank_precomputed_table / rank_precomputed_all_sizes (the 8-digit table is the exact probability rounded or truncated, every n >= 31), overlapping_count_spec / overlapping_histogram, universal_distances / universal_distance_def. '
            'Still model + correspondence only: ASYMPTOTIC_RANK_SF, the UniversalDistribution table (log2), the overlapping-template Markov-chain distribution, LinearComplexity histogram, LargeBinaryMatrixRank, LinearComplexityScatter, Spectral (no Lean object: float FFT), every float tail.')


# C07: the deterministic corollaries and the exact ROCA rates are theorems, the probabilistic main clause ("a healthy artefact is not
# accused") is decided by exploration of the real checks only: the honest category is mixed (review finding F3)
CATEGORY['C07'] = 'other'

# ---- review findings F6 / F15 (bookkeeping): history and merge theorems
_add('C13', 'FULL-STRENGTH HISTORY FORM (Props/C13History.lean, 11 theorems; the statements of Props/C13.lean speak of "the recorded list", which a Run that forgets earlier p-values would also satisfy — review finding F6): after any history of runs of a new TestStructure the list recorded under a name IS every p-value the runs returned under that name, in order (pvalues_are_history), '
            'and a sub-test is FAILED iff CombinedPValue of ALL p-values it returned so far < fail level, PASSED iff not failed and CombinedPValue([repeat]*k) < that combination, UNDECIDED otherwise (state_rule, failed_iff_history, failed_rule; a name nothing was returned under has no state). finished after a run that returned a list iff none of the decisions made after each item of that list '
            '(for the p-values of the item\'s name returned so far) was UNDECIDED and runs >= min_repetitions (finished_rule, no assumption on names); for results with pairwise different names — true of every registered test by inspection, not proved — this is "no sub-test of the last result UNDECIDED" (finished_rule_distinct_names); with a name repeated inside one result the real code asks for another repetition although the final state is PASSED (reproduced; conservative). '
            'WHEN TestSource returns (the model loop is fuelled; termination is not claimed), each structure is the history of its own test\'s outcomes in exactly the rounds in which it was unfinished, and TestSource / TestBitString return True iff some sub-test\'s returned p-values combine below the fail level (testSource_history, testBitString_history). A kernel-checked example shows a Run that forgets earlier p-values satisfies C13.state_rule but violates these. '
            'Sentences 1-2 of C13: NOT proved, NOT modelled; search only (thorough tier: one seed per weak generator and shake128; ./check C13 --search --tier thorough: five seeds per pair and also pcg64, philox): the real TestSource restricted to the documented test on trunclcg32/64/128, lehmer128, lehmer128/16, java, mwc64/128/256 (FindBias, 2^16 bits), xorshift128+, xorwow (LargeBinaryMatrixRank 2^18), xorshift* (LargeBinaryMatrixRank 2^23), xorshift128+ (LinearComplexityScatter 2^22) must return True and '
            'TestBitString on 2^20 bits of shake128 (pcg64, philox) must return False, for seeds drawn from VERIF_SEED; a miss is reported with the seed as failing input; nothing follows for other seeds or sizes.')
_add('C16', 'PRE-ANNOTATED artefacts (Props/C16Merge.lean, 12 theorems; review finding F15): for ANY initial test_info (stale positive/negative entries of the same checks, foreign names, duplicate names, any order/weak flag/version), every list of checks with pairwise different names, every verdict oracle, after _CheckArtifacts / CheckAllRSA / CheckAllEC / CheckAllECDSASigs returned: every check that applies to the artefact has its entry = merge(old first entry of that name if any, this run\'s test_result) = (name, old.result OR new.result, max severity), '
            'exactly one such entry unless the artefact came with duplicates (count = max 1 old; later duplicates untouched); entries of checks that do not apply and of every other name are untouched; names = old names in old order then the missing applicable check names in run order; weak = old weak OR some applicable check positive in this run (never cleared); paranoid_lib_version kept if non-empty (a re-run does NOT refresh it), else the library version iff some check applied '
            '(preannotated_entries, registry_preannotated, checkAllRSA_preannotated / checkAllEC_preannotated / checkAllECDSASigs_preannotated). ./check C16 runs the real entry points twice on artefacts carrying each class of stale annotation and evaluates this clause on the protobufs (merge_pred, from the spied SetTestResult arguments) on every call.')

# ---- second round after the independent review (findings F2 F4 F5 F7 F8 F10 F12 F13 F14 F16)
_add('C14', 'Props/C14Wrapper.lean (17 theorems) closes the wrapper glue: int.to_bytes / from_bytes round trip and bit order for ALL lengths; wrapper_glue (the Python wrapper executed statement by statement over the word-level C++ MODEL, whose ints are unbounded, = Model/BM.lean\'s linearComplexity on every (s, length), errors included; about the real C++ only within CppSizeOk — for 2^30 < length < 2^31 the C++ computes 2*lfsr_len in a signed int); wrapper_spec (ValueError / OverflowError / TypeError / -1 / shortest LFSR); '
            'linearComplexity_is_shortest_lfsr (explicit hypothesis CppSizeOk: the Python-level LinearComplexity(s, length) through to_bytes, the pybind int and either C++ variant = shortest-LFSR length of s_0..s_{length-1}, bit i of s = s_i, the order nist_suite.LinearComplexity hands over its blocks: nist_block_bits, nist_block_linear_complexity); int_quantities_fit; wrapper_enforces_size_limits. '
            'Correspondence: ops bm.to_bytes, bm.wrapper_cpp (both variants) against the real to_bytes / LinearComplexity incl. the OverflowError / ValueError cases.')
_add('C20', 'TOTAL-correctness form (Props/C20Total.lean, 19 theorems; review finding F14): decidable entryOk on the constructor parameters (TruncLcgRand k >= 1; Mwc b = 256^j, j >= 1; Lehmer bits a positive multiple of 8 and mod > 0; SubsetSum bits a positive multiple of 8 and k >= 1); entry_total: entryOk => constructor and RandomBits(n, seed) RETURN r for every n >= 0 and seed, with r < 2^n '
            '(shipped TruncLcgRand: the D5 bound; SubsetSum: under the explicit oracle hypothesis that os.urandom answers ceil(n/bits) times with a non-zero subset sum — subsetSum_returns_iff shows this is exactly the criterion); entry_not_ok: otherwise, for n >= 1, exactly ValueError (constructor), ZeroDivisionError (TruncLcgRand(0), Mwc(a,1), Lehmer(mod=0)) or NON-TERMINATION '
            '(Lehmer(bits=0, mod != 0), SubsetSum(bits,0), SubsetSum(0,k): lehmer_bits_zero_never_terminates, subsetSum_never_ends over the literal while loops; lehmer_while_is_for: the while loop is the model\'s for loop); entry_n_zero; registry_entries_ok: every bundled registry entry is entryOk, so the property (which quantifies over the registry) is unaffected — the three diverging constructors are an observation, patch proposed in fixes/rng-nonterminating-constructors.diff, not applied.')
_add('C08', 'COMPOSED CHAIN (Props/C08Chain.lean, 19 theorems, examples Props/C08ChainEx.lean; review finding F8): for the call the checks make (w = None; getLattice_none, default weights defaultW), for every prime n, key d < n, values (r,s,z) with s invertible signed with d (s*k = z + r*d mod n): sandwich_/sigs_/chain_{msb, prefix, postfix, generalized}, sandwich_cr50/chain_cr50, sandwich_lcg/chain_lcg prove '
            '(PRE) the planted row — MSB (n*w+1, d, k_i*w); prefix (n*w+1, d, e_i*w) with k = top+e, |e| < 2^(bl-bits); postfix (n*w+1, d, h_i*w) with k = low + 2^beta*h, beta = max(3, float oracle), n odd; generalized (m, y, e_i*w) for any representatives m of the multiplier and y = m*d; Cr50 (c1, c2, -256, 0); LCG (n*w+1, d, e_t*w) over the flattened list of one yielded subset — is an explicit integer combination of the rows of the lattice built, with entries below 2^(bl-bits)*w; '
            '(POST) IF the lll.reduce answer contains +- that row THEN the solver model returns a list containing d (side condition n not dividing +-T0 discharged); (CHECK) with the check layer\'s solver oracle instantiated by the solver models (SolvedGroup, evaluable solvedGroupB), every signature of the batch with that curve and issuer key tuple is marked weak with DISCRETE_LOG = format(d, "x") — d itself, since every model guess is < n. The curve-side hypotheses hold for CURVE_FACTORY by named_curves_ok (certified primes); hnp_total_prime: the solver model never raises on the calls the bias checks make. '
            'STILL ORACLE: "lll.reduce returns a basis containing +- the planted row" (Lovasz / short-vector argument not formalised); counted per run on the real checks with LLL recorded inside the solver calls, as LITERAL integer rows (extra.chain_summary; seeds 1-3: solver level 526/526 key-found runs contain the literal row of the generalised theorems below — key position d 235, d-n 232, generalized 59; check level 114/114 — d 44, d-n 34, generalized 12, Cr50 24; no other representative, no key through another row). The default COMMON_POSTFIX weight exploits only beta = max(3, floor(1.25*bl/len)) of the common low bits and needs bits >= beta; for GENERALIZED the row LLL returns belongs to a small multiple of the secret multiplier; the LCG statement is about c_j*k_i - d_j mod n being small, not about the generator.')
_add('C02', 'Props/C02Cert.lean: primality of the nine field moduli and group orders is kernel-checked, no longer a hypothesis (namedFactory_ok_certified, dlogs_sound_named: clauses 1 and 2 for every curve of namedCurves with no hypothesis on the curve). Clause (2) for keys that HAVE a private key: for an on-curve P = d*G (any integer d) a recorded v satisfies v*G = P and v = d mod n (extendedBatchDL_sound_of_privateKey, checkAllEC_dlogs_sound_priv) — n*P = 0 then follows from n*G = 0; '
            'for a general on-curve point the hypothesis n*P = 0 remains: it needs #E(F_p) = n for the nine named curves (SEC 2 / RFC 5639; NOT proved — no point counting in Mathlib; trusted only for that form). Clause (2) holds whatever the other keys of the batch are (C10Any); clause (3) for calls in which every point is finite and on the curve, with off-curve neighbours search-level only.')
_add('C10', 'Props/C10Cert.lean, Props/C10Any.lean: curve_factory_hyp_certified / curve_factory_orders_prime (no primality hypothesis left); checkWeakECPrivateKey_spec_priv (keys with a private key, F10); wkHyp_named_nonfresh / sdHyp_named_nonfresh (non-vacuity on the real factory with a non-fresh secp256r1 table evaluated by the kernel); checkWeakECPrivateKey_every_batch, batchDL_every_list (the guarantee for a key does not depend on its neighbours).')
_add('C16', 'Props/C16EcAllCert.lean, Props/C16RsaAllNV.lean: the end-to-end EC / ECDSA theorems no longer take FieldPrimes nor bound = 2^32 (totality for every ExtendedBatchDL bound: the bound enters only through the float int(sqrt(bound*len)) >= 1, i.e. bound >= 1 — covers the quick tier\'s 2^16); non-vacuity: sigWF_inhabited (two secp256r1 signatures of one issuer + an unknown curve), a kernel-evaluated checkAllECDSASigsFull run on secp192r1 in which CheckNonceMSB writes DISCRETE_LOG = "1", '
            'wf_nonempty_oracles (RSA WF with LLL rows, candidate lists and table entries that the run consumes).')
_add('C17', 'EC single checks (Props/C17Ec.lean, 14 theorems; review finding F12): CheckValidECKey / CheckWeakCurve verdicts are functions of the key (checkValidECKey_local, checkWeakCurve_local, end to end checkAllEC_individual_entries_local). CheckWeakECPrivateKey is NOT key-local (weakKey_verdict_depends_on_batch: kernel witness; real run: known finding D22); proved instead: soundness whatever the neighbours (weakKey_sound_any_batch) and the documented families are found in every batch from every reachable state (weakKey_guaranteed_any_context for batches whose keys on known curves are on the curve; C10Any.checkWeakECPrivateKey_every_batch for arbitrary neighbours). The kernel witness of non-locality is on the 40-bit toy curve with bound 16; the real-code replay (D22) uses the literal 2^32. '
            'CheckECKeySmallDifference: the boolean verdicts are exactly characterised (smallDiff_flag_iff: flagged iff another key on the same curve differs by k*G with 0 < |k| < V, V the table range) and invariant under permutation, duplication and healthy addition (smallDiff_flags_perm, smallDiff_flags_same_set, smallDiff_add_healthy; keys on-curve and reduced, SDHyp); the RECORDED relation is order-dependent (last hit wins: smallDiff_evidence_depends_on_order, reproduced on the real code) and earlier work can only add flags (smallDiff_verdict_depends_on_history). '
            'dl_history_monotone covers BatchDL logs in [0,n) of reduced on-curve points only; single_check_alone_eq_batch is the bookkeeping half and assumes a per-artefact verdict; checkAllRSA_single_independent assumes equal singleton state (orc.toRsaGlobals). KNOWN FINDING D22 (C17, recorded, patch fixes/D22-extendedbatchdl-range.diff proposed, not applied): CheckWeakECPrivateKey flags a key whose private key lies just beyond the documented range (e.g. d = 2^32 + 2000000 on secp256r1) in a batch of 9 keys but not alone — the table size, hence the range covered by luck, grows with the batch.')

_add('C12', 'Props/C12Errors.lean (29 theorems; review finding F11): for every modelled test the exact set of arguments for which it raises, and which exception (frequency, runs, block frequency, longest runs, large rank, Serial / ApEn incl. defaults n < 2 / n < 3, LinearComplexity and Scatter relative to the BM oracle, UniversalImpl / Universal, NonOverlappingTemplateMatching as a function incl. the default ladder, OverlappingTemplateMatching, BinaryMatrixRank for every shape, RandomWalk). '
            'Three exceptions are decided by a floating-point underflow and are explicit oracles of the model (Model/NistFloat.lean), recorded from the real run and quantified over in the theorems: ChiSquare rejecting the float RankDistribution (e.g. shapes (8,300,5), (40,40,33), (2,1100,1)) or the float overlapping-template matrix power (m >= 1071) with ValueError, and RandomWalk dividing by 0.0 for max_cnt >= 1075 when J >= 500. With a clean oracle the float-aware functions equal the exact ones (clean_oracle); the oracle never alters a result, it can only turn it into an error. '
            'WHEN the floats underflow is not proved (oracle + generated shapes on both sides of each boundary). This is the documented ChiSquare validation ("all expected probabilities should be strictly larger than 0.0"; the test is statistically void there) and not counted as a violation of C12. Preconditions: n < 2^1023 (Frequency(0, 2**1100) raises OverflowError); optional parameters >= 1 (BinaryMatrixRank with k = 0 and r = c >= 31 returns nan: observation, patch fixes/rank-k-zero-nan.diff proposed, not applied).')

# second review (M9): properties whose MAIN clause rests on an oracle / heuristic / distribution are labelled as mixed, like C07
CATEGORY['C05'] = 'other'   # LLL returns the planted vector; low-Hamming-weight heuristic
CATEGORY['C08'] = 'other'   # LLL returns the planted row
CATEGORY['C13'] = 'other'   # sentences 1-2 are distributional: search only

# ---- third round: guess-based completeness (C04), remaining statistic statements (C12), second review
_add('C04', 'Guess-based clauses are now COMPLETENESS THEOREMS for the repaired FactorWithGuess (Props/C04Guess.lean, Props/C04GuessCert.lean, 14 theorems; proofs Proofs/FwgComplete*.lean). fwg_complete: for any two L-bit numbers P, Q (no primality, parity or coprimality needed), a guess within E of P with GapOK(L,E): (E+2)^2*2^12 <= 2^(L/2) (E+2 <= 2^(L/4-6), i.e. E < 2^90 at L=384), and EVERY value of the float cube-root oracle with CbrtOK (n <= 8*bound^3 and 16*bound^3 <= 81*n, bound in [0.5,1.717]*n^(1/3)), '
            'FactorWithGuess returns a proper split [g, n/g]; no hypothesis on the convergents (induction over Euclid\'s algorithm: every failing admissible convergent has remainder >= 2^(L/2) and u*v <= bound, remainder 0 cannot fail). sud_complete: L >= 384, q = p + D + g for each of the six documented D, GapOK(L,g) => CheckSmallUpperDifferences returns a proper split, {p,q} for primes (sud_complete_primes, sud_check_complete). '
            'unseeded_complete: a prime p with x <= p <= x+G for a tried candidate x (listed output or msb variant), GapOK(L,G), any L-bit cofactor => CheckUnseededRand flags the key and records {p,q}. Non-vacuity: real 768/1024-bit members with kernel-checked hypotheses, and a Pratt-certified 384-bit pair. NOT proved: (1) that "q is the next prime after p+D" / "within a prime gap" implies GapOK — true for every known prime gap by > 60 bits but a number-theoretic fact, evaluated on planted next_prime members every run; '
            '(2) that the real float expression satisfies CbrtOK — checked on every modulus sent (observed bound^3/n in [1-6e-13, 1]); (3) gaps between the bound (~n^(1/8)) and the experimental frontier (~n^(1/6)) — sampled, statistics only; (4) the iteration order of the Python set of msb variants is recorded, not modelled.')
_add('C12', 'Props/C12Stats.lean (24 theorems): LinearComplexity as a function of the bit string — each block value is the true shortest-LFSR length (C14 composed end to end, M <= 2^30), the code\'s integer binning equals NIST\'s classes of T = (-1)^M (L - mu) + 2/9 (exact rationals) for even M and the mirrored classes for odd M, T is never on a class boundary, the shipped pi tables are NIST\'s (mirrored for odd M), hence the chi-square handed to igamc is NIST\'s sum (nu_i - N pi_i)^2/(N pi_i); raises InsufficientDataError exactly for M < 10 or n < 200 M. '
            'NonOverlappingTemplateMatching: per block and template the count equals the number of hits of NIST\'s scan (recursive spec, every non-overlapping template of length >= 1), mean / variance / chi-square as exact rationals, variance > 0. LargeBinaryMatrixRank: which sizes, which size x size sub-matrix (bit i*size + c), GF(2) span rank of exactly that matrix (C15 composed), p-value = table literal. LinearComplexityScatter: interleaved sequences, shortest-LFSR length of each (C14/C15 composed, sizes <= 2^30). '
            'Integer-API invariances: bitList(ReverseBits(bits,n)) = reverse, bitList(rotated int) = rotate, so the list-level invariances of Frequency, Runs, Serial / ApproximateEntropy and cusum hold for the functions of the int. Still float / oracle only: every tail function (igamc, erfc, binom.cdf) and so every p-value; the float-underflow oracles; ASYMPTOTIC_RANK_SF as a distribution, the Universal table, the OTM Markov chain; Spectral (no Lean object: the comparison |S_j|^2 < n ln 20 is between an algebraic and a transcendental number and the code decides it in float64 after an FFT — a theorem about the exact count would not be a theorem about the code). '
            'Model preconditions (parameters >= 1: step, template length m, max_cnt) are hypotheses of the raise theorems; at parameter 0 model and Python differ and nothing is claimed.')
_add('C06', 'D21, second half (found by the second review, /repo fix bd690e6): generate_key also never returns for EVEN sizes whose primes would have three or more forced zero bits ((bits // 2) % 8 >= 3, e.g. 2046, 2044, 2040, 70 bits: generate_prime draws whole random bytes below a forced top bit — product_size_never_reached). The check now regenerates only for keypairSizeOk sizes (bits even and (bits // 2) % 8 <= 2): keypair_unsupported_size, keypair_short_prime_size, keypair_gen_supported_only; a table prefix in front of every size residue modulo 16 is generated on every run under an alarm.')
_add('C18', 'D21, second half: CheckKeypairDenylist / CheckAllRSA also hung on even sizes with (bits // 2) % 8 >= 3 and a table prefix (fix bd690e6; keypair_gen_supported_only: the model consults the generator oracle only for sizes it can produce; odd AND unsupported even sizes with a table prefix are part of every C06 / C18 / RsaAll run; seeded/D21b-revert).')
_add('C08', 'KNOWN FINDING D23 (recorded, not repaired): at the property\'s own margin (signatures x biased bits >= 2 x curve size) the real checks MISS issuers whose bias is spread over few signatures — secp384r1 4 x 192 zero top bits, secp521r1 9 x 116 and 14 x 75 (prefix), secp256r1 4 x 128 (prefix): the default lattice weight 2^int(1.25*bitlen/len) is far below a wide bias and one LLL run per window is all the check tries; replayed deterministically on every run (harness/corr/c08_margin.py). '
            'With 20-24 signatures in one window at the same product 2160 of 2160 measured instances on secp256r1 / secp256k1 / secp384r1 / secp521r1 x MSB / prefix / postfix are found: that region is gated on every run (a miss is a violation with the signature set as replay).')
_add('C05', 'KNOWN FINDING D24 (recorded, not repaired): the clause "both primes have Hamming weight at most 32 => flagged" is false on the real best-first search for sparse primes that start with a run of one-bits — witness: a 1024-bit product of two primes of weight 15, CheckLowHammingWeight returns (False, []) (found by the second review, replayed every run). Primes with randomly placed bits were flagged 136/136; 8 leading ones + 3 random bits are missed in about 0.5 % of draws. '
            'The check therefore gates a FIXED corpus of low-weight keys that the unchanged tree flags (harness/corpus/c05_lhw.json; the search is deterministic, so no seed can raise a false alarm) and treats freshly drawn keys as statistics.')

_add('C08', 'SECOND REVIEW (Props/C08ChainAny.lean, 19 theorems; real secp256r1 instances Props/C08ChainAnyEx.lean, 8 theorems): (M1) in Props/C08Chain.lean sigs_*/chain_* the key position of the planted row is the natural number d; fpylll leaves the CENTRED representative (d for 2d <= n, else d - n), so that hypothesis is false for every key above n/2 although the key is found. chain_*_any / sigs_*_any / chain_lcg_any take ANY integer x = d mod n; chain_bias_family the family {d, d-n} that occurs; the solver reduces mod n so the recorded key is d. '
            'chain_bias_post: POST+CHECK need neither bias nor the signing relation (a row +-(T0,T1,..) with T1 = T0*d mod n, n not dividing T0 suffices) — hence the old chain_* also hold for unbiased nonces; all their content is the oracle hypothesis. (M2) what the bias buys is stated, not proved to suffice: PRE of every *_any theorem carries "tail entries < B(bits) = 2^(bl-bits)*w" (B strictly decreasing) and ScaleShort (2B)^M < n^(M-r) w^M (M = len for MSB/LCG, len-1 for prefix/postfix/generalized; r = 1, generalized 2), implied by the margin r*bl + 2M <= M*bits and FALSE for bits = 0 (short_forces_bias); '
            'postfix in terms of beta = max(3, float oracle), Cr50 with |entry| <= 256 and (2*256)^D < 256 n, LCG with the caller\'s bound B on the actual entries. WeightOK n^r 2^M <= w^M is the key-coordinate half and is what fails in D23 (kernel-evaluated on the replay tuples). LLLReturnsShort / sigs_msb_of_lll_short: the oracle stated key-free, bias used. Hidden hypotheses made explicit: rows of the LLL answer have >= 2 entries (hrows); Setting.checked (the Check call returned); SolvedGroup for ALL issuers of the curve group; generalized: n does not divide mult. '
            'chain_lcg_any is instantiated with the first shipped CONSTANT_FACTORY entry (Model/LcgShipped.lean, compared with /repo every run: op hnp.shipped) on a real CheckLCGNonceGMP run. STILL ORACLE: "lll.reduce returns the short row"; ScaleShort / WeightOK are sufficient-with-slack interface conditions (keys slightly outside are still found: extra.chain_statistics rows_found_outside_the_shortness_hypotheses).')
