# claims table, exec'd by mkmanifest.py
NOT_CLAIMED = {}

claim('C01',
      'Lean theorems (Props/C01.lean): for every n, every parameter and every oracle answer (LLL basis, float cube root), '
      'each of the nine factor-returning functions of rsa_util / special_case_factoring returns only lists [x,y] with x*y = n '
      '(gcd-derived ones: g | n and 1 < g < n), and factors come only together with the weak verdict. '
      'Model tied to /repo by differential correspondence over ~9k generated moduli/oracle answers per run, incl. adversarial LLL rows.',
      'Trusted: Lean kernel, correspondence harness, shims. Oracles need no assumption for soundness. Check-level bookkeeping (AttachFactors, CheckGCD record) is covered under C16/C03.',
      'Lean 4 proof of soundness over an executable model + differential correspondence with the Python implementation',
      'DESIGN.md section 5 C01')
