"""Section `checks` of Generated/Consts.lean: the active-check registry of paranoid.py.

Regenerated from the CURRENT /repo on every run:
  * the five `_ACTIVE_*` tuples and the three `Get*AllChecks()` dictionaries (in the
    iteration order `_CheckArtifacts` uses) with every check's `check_name` and `severity`
    obtained by INSTANTIATING the check through the `paranoid.Get*Checks()` singletons;
  * three skeleton flags per check read off the source of its `Check` method:
      needsCurve          -- artefacts whose curve is not in CURVE_FACTORY are skipped
                             (`if curve is None: continue`), i.e. NO entry is written
      unknownIfUnfactored -- `test_result.severity = ...SEVERITY_UNKNOWN` override
      issuer              -- runs `paranoid.CheckAllEC` on the issuer keys
    (the flags are a reading of the source; the correspondence run of C16 validates them:
    a wrong flag makes the model mispredict the entries of the real entry points);
  * `version.__version__`, SEVERITY_UNKNOWN and the curve ids with a non-None CURVE_FACTORY
    entry.
"""
import inspect
import json
import re


def _flags(check):
  src = inspect.getsource(type(check).Check)
  # strip comment lines so that `if curve is None:` directly precedes `continue`
  lines = [l for l in src.split('\n') if not l.strip().startswith('#')]
  src_nc = '\n'.join(lines)
  needs_curve = bool(re.search(r'if\s+curve\s+is\s+None\s*:\s*\n\s*continue', src_nc))
  unknown = bool(re.search(r'test_result\.severity\s*=\s*[\w.]*SEVERITY_UNKNOWN', src_nc))
  issuer = 'CheckAllEC' in src_nc
  return needs_curve, unknown, issuer


def _lb(b):
  return 'true' if b else 'false'


def _spec(check):
  nc, un, iss = _flags(check)
  if check.severity is None:
    raise ValueError('check %s has no severity' % check.check_name)
  return '(%s, %d, %s, %s, %s)' % (json.dumps(check.check_name), int(check.severity),
                                   _lb(nc), _lb(un), _lb(iss))


def _list(name, checks):
  body = ',\n  '.join(_spec(c) for c in checks)
  return ('def %s : List (String × Nat × Bool × Bool × Bool) := [\n  %s]\n' % (name, body)
          if checks else 'def %s : List (String × Nat × Bool × Bool × Bool) := []\n' % name)


def sec_checks():
  from paranoid_crypto import paranoid_pb2, version
  from paranoid_crypto.lib import paranoid, ec_util
  out = []
  out.append('/-- `version.__version__` -/')
  out.append('def libVersion : String := %s' % json.dumps(version.__version__))
  out.append('def severityUnknown : Nat := %d' % int(paranoid_pb2.SeverityType.SEVERITY_UNKNOWN))
  out.append('def severityNames : List (String × Nat) := [%s]' % ', '.join(
      '(%s, %d)' % (json.dumps(k), v) for k, v in paranoid_pb2.SeverityType.items()))
  out.append('/-- curve ids `c` with `CURVE_FACTORY.get(c) is not None` -/')
  out.append('def knownCurves : List Nat := [%s]' % ', '.join(
      str(int(k)) for k, v in ec_util.CURVE_FACTORY.items() if v is not None))
  out.append('/-- entries: (check_name, severity, needsCurve, unknownIfUnfactored, issuer) -/')

  def by_classes(classes, registry):
    # the singleton instance registered under the class' name
    res = []
    for cls in classes:
      inst = [c for c in registry.values() if type(c) is cls]
      if len(inst) != 1:
        raise ValueError('active check class %s not instantiated exactly once' % cls.__name__)
      res.append(inst[0])
    return res

  rsa_all = paranoid.GetRSAAllChecks()
  ec_all = paranoid.GetECAllChecks()
  ecdsa_all = paranoid.GetECDSAAllChecks()
  for key, chk in list(rsa_all.items()) + list(ec_all.items()) + list(ecdsa_all.items()):
    if key != chk.check_name:
      raise ValueError('registry key %r differs from check_name %r' % (key, chk.check_name))
  out.append(_list('rsaSingleChecks', by_classes(paranoid._ACTIVE_RSA_SINGLE_CHECKS, rsa_all)))
  out.append(_list('rsaAggregateChecks', by_classes(paranoid._ACTIVE_RSA_AGGREGATE_CHECKS, rsa_all)))
  out.append(_list('ecSingleChecks', by_classes(paranoid._ACTIVE_EC_SINGLE_CHECKS, ec_all)))
  out.append(_list('ecAggregateChecks', by_classes(paranoid._ACTIVE_EC_AGGREGATE_CHECKS, ec_all)))
  out.append(_list('ecdsaSigChecks', by_classes(paranoid._ACTIVE_ECDSA_SIG_CHECKS, ecdsa_all)))
  out.append('/-- `list(GetRSAAllChecks().items())`, the order `CheckAllRSA` runs them -/')
  out.append(_list('rsaAllChecks', list(rsa_all.values())))
  out.append(_list('ecAllChecks', list(ec_all.values())))
  out.append(_list('ecdsaAllChecks', list(ecdsa_all.values())))
  return '\n'.join(out) + '\n'


SECTIONS = [sec_checks]
