"""Section of Generated/Consts.lean: every curve of ec_util.CURVE_FACTORY as it is in /repo NOW.

Emits (no imports needed; Props/C11Curves.lean turns the tuples into `Paranoid.Ec.Curve`):
  def ecCurve_<name> : Int × Int × Nat × Int × Int × Nat × Nat := (a, b, mod, gx, gy, n, h)
  def ecCurveNames   : List String                 -- names of the non-None entries, in dict order
  def ecCurveTable   : List (Nat × String)         -- CurveType id -> curve name
  def ecCurveNone    : List (Nat × String)         -- CurveType ids (with enum name) mapped to None
  def ecCurveUnmapped: List (Nat × String)         -- CurveType values absent from CURVE_FACTORY
  def ecCurveFactory : List (Nat × Option (Int × Int × Nat × Int × Int × Nat × Nat))
                                                   -- CURVE_FACTORY.items() in dict order, None entries included
"""
import re


def _int(x):
  x = int(x)
  return '(%d : Int)' % x if x >= 0 else '(-%d : Int)' % -x


def curve_entries():
  """[(id, enum_name, curve_or_None)] in CURVE_FACTORY order, plus the enum's other values."""
  from paranoid_crypto import paranoid_pb2
  from paranoid_crypto.lib import ec_util
  ct = paranoid_pb2.CurveType
  by_num = {v: k for k, v in ct.items()}
  ents = [(int(k), by_num.get(int(k), '?'), v) for k, v in ec_util.CURVE_FACTORY.items()]
  unmapped = [(int(v), k) for k, v in ct.items() if v not in ec_util.CURVE_FACTORY]
  return ents, unmapped


def lean_name(name):
  return re.sub(r'\W', '_', name)


def sec_curves():
  ents, unmapped = curve_entries()
  out = []
  names, table, none = [], [], []
  for cid, ename, c in ents:
    if c is None:
      none.append((cid, ename))
      continue
    for v in (c.mod, c.n, c.h):
      if int(v) < 0:
        raise ValueError('negative mod/n/h for curve %s' % c.name)
    out.append('def ecCurve_%s : Int × Int × Nat × Int × Int × Nat × Nat :=\n  (%s, %s, %d, %s, %s, %d, %d)' % (
        lean_name(c.name), _int(c.a), _int(c.b), int(c.mod), _int(c.g[0]), _int(c.g[1]),
        int(c.n), int(c.h)))
    names.append(c.name)
    table.append((cid, c.name))
  out.append('def ecCurveNames : List String := [%s]' % ', '.join('"%s"' % n for n in names))
  out.append('def ecCurveTable : List (Nat × String) := [%s]' %
             ', '.join('(%d, "%s")' % t for t in table))
  out.append('def ecCurveNone : List (Nat × String) := [%s]' %
             ', '.join('(%d, "%s")' % t for t in none))
  out.append('def ecCurveUnmapped : List (Nat × String) := [%s]' %
             ', '.join('(%d, "%s")' % t for t in sorted(unmapped)))
  out.append('def ecCurveFactory : List (Nat × Option (Int × Int × Nat × Int × Int × Nat × Nat)) := [%s]' %
             ',\n  '.join('(%d, none)' % cid if c is None else '(%d, some ecCurve_%s)' % (cid, lean_name(c.name))
                          for cid, _, c in ents))
  return '\n'.join(out) + '\n'


SECTIONS = [sec_curves]
