"""Sections of Generated/Consts.lean for property C08: per-entry metadata of
lcg_constants.CONSTANT_FACTORY (not the constants themselves) and the group orders of
ec_util.CURVE_FACTORY as the HNP code sees them."""


def sec_lcg_meta():
  from paranoid_crypto.lib import lcg_constants
  rows = []
  for e in lcg_constants.CONSTANT_FACTORY:
    rows.append('(%d, %d, %d, %d, %d, %d, %d)' % (
        int(e['curve']), e['lcg'].value, e['sample_size'], e['min_signatures'],
        e['sliding_window_size'], e['w'], len(e['constants'])))
  return ('/-- `(curve, lcg, sample_size, min_signatures, sliding_window_size, w, len(constants))` of every\n'
          'entry of `lcg_constants.CONSTANT_FACTORY`, in order. -/\n'
          'def lcgMeta : List (Nat × Nat × Nat × Nat × Nat × Nat × Nat) :=\n  [%s]\n' % ',\n   '.join(rows))


def sec_curve_orders():
  from paranoid_crypto.lib import ec_util
  rows = []
  for cid, c in ec_util.CURVE_FACTORY.items():
    if c is not None:
      rows.append('(%d, %d)' % (int(cid), int(c.n)))
  return ('/-- `(curve id, group order n)` for every non-`None` entry of `ec_util.CURVE_FACTORY`. -/\n'
          'def hnpCurveOrders : List (Nat × Nat) :=\n  [%s]\n' % ',\n   '.join(rows))


SECTIONS = [sec_lcg_meta, sec_curve_orders]
