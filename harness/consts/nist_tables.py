"""Sections of Generated/Consts.lean for the NIST SP 800-22 tests (property C12).

The probability tables of nist_suite.py live INSIDE function bodies, so they cannot be read as
attributes.  A small `ast` walk finds the literal-only assignments / dict displays by function
and target name and turns every numeric literal into an EXACT rational taken from the literal's
source text (`0.2148` -> 2148/10000, `1 / 96` -> 1/96, `4.6664e-05` -> 46664/10^9).
If a table is not found the section raises (gen_consts reports a broken obligation; nothing
is silently skipped).
"""
import ast
import os
from fractions import Fraction

import framework as fw

NS = 'Nist'


def _src(rel):
  p = os.path.join(fw.REPO, 'paranoid_crypto', 'lib', 'randomness_tests', rel)
  s = open(p).read()
  return s, ast.parse(s)


def _func(tree, name):
  for node in ast.walk(tree):
    if isinstance(node, ast.FunctionDef) and node.name == name:
      return node
  raise LookupError('function %s not found' % name)


def _assigns(fn, target):
  """all `target = <expr>` value nodes inside fn (in source order)."""
  out = []
  for node in ast.walk(fn):
    if isinstance(node, ast.Assign) and len(node.targets) == 1:
      t = node.targets[0]
      if isinstance(t, ast.Name) and t.id == target:
        out.append(node.value)
  out.sort(key=lambda v: (v.lineno, v.col_offset))
  if not out:
    raise LookupError('assignment to %s not found in %s' % (target, fn.name))
  return out


def exact(src, node):
  """literal-only expression -> int / Fraction / list / dict / tuple (exact)."""
  if isinstance(node, ast.Constant):
    if isinstance(node.value, bool) or node.value is None:
      return node.value
    if isinstance(node.value, int):
      return node.value
    if isinstance(node.value, float):
      return Fraction(ast.get_source_segment(src, node).replace('_', ''))
    return node.value
  if isinstance(node, (ast.List, ast.Tuple)):
    return [exact(src, e) for e in node.elts]
  if isinstance(node, ast.Dict):
    return {exact(src, k): exact(src, v) for k, v in zip(node.keys, node.values)}
  if isinstance(node, ast.UnaryOp) and isinstance(node.op, ast.USub):
    return -exact(src, node.operand)
  if isinstance(node, ast.BinOp):
    a, b = exact(src, node.left), exact(src, node.right)
    if isinstance(node.op, ast.Div):
      return Fraction(a) / Fraction(b)
    if isinstance(node.op, ast.Mult):
      return a * b
    if isinstance(node.op, ast.Add):
      return a + b
    if isinstance(node.op, ast.Sub):
      return a - b
    if isinstance(node.op, ast.Pow):
      return a ** b
  raise ValueError('not a literal-only expression: %s' % ast.dump(node)[:80])


# ---------------------------------------------------------------------------
# harvested tables (also used by harness/corr/c12.py, so that model, tail evaluator and
# table clauses all see what the code says NOW)

def tables():
  src, tree = _src('nist_suite.py')
  t = {}
  t['longest_runs_params'] = exact(src, _assigns(_func(tree, 'LongestRuns'), 'params')[0])
  t['rank_precomputed'] = exact(src, _assigns(_func(tree, 'RankDistribution'), 'precomputed')[0])
  t['universal_table'] = exact(src, _assigns(_func(tree, 'UniversalDistribution'),
                                             'distribution_table')[0])
  t['universal_min_n'] = exact(src, _assigns(_func(tree, 'Universal'), 'min_n')[0])
  pis = _assigns(_func(tree, 'LinearComplexityImpl'), 'pi')
  if len(pis) != 2:
    raise LookupError('expected two pi tables in LinearComplexityImpl')
  t['lincomp_pi_even'] = exact(src, pis[0])
  t['lincomp_pi_odd'] = exact(src, pis[1])
  src2, tree2 = _src('extended_nist_suite.py')
  for node in tree2.body:
    if isinstance(node, ast.Assign) and getattr(node.targets[0], 'id', '') == 'ASYMPTOTIC_RANK_SF':
      t['asymptotic_rank_sf'] = exact(src2, node.value)
  if 'asymptotic_rank_sf' not in t:
    raise LookupError('ASYMPTOTIC_RANK_SF not found')
  return t


def int_literals(funcs=None, rel='nist_suite.py'):
  """every integer literal appearing in the given functions (boundary pool, DESIGN 3.6)."""
  src, tree = _src(rel)
  out = {}
  for node in ast.walk(tree):
    if isinstance(node, ast.FunctionDef) and (funcs is None or node.name in funcs):
      s = set()
      for c in ast.walk(node):
        if isinstance(c, ast.Constant) and isinstance(c.value, int) and not isinstance(c.value, bool):
          s.add(c.value)
      out[node.name] = sorted(s)
  return out


# ---------------------------------------------------------------------------
# Lean rendering

def q(x):
  x = Fraction(x)
  return '(%d, %d)' % (x.numerator, x.denominator)


def qdec(x):
  """decimal literal as (numerator, power-of-ten denominator), NOT reduced: keeps the
  printed precision visible."""
  x = Fraction(x)
  den = 1
  while (x * den).denominator != 1:
    den *= 10
  return '(%d, %d)' % (x * den, den)


def qlist(xs, f=q):
  return '[' + ', '.join(f(x) for x in xs) + ']'


def sec_nist_tables():
  t = tables()
  o = ['namespace %s' % NS,
       '/-- `LongestRuns.params`: (min_n, M, v_lower, v_upper, pi) with pi as (num, den). -/',
       'def longestRunsParams : List (Nat × Nat × Nat × Nat × List (Nat × Nat)) := [']
  rows = []
  for (mn, m, vl, vu, pi) in t['longest_runs_params']:
    rows.append('  (%d, %d, %d, %d, %s)' % (mn, m, vl, vu, qlist(pi, qdec)))
  o.append(',\n'.join(rows) + ']')
  o.append('/-- `RankDistribution.precomputed` (asymptotic, square matrices). -/')
  o.append('def rankPrecomputed : List (Nat × Nat) := %s' % qlist(t['rank_precomputed'], qdec))
  o.append('/-- `UniversalDistribution.distribution_table`: L ↦ (expected value, variance). -/')
  o.append('def universalTable : List (Nat × (Nat × Nat) × (Nat × Nat)) := [' + ', '.join(
      '(%d, %s, %s)' % (k, qdec(v[0]), qdec(v[1])) for k, v in sorted(t['universal_table'].items())) + ']')
  o.append('/-- `Universal.min_n`: L ↦ minimal n. -/')
  o.append('def universalMinN : List (Nat × Nat) := [' + ', '.join(
      '(%d, %d)' % kv for kv in sorted(t['universal_min_n'].items())) + ']')
  o.append('/-- `LinearComplexityImpl.pi` for even / odd block size. -/')
  o.append('def linCompPiEven : List (Nat × Nat) := %s' % qlist(t['lincomp_pi_even']))
  o.append('def linCompPiOdd : List (Nat × Nat) := %s' % qlist(t['lincomp_pi_odd']))
  o.append('/-- `extended_nist_suite.ASYMPTOTIC_RANK_SF` as (num, 10^k). -/')
  o.append('def asymptoticRankSf : List (Nat × Nat) := %s' % qlist(t['asymptotic_rank_sf'], qdec))
  o.append('end %s' % NS)
  return '\n'.join(o) + '\n'


SECTIONS = [sec_nist_tables]
