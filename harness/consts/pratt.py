"""Section `pratt` of Generated/Consts.lean: Pratt (Lucas) primality certificates for the field
prime `p` and the group order `n` of every curve of ec_util.CURVE_FACTORY as it is in /repo NOW.

For each of the 18 numbers `q` (read through consts/curves.py) a certificate is a flat chain of
Lucas steps in dependency order, `(prime, witness a, [(r, k)])` with `prime - 1 = prod r^k`, every
`r >= 2^16` being the subject of an earlier step. The chain is re-checked by the Lean kernel on
every build (Proofs/Pratt.lean `prattCheck`, Proofs/PrattCurves.lean); nothing computed here is
trusted. Emitted (no imports needed; Proofs/PrattCurves.lean turns the tuples into `Pratt.Cert`):

  def pratt_<curve>_<p|n> : Nat × List (Nat × Nat × List (Nat × Nat)) := (q, chain)
        -- chain = [] when no certificate could be produced (then `prattCheck` is false)
  def prattStatus : List (String × String × Bool × String)
        -- (curve, "p" | "n", certified, reason when not certified)

Finding a certificate needs the full factorisation of `q - 1`, recursively. The search (trial
division, Pollard rho, p-1, ECM on all cores with gmpy2; `VERIF_PRATT_BUDGET` seconds per number,
default 150) runs in a subprocess. Successful factorisations — and, to keep later runs fast, failed
attempts with the budget that was spent — are cached in harness/consts/pratt_cache.json. The cache
is a hint only: every entry is re-validated here (product, gmpy2.is_prime of each factor) and the
resulting certificate is checked by the kernel. `VERIF_PRATT_RETRY=1` retries failed numbers.

Command line:  python pratt.py factor <n> <budget>     (the subprocess entry point)
               python pratt.py status                  (prints which primes are certified)
"""
import json
import math
import os
import random
import subprocess
import sys
import time

import gmpy2
from gmpy2 import mpz

SMALL = 1 << 16          # primes below this are certified by trial division in Lean (smallPrime)
HERE = os.path.dirname(os.path.abspath(__file__))
CACHE = os.path.join(HERE, 'pratt_cache.json')
DEFAULT_BUDGET = 150.0


# ---------------------------------------------------------------------------------------------
# factoring search (untrusted)

def _primes_upto(n):
  sieve = bytearray([1]) * (n + 1)
  sieve[0:2] = b'\0\0'
  for i in range(2, int(n ** 0.5) + 1):
    if sieve[i]:
      sieve[i * i::i] = bytearray(len(sieve[i * i::i]))
  return sieve


_SIEVES = {}


def _sieve(lim):
  for k in sorted(_SIEVES):
    if k >= lim:
      return _SIEVES[k]
  _SIEVES[lim] = _primes_upto(lim)
  return _SIEVES[lim]


_PRIMES = {}


def _primes(lim):
  if lim not in _PRIMES:
    s = _sieve(lim)
    _PRIMES[lim] = [i for i in range(lim + 1) if s[i]]
  return _PRIMES[lim]


def trial(n, bound=1 << 20):
  fs = {}
  n = mpz(n)
  for p in _primes(bound):
    if p * p > n:
      break
    while n % p == 0:
      fs[p] = fs.get(p, 0) + 1
      n //= p
  return fs, int(n)


def rho_brent(n, iters, rng):
  n = mpz(n)
  if n % 2 == 0:
    return 2
  y, c, m = mpz(rng.randrange(1, n)), mpz(rng.randrange(1, n)), 256
  g, r, q = mpz(1), 1, mpz(1)
  x = ys = y
  done = 0
  while g == 1 and done < iters:
    x = y
    for _ in range(r):
      y = (y * y + c) % n
    k = 0
    while k < r and g == 1:
      ys = y
      for _ in range(min(m, r - k)):
        y = (y * y + c) % n
        q = q * abs(x - y) % n
      g = gmpy2.gcd(q, n)
      k += m
      done += m
    r *= 2
  if g == n:
    g = mpz(1)
    while g == 1:
      ys = (ys * ys + c) % n
      g = gmpy2.gcd(abs(x - ys), n)
  return int(g) if 1 < g < n else None


def pm1(n, B1):
  n = mpz(n)
  a = mpz(3)
  for p in _primes(B1):
    a = gmpy2.powmod(a, p ** int(math.log(B1, p)), n)
  g = gmpy2.gcd(a - 1, n)
  return int(g) if 1 < g < n else None


def ecm_curve(n, B1, B2, sigma):
  """One curve of Lenstra's method (Montgomery form, Suyama parametrisation, standard
  continuation). Returns a non-trivial factor of n or None."""
  n = mpz(n)
  sigma = mpz(sigma)
  u = (sigma * sigma - 5) % n
  v = (4 * sigma) % n
  x0 = u * u * u % n
  z0 = v * v * v % n
  t = v - u
  num = t * t * t * (3 * u + v) % n
  den = 16 * x0 * v % n
  g = gmpy2.gcd(den, n)
  if g != 1:
    return int(g) if g < n else None
  a24 = num * gmpy2.invert(den, n) % n   # (A + 2) / 4

  def dbl(X, Z):
    s = X + Z
    s = s * s % n
    d = X - Z
    d = d * d % n
    t = s - d
    return s * d % n, t * (d + a24 * t) % n

  def add(X1, Z1, X2, Z2, Xd, Zd):
    a = (X1 - Z1) * (X2 + Z2) % n
    b = (X1 + Z1) * (X2 - Z2) % n
    s = a + b
    d = a - b
    return Zd * (s * s % n) % n, Xd * (d * d % n) % n

  def ladder(k, X, Z):
    if k == 1:
      return X, Z
    X0, Z0 = X, Z
    X1, Z1 = dbl(X, Z)
    for bit in bin(k)[3:]:
      if bit == '1':
        X0, Z0 = add(X0, Z0, X1, Z1, X, Z)
        X1, Z1 = dbl(X1, Z1)
      else:
        X1, Z1 = add(X0, Z0, X1, Z1, X, Z)
        X0, Z0 = dbl(X0, Z0)
    return X0, Z0

  X, Z = x0, z0
  k = 1
  for p in _primes(B1):
    pe = p
    while pe * p <= B1:
      pe *= p
    k *= pe
    if k.bit_length() > 2000:
      X, Z = ladder(k, X, Z)
      k = 1
  if k > 1:
    X, Z = ladder(k, X, Z)
  g = gmpy2.gcd(Z, n)
  if g != 1:
    return int(g) if g < n else None
  if B2 <= B1:
    return None
  # stage 2: primes B1 < q <= B2 written q = k*D ± j
  D = 2310
  X1, Z1 = X, Z
  X2, Z2 = dbl(X, Z)
  Xp, Zp = X1, Z1
  Xc, Zc = add(X2, Z2, X1, Z1, X1, Z1)
  baby = {1: (X1, Z1), 3: (Xc, Zc)}
  j = 3
  while j + 2 <= D // 2 + 2:
    Xn, Zn = add(Xc, Zc, X2, Z2, Xp, Zp)
    Xp, Zp, Xc, Zc = Xc, Zc, Xn, Zn
    j += 2
    baby[j] = (Xc, Zc)
  baby = [(j, XZ[0], XZ[1]) for j, XZ in baby.items() if math.gcd(j, D) == 1]
  XD, ZD = ladder(D, X, Z)
  k0 = max(1, (B1 + D // 2) // D)
  Xa, Za = ladder(k0, XD, ZD)
  if k0 > 1:
    Xb, Zb = ladder(k0 - 1, XD, ZD)
  else:
    Xb, Zb = None, None
  kmax = B2 // D + 1
  sieve = _sieve(kmax * D + D)
  acc = mpz(1)
  kk = k0
  while kk <= kmax:
    base = kk * D
    for j, Xj, Zj in baby:
      if sieve[base + j] or sieve[base - j]:
        acc = acc * (Xa * Zj - Xj * Za) % n
    if kk % 64 == 0:
      g = gmpy2.gcd(acc, n)
      if g != 1:
        return int(g) if g < n else None
    if Xb is None:
      Xn, Zn = dbl(XD, ZD)
    else:
      Xn, Zn = add(Xa, Za, XD, ZD, Xb, Zb)
    Xb, Zb, Xa, Za = Xa, Za, Xn, Zn
    kk += 1
  g = gmpy2.gcd(acc, n)
  if g != 1:
    return int(g) if g < n else None
  return None


def _ecm_worker(args):
  n, B1, B2, seed, ncurves, deadline = args
  rng = random.Random(seed)
  for _ in range(ncurves):
    if time.time() > deadline:
      return None
    f = ecm_curve(n, B1, B2, rng.randrange(6, 1 << 62))
    if f:
      return f
  return None


# (B1, B2, curves): roughly the t20 … t35 levels
ECM_LEVELS = [(2000, 200000, 32), (11000, 1100000, 96), (50000, 5000000, 256),
              (250000, 25000000, 640), (1000000, 100000000, 1600)]


def _split(n, pool, deadline, log):
  rng = random.Random(n)
  f = rho_brent(n, 200000, rng)
  if f:
    return f
  f = pm1(n, 1000000)
  if f:
    return f
  for B1, B2, nc in ECM_LEVELS:
    if time.time() > deadline:
      break
    jobs = [(n, B1, B2, rng.randrange(1 << 60), 2, deadline) for _ in range((nc + 1) // 2)]
    t = time.time()
    it = pool.imap_unordered(_ecm_worker, jobs)
    for r in it:
      if r:
        log('ecm B1=%d: %d-digit factor of a %d-digit number after %.1fs' % (
            B1, len(str(r)), len(str(n)), time.time() - t))
        return r
    log('ecm B1=%d: %d curves without a factor, %.1fs' % (B1, nc, time.time() - t))
  return None


def factor_search(n, budget, log=lambda s: None):
  """(factors {prime: exponent}, [composite cofactors that resisted]) of n."""
  from multiprocessing import Pool
  deadline = time.time() + budget
  fs, m = trial(n)
  todo = [m] if m > 1 else []
  bad = []
  pool = None
  try:
    while todo:
      m = todo.pop()
      if gmpy2.is_prime(m, 40):
        fs[m] = fs.get(m, 0) + 1
        continue
      if gmpy2.is_power(m):
        for k in range(2, m.bit_length() + 1):
          r, exact = gmpy2.iroot(mpz(m), k)
          if exact:
            todo += [int(r)] * k
            break
        continue
      if pool is None:
        pool = Pool(os.cpu_count() or 1)
      f = _split(m, pool, deadline, log)
      if f is None:
        bad.append(m)
        continue
      todo += [f, m // f]
      # a found factor makes the remaining curves of that level useless
      pool.terminate()
      pool = None
  finally:
    if pool is not None:
      pool.terminate()
  return fs, bad


def factor_subprocess(n, budget):
  """Runs the search in a fresh interpreter (own process pool, hard timeout)."""
  try:
    r = subprocess.run([sys.executable, os.path.abspath(__file__), 'factor', str(n), str(budget)],
                       capture_output=True, text=True, timeout=budget * 1.5 + 60)
    out = json.loads(r.stdout.strip().split('\n')[-1])
    return {int(k): int(v) for k, v in out['factors'].items()}, [int(x) for x in out['bad']]
  except Exception as e:  # noqa  (timeout, crash: treated as "not factored")
    sys.stderr.write('pratt: factor subprocess failed for %d: %r\n' % (n, e))
    return {}, [int(n)]


# ---------------------------------------------------------------------------------------------
# cache

def load_cache():
  try:
    c = json.load(open(CACHE))
  except Exception:  # noqa
    c = {}
  c.setdefault('factored', {})
  c.setdefault('failed', {})
  return c


def save_cache(c):
  if os.environ.get('VERIF_PRATT_WRITE_CACHE', '1') == '0':
    return
  out = {'_doc': 'q -> full factorisation of q-1 (hint only; re-validated by pratt.py and by the '
                 'Lean kernel). failed: q -> composite cofactors of q-1 left after `budget` seconds.',
         'factored': {k: c['factored'][k] for k in sorted(c['factored'], key=int)},
         'failed': {k: c['failed'][k] for k in sorted(c['failed'], key=int)}}
  tmp = CACHE + '.tmp%d' % os.getpid()
  with open(tmp, 'w') as f:
    json.dump(out, f, indent=1)
    f.write('\n')
  os.replace(tmp, CACHE)


def _valid(q, fs):
  """fs is the complete factorisation of q - 1 into (probable) primes."""
  try:
    prod = 1
    for r, k in fs.items():
      if k < 1 or r < 2 or not gmpy2.is_prime(r, 40):
        return False
      prod *= r ** k
    return prod == q - 1
  except Exception:  # noqa
    return False


class Search:
  """factorisations of q - 1, from the cache or from a fresh search."""

  def __init__(self):
    self.cache = load_cache()
    self.budget = float(os.environ.get('VERIF_PRATT_BUDGET', DEFAULT_BUDGET))
    self.retry = os.environ.get('VERIF_PRATT_RETRY', '0') == '1'
    self.dirty = False

  def factors_of_pred(self, q):
    """({r: k}, None) or (None, reason)."""
    key = str(q)
    ent = self.cache['factored'].get(key)
    if ent is not None:
      fs = {int(r): int(k) for r, k in ent.items()}
      if _valid(q, fs):
        return fs, None
      del self.cache['factored'][key]
      self.dirty = True
    if q - 1 < (1 << 64):
      fs, rest = trial(q - 1)
      todo, bad = ([rest] if rest > 1 else []), []
      rng = random.Random(q)
      while todo:
        m = todo.pop()
        if gmpy2.is_prime(m, 40):
          fs[m] = fs.get(m, 0) + 1
          continue
        f = None
        for _ in range(20):
          f = rho_brent(m, 1 << 22, rng)
          if f:
            break
        if not f:
          bad.append(m)
        else:
          todo += [f, m // f]
    else:
      fail = self.cache['failed'].get(key)
      if fail is not None and not self.retry and float(fail.get('budget', 0)) >= self.budget:
        return None, 'cofactor(s) %s of %d - 1 not factored within %gs' % (
            ', '.join('%s (%d digits)' % (c, len(c)) for c in fail['cofactors']), q,
            float(fail['budget']))
      fs, bad = factor_subprocess(q - 1, self.budget)
    if not bad and _valid(q, fs):
      self.cache['factored'][key] = {str(r): k for r, k in sorted(fs.items())}
      self.cache['failed'].pop(key, None)
      self.dirty = True
      return fs, None
    self.cache['failed'][key] = {'cofactors': [str(b) for b in bad], 'budget': self.budget}
    self.dirty = True
    return None, 'cofactor(s) %s of %d - 1 not factored within %gs' % (
        ', '.join('%d (%d digits)' % (b, len(str(b))) for b in bad), q, self.budget)

  def finish(self):
    if self.dirty:
      save_cache(self.cache)
      self.dirty = False


# ---------------------------------------------------------------------------------------------
# certificates

def witness(q, fs):
  """smallest a >= 2 of order q - 1 modulo q."""
  for a in range(2, 100000):
    if gmpy2.powmod(a, q - 1, q) != 1:
      return None      # q is not prime
    if all(gmpy2.powmod(a, (q - 1) // r, q) != 1 for r in fs):
      return a
  return None


def chain_for(q, search):
  """(chain, None) or (None, reason); chain = [(prime, a, [(r, k)])] in dependency order."""
  if not gmpy2.is_prime(q, 64):
    return None, '%d is not prime (gmpy2.is_prime)' % q
  chain, seen = [], set()

  def rec(p, top):
    if p in seen or (p < SMALL and not top):
      return None
    fs, why = search.factors_of_pred(p)
    if fs is None:
      return why
    for r in sorted(fs):
      why = rec(r, False)
      if why:
        return why
    a = witness(p, fs)
    if a is None:
      return 'no primitive root found for %d' % p
    seen.add(p)
    chain.append((p, a, sorted(fs.items())))
    return None

  why = rec(q, True)
  if why:
    return None, why
  return chain, None


def curve_primes():
  """[(curve name, 'p' | 'n', value)] in CURVE_FACTORY order."""
  from consts import curves
  ents, _ = curves.curve_entries()
  out = []
  for _, _, c in ents:
    if c is not None:
      out.append((c.name, 'p', int(c.mod)))
      out.append((c.name, 'n', int(c.n)))
  return out


_RESULT = None


def certificates(force=False):
  """[(curve, which, q, chain or None, reason)] — computed once per process."""
  global _RESULT
  if _RESULT is None or force:
    s = Search()
    res = []
    for name, which, q in curve_primes():
      chain, why = chain_for(q, s)
      res.append((name, which, q, chain, why or ''))
    s.finish()
    _RESULT = res
  return _RESULT


def status():
  """for harness/corr/c11.py: {'certified': [...], 'hypothesis': {name: reason}}."""
  cert, hyp = [], {}
  for name, which, q, chain, why in certificates():
    if chain is not None:
      cert.append('%s.%s' % (name, which))
    else:
      hyp['%s.%s' % (name, which)] = why
  return dict(certified=cert, hypothesis=hyp)


def _lean_chain(chain):
  return '[' + ',\n   '.join('(%d, %d, [%s])' % (p, a, ', '.join('(%d, %d)' % rk for rk in fs))
                             for p, a, fs in chain) + ']'


def sec_pratt():
  from consts import curves
  out = []
  stat = []
  for name, which, q, chain, why in certificates(force=True):
    out.append('def pratt_%s_%s : Nat × List (Nat × Nat × List (Nat × Nat)) :=\n  (%d,\n   %s)' % (
        curves.lean_name(name), which, q, _lean_chain(chain or [])))
    stat.append('("%s", "%s", %s, "%s")' % (name, which, 'true' if chain is not None else 'false',
                                             why.replace('\\', '\\\\').replace('"', '\\"')))
  out.append('def prattStatus : List (String × String × Bool × String) := [\n  %s]' %
             ',\n  '.join(stat))
  return '\n'.join(out) + '\n'


SECTIONS = [sec_pratt]


if __name__ == '__main__':
  if len(sys.argv) >= 4 and sys.argv[1] == 'factor':
    fs_, bad_ = factor_search(int(sys.argv[2]), float(sys.argv[3]),
                              log=lambda s: sys.stderr.write('pratt: ' + s + '\n'))
    print(json.dumps({'factors': {str(k): v for k, v in fs_.items()}, 'bad': [str(b) for b in bad_]}))
  else:
    sys.path.insert(0, os.path.dirname(HERE))
    import shims
    shims.install()      # makes /repo importable
    st = status()
    print('kernel-certified (%d): %s' % (len(st['certified']), ' '.join(st['certified'])))
    for k_, v_ in st['hypothesis'].items():
      print('hypothesis: %s: %s' % (k_, v_))
