"""Section of Generated/Consts.lean: the generator registry of randomness_tests/rng.py.

For every name in rng.RNGS: the class that implements RandomBits (first class in the MRO
defining it) and the integer attributes of the instance, in a fixed order per class. A class
the table below does not know is emitted with all its integer attributes sorted by name; the
model driver answers `unknown-kind` for it, which is a broken correspondence, never a skip."""

ATTRS = {
    'Urandom': [],
    'Mt19937': [],
    'Shake128': [],
    'TruncLcgRand': ['output_size', 'a', 'c'],
    'XorShift128plus': [],
    'XorShiftStar': [],
    'Xorwow': [],
    'JavaRandom': [],
    'LcgNist': ['a'],
    'Mwc': ['a', 'b', 'ab1', 'output_bits'],
    'NumpyRng': [],
    'Lehmer': ['a', 'mod', 'bits'],
    'SubsetSum': ['bits', 'n'],
}


def impl_class(obj):
  for c in type(obj).__mro__:
    if 'RandomBits' in c.__dict__:
      return c.__name__
  return type(obj).__name__


def entry(name, obj):
  cls = impl_class(obj)
  d = {k: v for k, v in vars(obj).items() if isinstance(v, int) and not isinstance(v, bool)}
  if cls in ATTRS and set(ATTRS[cls]) == set(d):
    vals = [d[k] for k in ATTRS[cls]]
  else:
    if cls in ATTRS:
      cls = cls + '?attrs=' + '+'.join(sorted(d))
    vals = [d[k] for k in sorted(d)]
  return name, cls, vals


def registry():
  from paranoid_crypto.lib.randomness_tests import rng
  return [entry(name, rng.RNGS[name]) for name in rng.RngNames()]


def sec_rng_registry():
  rows = []
  for name, cls, vals in registry():
    rows.append('  ("%s", "%s", [%s])' % (name, cls, ', '.join('(%d)' % v if v < 0 else str(v) for v in vals)))
  return ('/-- `rng.RNGS`: (registry name, class implementing `RandomBits`, integer attributes of the\n'
          'instance in the order fixed by harness/consts/rng.py). -/\n'
          'def rngRegistry : List (String × String × List Int) := [\n' + ',\n'.join(rows) + ']\n')


SECTIONS = [sec_rng_registry]
