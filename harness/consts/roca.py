"""ROCA constants of Generated/Consts.lean, read from the CURRENT /repo at run time."""


def sec_roca():
  from paranoid_crypto.lib import roca
  out = []
  out.append('def rocaPrimes : List Nat := [%s]' %
             ', '.join(str(int(p)) for p in roca.ROCAKeyDetector.PRIMES))
  out.append('def rocaF4 : Nat := %d' % int(roca.ROCAKeyDetector.F4))
  out.append('def rocaVariantPrimes : List Nat := [%s]' %
             ', '.join(str(int(p)) for p in roca.ROCAKeyVariantDetector.PRIMES))
  return '\n'.join(out) + '\n'


SECTIONS = [sec_roca]
