"""Sections of Generated/Consts.lean; each returns Lean source text computed from /repo."""
import inspect


def lean_nat_list(name, xs):
  return 'def %s : List Nat := [%s]\n' % (name, ', '.join(str(int(x)) for x in xs))


def sec_rsa_defaults():
  from paranoid_crypto.lib import rsa_single_checks as rs, rsa_util, rsa_aggregate_checks as ra
  out = []
  out.append('def fermatMaxSteps : Nat := %d' %
             inspect.signature(rs.CheckFermat.__init__).parameters['max_steps'].default)
  out.append('def cfBound : Nat := %d' %
             inspect.signature(rs.CheckContinuedFractions.__init__).parameters['bound'].default)
  out.append('def hlbeMiddleBits : Nat := %d' %
             inspect.signature(rsa_util.FactorHighAndLowBitsEqual).parameters['middle_bits'].default)
  out.append('def pm1GcdBound : Nat := %d' %
             inspect.signature(rsa_util.Pollardpm1).parameters['gcd_bound'].default)
  out.append('def lhwCutoff : Nat := %d' %
             inspect.signature(rsa_util.CheckLowHammingWeight).parameters['cutoff'].default)
  out.append('def lhwMaxSteps : Nat := %d' %
             inspect.signature(rsa_util.CheckLowHammingWeight).parameters['maxsteps'].default)
  out.append('def gcdn1Bound : Nat := %d' %
             inspect.signature(ra.CheckGCDN1.__init__).parameters['gcd_bound'].default)
  return '\n'.join(out) + '\n'


SECTIONS = [sec_rsa_defaults]
