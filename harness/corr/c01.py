"""C01 — every reported factor divides the modulus: correspondence + failing-input search."""
import gmpy2
import framework as fw
from framework import H, L, M, O, B, Batch, call
import gen_rsa

META = dict(
    trusted_base=[
        'LLL basis and float cube root are explicit model arguments (soundness ∀ oracle answer)',
    ],
    assumptions=[
        'model functions in Model/Factoring.lean mirror rsa_util.py / special_case_factoring.py; '
        'tie checked by this correspondence run',
    ])


def fmt_optpair(r):
  return 'none' if r is None else '%s,%s' % (H(r[0]), H(r[1]))


def fmt_optlist(r):
  return 'none' if r is None else L(r)


def fmt_boollist(r):
  return '%s %s' % (B(r[0]), L(r[1]))


def divides_pred(n, get, proper=True):
  """property predicate on the implementation: every returned factor divides n, and
  (for every function but FermatFactor) at least one is a proper divisor."""
  def pred():
    try:
      fs = get()
    except Exception as e:  # noqa
      return None
    if not fs:
      return None
    for f in fs:
      if f == 0 or n % int(f) != 0:
        return 'reported factor %x does not divide n=%x' % (int(f), n)
    if proper and not any(1 < int(f) < n for f in fs):
      return 'no proper divisor among reported factors %s of n=%x' % ([hex(int(f)) for f in fs], n)
    return None
  return pred


def cbrt_oracle(n):
  bits = n.bit_length()
  shift = max(0, (bits // 3) - 52)
  return int((int(n) >> (3 * shift)) ** (1 / 3))


def moduli(rng, tier):
  """(tag, n) stream for the factoring functions."""
  out = []
  sizes = [64, 65, 96, 128, 200, 256, 512] + ([1024, 2048] if tier == 'thorough' else [768])
  reps = 6 if tier == 'thorough' else 2
  for bits in sizes:
    for _ in range(reps):
      p, q = gen_rsa.semiprime(rng, bits)
      out.append(('semiprime', p * q))
      for st in (1, 3, 50, 1000):
        p, q = gen_rsa.fermat_exact(rng, bits, st)
        out.append(('fermat~%d' % st, p * q))
      p, q = gen_rsa.close_primes(rng, bits, bits // 4)
      out.append(('close', p * q))
      pb = bits // 2
      for (r, s) in ((pb // 4 + 1, pb // 4 + 1), (3, pb // 2), (pb // 2, 1), (pb // 3, pb // 6)):
        if r + s < pb and r >= 1 and s >= 1:
          pq = gen_rsa.high_low_equal(rng, bits, r, s)
          if pq:
            out.append(('hlbe%d/%d' % (r, s), pq[0] * pq[1]))
      out.extend(gen_rsa.degenerate(rng, bits))
  return out


def correspondence(rep, rng, tier):
  from paranoid_crypto.lib import rsa_util, special_case_factoring as scf
  mods = moduli(rng, tier)
  rep.extra['moduli_families'] = {}
  for t, _ in mods:
    k = t.split('~')[0].rstrip('0123456789/')
    rep.extra['moduli_families'][k] = rep.extra['moduli_families'].get(k, 0) + 1

  # --- FermatFactor
  b = Batch('rsa.fermat')
  for tag, n in mods:
    for steps in (0, 1, 2, 5, 60, 1200):
      r = call(fmt_optpair, rsa_util.FermatFactor, gmpy2.mpz(n), steps)[3:]
      b.add('rsa.fermat %s %s' % (H(n), H(steps)), r, tag='found' if r != 'none' else 'none',
            pred=divides_pred(n, lambda n=n, steps=steps: rsa_util.FermatFactor(gmpy2.mpz(n), steps), proper=False))
  rep.absorb(b, b.run())

  # --- FactorHighAndLowBitsEqual
  b = Batch('rsa.hlbe')
  for tag, n in mods:
    for mb in (3, 0, 1, 5):
      r = call(fmt_optlist, rsa_util.FactorHighAndLowBitsEqual, gmpy2.mpz(n), mb)
      b.add('rsa.hlbe %s %s' % (H(n), H(mb)), r, tag='found' if 'none' not in r else 'none',
            pred=divides_pred(n, lambda n=n, mb=mb: rsa_util.FactorHighAndLowBitsEqual(gmpy2.mpz(n), mb)))
  rep.absorb(b, b.run())

  # --- CheckContinuedFraction
  b = Batch('rsa.cf')
  pat = []
  for bits in (128, 256, 512):
    for w in (8, 12, 16, 24):
      for _ in range(2 if tier == 'quick' else 8):
        p = gen_rsa.pattern_prime(rng, bits // 2, w, lowbits=rng.choice([0, 8, 16]))
        q = gen_rsa.pattern_prime(rng, bits // 2, rng.choice([w, 8, 16]), lowbits=rng.choice([0, 8]))
        pat.append(('bothpattern', p * q))
        pat.append(('onepattern', p * gen_rsa.rprime(rng, bits // 2)))
  for tag, n in mods + pat:
    for bound in (2**48, 2**8, 3, 1, 0):
      r = call(fmt_boollist, rsa_util.CheckContinuedFraction, gmpy2.mpz(n), bound)
      b.add('rsa.cf %s %s' % (H(n), H(bound)), r,
            tag=('factored' if r.startswith('ok 0 ') and not r.endswith('[]') else
                 'alarm' if r.startswith('ok 0') else 'pass'),
            pred=divides_pred(n, lambda n=n, bound=bound: rsa_util.CheckContinuedFraction(gmpy2.mpz(n), bound)[1]))
  rep.absorb(b, b.run())

  # --- CheckFraction with recorded and adversarial LLL answers
  from paranoid_crypto.lib import lll
  b = Batch('rsa.fraction')
  bl = Batch('rsa.fraction_lat')
  real_reduce = lll.reduce
  rec = {}

  def recording(lat):
    rec['lat'] = [list(map(int, row)) for row in lat]
    out = real_reduce(lat)
    rec['basis'] = [list(map(int, row)) for row in out]
    return out

  def adversarial_rows(n, rng):
    w = 2 ** (n.bit_length() // 2)
    rows = []
    f = None
    for c in range(3, 200, 2):
      if n % c == 0:
        f = c
        break
    choices = [
        [0, 0, 0], [n, 0, 0], [0, -n, 0], [1, 0, 0], [0, 1, 0], [-1, 1, 5],
        [rng.getrandbits(40), -rng.getrandbits(40), rng.getrandbits(20)],
        [w, -1, 0], [w, 1, 0], [2 * w, 2, 7], [n - w, 1, 1],
    ]
    p = int(gmpy2.next_prime(rng.getrandbits(16)))
    choices.append([p * 7, 0, 1])          # gcd(cx, n) may be nontrivial only if p | n
    if f:
      choices.append([f, 0, 0])
      choices.append([0, -f, 3])
    rng.shuffle(choices)
    return choices[:rng.randrange(1, 5)]

  try:
    for tag, n in (mods[::3] + pat):
      for d0 in (1, 2**8 - 1, 2**16 - 1, 2**24 - 1, 5):
        # pass 1: real LLL, recorded
        rsa_util.lll.reduce = recording
        rec.clear()
        r = call(L, rsa_util.CheckFraction, gmpy2.mpz(n), d0)
        if 'lat' in rec:
          bl.add('rsa.fraction_lat %s %s' % (H(n), H(d0)), M(rec['lat']), tag='lat')
          b.add('rsa.fraction %s %s' % (H(n), M(rec['basis'])), r,
                tag='recorded:' + ('found' if not r.endswith('[]') else 'none'),
                pred=divides_pred(n, lambda n=n, d0=d0: rsa_util.CheckFraction(gmpy2.mpz(n), d0)))
        # pass 2: adversarial oracle substituted into the real code
        rows = adversarial_rows(n, rng)
        rsa_util.lll.reduce = lambda lat, rows=rows: rows
        r = call(L, rsa_util.CheckFraction, gmpy2.mpz(n), d0)

        def pred(n=n, d0=d0, rows=rows):
          rsa_util.lll.reduce = lambda lat: rows
          try:
            return divides_pred(n, lambda: rsa_util.CheckFraction(gmpy2.mpz(n), d0))()
          finally:
            rsa_util.lll.reduce = real_reduce
        b.add('rsa.fraction %s %s' % (H(n), M(rows)), r,
              tag='adversarial:' + ('found' if not r.endswith('[]') else 'none'), pred=pred)
  finally:
    rsa_util.lll.reduce = real_reduce
  rep.absorb(bl, bl.run())
  rep.absorb(b, b.run())

  # --- FactorWithGuess / CheckSmallUpperDifferences
  b = Batch('rsa.fwg')
  bs = Batch('rsa.sud')
  for tag, n in mods[::2]:
    c = cbrt_oracle(n)
    rt = int(gmpy2.isqrt(n))
    guesses = [rt, rt + 1, rt - rng.getrandbits(max(1, n.bit_length() // 8)), rng.getrandbits(n.bit_length() // 2) + 1,
               1, 2, n, n + 1]
    for f in range(3, 50, 2):
      if n % f == 0:
        guesses.append(n // f)
    for p0 in guesses:
      if p0 <= 0:
        continue
      r = call(fmt_optlist, scf.FactorWithGuess, gmpy2.mpz(n), gmpy2.mpz(p0))
      b.add('rsa.fwg %s %s %s' % (H(n), H(p0), H(c)), r, tag='found' if 'none' not in r else 'none',
            pred=divides_pred(n, lambda n=n, p0=p0: scf.FactorWithGuess(gmpy2.mpz(n), gmpy2.mpz(p0))))
  sud = []
  for L_ in ((384, 400, 512) if tier == 'quick' else (384, 385, 512, 1024)):
    for dexp in (100, 128, 160, 256, 2, 3, 50):
      p = gen_rsa.rprime(rng, L_)
      q = int(gmpy2.next_prime(p + 2 ** (L_ - dexp))) if L_ > dexp else gen_rsa.rprime(rng, L_)
      sud.append(('sud%d' % dexp, p * q))
    p, q = gen_rsa.semiprime(rng, 2 * L_)
    sud.append(('healthy', p * q))
  for tag, n in sud + mods[::7]:
    c = cbrt_oracle(n)
    r = call(fmt_optlist, rsa_util.CheckSmallUpperDifferences, gmpy2.mpz(n))
    bs.add('rsa.sud %s %s' % (H(n), H(c)), r, tag=tag.rstrip('0123456789') + (':found' if 'none' not in r else ':none'),
           pred=divides_pred(n, lambda n=n: rsa_util.CheckSmallUpperDifferences(gmpy2.mpz(n))))
    p0 = int(gmpy2.isqrt(n)) + rng.getrandbits(n.bit_length() // 2 - 100 if n.bit_length() > 300 else 3)
    r = call(fmt_optlist, scf.FactorWithGuess, gmpy2.mpz(n), gmpy2.mpz(p0))
    b.add('rsa.fwg %s %s %s' % (H(n), H(p0), H(c)), r, tag='found' if 'none' not in r else 'none',
          pred=divides_pred(n, lambda n=n, p0=p0: scf.FactorWithGuess(gmpy2.mpz(n), gmpy2.mpz(p0))))
  rep.absorb(b, b.run())
  rep.absorb(bs, bs.run())

  # --- Pollardpm1
  from paranoid_crypto.lib import ntheory_util
  b = Batch('rsa.pm1')
  ms = {}
  for bound in (2**8, 2**12):
    powers = [gmpy2.mpz(p) for p in ntheory_util.Sieve(bound)]
    import math
    for i in range(len(powers)):
      powers[i] = powers[i] ** int(math.log(bound, powers[i]))
    ms[bound] = int(ntheory_util.FastProduct(powers))
    b.let('m%d' % bound, H(ms[bound]))
  sm = []
  for bits in (128, 256):
    for _ in range(3 if tier == 'quick' else 12):
      p = gen_rsa.smooth_prime(rng, bits // 2, 7)
      sm.append(('onesmooth', p * gen_rsa.rprime(rng, bits // 2)))
      sm.append(('bothsmooth', p * gen_rsa.smooth_prime(rng, bits // 2, 7)))
  for tag, n in sm + mods[::5]:
    for bound, m in ms.items():
      for gb in (2**60, 2**10, 1, 0):
        r = fmt_boollist(rsa_util.Pollardpm1(gmpy2.mpz(n), gmpy2.mpz(m), gb))
        b.add('rsa.pm1 %s $m%d %s' % (H(n), bound, H(gb)), r,
              tag=tag.rstrip('0123456789') + ':' + r[:1] + ('f' if not r.endswith('[]') else ''),
              pred=divides_pred(n, lambda n=n, m=m, gb=gb: rsa_util.Pollardpm1(gmpy2.mpz(n), gmpy2.mpz(m), gb)[1]))
  rep.absorb(b, b.run())

  # --- CheckLowHammingWeight
  b = Batch('rsa.lhw')
  lw = []
  for bits in (64, 128, 256, 512):
    for wt in (3, 5, 8):
      for _ in range(1 if tier == 'quick' else 4):
        p = gen_rsa.low_weight_prime(rng, bits // 2, wt)
        q = gen_rsa.low_weight_prime(rng, bits // 2, wt)
        lw.append(('lowweight', p * q))
  for tag, n in lw + mods[::6]:
    for cutoff, maxsteps in ((2500, 4000), (10, 300), (1, 50), (100, 100), (5, 0)):
      r = fmt_boollist(rsa_util.CheckLowHammingWeight(gmpy2.mpz(n), cutoff, maxsteps))
      b.add('rsa.lhw %s %s %s' % (H(n), H(cutoff), H(maxsteps)), r,
            tag=tag.rstrip('0123456789') + ':' + r[:1] + ('f' if not r.endswith('[]') else ''),
            pred=divides_pred(n, lambda n=n, c=cutoff, ms_=maxsteps: rsa_util.CheckLowHammingWeight(gmpy2.mpz(n), c, ms_)[1]))
  rep.absorb(b, b.run())


  check_level(rep, rng, tier)


def c01_clauses(keys, names_info='N_FACTORS'):
  """C01 evaluated on annotated RSAKey protobufs: every recorded value divides n, a key with
  recorded factors is weak, and at least one recorded value is a proper divisor unless n divides
  another modulus of the batch."""
  import artifacts as art
  from paranoid_crypto.lib import util
  ns = [util.Bytes2Int(k.rsa_info.n) for k in keys]
  for k, n in zip(keys, ns):
    fs = art.factors(k.test_info)
    if not fs:
      continue
    for f in fs:
      if f == 0 or n % f:
        return 'recorded factor %x does not divide n=%x' % (f, n)
    if not k.test_info.weak:
      return 'factors %s recorded for n=%x but the key is not marked weak' % ([hex(f) for f in fs], n)
    if not any(1 < f < n for f in fs) and not any(m != n and m % n == 0 for m in ns):
      return 'no proper divisor among %s for n=%x (n divides no other modulus of the batch)' % (
          [hex(f) for f in fs], n)
  return None


def check_level(rep, rng, tier):
  """Check objects on protobuf keys: CheckGCD on every ordering of the shapes that make the
  batch gcd equal the modulus, and re-runs of a check on already annotated keys."""
  import itertools
  import artifacts as art
  from paranoid_crypto.lib import rsa_aggregate_checks as ra, rsa_single_checks as rs
  b = Batch('rsa.checkgcd')
  for pbits in (33, 64, 128):
    p, q, r, s_, t = (gen_rsa.rprime(rng, pbits) for _ in range(5))
    shapes = {
        'chain': [p * q, p * r, q * s_],
        'chain+dup': [p * q, p * r, q * s_, p * q],
        'nested': [p * q, p * q * r, s_ * t],
        'triangle': [p * q, q * r, r * p],
        'dups': [p * q, p * q, r * s_],
        'star': [p * q, p * r, p * s_, t * t],
    }
    for name, ns in shapes.items():
      perms = list(itertools.permutations(ns))
      if len(perms) > 24:
        perms = rng.sample(perms, 24)
      for perm in perms:
        keys = [art.rsa_key(n) for n in perm]
        ret = ra.CheckGCD().Check(keys)
        per = ';'.join('%s:%s' % (B(art.entry(k.test_info, 'CheckGCD').result),
                                  L(art.factors(k.test_info))) for k in keys)
        b.add('rsa.checkgcd %s' % L(perm), 'ok %s %s' % (B(ret), per), tag=name,
              pred=lambda keys=keys: c01_clauses(keys), always=True)
  rep.absorb(b, b.run())

  # re-runs on the same protobufs: negative first, positive later (weak flag must follow)
  b = Batch('chk.fermat')
  for bits in (64, 128, 512):
    for _ in range(3 if tier == 'quick' else 10):
      p, q = gen_rsa.fermat_exact(rng, bits, 30)
      n = p * q
      k = art.rsa_key(n)
      rs.CheckFermat(max_steps=1).Check([k])
      first = art.entry(k.test_info, 'CheckFermat').result
      chk = rs.CheckFermat(max_steps=20000)
      ret = chk.Check([k])
      ent = art.entry(k.test_info, 'CheckFermat')
      v = 'ok %s %s 0' % (B(ent.result), L(art.factors(k.test_info)))
      if ret != ent.result or k.test_info.weak != ent.result:
        v = 'inconsistent ret=%r result=%r weak=%r after re-run' % (ret, ent.result, k.test_info.weak)
      b.add('chk.fermat %s %s' % (H(n), H(20000)), v, tag='rerun:first=%s' % B(first),
            pred=lambda k=k: c01_clauses([k]), always=True, canon=art.sort_model_verdict)
  rep.absorb(b, b.run())
  b = Batch('rsa.checkgcd')
  for pbits in (40, 96):
    p, q, r = (gen_rsa.rprime(rng, pbits) for _ in range(3))
    k1, k2 = art.rsa_key(p * q), art.rsa_key(p * r)
    ra.CheckGCD().Check([k1])
    ret = ra.CheckGCD().Check([k1, k2])
    per = ';'.join('%s:%s' % (B(art.entry(k.test_info, 'CheckGCD').result), L(art.factors(k.test_info)))
                   for k in (k1, k2))
    if not (k1.test_info.weak and k2.test_info.weak):
      per += ' weak-flags=%s,%s' % (k1.test_info.weak, k2.test_info.weak)
    b.add('rsa.checkgcd %s' % L([p * q, p * r]), 'ok %s %s' % (B(ret), per), tag='rerun',
          pred=lambda ks=(k1, k2): c01_clauses(list(ks)), always=True)
  rep.absorb(b, b.run())


def search(rep, rng, tier):
  """Failing-input search on the implementation only (no model), run when an obligation or
  the correspondence broke: every factor any RSA factoring function reports must divide n.
  Families: odd numbers in a window around products of two close primes (where an
  off-by-something in an incremental update shows), and every family of `moduli`."""
  from paranoid_crypto.lib import rsa_util
  tried = 0
  for bits in (64, 96, 128, 256, 512, 2048):
    for target in (1, 2, 5, 31, 43, 200):
      p, q = gen_rsa.fermat_exact(rng, bits, target)
      n0 = p * q
      K = (p + q) // 2 - (int(gmpy2.isqrt(n0)) + 1)
      for delta in range(-8, 2 * min(K, 300) + 9, 2):
        n = n0 + delta
        if n <= 3:
          continue
        tried += 1
        r = rsa_util.FermatFactor(gmpy2.mpz(n), min(K + 20, 5000))
        if r is not None and int(r[0]) * int(r[1]) != n:
          rep.violations.append(dict(
              op='rsa.fermat', line='rsa.fermat %s %s' % (H(n), H(min(K + 20, 5000))),
              what='FermatFactor(n=%x) returned (%x, %x) whose product is not n (n = p*q%+d for close '
                   'primes p, q)' % (n, int(r[0]), int(r[1]), delta),
              impl=fmt_optpair(r), model=None, info=None))
          rep.extra['search_tried'] = tried
          return
  rep.extra['search_tried'] = tried
