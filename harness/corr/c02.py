"""C02 — every reported discrete log / key relation is true.
EC-key half: the BSGS correspondences and soundness predicates of harness/corr/c10.py
(`pred` recomputes x*G with independent affine arithmetic for every recorded log / relation).
ECDSA half: harness/corr/c02s.py (every signature marked weak carries a dlog d with
d*G = its own issuer key; adversarial guess lists substituted into the real checks)."""
import corr.c10 as c10
import corr.c02s as c02s

META = dict(
    trusted_base=c10.META.get('trusted_base', []) + c02s.META.get('trusted_base', []),
    assumptions=c10.META.get('assumptions', []) + c02s.META.get('assumptions', []) + [
        'primality of the nine field primes / orders is a hypothesis of the theorems, validated per run'])


def correspondence(rep, rng, tier):
  c10.correspondence(rep, rng, tier)
  c02s.correspondence_sigs(rep, rng, tier)


def search(rep, rng, tier):
  for m in (c10, c02s):
    if hasattr(m, 'search'):
      m.search(rep, rng, tier)
