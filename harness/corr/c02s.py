"""C02S — the ECDSA signature-check layer of ecdsa_sig_checks.py (signature half of C02, the
group-isolation clause of C08, the C17 / C18 clauses for the nonce checks).

Correspondence of Model/EcdsaChecks.lean with
  _MapIssuerSigIndexes, _IssuerDLogs, BiasedBaseCheck.__init__, BiasedBaseCheck.Check
  (CheckLCGNonceGMP, CheckLCGNonceJavaUtilRandom, CheckNonceMSB, CheckNonceCommonPrefix,
  CheckNonceCommonPostfix, CheckNonceGeneralized) and CheckCr50U2f.Check.

ORACLES.  Every call of hnp.HiddenNumberProblem / hnp.HiddenNumberProblemForCurve /
cr50_u2f_weakness.Cr50U2fGuesses is intercepted at the call site (module attribute patched inside
this process, nothing under /repo changes): the ARGUMENTS the check passes are recorded and must
be predicted by the model; the ANSWER is either the real solver's (recorded) or an adversarial
list substituted into the real code (0, n, n±1, d, d+n, d-n, -d, 2d, other issuers' keys, random,
huge, duplicates, mpz).  Python `set` iteration order (`list({ECDSAValues…})`, `list(guesses)`) is
an oracle too: the first is rebuilt here with the expression the code uses, the second is recorded
at the `_IssuerDLogs` call; the model answers `consistent=1` when both are enumerations of the sets
the code builds.

`pred` (always evaluated): for every signature marked weak the attached DISCRETE_LOG d satisfies
d·G == issuer public point (raw coordinates; independent affine arithmetic of corr/c11.py), a
signature is marked iff some guess handed to `_IssuerDLogs` for its curve group has that property,
signatures with a curve outside CURVE_FACTORY get no entry, and a batch whose r, s are all in
[1, n-1] never raises.
"""
import copy
import time

import gmpy2
import framework as fw
from framework import H, L, B, Batch
from corr import c11
from corr import c09

META = dict(
    trusted_base=[
        'the lattice solvers (HiddenNumberProblem, HiddenNumberProblemForCurve, Cr50U2fGuesses) are '
        'ORACLES: call arguments predicted by the model, answers recorded or substituted; theorems '
        'quantify over every answer',
        'Python set iteration order (unique_vals, list(guesses)) is an oracle: reproduced / recorded '
        'by the harness, checked by the model to be an enumeration of the right set',
        'Mathlib WeierstrassCurve.Affine.Point group law (via Props/C11) is the meaning of d*G',
        'independent textbook chord-and-tangent arithmetic of harness/corr/c11.py (pred only)',
    ],
    assumptions=[
        'Model/EcdsaChecks.lean mirrors ecdsa_sig_checks.py (_MapIssuerSigIndexes, _IssuerDLogs, '
        'BiasedBaseCheck, CheckCr50U2f); tie checked by this correspondence run',
        'primality of the field primes and group orders of the named curves (hypothesis of the '
        'refinement theorems, validated per run by gmpy2.is_prime in C11/C09)',
        'EcCurve._cache holds only entries written by BatchMultiplyG (cache invariant); the cache '
        'content found in the curve objects is handed to the model with every call',
        'a Check call that raises: only the exception is compared (verdicts already written for '
        'earlier curve groups are not modelled)',
        'exceptions raised inside the solvers are outside the MODEL (no model line for such a run); on a batch '
        'with every known-curve r, s in [1, n-1] they are reported as a C18 VIOLATION with the batch as replay '
        '(solver_raise_violation), outside that domain as a note (extra.c02s.oracle_raised)',
    ])

DLOG = 'DISCRETE_LOG'


def S(s):
  b = s.encode('utf-8')
  return b.hex() if b else '~'


def hexb(b):
  return bytes(b).hex() if b else '~'


def to_bytes_min(v):
  return c09.to_bytes_min(int(v))


# ----------------------------------------------------------------------------

class World:

  def __init__(self, rng, tier):
    from paranoid_crypto.lib import paranoid  # noqa: first (import cycle of ecdsa_sig_checks)
    from paranoid_crypto.lib import (ecdsa_sig_checks as esc, ec_util, util,
                                     hidden_number_problem as hnp, cr50_u2f_weakness as cr50)
    from paranoid_crypto import paranoid_pb2 as pb
    self.paranoid, self.esc, self.ec_util, self.util = paranoid, esc, ec_util, util
    self.hnp, self.cr50, self.pb = hnp, cr50, pb
    self.rng, self.tier = rng, tier
    self.reg = paranoid.GetECDSAAllChecks()
    self.names = [n for n in self.reg if n != 'CheckIssuerKey']
    self.factory = list(ec_util.CURVE_FACTORY.items())
    self.curves = {int(cid): c for cid, c in self.factory}
    self.refs = {cid: c11.Ref(c.a, c.b, c.mod) for cid, c in self.curves.items() if c is not None}
    self.pg = {}            # (cid, g) -> g*G by the independent arithmetic
    self.regs = {}          # factory string -> register name
    self.batch = Batch('ecdsachk.check')
    self.oracle_raised = []
    self.solver_violations = []   # solver raised on a batch inside C18's domain (solver_raise_violation)
    self.stats = {}

  # --- kinds
  def kind_of(self, name):
    chk = self.reg[name]
    if name == 'CheckCr50U2f':
      return 'C'
    if chk.bias is not None:
      return 'B:%s' % H(chk.bias.value)
    return 'L:%s:%s' % (H(chk.lcg_params[0].value), H(chk.lcg_params[1].value))

  # --- curves
  def warm(self, cid):
    c = self.curves[cid]
    if len(c._cache) >= 256:
      return
    steps = (c.n.bit_length() + 7) // 8
    c.BatchMultiplyG([sum(((b >> j) & 1) << (steps * j) for j in range(8)) for b in range(256)])

  def factory_reg(self, used):
    ents = []
    for cid, c in self.factory:
      if c is None:
        ents.append('%s|-|[]' % H(cid))
      else:
        ents.append('%s|%s|%s' % (
            H(cid), L([c.a, c.b, c.mod, c.g[0], c.g[1], c.n, c.h]),
            c11.fcache(c._cache) if int(cid) in used else '[]'))
    s = ';'.join(ents)
    if s not in self.regs:
      self.regs[s] = 'F%d' % len(self.regs)
      self.batch.let(self.regs[s], s)
    return '$' + self.regs[s]

  def point_of(self, cid, g):
    """g*G with the independent arithmetic; None = infinity."""
    key = (cid, int(g))
    if key not in self.pg:
      c = self.curves[cid]
      self.pg[key] = self.refs[cid].mul((int(c.g[0]), int(c.g[1])), int(g))
    return self.pg[key]

  # --- artefacts
  def issuer(self, cid, d=None):
    c = self.curves[cid]
    n = int(c.n)
    d = d if d is not None else self.rng.randrange(1, n)
    Q = c.Multiply(c.g, d)
    return dict(cid=cid, d=d, x=int(Q[0]), y=int(Q[1]))

  def spec(self, iss, r, s, mh, kx=None, ky=None, cid=None, pad=(0, 0, 0, 0), **meta):
    kx = iss['x'] if kx is None else kx
    ky = iss['y'] if ky is None else ky
    return dict(cid=iss['cid'] if cid is None else cid,
                kx=b'\0' * pad[0] + to_bytes_min(kx), ky=b'\0' * pad[1] + to_bytes_min(ky),
                r=b'\0' * pad[2] + to_bytes_min(r), s=b'\0' * pad[3] + to_bytes_min(s), mh=bytes(mh),
                d=iss['d'], **meta)

  def nonces(self, cid, style, count):
    n = int(self.curves[cid].n)
    q = n.bit_length()
    rng = self.rng
    if style == 'msb':
      return [rng.getrandbits(q - 64) + 1 for _ in range(count)]
    if style == 'prefix':
      top = rng.getrandbits(63) << (q - 64)
      return [top + rng.getrandbits(q - 64) + 1 for _ in range(count)]
    if style == 'postfix':
      low = rng.getrandbits(64)
      return [((rng.getrandbits(q - 65) << 64) + low) or 1 for _ in range(count)]
    if style == 'cr50':
      return [sum(rng.randrange(1, 256) * 0x01010101 << (32 * j) for j in range(q // 32)) % n or 1
              for _ in range(count)]
    return [rng.randrange(1, n) for _ in range(count)]

  def sign_many(self, iss, style, count, hlen=None):
    """real ECDSA signatures of `iss` with nonces of the given style (independent signing
    equation; r from the library's BatchMultiplyG, z by the RFC 6979 reference of corr/c09)."""
    cid = iss['cid']
    c = self.curves[cid]
    n = int(c.n)
    ks = self.nonces(cid, style, count)
    pts = c.BatchMultiplyG(ks)
    out = []
    for k, R in zip(ks, pts):
      ln = self.rng.choice([20, 28, 32, 48, 64]) if hlen is None else hlen
      mh = self.rng.randbytes(ln)
      z = c09.ref_bits2int(mh, n.bit_length()) % n
      r = int(R[0]) % n
      s = pow(k, -1, n) * (z + r * iss['d']) % n
      if r == 0 or s == 0:
        continue
      out.append(self.spec(iss, r, s, mh, k=k, style=style))
    return out

  def fake(self, iss, count, hlen=None):
    n = int(self.curves[iss['cid']].n)
    out = []
    for _ in range(count):
      ln = self.rng.choice([0, 1, 20, 32, 33, 48, 64]) if hlen is None else hlen
      out.append(self.spec(iss, self.rng.randrange(1, n), self.rng.randrange(1, n),
                           self.rng.randbytes(ln), style='fake'))
    return out

  def to_pb(self, sp):
    s = self.pb.ECDSASignature()
    s.issuer_key_info.curve_type = sp['cid']
    s.issuer_key_info.x = sp['kx']
    s.issuer_key_info.y = sp['ky']
    s.ecdsa_sig_info.r = sp['r']
    s.ecdsa_sig_info.s = sp['s']
    s.ecdsa_sig_info.message_hash = sp['mh']
    return s

  def arts_str(self, specs):
    if not specs:
      return '[]'
    return ';'.join('%s@%s@%s@%s@%s@%s' % (H(sp['cid']), hexb(sp['kx']), hexb(sp['ky']),
                                           hexb(sp['r']), hexb(sp['s']), hexb(sp['mh']))
                    for sp in specs)


# ----------------------------------------------------------------------------
# recording / substituting the oracles

class Recorder:
  """patches the three solver entry points, ec_util.ECDSAValues (issuer boundary marker) and
  ecdsa_sig_checks._IssuerDLogs for the duration of one Check call."""

  def __init__(self, w, policy=None):
    self.w, self.policy = w, policy
    self.events = []

  def __enter__(self):
    w, rec = self.w, self
    self.saved = (w.hnp.HiddenNumberProblem, w.hnp.HiddenNumberProblemForCurve,
                  w.cr50.Cr50U2fGuesses, w.ec_util.ECDSAValues, w.esc._IssuerDLogs)
    real_h, real_g, real_c, real_v, real_d = self.saved

    def answer(kind, args, real, real_args):
      try:
        if rec.policy is None:
          ans = real(*real_args)
        else:
          ans = rec.policy(kind, args, lambda: real(*real_args))
      except Exception as e:  # noqa
        rec.events.append(('raise', kind, args, repr(e), raise_origin(e)))
        raise
      lst = list(ans)
      rec.events.append(('call', kind, args, [int(x) for x in lst]))
      return ans

    def h(a, b, w_, n, bias):
      args = ([int(x) for x in a], [int(x) for x in b], w_, int(n), bias.value)
      return answer('H', args, real_h, (a, b, w_, n, bias))

    def g(a, b, curve_type, lcg, flags):
      args = ([int(x) for x in a], [int(x) for x in b], int(curve_type),
              getattr(lcg, 'value', lcg), getattr(flags, 'value', flags))
      return answer('G', args, real_g, (a, b, curve_type, lcg, flags))

    def c(r1, s1, z1, r2, s2, z2, n):
      args = tuple(int(x) for x in (r1, s1, z1, r2, s2, z2, n))
      return answer('C', args, real_c, (r1, s1, z1, r2, s2, z2, n))

    def v(sig, curve):
      rec.events.append(('val',))
      return real_v(sig, curve)

    def d(guesses, pks, curve):
      res = real_d(guesses, pks, curve)
      rec.events.append(('dlogs', [int(x) for x in guesses], curve,
                         [(int(k), int(x)) for k, x in res.items()]))
      return res

    w.hnp.HiddenNumberProblem, w.hnp.HiddenNumberProblemForCurve = h, g
    w.cr50.Cr50U2fGuesses, w.ec_util.ECDSAValues, w.esc._IssuerDLogs = c, v, d
    return self

  def __exit__(self, *a):
    w = self.w
    (w.hnp.HiddenNumberProblem, w.hnp.HiddenNumberProblemForCurve, w.cr50.Cr50U2fGuesses,
     w.ec_util.ECDSAValues, w.esc._IssuerDLogs) = self.saved

  def groups(self):
    """[dict(issuers=[[call…]…], guesses=[…] or None, curve=…)] in processing order."""
    out, cur, last = [], None, None
    for ev in self.events:
      if ev[0] == 'val':
        if cur is None:
          cur = dict(issuers=[], guesses=None, curve=None, dlogs=None)
          out.append(cur)
          last = None
        if last != 'val':
          cur['issuers'].append([])
      elif ev[0] == 'call':
        if cur is None or not cur['issuers']:
          cur = cur or dict(issuers=[], guesses=None, curve=None, dlogs=None)
          if cur not in out:
            out.append(cur)
          cur['issuers'].append([])
        cur['issuers'][-1].append(ev)
      elif ev[0] == 'dlogs':
        if cur is None:
          cur = dict(issuers=[], guesses=None, curve=None, dlogs=None)
          out.append(cur)
        cur['guesses'], cur['curve'], cur['dlogs'] = ev[1], ev[2], ev[3]
        cur = None
      last = ev[0]
    return out

  def raised(self):
    return [ev for ev in self.events if ev[0] == 'raise']


def fmt_call(ev):
  _, kind, a, _ans = ev
  if kind == 'H':
    s = 'H^%s^%s^%s^%s' % (L(a[0]), L(a[1]), H(a[3]), H(a[4]))
    return s if a[2] is None else s + '^w=%r' % (a[2],)
  if kind == 'G':
    return 'G^%s^%s^%s^%s^%s' % (L(a[0]), L(a[1]), H(a[2]), H(a[3]), H(a[4]))
  return 'C^%s:%s:%s^%s:%s:%s^%s' % tuple(H(x) for x in a)


def fmt_answers(calls):
  if not calls:
    return '[]'
  return '!'.join((','.join(H(x) for x in ev[3]) if ev[3] else '_') for ev in calls)


def read_verdict(sig, name):
  ents = [e for e in sig.test_info.test_results if e.test_name == name]
  if not ents:
    return '-' if not sig.test_info.attached_info else '-+attached'
  if len(ents) > 1:
    return 'dup'
  att = list(sig.test_info.attached_info)
  if not ents[0].result:
    return '0' if not att else '0+attached'
  if len(att) != 1:
    return '1^?%d' % len(att)
  return '1^%s^%s' % (S(att[0].info_name), S(att[0].value))


# ----------------------------------------------------------------------------
# one Check call = one line

def run_check(w, name, specs, policy, tag, extra_pred=None, cold=False):
  """runs reg[name].Check on fresh protobufs built from `specs` with the oracles recorded /
  substituted, adds the model line. Returns dict(verdicts, ret, groups, err)."""
  esc, ec_util = w.esc, w.ec_util
  chk = w.reg[name]
  arts = [w.to_pb(sp) for sp in specs]
  used = sorted({sp['cid'] for sp in specs if w.curves.get(sp['cid']) is not None})
  for cid in used:
    if cold:
      w.curves[cid]._cache.clear()
    else:
      w.warm(cid)
  freg = w.factory_reg(set(used))
  # the `list(set)` oracle, rebuilt with the code's own expression (per curve group, per issuer)
  uniq = {}
  for cid in used:
    curve = w.curves[cid]
    sigs = [s for s in arts if s.issuer_key_info.curve_type == cid]
    pks = esc._MapIssuerSigIndexes(sigs)
    uniq[cid] = [list({ec_util.ECDSAValues(sigs[idx].ecdsa_sig_info, curve) for idx in idxs})
                 for _, idxs in pks.items()]
  order = [int(cid) for cid, c in w.factory if c is not None and int(cid) in used]
  err, ret = None, None
  with Recorder(w, policy) as rec:
    try:
      ret = chk.Check(arts)
    except Exception as e:  # noqa
      err = e
  groups = rec.groups()
  oracle_raised = rec.raised()
  # oracle string
  gstrs = []
  for gi, cid in enumerate(order):
    g = groups[gi] if gi < len(groups) else dict(issuers=[], guesses=None)
    iss = []
    for j, u in enumerate(uniq[cid]):
      calls = g['issuers'][j] if j < len(g['issuers']) else []
      iss.append('%s/%s' % (','.join('%s:%s:%s' % (H(t[0]), H(t[1]), H(t[2])) for t in u) or '[]',
                            fmt_answers(calls)))
    gstrs.append('%s#%s#%s' % (H(cid), '|'.join(iss) or '[]', L(g['guesses'] or [])))
  ostr = ';'.join(gstrs) or '[]'
  verdicts = [read_verdict(a, chk.check_name) for a in arts]
  if err is not None:
    impl = 'err ' + type(err).__name__
  else:
    calls = [fmt_call(ev) for g in groups for iss in g['issuers'] for ev in iss]
    impl = 'ok %s %s %s 1 %s' % (
        ','.join(verdicts) or '[]', B(ret), ';'.join(calls) or '[]',
        ','.join('%s:%s' % (H(cid), H(len(w.curves[cid]._cache))) for cid in order) or '[]')
  line = 'ecdsachk.check %s %s %s %s' % (w.kind_of(name), freg, w.arts_str(specs), ostr)
  fam = tag.split(':')[0]
  st = w.stats.setdefault(fam, dict(calls=0, raised=0, flagged_calls=0, flagged_sigs=0, sigs=0,
                                    solver_calls=0))
  st['calls'] += 1
  st['raised'] += err is not None
  st['flagged_calls'] += any(v.startswith('1^') for v in verdicts)
  st['flagged_sigs'] += sum(v.startswith('1^') for v in verdicts)
  st['sigs'] += len(specs)
  st['solver_calls'] += sum(len(i) for g in groups for i in g['issuers'])
  out = dict(verdicts=verdicts, ret=ret, groups=groups, err=err, order=order)
  if oracle_raised:
    # the solver itself raised: outside the MODEL (no model line), but not outside the PROPERTY: on a
    # batch inside C18's domain it is a violation with the batch as replay (review-2 M3)
    v = solver_raise_violation(w, specs, arts, oracle_raised, err, name, 'ecdsachk.check', line, tag)
    if v is not None:
      w.solver_violations.append(v)
    else:
      w.oracle_raised.append(dict(check=name, tag=tag, exc=oracle_raised[0][3],
                                  args=fw.trunc(repr(oracle_raised[0][2]), 300)))
    return out

  def pred(specs=specs, verdicts=verdicts, groups=groups, err=err, order=order, ret=ret,
           uniq=uniq, name=name):
    return property_failure(w, specs, verdicts, groups, err, order, ret) or (
        args_failure(w, name, specs, groups, err, order, uniq)) or (
        extra_pred(out) if extra_pred else None)
  w.batch.add(line, impl, tag='%s|%s' % ('cr50' if name == 'CheckCr50U2f' else
                                         'lcg' if w.kind_of(name).startswith('L') else 'bias', tag),
              pred=pred, always=True,
              info=dict(check=name, n_sigs=len(specs), curves=order))
  return out


def raise_origin(e):
  """file:line:function of the innermost frame of the traceback of `e` (where it was raised)."""
  tb, last = e.__traceback__, None
  while tb is not None:
    last, tb = tb, tb.tb_next
  if last is None:
    return '?'
  co = last.tb_frame.f_code
  return '%s:%d:%s' % (co.co_filename, last.tb_lineno, co.co_name)


def solver_raise_violation(w, specs, arts, raised, err, entry, op, line, tag):
  """C18 on the implementation (review-2 M3).  `raised`: the 'raise' events of a Recorder — an exception
  that left HiddenNumberProblem / HiddenNumberProblemForCurve / Cr50U2fGuesses (the real solver or a
  substituted one) during `entry` (a check name or 'paranoid.CheckAllECDSASigs'), `err` the exception that
  left `entry` itself (None: the check caught it and returned).  Such a run has no model line (the solver
  ANSWER is the model's oracle), but the property speaks about the real entry point: when every
  known-curve signature of the batch has r, s in [1, n-1] (C18's domain: `well_formed`; any hash length,
  any issuer key, any curve id) and the exception reached the caller, it is a VIOLATION whatever raised
  it (lll.py / fpylll included: they are an oracle of the MODEL only; the innermost frame is named in
  the record).  Returns the violation record (batch as serialized protobufs = replay) or None (outside
  the domain, or the entry point returned: the caller keeps its note)."""
  if not raised or err is None or not well_formed(w, specs):
    return None
  ev = raised[0]
  origin = ev[4] if len(ev) > 4 else '?'
  inside = 'the LLL oracle (lll.py / fpylll)' if ('fpylll' in origin or '/lll.py:' in origin) else 'the solver code'
  kinds = {'H': 'HiddenNumberProblem', 'G': 'HiddenNumberProblemForCurve', 'C': 'Cr50U2fGuesses'}
  return dict(
      op=op, line=line, impl='err ' + type(err).__name__,
      model='bool (C18: no exception on a well-formed batch)',
      what=('%s raised %r on a WELL-FORMED batch (%d signatures, every known-curve r, s in [1, n-1]): the '
            'exception %s left %s, raised inside %s at %s' % (
                entry, err, len(specs), ev[3], kinds.get(ev[1], ev[1]), inside, origin)),
      info=dict(kind='solver-raise', entry=entry, tag=tag, solver=kinds.get(ev[1], ev[1]),
                solver_args=fw.trunc(repr(ev[2]), 2000), origin=origin,
                batch=[a.SerializeToString().hex() for a in arts]))


def replay_solver_raise(doc):
  """`./check Cxx --replay` of a solver-raise record: the stored protobufs through the stored real entry
  point (fresh curve caches / tables as far as the harness controls them); exit 1 iff it raises again."""
  info = doc.get('info') or {}
  from paranoid_crypto.lib import paranoid  # noqa
  from paranoid_crypto import paranoid_pb2 as pb
  arts = [pb.ECDSASignature.FromString(bytes.fromhex(h)) for h in info.get('batch', [])]
  entry = info.get('entry')
  f = paranoid.CheckAllECDSASigs if entry == 'paranoid.CheckAllECDSASigs' else paranoid.GetECDSAAllChecks()[entry].Check
  try:
    r = f(arts)
  except Exception as e:  # noqa
    print('replay: %s raised %r on the stored batch of %d signatures' % (entry, e, len(arts)))
    print('VIOLATION property=%s %s raised on a well-formed batch' % (doc.get('property'), entry))
    return 1
  print('replay: %s returned %r on the stored batch of %d signatures (not reproduced on this tree)' % (entry, r, len(arts)))
  return 0


def well_formed(w, specs):
  for sp in specs:
    c = w.curves.get(sp['cid'])
    if c is None:
      continue
    n = int(c.n)
    r, s = int.from_bytes(sp['r'], 'big'), int.from_bytes(sp['s'], 'big')
    if not (1 <= r <= n - 1 and 1 <= s <= n - 1):
      return False
  return True


def property_failure(w, specs, verdicts, groups, err, order, ret):
  """the clauses of C02 (signature half) / C08 (isolation) / C18 evaluated on the implementation."""
  if err is not None:
    if well_formed(w, specs):
      return 'Check raised %r on a batch with all r, s in [1, n-1]' % (err,)
    return None
  guesses = {}
  for gi, cid in enumerate(order):
    if gi >= len(groups) or groups[gi]['guesses'] is None:
      return 'curve group %d was not processed' % cid
    guesses[cid] = groups[gi]['guesses']
    answered = set()
    for calls in groups[gi]['issuers']:
      for ev in calls:
        answered |= set(ev[3])
    if set(guesses[cid]) != answered or len(set(guesses[cid])) != len(guesses[cid]):
      return ('curve group %d: the list handed to _IssuerDLogs is not the set of all solver '
              'answers (%d handed over, %d answered)' % (cid, len(guesses[cid]), len(answered)))
  any_marked = False
  for i, (sp, v) in enumerate(zip(specs, verdicts)):
    cid = sp['cid']
    if w.curves.get(cid) is None:
      if v != '-':
        return 'signature %d on a curve outside CURVE_FACTORY got verdict %s' % (i, v)
      continue
    key = (int.from_bytes(sp['kx'], 'big'), int.from_bytes(sp['ky'], 'big'))
    want = any(w.point_of(cid, g) == key for g in guesses[cid])
    if v.startswith('1^'):
      any_marked = True
      parts = v.split('^')
      if len(parts) != 3 or parts[1] != S(DLOG):
        return 'signature %d marked weak without a DISCRETE_LOG entry: %s' % (i, v)
      txt = bytes.fromhex(parts[2]).decode() if parts[2] != '~' else ''
      try:
        d = int(txt, 16)
      except ValueError:
        return 'signature %d: attached discrete log %r is not a hex integer' % (i, txt)
      if w.point_of(cid, d) != key:
        return ('signature %d marked weak with discrete log %x but %x*G != issuer public point '
                '(curve %d)' % (i, d, d, cid))
      if not want:
        return 'signature %d marked weak although no guess of its group is its key' % i
    elif v == '0':
      if want:
        return ('signature %d NOT marked although the guess list of its curve group contains '
                'its issuer private key' % i)
    else:
      return 'signature %d: unexpected bookkeeping %s' % (i, v)
  if bool(ret) != any_marked:
    return 'Check returned %r but %s signature is marked' % (ret, 'a' if any_marked else 'no')
  return None


def expected_windows(n_unique):
  """the documented window plan: sizes 24 / 48 / 120, stop after the first size >= len."""
  out = []
  for size in (24, 48, 120):
    out += [min(size, n_unique - i) for i in range(0, n_unique, size)]
    if n_unique <= size:
      break
  return out


def args_failure(w, name, specs, groups, err, order, uniq):
  """what the check hands to the solvers, evaluated on the implementation: every (a, b) is the
  nonce relation of one distinct (r, s, z) of the group (z = RFC 6979 bits2int of the hash mod n,
  recomputed here), every distinct (r, s, z) is handed over, windows follow the documented plan."""
  if err is not None:
    return None
  kind = w.kind_of(name)
  for gi, cid in enumerate(order):
    c = w.curves[cid]
    n = int(c.n)
    want = set()
    for sp in specs:
      if sp['cid'] != cid:
        continue
      r, s = int.from_bytes(sp['r'], 'big'), int.from_bytes(sp['s'], 'big')
      z = c09.ref_bits2int(sp['mh'], n.bit_length()) % n
      if kind == 'C':
        want.add((r, s, z))
      else:
        si = pow(s, -1, n)
        want.add((z * si % n, r * si % n))
    got = set()
    g = groups[gi]
    for j, calls in enumerate(g['issuers']):
      if kind == 'C':
        for ev in calls:
          a = ev[2]
          got.add(tuple(a[0:3]))
          if tuple(a[3:6]) != (1, 1, 0) or ev is not calls[-1]:
            got.add(tuple(a[3:6]))
          if a[6] != n:
            return 'Cr50U2fGuesses called with n=%x on curve %d' % (a[6], cid)
        if calls and tuple(calls[-1][2][3:6]) != (1, 1, 0):
          return 'last Cr50U2fGuesses call of an issuer is not the single-signature test'
        if len(calls) != len(uniq[cid][j]):
          return 'issuer with %d distinct signatures: %d Cr50 calls' % (len(uniq[cid][j]), len(calls))
      else:
        for ev in calls:
          a = ev[2]
          if len(a[0]) != len(a[1]):
            return 'a and b of different length'
          got |= set(zip(a[0], a[1]))
        if kind.startswith('B'):
          lens = [len(ev[2][0]) for ev in calls]
          if lens != expected_windows(len(uniq[cid][j])):
            return 'window plan for %d distinct signatures: %r, documented %r' % (
                len(uniq[cid][j]), lens, expected_windows(len(uniq[cid][j])))
        elif len(calls) != 1 or len(calls[0][2][0]) != len(uniq[cid][j]):
          return 'LCG check: expected one solver call with all distinct signatures of the issuer'
    if got != want:
      return ('curve group %d: solver arguments are not the nonce relations of the distinct '
              'signatures (%d handed over, %d expected, %d foreign)' % (
                  cid, len(got), len(want), len(got - want)))
  return None


# ----------------------------------------------------------------------------
# adversarial answers

def adversary(w, specs, p_true=0.5, sizes=(0, 1, 2, 3, 5)):
  """a policy: ignores the real solver and returns lists built from the planted private keys."""
  rng = w.rng
  ds = {}
  for sp in specs:
    ds.setdefault(sp['cid'], set()).add(sp['d'])
  all_d = sorted({sp['d'] for sp in specs})

  def n_of(kind, args):
    return args[3] if kind == 'H' else args[6] if kind == 'C' else int(w.curves[args[2]].n)

  def policy(kind, args, real):
    n = n_of(kind, args)
    mine = sorted(ds.get(next((cid for cid, c in w.curves.items()
                               if c is not None and int(c.n) == n), None), set())) or [1]
    pool = []
    for _ in range(rng.choice(sizes)):
      d = rng.choice(mine)
      c = rng.random()
      if c < p_true:
        pool.append(rng.choice([d, d, d + n, d - n, d + 5 * n, gmpy2.mpz(d)]))
      elif c < p_true + 0.25:
        pool.append(rng.choice([0, n, n + 1, n - 1, 1, -d, 2 * d, n - d, -1, 2 * n]))
      elif c < p_true + 0.35:
        pool.append(rng.choice(all_d))
      elif c < p_true + 0.45:
        pool.append(rng.choice([1, -1]) * rng.getrandbits(rng.choice([8, 64, 256, 600])))
      else:
        pool.append(rng.randrange(0, n))
    if pool and rng.random() < 0.3:
      pool.append(pool[0])
    return set(pool) if rng.random() < 0.5 else pool
  return policy


def fixed_answer(values):
  def policy(kind, args, real):
    return list(values)
  return policy


# ----------------------------------------------------------------------------
# scenarios

def mixed_batch(w, cids, n_issuers, style_pool, sizes=(1, 2, 3, 6, 8)):
  rng = w.rng
  specs = []
  issuers = []
  for _ in range(n_issuers):
    iss = w.issuer(rng.choice(cids))
    issuers.append(iss)
    style = rng.choice(style_pool)
    cnt = rng.choice(sizes)
    if style == 'fake':
      sg = w.fake(iss, cnt)
    else:
      sg = w.sign_many(iss, style, cnt)
    # duplicates of the same signature / the same (r, s) with another hash
    if sg and rng.random() < 0.4:
      sg.append(dict(sg[0]))
    if sg and rng.random() < 0.3:
      other = dict(sg[-1])
      other['mh'] = rng.randbytes(len(other['mh']) or 3)
      sg.append(other)
    if sg and rng.random() < 0.2:     # same integers, other byte encodings
      other = dict(sg[0])
      other['kx'] = b'\0\0' + other['kx']
      other['r'] = b'\0' + other['r']
      sg.append(other)
    specs += sg
  rng.shuffle(specs)
  return specs, issuers


def tamper_keys(w, specs):
  """issuer keys with unreduced coordinates / invalid points / unknown curve ids."""
  rng = w.rng
  out = []
  for sp in specs:
    sp = dict(sp)
    c = w.curves.get(sp['cid'])
    if c is not None and rng.random() < 0.6:
      p = int(c.mod)
      x, y = int.from_bytes(sp['kx'], 'big'), int.from_bytes(sp['ky'], 'big')
      kind = rng.choice(['x+p', 'y+p', 'both+p', 'y+1', 'negy', 'zero', 'swap', 'unknown0',
                         'unknownNone', 'unknown99', 'othercurve'])
      if kind == 'x+p':
        x += p
      elif kind == 'y+p':
        y += p
      elif kind == 'both+p':
        x, y = x + p, y + 2 * p
      elif kind == 'y+1':
        y += 1
      elif kind == 'negy':
        y = p - y
      elif kind == 'zero':
        x, y = 0, 0
      elif kind == 'swap':
        x, y = y, x
      elif kind == 'unknown0':
        sp['cid'] = 0
      elif kind == 'unknownNone':
        sp['cid'] = 7
      elif kind == 'unknown99':
        sp['cid'] = 99
      else:
        sp['cid'] = rng.choice([cid for cid, cc in w.curves.items()
                                if cc is not None and cid != sp['cid']])
      sp['kx'], sp['ky'] = to_bytes_min(x), to_bytes_min(y)
      sp['tamper'] = kind
    out.append(sp)
  return out


def malform(w, specs):
  """r or s outside [1, n-1] on one signature."""
  rng = w.rng
  specs = [dict(sp) for sp in specs]
  cand = [i for i, sp in enumerate(specs) if w.curves.get(sp['cid']) is not None]
  if not cand:
    return specs, 'none'
  i = rng.choice(cand)
  n = int(w.curves[specs[i]['cid']].n)
  kind = rng.choice(['r=0', 's=0', 'r=n', 's=n', 's=2n', 'r>n', 's>n', 'r-empty', 's-empty',
                     'huge'])
  r, s = int.from_bytes(specs[i]['r'], 'big'), int.from_bytes(specs[i]['s'], 'big')
  if kind == 'r=0':
    r = 0
  elif kind == 's=0':
    s = 0
  elif kind == 'r=n':
    r = n
  elif kind == 's=n':
    s = n
  elif kind == 's=2n':
    s = 2 * n
  elif kind == 'r>n':
    r += n
  elif kind == 's>n':
    s += n * rng.randrange(1, 4)
  elif kind == 'huge':
    r, s = rng.getrandbits(700), rng.getrandbits(700) | 1
  specs[i]['r'], specs[i]['s'] = to_bytes_min(r), to_bytes_min(s)
  if kind == 'r-empty':
    specs[i]['r'] = b''
  if kind == 's-empty':
    specs[i]['s'] = b''
  return specs, kind


C256R1, C384R1, C256K1, C224R1, C521R1 = 2, 4, 6, 3, 5


def scen_checks(w):
  rng, quick = w.rng, w.tier == 'quick'
  fast = [n for n in w.names if not n.startswith('CheckLCG')]
  lcg = [n for n in w.names if n.startswith('CheckLCG')]
  main = [C256R1, C256K1, C384R1]
  styles = {'CheckNonceMSB': ['msb', 'msb', 'healthy', 'fake'],
            'CheckNonceCommonPrefix': ['prefix', 'msb', 'healthy', 'fake'],
            'CheckNonceCommonPostfix': ['postfix', 'postfix', 'healthy', 'fake'],
            'CheckNonceGeneralized': ['prefix', 'msb', 'healthy', 'fake'],
            'CheckCr50U2f': ['cr50', 'cr50', 'healthy', 'fake'],
            'CheckLCGNonceGMP': ['fake', 'healthy'], 'CheckLCGNonceJavaUtilRandom': ['fake', 'healthy']}
  reps = 8 if quick else 40

  # A. real oracles on planted-bias / healthy batches, 1-3 issuers x 1-2 curves
  for name in fast:
    for rep_i in range(reps):
      cids = rng.sample(main, rng.choice([1, 1, 2]))
      specs, _ = mixed_batch(w, cids, rng.choice([1, 2, 3]), styles[name],
                             sizes=(1, 2, 6, 8, 10))
      run_check(w, name, specs, None, 'real', cold=(rep_i == 0))
  # real LCG solvers are slow (seconds per call): a few tiny batches only
  for name in lcg:
    for _ in range(1 if quick else 4):
      if name.endswith('JavaUtilRandom') and quick:
        specs, _ = mixed_batch(w, [C256R1], 1, ['fake'], sizes=(1,))
      else:
        specs, _ = mixed_batch(w, [C256R1], rng.choice([1, 2]), ['fake'], sizes=(1, 2, 3))
      run_check(w, name, specs, None, 'real')

  # B. adversarial answers substituted into the real code
  for name in w.names:
    for _ in range(reps * 2):
      cids = rng.sample(main + [C224R1, C521R1], rng.choice([1, 2, 2]))
      specs, _ = mixed_batch(w, cids, rng.choice([1, 2, 3]), ['fake', 'fake', 'healthy'],
                             sizes=(1, 2, 3, 5))
      run_check(w, name, specs, adversary(w, specs), 'adversarial')

  # C. issuer keys: unreduced coordinates, invalid points, unknown curve ids
  for name in w.names:
    for _ in range(reps):
      specs, _ = mixed_batch(w, rng.sample(main, 2), rng.choice([2, 3]), ['fake'], sizes=(1, 2, 3))
      specs = tamper_keys(w, specs)
      run_check(w, name, specs, adversary(w, specs, p_true=0.7), 'keys')

  # D. malformed r / s (<= 10 % of the calls)
  for name in w.names:
    for _ in range(max(2, reps // 2)):
      specs, _ = mixed_batch(w, rng.sample(main, rng.choice([1, 2])), 2, ['fake'], sizes=(1, 2, 3))
      specs, kind = malform(w, specs)
      run_check(w, name, specs, adversary(w, specs), 'malformed:' + kind)

  # E. degenerate batches
  for name in w.names:
    run_check(w, name, [], adversary(w, []), 'empty')
    iss = w.issuer(C256R1)
    sp = w.fake(iss, 2)
    for s_ in sp:
      s_['cid'] = rng.choice([0, 7, 16, 99])
    run_check(w, name, sp, adversary(w, sp), 'unknown-only')
    one = w.fake(w.issuer(rng.choice(main)), 1)
    run_check(w, name, one, fixed_answer([one[0]['d']]), 'single')

  # F. hash lengths 0..64
  for name in (fast if quick else w.names):
    iss = w.issuer(rng.choice(main))
    lens = list(range(0, 65))
    rng.shuffle(lens)
    for chunk in range(0, 65, 13):
      specs = []
      for ln in lens[chunk:chunk + 13]:
        specs += w.fake(iss, 1, hlen=ln)
      run_check(w, name, specs, adversary(w, specs), 'hashlen')

  # G. the window loop: len(unique_vals) around 24 / 48 / 120
  wb = Batch('ecdsachk.windows')
  lens = [1, 2, 23, 24, 25, 47, 48, 49, 72, 119, 120, 121, 130] + ([] if quick else [240, 241, 300])
  for name in ['CheckNonceMSB', 'CheckNonceGeneralized', 'CheckLCGNonceGMP', 'CheckCr50U2f'] + (
      [] if quick else ['CheckNonceCommonPrefix', 'CheckNonceCommonPostfix']):
    for ln in lens:
      if name == 'CheckCr50U2f' and ln > 49 and quick:
        continue
      iss = w.issuer(C256R1)
      specs = w.fake(iss, ln, hlen=32)
      if ln > 2:
        specs.append(dict(specs[0]))     # one duplicate: must not count
      hit = rng.randrange(0, 8)
      cnt = [0]

      def policy(kind, args, real, hit=hit, cnt=cnt, d=iss['d']):
        cnt[0] += 1
        return [d] if cnt[0] - 1 == hit else []
      out = run_check(w, name, specs, policy, 'windows:%d' % ln)
      if w.kind_of(name).startswith('B') and out['err'] is None and out['groups']:
        # window structure read off the recorded `a` arguments (positions in the full list)
        calls = out['groups'][0]['issuers'][0]
        # positions by first appearance (the size-24 windows come first and in order)
        pos = {}
        for ev in calls:
          for a_ in ev[2][0]:
            pos.setdefault(a_, len(pos))
        full = list(pos)
        if len(pos) == len(full) == ln:
          impl = ';'.join(('%s-%s/%s' % (H(pos[ev[2][0][0]]), H(pos[ev[2][0][-1]]), H(len(ev[2][0]))))
                          if len(ev[2][0]) else 'empty-window' for ev in calls)

          def wpred(calls=calls, ln=ln, pos=pos):
            covered = set()
            for ev in calls:
              covered |= {pos[x] for x in ev[2][0]}
            if covered != set(range(ln)):
              return 'window loop does not cover every signature (len %d)' % ln
            return None
          wb.add('ecdsachk.windows %s' % H(ln), impl, tag=name, pred=wpred, always=True)
  w.windows_batch = wb

  # H. repeated calls of the same check object on related batches (no state may leak):
  #    same (r, s) with different hashes / different keys / different curves across calls
  for name in w.names:
    for _ in range(2 if quick else 8):
      iss = w.issuer(rng.choice(main))
      base = w.fake(iss, 3, hlen=32)
      b1 = [dict(sp) for sp in base]
      b2 = [dict(sp, mh=rng.randbytes(32)) for sp in base]
      iss2 = w.issuer(iss['cid'])
      b3 = [dict(sp, kx=to_bytes_min(iss2['x']), ky=to_bytes_min(iss2['y']), d=iss2['d'])
            for sp in base]
      other = rng.choice([c for c in main if c != iss['cid']])
      iss3 = w.issuer(other)
      b4 = [dict(sp, cid=other, kx=to_bytes_min(iss3['x']), ky=to_bytes_min(iss3['y']),
                 d=iss3['d']) for sp in base]
      seq = [b1, b2, b1 + b2, b3, b4, b1]
      for k, bt in enumerate(seq):
        pol = fixed_answer([iss['d'], iss2['d']]) if k % 2 == 0 else adversary(w, bt)
        run_check(w, name, bt, pol, 'repeat:%d' % k)

  # I. a signature alone / in a batch / in a permuted batch with the same oracle answers (C17)
  for name in w.names:
    for _ in range(2 if quick else 8):
      specs, issuers = mixed_batch(w, rng.sample(main, 2), 3, ['fake'], sizes=(1, 2, 3))
      answer = [iss['d'] for iss in issuers if rng.random() < 0.6] + [rng.getrandbits(200)]
      pol = fixed_answer(answer)
      whole = run_check(w, name, specs, pol, 'batch')
      perm = list(range(len(specs)))
      rng.shuffle(perm)

      def perm_pred(out, whole=whole, perm=perm):
        if out['err'] is None and whole['err'] is None:
          if [whole['verdicts'][p] for p in perm] != out['verdicts']:
            return 'verdicts of the permuted batch are not the permuted verdicts'
        return None
      run_check(w, name, [specs[p] for p in perm], pol, 'permuted', extra_pred=perm_pred)
      for i in rng.sample(range(len(specs)), min(3, len(specs))):
        def alone_pred(out, whole=whole, i=i):
          if out['err'] is None and whole['err'] is None:
            if out['verdicts'][0] != whole['verdicts'][i]:
              return ('signature %d: verdict alone %s, in the batch %s (same oracle answers)'
                      % (i, out['verdicts'][0], whole['verdicts'][i]))
          return None
        run_check(w, name, [specs[i]], pol, 'alone', extra_pred=alone_pred)


# ----------------------------------------------------------------------------
# direct operations

def fmt_pks(pks):
  if not pks:
    return '[]'
  return ';'.join('%s:%s=%s' % (H(k[0]), H(k[1]), '.'.join(H(i) for i in v) or '_')
                  for k, v in pks.items())


def corr_mapissuer(w, rep):
  rng = w.rng
  b = Batch('ecdsachk.mapissuer')
  N = 150 if w.tier == 'quick' else 1500
  for _ in range(N):
    nkeys = rng.choice([1, 1, 2, 3, 5])
    keys = [(rng.getrandbits(rng.choice([8, 200, 256, 300])), rng.getrandbits(rng.choice([1, 256])))
            for _ in range(nkeys)]
    if nkeys > 1 and rng.random() < 0.3:
      keys[1] = (keys[0][0], keys[1][1])          # same x, other y
    if nkeys > 2 and rng.random() < 0.3:
      keys[2] = (keys[0][1], keys[0][0])          # swapped
    cnt = rng.choice([0, 1, 2, 5, 9, 20])
    specs = []
    for _ in range(cnt):
      k = rng.choice(keys)
      specs.append(dict(cid=rng.choice([0, 2, 6, 99]), kx=b'\0' * rng.choice([0, 0, 1, 3]) + to_bytes_min(k[0]),
                        ky=b'\0' * rng.choice([0, 0, 2]) + to_bytes_min(k[1]),
                        r=rng.randbytes(2), s=rng.randbytes(2), mh=b'', key=k))
    arts = [w.to_pb(sp) for sp in specs]
    pks = w.esc._MapIssuerSigIndexes(arts)

    def pred(specs=specs, pks=pks):
      flat = sorted(i for v in pks.values() for i in v)
      if flat != list(range(len(specs))):
        return 'index lists are not a partition of range(%d): %r' % (len(specs), flat)
      for k, v in pks.items():
        if v != sorted(v):
          return 'index list not increasing'
        for i in v:
          if tuple(k) != specs[i]['key']:
            return 'signature %d filed under a key that is not PublicPoint of its issuer' % i
      if len(pks) != len({sp['key'] for sp in specs}):
        return 'one issuer point filed under several keys'
      return None
    try:
      impl = fmt_pks(pks)
    except Exception as e:  # noqa
      impl = 'unformattable keys: %r' % (e,)
    b.add('ecdsachk.mapissuer %s' % w.arts_str(specs), impl,
          tag='n=%d' % min(cnt, 9), pred=pred, always=True, nontrivial=cnt > 0)
  rep.absorb(b, b.run())


def corr_issuerdlogs(w, rep):
  rng = w.rng
  b = Batch('ecdsachk.issuerdlogs')
  N = 120 if w.tier == 'quick' else 1000
  cids = [C256R1, C256K1, C384R1, C224R1, C521R1, 1, 17, 18, 19]
  for it in range(N):
    cid = rng.choice(cids[:3] if rng.random() < 0.7 else cids)
    c = w.curves[cid]
    n, p = int(c.n), int(c.mod)
    if it % 10 == 0:
      c._cache.clear()
    elif rng.random() < 0.7:
      w.warm(cid)
    nk = rng.choice([0, 1, 2, 3])
    isss = [w.issuer(cid) for _ in range(nk)]
    pks = {}
    idx = list(range(rng.choice([0, 1, 2, 4, 7]) if nk else 0))
    rng.shuffle(idx)
    keymeta = []
    for i_, iss in enumerate(isss):
      x, y = iss['x'], iss['y']
      kind = rng.choice(['true', 'true', 'true', 'x+p', 'y+p', 'y+1', 'neg'])
      if kind == 'x+p':
        x += p
      elif kind == 'y+p':
        y += p
      elif kind == 'y+1':
        y += 1
      elif kind == 'neg':
        y = p - y
      key = (gmpy2.mpz(x), gmpy2.mpz(y))
      mine = sorted(idx[i_::nk]) if rng.random() < 0.8 else idx[i_::nk]
      if rng.random() < 0.1 and idx:
        mine = mine + [idx[0]]          # an index listed under two keys (not produced by the code)
      pks[key] = mine
      keymeta.append((key, iss['d'], kind))
    guesses = []
    for _ in range(rng.choice([0, 1, 2, 4, 7])):
      ch = rng.random()
      d = rng.choice(isss)['d'] if isss else 5
      if ch < 0.45:
        guesses.append(rng.choice([d, d + n, d - n, d + 3 * n, gmpy2.mpz(d)]))
      elif ch < 0.75:
        guesses.append(rng.choice([0, n, 2 * n, n - 1, n + 1, 1, -1, -d, n - d, 2 * d]))
      else:
        guesses.append(rng.choice([1, -1]) * rng.getrandbits(rng.choice([10, 256, 520, 700])))
    cache_s = c11.fcache(c._cache)
    try:
      res = w.esc._IssuerDLogs(list(guesses), pks, c)
      impl = 'ok ' + (','.join('%s=%s' % (H(k), H(v)) for k, v in res.items()) or '[]')
    except Exception as e:  # noqa
      res, impl = None, 'err ' + type(e).__name__

    def pred(res=res, pks=pks, guesses=guesses, cid=cid):
      if res is None:
        return '_IssuerDLogs raised'
      for i_, d in res.items():
        owners = [k for k, v in pks.items() if i_ in v]
        P = w.point_of(cid, d)
        if not any(P == (int(k[0]), int(k[1])) for k in owners):
          return 'index %d -> %x but %x*G is not the key it is filed under' % (i_, int(d), int(d))
      for k, v in pks.items():
        if any(w.point_of(cid, g) == (int(k[0]), int(k[1])) for g in guesses):
          missing = [i_ for i_ in v if i_ not in res]
          if missing:
            return 'key with a correct guess: indexes %r not reported' % missing
      return None
    b.add('ecdsachk.issuerdlogs %s %s %s %s' % (
        L([c.a, c.b, c.mod, c.g[0], c.g[1], c.n, c.h]), cache_s, L(guesses), fmt_pks(pks)),
        impl, tag='%s|%s' % (c.name, 'hit' if res else 'nohit'), pred=pred, always=True)
  rep.absorb(b, b.run())


def corr_init(w, rep):
  b = Batch('ecdsachk.init')
  hnp, esc = w.hnp, w.esc
  from paranoid_crypto.lib import lcg_constants
  biases = [None] + list(hnp.Bias)
  lcgs = [None] + [(nm, fl) for nm in lcg_constants.LcgName
                   for fl in (hnp.SearchStrategy.DEFAULT, hnp.SearchStrategy.SINGLE)]
  for bias in biases:
    for lp in lcgs:
      try:
        chk = esc.BiasedBaseCheck(bias=bias, lcg_params=lp)
        if chk.bias is not None and chk.lcg_params is None:
          impl = 'ok B:%s' % H(chk.bias.value)
        elif chk.bias is None and chk.lcg_params is not None:
          impl = 'ok L:%s:%s' % (H(chk.lcg_params[0].value), H(chk.lcg_params[1].value))
        else:
          impl = 'ok both-or-none'
      except Exception as e:  # noqa
        impl = 'err ' + type(e).__name__
      b.add('ecdsachk.init %s %s' % ('-' if bias is None else H(bias.value),
                                     '-' if lp is None else '%s:%s' % (H(lp[0].value), H(lp[1].value))),
            impl, tag=impl.split(':')[0])
  # CURVE_FACTORY of the tree vs the `namedFactory` the theorems `namedFactory_ok` are about
  # (non-None entries in dict order with empty caches, then the None entries)
  ents = ['%s|%s|[]' % (H(cid), L([c.a, c.b, c.mod, c.g[0], c.g[1], c.n, c.h]))
          for cid, c in w.factory if c is not None]
  ents += ['%s|-|[]' % H(cid) for cid, c in w.factory if c is None]
  b.add('ecdsachk.factory', ';'.join(ents) or '[]', tag='factory')
  rep.absorb(b, b.run())
  # which subclass uses which bias / LCG (static table; the values are handed through unchanged)
  want = {'CheckLCGNonceGMP': 'L:1:7', 'CheckLCGNonceJavaUtilRandom': 'L:2:7', 'CheckNonceMSB': 'B:1',
          'CheckNonceCommonPrefix': 'B:2', 'CheckNonceCommonPostfix': 'B:3',
          'CheckNonceGeneralized': 'B:4', 'CheckCr50U2f': 'C'}
  got = {n: w.kind_of(n) for n in w.names}
  if got != want:
    rep.notes.append('check registry differs from the documented table: %r' % (got,))
  rep.extra['check_modes'] = got


# ----------------------------------------------------------------------------

def correspondence_sigs(rep, rng, tier):
  """entry point for the coordinator (C02 / C08 / C17 / C18 runs)."""
  t0 = time.time()
  w = World(rng, tier)
  saved_caches = {cid: dict(c._cache) for cid, c in w.curves.items() if c is not None}
  try:
    corr_init(w, rep)
    corr_mapissuer(w, rep)
    corr_issuerdlogs(w, rep)
    scen_checks(w)
    t1 = time.time()
    rep.absorb(w.batch, w.batch.run())
    rep.absorb(w.windows_batch, w.windows_batch.run())
    rep.violations.extend(w.solver_violations)
    rep.extra.setdefault('c02s', {}).update(
        impl_wall_s=round(t1 - t0, 1), model_wall_s=round(time.time() - t1, 1),
        check_calls=len(w.batch.items), oracle_raised=w.oracle_raised[:20], scenario_stats=w.stats,
        curve_orders_prime={c.name: bool(gmpy2.is_prime(int(c.n), 64))
                            for c in w.curves.values() if c is not None})
  finally:
    for cid, cache in saved_caches.items():
      w.curves[cid]._cache.clear()
      w.curves[cid]._cache.update(cache)


def correspondence(rep, rng, tier):
  correspondence_sigs(rep, rng, tier)
