"""C03 — shared-factor detection across a batch is exact for every batch shape.

Correspondence of Model/NTheory (fastProduct, extendedProductTree) and Model/BatchGcd
(batchGCD, checkGCD, checkGCDN1) with ntheory_util.FastProduct / ExtendedProductTree,
rsa_util.BatchGCD and rsa_aggregate_checks.CheckGCD / CheckGCDN1 (through real protobuf
artifacts), plus the failing-input predicate `gcd(v, prod(set(values) - {v}) * other)`.

Defect D1 (empty batch -> IndexError on the pinned tree): the executable model is the code
AFTER fixes/D1-batchgcd-empty.diff.  The implementation is probed once:
  * repaired  -> empty batches are compared with the (repaired) model like any other batch;
  * pinned    -> if `known_findings.json` lists D1, a KNOWN-FINDING line is printed and the
                 empty-batch lines are compared with the `*.pinned` model ops (IndexError);
                 if D1 is not listed, they are compared with the repaired model, diverge, the
                 predicate "an empty batch yields an empty, non-weak result" fails on the
                 implementation and a VIOLATION with replay is reported.
"""
import math

import gmpy2
import framework as fw
from framework import H, L, O, B, Batch, call

META = dict(
    trusted_base=[
        'no oracle: BatchGCD / product tree are pure integer code',
        'enumeration order of Python set(values) is a universally quantified model argument '
        '(theorem order_independent); the driver uses first-occurrence order, and op '
        'rsa.batchgcd.with replays the order observed on the implementation',
    ],
    assumptions=[
        'values are positive (moduli >= 1; n - 1 >= 1 for CheckGCDN1): theorem hypotheses; a zero '
        'among >= 2 distinct values raises ZeroDivisionError in code and model alike '
        '(theorem zero_value_raises, exercised as malformed input)',
        'CheckGCDN1 with modulus 0 (value -1) is outside the model (driver refuses it)',
        'model functions in Model/NTheory.lean, Model/BatchGcd.lean mirror ntheory_util.py / '
        'rsa_util.BatchGCD / rsa_aggregate_checks.py; tie checked by this correspondence run',
    ])

D1_TEXT = ('D1 rsa_util.BatchGCD([]) raises IndexError (so do CheckGCD/CheckGCDN1/CheckAllRSA on an '
           'empty batch); clause "an empty batch yields an empty, non-weak result" fails on the '
           'pinned tree; repaired by fixes/D1-batchgcd-empty.diff (model = repaired code)')


# ----------------------------------------------------------------------------
# generators

class Primes:
  """fresh (never repeated within one instance) random primes."""

  def __init__(self, rng):
    self.rng = rng
    self.seen = set()

  def fresh(self, bits):
    while True:
      p = int(gmpy2.next_prime(self.rng.getrandbits(bits) | (1 << (bits - 1))))
      if p not in self.seen:
        self.seen.add(p)
        return p


FAMILIES = ['coprime', 'shared1', 'shared2', 'shared3', 'nested', 'dup2', 'dup3', 'single',
            'ones', 'mixed']
OTHERS = ['none', 'zero', 'one', 'prime', 'product']


def coprime_moduli(pr, n, pbits):
  return [pr.fresh(pbits) * pr.fresh(pbits) for _ in range(n)]


def plant_shared(rng, pr, vals, partners, pbits, groups=None):
  """replaces groups of (partners+1) moduli by moduli sharing one prime."""
  n = len(vals)
  if n < 2:
    return vals
  size = min(n, partners + 1)
  groups = groups or max(1, n // 16)
  idx = list(range(n))
  rng.shuffle(idx)
  for g in range(groups):
    grp = idx[g * size:(g + 1) * size]
    if len(grp) < 2:
      break
    p = pr.fresh(pbits)
    for i in grp:
      vals[i] = p * pr.fresh(pbits)
  return vals


def make_batch(rng, family, n, pbits):
  """list of n positive ints of the given family (bits of each prime = pbits)."""
  pr = Primes(rng)
  if n == 0:
    return []
  if family == 'coprime':
    v = coprime_moduli(pr, n, pbits)
  elif family in ('shared1', 'shared2', 'shared3'):
    v = plant_shared(rng, pr, coprime_moduli(pr, n, pbits), int(family[-1]), pbits)
  elif family == 'nested':
    v = coprime_moduli(pr, n, pbits)
    if n >= 2:
      i, j = rng.sample(range(n), 2)
      v[j] = v[i] * pr.fresh(pbits)            # v[i] divides v[j]
    if n >= 5:
      # D2 shape: pq, pr, qs — pq divides the product of the others, no single one
      p, q, r, s = (pr.fresh(pbits) for _ in range(4))
      a, b, c = rng.sample([k for k in range(n) if k not in (i, j)], 3)
      v[a], v[b], v[c] = p * q, p * r, q * s
  elif family in ('dup2', 'dup3'):
    m = int(family[-1])
    base = plant_shared(rng, pr, coprime_moduli(pr, (n + m - 1) // m, pbits), 1, pbits)
    v = (base * m)[:n]
    rng.shuffle(v)
  elif family == 'single':
    v = [pr.fresh(pbits) * pr.fresh(pbits)] * n
  elif family == 'ones':
    v = plant_shared(rng, pr, coprime_moduli(pr, n, pbits), 2, pbits)
    for i in rng.sample(range(n), max(1, n // 3)):
      v[i] = 1
  else:  # mixed
    v = plant_shared(rng, pr, coprime_moduli(pr, n, pbits), rng.randrange(1, 4), pbits)
    for _ in range(max(1, n // 5)):
      i, j = rng.randrange(n), rng.randrange(n)
      c = rng.randrange(5)
      if c == 0:
        v[i] = v[j]
      elif c == 1 and i != j:
        v[i] = v[j] * pr.fresh(pbits)
      elif c == 2:
        v[i] = 1
      elif c == 3:
        v[i] = pr.fresh(pbits)               # a prime modulus
      else:
        v[i] = v[j] * v[j]                   # square of another
  return [int(x) for x in v]


def make_other(rng, kind, values, pbits):
  pr = Primes(rng)
  if kind == 'none':
    return None
  if kind == 'zero':
    return 0
  if kind == 'one':
    return 1
  nontriv = [v for v in values if v > 1]

  def some_factor():
    if nontriv and rng.random() < 0.7:
      v = rng.choice(nontriv)
      for _ in range(3):
        w = rng.choice(nontriv)
        g = math.gcd(v, w)
        if 1 < g < v:
          return g
      return v
    return pr.fresh(pbits)
  if kind == 'prime':
    return some_factor()
  o = 1
  for _ in range(rng.randrange(2, 5)):
    o *= some_factor()
  return o


# ----------------------------------------------------------------------------
# the property, evaluated on the implementation only

def expected_gcds(values, other):
  o = other if other else 1
  s = set(values)
  P = 1
  for x in s:
    P *= x
  return [math.gcd(v, (P // v) * o) for v in values]


def batch_pred(values, other, get):
  """the C03 statement on one batch: result[i] = gcd(values[i], prod(set(values)-{values[i]}) * other);
  an empty batch gives an empty result."""
  def pred():
    if any(v <= 0 for v in values):
      return None                      # outside the property's domain (malformed input)
    try:
      r = get()
    except Exception as e:  # noqa
      return 'BatchGCD raised %r on a batch of %d positive values' % (e, len(values))
    r = [int(x) for x in r]
    exp = expected_gcds(values, other)
    if r != exp:
      bad = [i for i in range(min(len(r), len(exp))) if r[i] != exp[i]][:3]
      return ('BatchGCD differs from gcd(v, prod(others)*other) at positions %s: got %s expected %s '
              '(len %d vs %d)' % (bad, [hex(r[i]) for i in bad], [hex(exp[i]) for i in bad],
                                  len(r), len(exp)))
    return None
  return pred


def mk_keys(ns):
  from paranoid_crypto import paranoid_pb2
  from paranoid_crypto.lib import util
  keys = []
  for n in ns:
    k = paranoid_pb2.RSAKey()
    k.rsa_info.n = util.Int2Bytes(int(n))
    k.rsa_info.e = util.Int2Bytes(65537)
    keys.append(k)
  return keys


def run_check(check, info_name, ns):
  """runs a real aggregate check on fresh protobuf keys; canonical string of what it recorded."""
  from paranoid_crypto.lib import util
  keys = mk_keys(ns)
  any_weak = check.Check(keys)
  per = []
  for k in keys:
    tr = util.GetTestResult(k.test_info, check.check_name)
    fs = util.GetAttachedFactors(k.test_info, info_name)
    if tr is None:
      per.append('noresult')
      continue
    s = '%s:%s' % (B(tr.result), L(sorted(fs)) if fs else '[]')
    if bool(k.test_info.weak) != bool(tr.result):
      s += '!weak=%s' % B(k.test_info.weak)
    per.append(s)
  return '%s %s' % (B(any_weak), ';'.join(per) if per else '[]')


def check_pred(kind, ns, bound, get):
  """flag/record clause of C03 on the implementation."""
  def pred():
    vals = ns if kind == 'gcd' else [n - 1 for n in ns]
    if any(v <= 0 for v in vals):
      return None
    try:
      s = get()
    except Exception as e:  # noqa
      return '%s raised %r on a batch of %d keys' % (kind, e, len(ns))
    exp = expected_gcds(vals, None)
    anyw, rest = s.split(' ', 1)
    per = [] if rest == '[]' else rest.split(';')
    if len(per) != len(ns):
      return 'result count %d for %d keys' % (len(per), len(ns))
    want_any = False
    for i, (n, g, p) in enumerate(zip(ns, exp, per)):
      if kind == 'gcd':
        flag = g != 1
        fset = {g, n // g} if flag else set()
        if flag and g == n:
          # code after fix D2: a proper split from a single other modulus is recorded too
          for other in ns:
            h = math.gcd(n, other)
            if 1 < h < n:
              fset |= {h, n // h}
              break
          if n > 1 and not any(1 < f < n for f in fset) and not any(m != n and m % n == 0 for m in ns):
            return ('key %d (n=%x): no proper divisor recorded although n divides no other '
                    'modulus of the batch (C01 last clause)' % (i, n))
        fs = sorted(fset)
      else:
        flag = g >= bound
        fs = [g] if flag else []
      want_any |= flag
      w = '%s:%s' % (B(flag), L(fs))
      if p != w:
        return 'key %d (n=%x): recorded %s, property demands %s' % (i, n, p, w)
    if anyw != B(want_any):
      return 'any_weak=%s but flags say %s' % (anyw, B(want_any))
    return None
  return pred


# ----------------------------------------------------------------------------

def probe_d1():
  from paranoid_crypto.lib import rsa_util
  try:
    r = rsa_util.BatchGCD([])
  except IndexError:
    return 'pinned'
  except Exception as e:  # noqa
    return 'other:' + repr(e)
  return 'repaired' if r == [] else 'other:' + repr(r)


def d1_listed():
  return any(f.get('id') == 'D1' for f in fw.load_known_findings())


def sizes_for(tier, rng):
  if tier == 'thorough':
    s = list(range(0, 401))
    s += sorted(rng.sample(range(401, 5001), 10)) + [4096, 4097, 5000]
    return s
  return list(range(0, 131))


def correspondence(rep, rng, tier):
  from paranoid_crypto.lib import rsa_util, ntheory_util, consts, rsa_aggregate_checks as ra
  mpz = gmpy2.mpz
  variant = probe_d1()
  rep.extra['implementation_variant_D1'] = variant
  pinned_mode = variant == 'pinned' and d1_listed()
  if pinned_mode:
    rep.known.append(D1_TEXT)
  sfx = '.pinned' if pinned_mode else ''

  # --- nt.fastproduct, nt.exttree alone
  bf = Batch('nt.fastproduct')
  bt = Batch('nt.exttree')
  for n in list(range(0, 70)) + [127, 128, 129, 255, 256, 257] + ([1000, 1023, 1025, 3000] if tier == 'thorough' else [513]):
    for rep_ in range(2 if n < 20 else 1):
      bits = rng.choice([1, 2, 8, 33, 64, 130])
      vals = [rng.getrandbits(bits) for _ in range(n)]
      if rep_ == 1 or n % 7 == 3:
        vals = [v or 1 for v in vals]                       # no zeros
      if n % 5 == 4:
        vals = [rng.choice(vals) for _ in range(n)]         # repeated leaves
      tag = 'len%s' % ('0' if n == 0 else '1' if n == 1 else 'odd' if n % 2 else 'even')
      as_mpz = rng.random() < 0.5
      arg = [mpz(v) for v in vals] if as_mpz else list(vals)
      r = call(lambda x: H(x), ntheory_util.FastProduct, arg)[3:]
      bf.add('nt.fastproduct ' + L(vals), r, tag=tag,
             pred=(lambda vals=vals: None if int(ntheory_util.FastProduct(list(vals))) == math.prod(vals)
                   else 'FastProduct != product'))
      r = call(lambda res: '|'.join(L(lv) for lv in res[0]) + ' ' + H(res[1]),
               ntheory_util.ExtendedProductTree, arg)

      def tpred(vals=vals):
        if not vals:
          return None   # the empty tree is not a C03 clause by itself (BatchGCD([]) is)
        tree, t = ntheory_util.ExtendedProductTree(list(vals))
        P = math.prod(vals)
        T = sum(math.prod(vals[:i] + vals[i + 1:]) for i in range(len(vals))) if len(vals) <= 300 else None
        if [int(x) for x in tree[0]] != vals or [int(x) for x in tree[-1]] != [P]:
          return 'product tree: wrong leaves or root'
        if T is not None and int(t) != T:
          return 'T != sum of products of the others'
        return None
      bt.add('nt.exttree ' + L(vals), r, tag=tag, pred=tpred)
  rep.absorb(bf, bf.run())
  rep.absorb(bt, bt.run())

  # --- rsa.batchgcd over every size x family x other
  b = Batch('rsa.batchgcd')
  bw = Batch('rsa.batchgcd.with')
  bte = Batch('nt.exttree')
  sizes = sizes_for(tier, rng)
  k = 0
  for n in sizes:
    fams = FAMILIES if n <= 400 else ['coprime', 'shared2', 'dup2', 'mixed']
    for fi, fam in enumerate(fams):
      if n == 0 and fi > 0:
        okinds = []
      elif n <= 24:
        okinds = OTHERS
      else:
        okinds = [OTHERS[(n + fi) % 5], OTHERS[(n + 2 * fi + 2) % 5]]
        if okinds[0] == okinds[1]:
          okinds = okinds[:1]
      for ok in okinds:
        k += 1
        pbits = 32
        if n <= 40 and k % 11 == 0:
          pbits = rng.choice([64, 128])
        if n <= 6 and k % 17 == 0:
          pbits = 512
        vals = make_batch(rng, fam, n, pbits)
        other = make_other(rng, ok, vals, pbits)
        malformed = False
        if n >= 1 and k % 37 == 0:
          vals[rng.randrange(n)] = 0                     # malformed: a zero value
          malformed = True
        arg = [mpz(v) for v in vals]
        oarg = None if other is None else mpz(other)
        get = lambda arg=arg, oarg=oarg: rsa_util.BatchGCD(list(arg), oarg)
        r = call(L, get)
        nuniq = len(set(vals))
        tag = '%s/%s' % ('zero-value' if malformed else fam, ok)
        if n == 0:
          tag = 'empty/' + ok
        op = 'rsa.batchgcd' + (sfx if n == 0 else '')
        b.add('%s %s %s' % (op, L(vals), O(other)), r, tag=tag,
              pred=batch_pred(vals, other, get), nontrivial=n > 0,
              info=dict(family=fam, n=n, distinct=nuniq, other=ok))
        # same batch with the enumeration order Python's set() really used, and its tree
        if n >= 1 and (k % 3 == 0 or n <= 12):
          u = [int(x) for x in list(set(arg))]
          bw.add('rsa.batchgcd.with %s %s %s' % (L(u), L(vals), O(other)), r,
                 tag='%s:%s' % ('odd' if len(u) % 2 else 'even', 'zero' if malformed else 'pos'),
                 pred=batch_pred(vals, other, get))
          if k % 6 == 0:
            rt = call(lambda res: '|'.join(L(lv) for lv in res[0]) + ' ' + H(res[1]),
                      ntheory_util.ExtendedProductTree, [mpz(x) for x in u])
            bte.add('nt.exttree ' + L(u), rt, tag='set-order')
  rep.absorb(b, b.run())
  rep.absorb(bw, bw.run())
  rep.absorb(bte, bte.run())

  # --- CheckGCD / CheckGCDN1 through protobuf artifacts
  bc = Batch('rsa.checkgcd')
  bn = Batch('rsa.checkgcdn1')
  cg = ra.CheckGCD()
  default_bound = ra.CheckGCDN1()._gcd_bound
  csizes = list(range(0, 41)) + [64, 65, 127] + ([200, 333, 1000] if tier == 'thorough' else [])
  for n in csizes:
    for fam in (FAMILIES if n <= 12 else [FAMILIES[n % len(FAMILIES)], 'mixed']):
      if n == 0 and fam != 'coprime':
        continue
      pbits = rng.choice([32, 32, 64, 128]) if n <= 20 else 32
      ns = make_batch(rng, fam, n, pbits)
      if n >= 2 and rng.random() < 0.04:
        ns[rng.randrange(n)] = 0                          # malformed: modulus 0
      get = lambda ns=ns: run_check(cg, consts.INFO_NAME_N_FACTORS, ns)
      r = call(str, get)
      flagged = r.count('1:')
      tag = 'empty' if n == 0 else ('%s:%s' % (fam, 'weak' if r.startswith('ok 1') else
                                              'clean' if r.startswith('ok 0') else 'raise'))
      bc.add('rsa.checkgcd%s %s' % (sfx if n == 0 else '', L(ns)), r, tag=tag,
             pred=check_pred('gcd', ns, None, get), nontrivial=n > 0, info=dict(flagged=flagged))
    # CheckGCDN1: moduli n = 1 + r*c with shared r of various sizes, bounds around the gcds
    for shape in ('shared', 'healthy', 'dups', 'small'):
      if n == 0 and shape != 'shared':
        continue
      pr = Primes(rng)
      rs = [pr.fresh(rng.choice([20, 64, 127, 128, 129, 140])) for _ in range(3)]
      ns = []
      for i in range(n):
        if shape == 'shared' and i % 3 != 2:
          ns.append(1 + rng.choice(rs) * 2 * pr.fresh(40))
        elif shape == 'small':
          ns.append(1 if rng.random() < 0.01 else rng.choice([2, 2, 3, 4, 7, 13, 31, 1 + rs[0]]))
        else:
          ns.append(pr.fresh(48) * pr.fresh(48))
      if shape == 'dups' and n >= 2:
        ns = [rng.choice(ns[:max(1, n // 2)]) for _ in range(n)]
      vals = [x - 1 for x in ns]
      gs = sorted(set(expected_gcds(vals, None))) if all(v > 0 for v in vals) else []
      bounds = {0, 1, 2, default_bound, default_bound + 1, default_bound - 1}
      for g in gs[:2] + gs[-2:]:
        bounds |= {g - 1, g, g + 1}
      if n > 12:
        bounds = set(rng.sample(sorted(bounds), min(4, len(bounds)))) | {default_bound}
      for bound in sorted(x for x in bounds if x >= 0):
        chk = ra.CheckGCDN1(bound) if bound != default_bound else ra.CheckGCDN1()
        get = lambda ns=ns, chk=chk: run_check(chk, consts.INFO_NAME_NM1_FACTORS, ns)
        r = call(str, get)
        tag = 'empty' if n == 0 else ('%s:%s' % (shape, 'weak' if r.startswith('ok 1') else
                                                'clean' if r.startswith('ok 0') else 'raise'))
        bn.add('rsa.checkgcdn1%s %s %s' % (sfx if n == 0 else '', H(bound), L(ns)), r, tag=tag,
               pred=check_pred('n1', ns, bound, get), nontrivial=n > 0)
  rep.absorb(bc, bc.run())
  rep.absorb(bn, bn.run())


def search(rep, rng, tier):
  """Failing-input search on the implementation only (no model): evaluates the C03 statement
  directly on fresh batches of every family."""
  from paranoid_crypto.lib import rsa_util
  mpz = gmpy2.mpz
  tried = 0
  for n in list(range(0, 40)) + [63, 64, 65, 100, 129]:
    for fam in FAMILIES:
      for ok in OTHERS:
        vals = make_batch(rng, fam, n, 32)
        other = make_other(rng, ok, vals, 32)
        get = lambda: rsa_util.BatchGCD([mpz(v) for v in vals], None if other is None else mpz(other))
        tried += 1
        what = batch_pred(vals, other, get)()
        if what and not (n == 0 and rep.known):
          rep.violations.append(dict(op='search:rsa_util.BatchGCD',
                                     line='rsa.batchgcd %s %s' % (L(vals), O(other)), what=what,
                                     impl=call(L, get), model=None, info=dict(family=fam, other=ok)))
          rep.extra['search_tried'] = tried
          return
  rep.extra['search_tried'] = tried


def replay(doc):
  """./check C03 --replay file : re-runs the recorded line on the implementation and the model."""
  import shims
  shims.install()
  from paranoid_crypto.lib import rsa_util
  line = doc.get('line') or (doc.get('diverging_correspondence') or [{}])[0].get('line')
  if not line:
    print('nothing to replay')
    return 2
  toks = line.split()
  print('model :', fw.run_driver([line])[0])
  if toks[0].startswith('rsa.batchgcd') and toks[0] != 'rsa.batchgcd.with':
    vals = [] if toks[1] == '[]' else [int(x, 16) for x in toks[1].split(',')]
    other = None if toks[2] == '-' else int(toks[2], 16)
    get = lambda: rsa_util.BatchGCD([gmpy2.mpz(v) for v in vals], other)
    print('impl  :', call(L, get))
    what = batch_pred(vals, other, get)()
    print('property:', what or 'holds on this input')
    return 1 if what else 0
  if toks[0] in ('nt.exttree', 'nt.fastproduct'):
    from paranoid_crypto.lib import ntheory_util
    vals = [] if toks[1] == '[]' else [int(x, 16) for x in toks[1].split(',')]
    if toks[0] == 'nt.fastproduct':
      r = int(ntheory_util.FastProduct(list(vals)))
      print('impl  :', H(r))
      bad = r != math.prod(vals)
    else:
      r = call(lambda res: '|'.join(L(lv) for lv in res[0]) + ' ' + H(res[1]),
               ntheory_util.ExtendedProductTree, list(vals))
      print('impl  :', r)
      T = sum(math.prod(vals[:i] + vals[i + 1:]) for i in range(len(vals)))
      bad = bool(vals) and r.split(' ')[-1] != H(T)
    print('property:', 'FAILS (product / T = sum of products of the others)' if bad else 'holds on this input')
    return 1 if bad else 0
  print('recorded impl:', doc.get('impl'))
  return 0
