"""C04 — close primes are always factored: correspondence at the exact thresholds and
completeness predicates evaluated on the implementation."""
import gmpy2
import framework as fw
from framework import H, L, M, O, B, Batch, call
import artifacts as art
import gen_rsa
from corr.c01 import fmt_optpair, fmt_optlist, cbrt_oracle

META = dict(
    trusted_base=['float cube root of FactorWithGuess is an oracle value passed to the model'],
    assumptions=[
        'Fermat clause proved exactly (fermat_exact). Equal-high/low-bits clause: hlbe_complete(_sharp).',
        'Small-upper-difference and unseeded-PRNG clauses: completeness PROVED (Props/C04Guess.lean: '
        'fwg_complete, sud_complete, unseeded_complete) with "next prime" replaced by the gap bound '
        'GapOK(L, g): (g+2)^2 * 2^12 <= 2^(L/2), for every float-oracle value with CbrtOK '
        '(n <= 8 bound^3, 16 bound^3 <= 81 n). Planted members at g = 0 / 2^12 / just below the gap '
        'bound are evaluated on the implementation every run (always-predicates, tags gap:*); members '
        'beyond the bound are sampled for statistics only (tags beyond:*). That real prime gaps are '
        'below the bound is number-theoretic folklore, not proved',
    ])


def gap_ok(Lb, g):
  """GapOK of Props/C04Guess.lean."""
  return (g + 2) ** 2 * 2 ** 12 <= 2 ** (Lb // 2)


def gap_bound(Lb):
  return 2 ** (Lb // 4 - 6) - 2


def cbrt_ok(n):
  """CbrtOK of Proofs/FwgCompleteFamilies.lean on the REAL float value."""
  shift = max(0, n.bit_length() // 3 - 52)
  bnd = cbrt_oracle(n) << shift
  return n <= 8 * bnd ** 3 and 16 * bnd ** 3 <= 81 * n


def proper_split_pred(what, n, get, primes=None):
  """the conclusion of the C04Guess theorems evaluated on the implementation."""
  def pred():
    if not cbrt_ok(n):
      return '%s: the float cube root violates CbrtOK for n=%x' % (what, n)
    r = get()
    if not r or len(r) != 2:
      return '%s: inside the proved region but not factored: n=%x (got %r)' % (what, n, r)
    g, h = int(r[0]), int(r[1])
    if not (1 < g < n and n % g == 0 and h == n // g):
      return '%s: result %r is not a proper split of n=%x' % (what, r, n)
    if primes is not None and sorted([g, h]) != sorted(primes):
      return '%s: result %r is not the two primes of n=%x' % (what, r, n)
    return None
  return pred


def guess_completeness(rep, rng, tier):
  """Planted members of the two guess-based families at the edges of the PROVED region
  (Props/C04Guess.lean), always-predicates on the implementation; beyond: statistics only."""
  from paranoid_crypto.lib import rsa_util, rsa_single_checks as rs, special_case_factoring as scf
  from paranoid_crypto.lib.data import default_storage, unseeded_rands
  thorough = tier == 'thorough'

  # ---- (0) FactorWithGuess itself, small sizes where the bound is nearly tight; P, Q primes or
  # arbitrary L-bit numbers (the theorem needs no primality)
  b = Batch('rsa.fwg')
  for Lb in (32, 40, 64, 96, 128, 256) + ((384, 512) if thorough else ()):
    E = gap_bound(Lb)
    assert gap_ok(Lb, E) and not gap_ok(Lb, E + 2)
    for kind in ('primes', 'any'):
      for _ in range(6 if thorough else 2):
        if kind == 'primes':
          P, Q = gen_rsa.rprime(rng, Lb), gen_rsa.rprime(rng, Lb)
        else:
          P = rng.getrandbits(Lb) | (1 << (Lb - 1))
          Q = rng.getrandbits(Lb) | (1 << (Lb - 1))
        n = P * Q
        for e in sorted({0, 1, -1, E, -E, E - 1, rng.randint(-E, E)}):
          p0 = P + e
          get = lambda n=n, p0=p0: scf.FactorWithGuess(gmpy2.mpz(n), gmpy2.mpz(p0))
          r = call(fmt_optlist, *[scf.FactorWithGuess, gmpy2.mpz(n), gmpy2.mpz(p0)])
          b.add('rsa.fwg %s %s %s' % (H(n), H(p0), H(cbrt_oracle(n))), r,
                tag='gap:%s:%s' % (kind, 'found' if 'none' not in r else 'NONE'),
                pred=proper_split_pred('fwg_complete L=%d e=%d' % (Lb, e), n, get,
                                       [P, Q] if kind == 'primes' and P != Q else None),
                always=True)
        for k in (0, 2, 4):  # beyond the proved region: statistics only
          e = rng.choice([-1, 1]) * 2 ** (Lb // 3 - 1 + k)
          if abs(e) <= E or P + e <= 0:
            continue
          r = call(fmt_optlist, scf.FactorWithGuess, gmpy2.mpz(n), gmpy2.mpz(P + e))
          b.add('rsa.fwg %s %s %s' % (H(n), H(P + e), H(cbrt_oracle(n))), r,
                tag='beyond:2^(L/3%+d):%s' % (k - 1, 'found' if 'none' not in r else 'none'))
  rep.absorb(b, b.run())

  # ---- (A) CheckSmallUpperDifferences: q = next_prime(p + D + off), off at the edges
  b = Batch('chk.sud')
  chk = rs.CheckSmallUpperDifferences()
  for Lp in (384, 512) + ((1024, 2048) if thorough else ()):
    G = gap_bound(Lp)
    edges = [('g0', 0), ('small', 2 ** 12), ('nearG', G - 2 ** 20), ('beyond', 2 ** (Lp // 3 + 2))]
    for dexp in (100, 128, 160, 256, 2, 3):
      for label, off in edges:
        for _ in range(40):
          p = gen_rsa.rprime(rng, Lp)
          q = int(gmpy2.next_prime(p + 2 ** (Lp - dexp) + off))
          if q.bit_length() == Lp:
            break
        else:
          continue
        g = q - p - 2 ** (Lp - dexp)
        n = p * q
        v = art.fmt_verdict(chk, n)
        inside = gap_ok(Lp, g)
        assert inside == (label != 'beyond')

        def pred(n=n, p=p, q=q, v=v, dexp=dexp, Lp=Lp, g=g):
          if not cbrt_ok(n):
            return 'sud_complete: the float cube root violates CbrtOK for n=%x' % n
          want = 'ok 1 %s 0' % L(sorted([p, q]))
          if v != want:
            return ('sud_complete: q = p + 2^(L-%d) + g, L=%d, g=%d inside the gap bound, n=%x not '
                    'factored into its primes (got %s)' % (dexp, Lp, g, n, v))
          return None
        if inside:
          b.add('chk.sud %s %s' % (H(n), H(cbrt_oracle(n))), v, tag='gap:%s:D=2^(L-%d):%s' % (label, dexp, v[:4]),
                pred=pred, always=True, canon=art.sort_model_verdict)
        else:
          b.add('chk.sud %s %s' % (H(n), H(cbrt_oracle(n))), v, tag='beyond:%s' % v[:4],
                canon=art.sort_model_verdict)
  rep.absorb(b, b.run())

  # ---- (B) CheckUnseededRand: p = next_prime(x + off) for a tried candidate x
  b = Batch('chk.unseeded')
  chk = rs.CheckUnseededRand()
  st = default_storage.DefaultStorage()
  for psize in sorted(unseeded_rands.size_unseeded_map.keys()):
    if psize > 1024 and not thorough:
      continue
    lst = sorted(st.GetUnseededRands(psize))
    msb1 = 2 ** (psize - 1)
    msb11 = msb1 | 2 ** (psize - 2)
    cands = []
    for x in st.GetUnseededRands(psize):
      cands.extend(list({x, x | msb1, x | msb11}))
    G = gap_bound(psize)
    picks = rng.sample(lst, 6 if thorough else 2)
    for i, x0 in enumerate(picks):
      x = [x0, x0 | msb1, x0 | msb11][i % 3]
      if x.bit_length() != psize:
        x = x0 | msb1
      for label, off in (('g0', 0), ('small', 2 ** 12), ('nearG', G - 2 ** 20), ('beyond', 2 ** (psize // 3 + 2))):
        p = int(gmpy2.next_prime(x + off))
        q = gen_rsa.rprime(rng, psize)
        n = p * q
        if p.bit_length() != psize or p == q:
          continue
        inside = gap_ok(psize, p - x)
        v = art.fmt_verdict(chk, n)

        def pred(n=n, p=p, q=q, v=v, x=x, psize=psize):
          if not cbrt_ok(n):
            return 'unseeded_complete: the float cube root violates CbrtOK for n=%x' % n
          want = 'ok 1 %s 0' % L(sorted([p, q]))
          if v != want:
            return ('unseeded_complete: prime p with 0 <= p - x = %d inside the gap bound of the tried '
                    'candidate x=%x (L=%d), n=%x not factored into its primes (got %s)'
                    % (p - x, x, psize, n, v))
          return None
        if inside:
          b.add('chk.unseeded %s %s %s' % (H(n), H(cbrt_oracle(n)), L(cands)), v,
                tag='gap:%s:%s' % (label, v[:4]), pred=pred, always=True, canon=art.sort_model_verdict)
        else:
          b.add('chk.unseeded %s %s %s' % (H(n), H(cbrt_oracle(n)), L(cands)), v,
                tag='beyond:%s' % v[:4], canon=art.sort_model_verdict)
  rep.absorb(b, b.run())

  # ---- the oracle hypothesis on the real float expression, all documented sizes
  bad = 0
  for bits in (128, 767, 768, 1024, 2047, 2048, 3072, 4096, 8192):
    for _ in range(50):
      n = rng.getrandbits(bits) | (1 << (bits - 1)) | 1
      if not cbrt_ok(n):
        bad += 1
        rep.violations.append(dict(op='cbrt-oracle', line=H(n), what='CbrtOK fails for n=%x' % n,
                                   impl='', model='', info=None))
  rep.extra['cbrt_ok_failures'] = bad


def correspondence(rep, rng, tier):
  from paranoid_crypto.lib import rsa_util, rsa_single_checks as rs, special_case_factoring as scf
  reps = 3 if tier == 'quick' else 12

  # ---- Fermat clause at the exact threshold
  b = Batch('rsa.fermat')
  for bits in (64, 96, 128, 256, 512, 1024) + ((2048,) if tier == 'thorough' else ()):
    for target in (0, 1, 2, 7, 100, 3000):
      for _ in range(reps):
        p, q = gen_rsa.fermat_exact(rng, bits, target)
        if p == q or p % 2 == 0 or q % 2 == 0:
          continue
        n = p * q
        K = (p + q) // 2 - (int(gmpy2.isqrt(n)) + 1)
        if K > 200000:
          continue
        for steps in sorted({max(0, K - 1), K, K + 1, K + 2, 0}):
          r = call(fmt_optpair, rsa_util.FermatFactor, gmpy2.mpz(n), steps)[3:]

          def pred(n=n, p=p, q=q, K=K, steps=steps):
            got = rsa_util.FermatFactor(gmpy2.mpz(n), steps)
            want = (max(p, q), min(p, q)) if K < steps else None
            got = None if got is None else (int(got[0]), int(got[1]))
            if got != want:
              return ('Fermat clause: n=p*q with (p+q)/2-ceil(sqrt n)=%d, step bound %d: expected %s got %s'
                      % (K, steps, want, got))
            return None
          b.add('rsa.fermat %s %s' % (H(n), H(steps)), r, tag='K<steps' if K < steps else 'K>=steps',
                pred=pred, always=True)
  rep.absorb(b, b.run())

  # ---- equal high and low bits: factored by Fermat or HLBE when r >= 3 and r+s >= len/4 + 2
  b = Batch('rsa.hlbe')
  bf = Batch('rsa.fermat')
  for bits in (128, 130, 256, 258, 512) + ((1024, 2048) if tier == 'thorough' else ()):
    pb = bits // 2
    need = bits // 4 + 2
    for r in (3, 4, need // 2, need - 3, need - 1):
      for extra in (0, 1, -1, 5):
        s = need - r + extra
        if r < 1 or s < 1 or r + s >= pb - 2:
          continue
        hreps = 1 if tier == 'quick' else reps
        for rep_i in range(hreps + 2):
          pq = (gen_rsa.high_low_equal(rng, bits, r, s) if rep_i < hreps else
                gen_rsa.high_low_equal_extreme(rng, bits, r, s))
          if not pq:
            continue
          p, q = pq
          n = p * q
          # actual shared bits may exceed (r, s); recompute
          rr = ((p ^ q) & -(p ^ q)).bit_length() - 1
          ss = pb - (p ^ q).bit_length() if p.bit_length() == q.bit_length() == pb else 0
          cond = rr >= 3 and rr + ss >= n.bit_length() // 4 + 2 + (1 if n.bit_length() % 4 else 0)
          rh = call(fmt_optlist, rsa_util.FactorHighAndLowBitsEqual, gmpy2.mpz(n), 3)
          rf = call(fmt_optpair, rsa_util.FermatFactor, gmpy2.mpz(n), 100000)[3:]

          def pred(n=n, cond=cond, rh=rh, rf=rf, rr=rr, ss=ss):
            if cond and 'none' in rh and rf == 'none':
              return ('equal-bits clause: primes agree on %d low and %d high bits (n has %d bits) '
                      'but neither Fermat nor HLBE factors n=%x' % (rr, ss, n.bit_length(), n))
            return None
          b.add('rsa.hlbe %s 3' % H(n), rh,
                tag=('cond' if cond else 'nocond') + (':found' if 'none' not in rh else ':none'),
                pred=pred, always=True, info=dict(r=rr, s=ss))
          bf.add('rsa.fermat %s %s' % (H(n), H(100000)), rf, tag='hlbe-family')
  rep.absorb(b, b.run())
  rep.absorb(bf, bf.run())

  # ---- small upper differences (documented misreadings of FIPS 186-4)
  b = Batch('chk.sud')
  chk = rs.CheckSmallUpperDifferences()
  for Lp in (384, 400, 512) + ((1024, 2048) if tier == 'thorough' else ()):
    for dexp in (100, 128, 160, 256, 2, 3):
      for _ in range(reps):
        while True:
          p = gen_rsa.rprime(rng, Lp)
          q = int(gmpy2.next_prime(p + 2 ** (Lp - dexp)))
          if q.bit_length() == Lp:
            break
        n = p * q
        v = art.fmt_verdict(chk, n)

        def pred(n=n, p=p, q=q, v=v, dexp=dexp, Lp=Lp):
          want = 'ok 1 %s 0' % L(sorted([p, q]))
          if v != want:
            return ('small-upper-difference clause: q = next_prime(p + 2^(L-%d)), L=%d, n=%x not '
                    'factored (got %s)' % (dexp, Lp, n, v))
          return None
        b.add('chk.sud %s %s' % (H(n), H(cbrt_oracle(n))), v, tag='D=2^(L-%d):%s' % (dexp, v[:4]),
              pred=pred, always=True, canon=art.sort_model_verdict)
    for _ in range(reps):
      p, q = gen_rsa.semiprime(rng, 2 * Lp)
      v = art.fmt_verdict(chk, p * q)
      b.add('chk.sud %s %s' % (H(p * q), H(cbrt_oracle(p * q))), v, tag='healthy:' + v[:4],
            canon=art.sort_model_verdict)
  for bits in (700, 767, 768):  # below / at the 384-bit prime-size gate
    p, q = gen_rsa.close_primes(rng, bits, bits // 2 - 100)
    v = art.fmt_verdict(chk, p * q)
    b.add('chk.sud %s %s' % (H(p * q), H(cbrt_oracle(p * q))), v, tag='gate:' + v[:4],
          canon=art.sort_model_verdict)
  rep.absorb(b, b.run())

  # ---- unseeded PRNG outputs
  from paranoid_crypto.lib.data import default_storage, unseeded_rands
  b = Batch('chk.unseeded')
  bv = Batch('chk.unseeded_variants')
  chk = rs.CheckUnseededRand()
  st = default_storage.DefaultStorage()
  sizes = sorted(unseeded_rands.size_unseeded_map.keys())
  rep.extra['unseeded_sizes'] = sizes
  for psize in sizes:
    lst = list(st.GetUnseededRands(psize))
    picks = lst if tier == 'thorough' else rng.sample(lst, min(len(lst), 4))
    for p0 in picks:
      for variant in (0, 1, 2):
        msb1 = 2 ** (psize - 1)
        msb11 = msb1 | 2 ** (psize - 2)
        base = [p0, p0 | msb1, p0 | msb11][variant]
        p = int(gmpy2.next_prime(base))
        if p.bit_length() != psize:
          continue
        q = gen_rsa.rprime(rng, psize)
        n = p * q
        if (n.bit_length() + 1) // 2 != psize:
          continue
        v = art.fmt_verdict(chk, n)
        cands = []
        for x in st.GetUnseededRands(psize):
          cands.extend(list({x, x | msb1, x | msb11}))

        def pred(n=n, p=p, q=q, v=v):
          want = 'ok 1 %s 0' % L(sorted([p, q]))
          if v != want:
            return 'unseeded clause: prime within a prime gap of a listed output, n=%x not factored (got %s)' % (n, v)
          return None
        b.add('chk.unseeded %s %s %s' % (H(n), H(cbrt_oracle(n)), L(cands)), v,
              tag='variant%d:%s' % (variant, v[:4]), pred=pred, always=True, canon=art.sort_model_verdict)
    bv.add('chk.unseeded_variants %s %s' % (H((1 << (2 * psize - 1)) + 1), H(lst[0])),
           L([lst[0], lst[0] | 2 ** (psize - 1), lst[0] | 2 ** (psize - 1) | 2 ** (psize - 2)]), tag='variants')
    p, q = gen_rsa.semiprime(rng, 2 * psize)
    n = p * q
    if (n.bit_length() + 1) // 2 == psize:
      cands = []
      msb1 = 2 ** (psize - 1)
      msb11 = msb1 | 2 ** (psize - 2)
      for x in st.GetUnseededRands(psize):
        cands.extend(list({x, x | msb1, x | msb11}))
      v = art.fmt_verdict(chk, n)
      b.add('chk.unseeded %s %s %s' % (H(n), H(cbrt_oracle(n)), L(cands)), v, tag='healthy:' + v[:4],
            canon=art.sort_model_verdict)
  rep.absorb(b, b.run())
  rep.absorb(bv, bv.run())
  guess_completeness(rep, rng, tier)
