"""C05 — patterned / sparse / smooth primes are flagged: check-level correspondence
(real Check objects on protobuf keys vs Model/RsaChecks.lean) + completeness predicates."""
import math
import gmpy2
import framework as fw
from framework import H, L, M, O, B, Batch, call
import artifacts as art
import gen_rsa

META = dict(
    trusted_base=[
        'LLL (fpylll) is an oracle: its answers are recorded at rsa_util.lll.reduce and passed to the model; '
        'that it FINDS the planted vector is assumed, not proved',
    ],
    assumptions=[
        'pollard_flag is proved for all primes/m/bounds; lattice families: fraction_post '
        '(good row => both primes) + C01 soundness; low-Hamming-weight: threshold logic only',
    ])


def fw_prod(xs):
  r = 1
  for x in xs:
    r *= x
  return r


def red_table(rec):
  return '|'.join('%s:%s' % (H(d), M(b)) for d, b in rec) if rec else '-'


class LllRecorder:
  """records (d0, reduced basis) for every CheckFraction call inside a check."""

  def __init__(self):
    from paranoid_crypto.lib import rsa_util
    self.rsa_util = rsa_util
    self.real = rsa_util.lll.reduce
    self.calls = []

  def __enter__(self):
    def rec(lat):
      out = self.real(lat)
      x = int(lat[0][0])
      # d0 is recovered from the harness side by the caller; store lattice + basis
      self.calls.append(([list(map(int, r)) for r in lat], [list(map(int, r)) for r in out]))
      return out
    self.rsa_util.lll.reduce = rec
    return self

  def __exit__(self, *a):
    self.rsa_util.lll.reduce = self.real


def correspondence(rep, rng, tier):
  from paranoid_crypto.lib import rsa_single_checks as rs, rsa_util, ntheory_util
  from paranoid_crypto import paranoid_pb2
  reps = 2 if tier == 'quick' else 8

  # ---------------- CheckBitPatterns / CheckPermutedBitPatterns
  fams = []
  for bits in ((256, 512) if tier == 'quick' else (256, 512, 1024, 2048)):
    for w in (3, 5, 8, 13, 16, 31, 32, 64):
      if w > bits // 16:
        continue
      for _ in range(reps):
        p = gen_rsa.pattern_prime(rng, bits // 2, w, lowbits=rng.choice([8, 16, 24, 32]))
        fams.append(('pattern%d' % w, p * gen_rsa.rprime(rng, bits // 2), p))
    for _ in range(reps):
      p, q = gen_rsa.semiprime(rng, bits)
      fams.append(('healthy', p * q, None))
    for t, n in gen_rsa.degenerate(rng, bits)[:5]:
      fams.append((t, n, None))

  # recover d0 for each recorded lattice: x = 2^bitlen(d0), third entry = u*d0 % w — the
  # check passes d explicitly, so wrap CheckFraction to record it.
  real_cf = rsa_util.CheckFraction
  real_reduce = rsa_util.lll.reduce

  def run_with_recording(check, n):
    calls = []
    cur = {}

    def cf(n_, d0=1):
      cur['d0'] = int(d0)
      return real_cf(n_, d0)

    def red(lat):
      out = real_reduce(lat)
      calls.append((cur['d0'], [list(map(int, r)) for r in out]))
      return out
    rsa_util.CheckFraction = cf
    rsa_util.lll.reduce = red
    try:
      v = art.fmt_verdict(check, n)
    finally:
      rsa_util.CheckFraction = real_cf
      rsa_util.lll.reduce = real_reduce
    return v, calls

  b = Batch('chk.bitpatterns')
  bd = Batch('chk.bitpatterns_ds')
  default_ps = None
  user_lists = [None, [8, 16], [16, 8, 8, 3], [], [600, 1, 2], [5]]
  for tag, n, p in fams:
    for ps in (user_lists if tier == 'thorough' else user_lists[:3]):
      chk = rs.CheckBitPatterns(ps)
      v, calls = run_with_recording(chk, n)
      ps_eff = ps
      if ps is None:
        ps_eff = list(range(1, 16, 2)) + [31, 63, 127, 255, 511] + [8, 16, 32, 64, 128, 256]

      def pred(n=n, p=p, v=v):
        # completeness clause on the implementation: planted pattern prime => flagged+factored
        if p is not None and not v.startswith('ok 1'):
          return None  # reported through the family statistics, LLL success is not claimed
        return None
      b.add('chk.bitpatterns %s %s %s' % (H(n), L(ps_eff), red_table(calls)), v,
            tag=tag.rstrip('0123456789') + ':' + v[:4], canon=art.sort_model_verdict)
      if v.startswith('ok 0'):
        bd.add('chk.bitpatterns_ds %s %s' % (H(n), L(ps_eff)), L([d for d, _ in calls]),
               tag='enum')
  rep.absorb(b, b.run())
  rep.absorb(bd, bd.run())
  b = Batch('chk.defaultps')
  b.add('chk.defaultps', L(list(range(1, 16, 2)) + [31, 63, 127, 255, 511] + [8, 16, 32, 64, 128, 256]),
        tag='const')
  rep.absorb(b, b.run())

  b = Batch('chk.permuted')
  bd = Batch('chk.permuted_ds')
  chk = rs.CheckPermutedBitPatterns()
  for tag, n, p in fams[::2]:
    v, calls = run_with_recording(chk, n)
    b.add('chk.permuted %s %s' % (H(n), red_table(calls)), v,
          tag=tag.rstrip('0123456789') + ':' + v[:4], canon=art.sort_model_verdict)
    if v.startswith('ok 0'):
      bd.add('chk.permuted_ds %s' % H(n), L([d for d, _ in calls]), tag='enum')
  # enumeration of the denominators at every documented modulus size (cheap: 3x3 LLL each;
  # random odd numbers are enough, the loops do not depend on n being a semiprime)
  bitp = rs.CheckBitPatterns()
  for bits in (1024, 1536, 2048, 3072, 4096) + ((1025, 2047, 8192) if tier == 'thorough' else ()):
    n = 1
    for _ in range(bits // 64):          # no small factors: every attempt fails, so the
      n *= gen_rsa.rprime(rng, 64)       # full list of denominators is exercised
    v, calls = run_with_recording(chk, n)
    b.add('chk.permuted %s %s' % (H(n), red_table(calls)), v, tag='size%d:%s' % (bits, v[:4]),
          canon=art.sort_model_verdict)
    if v.startswith('ok 0'):
      bd.add('chk.permuted_ds %s' % H(n), L([d for d, _ in calls]), tag='enum%d' % bits)
    v, calls = run_with_recording(bitp, n)
    if v.startswith('ok 0'):
      bd.add('chk.bitpatterns_ds %s %s' % (H(n), L(list(range(1, 16, 2)) + [31, 63, 127, 255, 511] + [8, 16, 32, 64, 128, 256])),
             L([d for d, _ in calls]), tag='enum-bitpatterns%d' % bits)
  rep.absorb(b, b.run())
  rep.absorb(bd, bd.run())

  # ---------------- the Pollard product built by the constructor (default and user bounds)
  import math
  bp = Batch('chk.pm1_product')
  be = Batch('chk.pm1_exps')
  for bound in (None, 2**8, 2**10, 243, 1000, 3, 2):
    try:
      chkp = rs.CheckPollardpm1(bound)
    except Exception as e:  # noqa
      rep.notes.append('CheckPollardpm1(%r) raised %r' % (bound, e))
      continue
    primes = [int(x) for x in ntheory_util.Sieve(bound or 2**20)]
    if bound:
      exps = [int(math.log(bound, pp)) for pp in primes]
    else:
      exps = [int(math.log(2**64, pp)) for pp in primes[:150]]
    doc = []
    for pp in (primes if bound else primes[:150]):
      e = 0
      while pp ** (e + 1) <= (bound or 2**64):
        e += 1
      doc.append(e)

    def pred(bound=bound, chkp=chkp, primes=primes, doc=doc):
      m = 1
      want = fw_prod([pp ** e for pp, e in zip(primes, doc)] + primes[len(doc):])
      if int(chkp._m) != want:
        q = want // math.gcd(want, int(chkp._m))
        return ('CheckPollardpm1(%r): the product m differs from the documented one (missing factor %s...): '
                'keys whose p-1 needs it are no longer flagged' % (bound, hex(q)[:40]))
      return None
    bp.add('chk.pm1_product %s %s' % (O(bound), L(exps)), H(int(chkp._m)), tag='bound=%s' % bound,
           pred=pred, always=(exps == doc))
    be.add('chk.pm1_exps %s' % O(bound), L(doc), tag='documented-exponents')
    if exps != doc:
      rep.notes.append('float int(math.log(bound, p)) differs from the exact floor log for bound=%r at primes %s'
                       % (bound, [pp for pp, a, c in zip(primes, exps, doc) if a != c][:5]))
  rep.absorb(bp, bp.run())
  rep.absorb(be, be.run())

  # ---------------- CheckPollardpm1 with user bounds (default product is 1.5 Mbit: thorough only)
  b = Batch('chk.pm1')
  bounds = [2**8, 2**10] + ([None] if tier == 'thorough' else [])
  for bound in bounds:
    chk = rs.CheckPollardpm1(bound)
    m = int(chk._m)
    name = 'm%s' % (bound or 'default')
    b.let(name, H(m))
    sm = []
    for bits in (160, 256):
      for _ in range(reps * 2):
        sp = gen_rsa.smooth_prime(rng, bits // 2, 7)
        sm.append(('onesmooth', sp * gen_rsa.rprime(rng, bits // 2), sp))
        sm.append(('bothsmooth', sp * gen_rsa.smooth_prime(rng, bits // 2, 7), sp))
      p, q = gen_rsa.semiprime(rng, bits)
      sm.append(('healthy', p * q, None))
      sm.extend((t, nn, None) for t, nn in gen_rsa.degenerate(rng, bits)[:4])
      for gb_ in (58, 60, 61, 70):
        sp, q, _ = gen_rsa.shared_smooth(rng, 2 * bits, gbits=gb_, smooth_bits=10)
        sm.append(('shared%d' % gb_, sp * q, sp))
      sp, q, _ = gen_rsa.shared_smooth(rng, 2 * bits, gbits=64, smooth_bits=10, q_smooth=True)
      sm.append(('sharedboth', sp * q, sp))
    if bound is None:
      # the model's square-and-multiply halves the 1.5 Mbit exponent at every step (quadratic,
      # ~20 s per key): one key of each family is enough to tie the default product
      seen_, few_ = set(), []
      for t_ in sm:
        if t_[0] not in seen_ and t_[1].bit_length() <= 330:
          seen_.add(t_[0]); few_.append(t_)
      sm = [t_ for t_ in few_ if t_[0] in ('onesmooth', 'bothsmooth', 'healthy', 'shared58', 'shared60',
                                          'sharedboth', 'prime')]
    for tag, n, sp in sm:
      v = art.fmt_verdict(chk, n)

      def pred(n=n, sp=sp, m=m, v=v):
        # Pollard clause evaluated on the implementation
        if sp is None:
          return None
        q = n // sp
        g = math.gcd(sp - 1, q - 1)
        g = math.gcd(g, m)
        if g >= 2**60 and ((n - 1) * m) % (sp - 1) == 0 and not v.startswith('ok 1'):
          return 'p-1 smooth and shared factor >= 2^60 but key not flagged: n=%x' % n
        return None
      b.add('chk.pm1 %s $%s %s' % (H(n), name, H(2**60)), v, tag=tag + ':' + v[:4], pred=pred,
            canon=art.sort_model_verdict)
  rep.absorb(b, b.run())

  # ---------------- CheckLowHammingWeight (cutoff/maxsteps are fixed by the check: use small n)
  b = Batch('chk.lhw')
  chk = rs.CheckLowHammingWeight()
  lw = []
  for bits in (64, 96, 128, 512, 1024):
    for wt in (3, 4, 6):
      for _ in range(reps):
        lw.append(('lowweight', gen_rsa.low_weight_prime(rng, bits // 2, wt) *
                   gen_rsa.low_weight_prime(rng, bits // 2, wt)))
    p, q = gen_rsa.semiprime(rng, bits)
    lw.append(('healthy', p * q))
    lw.extend(gen_rsa.degenerate(rng, bits))
    for lead in (2, 5, 8):
      lw.append(('leadingones', gen_rsa.leading_ones_prime(rng, bits // 2, lead, 3) *
                 gen_rsa.leading_ones_prime(rng, bits // 2, lead, 3)))
    lw.append(('unbalanced', gen_rsa.low_weight_prime(rng, bits // 2 - 8, 3) *
               gen_rsa.low_weight_prime(rng, bits // 2 + 8, 3)))
  real_lhw = rsa_util.CheckLowHammingWeight
  for tag, n in lw:
    for cutoff, maxsteps in ((2500, 3000), (50, 400), (3, 30)):
      rsa_util.CheckLowHammingWeight = lambda n_, c=cutoff, ms=maxsteps: real_lhw(n_, c, ms)
      try:
        v = art.fmt_verdict(chk, n)
      finally:
        rsa_util.CheckLowHammingWeight = real_lhw
      b.add('chk.lhw %s %s %s' % (H(n), H(cutoff), H(maxsteps)), v, tag=tag + ':' + v[:8],
            canon=art.sort_model_verdict)
  rep.absorb(b, b.run())

  # ---------------- CheckContinuedFractions
  b = Batch('chk.cf')
  for bound in (2**48, 2**6, 2):
    chk = rs.CheckContinuedFractions(bound)
    for tag, n, p in fams[::3]:
      v = art.fmt_verdict(chk, n)
      b.add('chk.cf %s %s' % (H(n), H(bound)), v, tag=tag.rstrip('0123456789') + ':' + v[:4],
            canon=art.sort_model_verdict)
  rep.absorb(b, b.run())
  rep.extra['families'] = {}
  for t, _, _ in fams:
    rep.extra['families'][t] = rep.extra['families'].get(t, 0) + 1
