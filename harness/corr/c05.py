"""C05 — patterned / sparse / smooth primes are flagged: check-level correspondence
(real Check objects on protobuf keys vs Model/RsaChecks.lean) + completeness predicates."""
import math
import gmpy2
import os
import framework as fw
from framework import H, L, M, O, B, Batch, call
import artifacts as art
import gen_rsa

META = dict(
    trusted_base=[
        'LLL (fpylll) is an oracle: its answers are recorded at rsa_util.lll.reduce and passed to the model; '
        'that it FINDS the planted vector is assumed, not proved',
    ],
    assumptions=[
        'pollard_flag is proved for all primes/m/bounds with g | m as a hypothesis; g | m is characterised exactly for '
        'the constructor product with the DOCUMENTED exponents (C05Pollard defaultM_dvd_iff / userM_dvd_iff); lattice '
        'families: pre/post sandwich around the LLL oracle + C01 soundness; CF and low-Hamming-weight clauses: no '
        'completeness theorem. The completeness clauses are EVALUATED on the implementation for planted members of every '
        'family named by the property (bit patterns, permuted limbs, two patterned primes, Hamming weight up to 32, shared '
        'prime-power factors): inside the property region (sizes >= 1024 bits; w <= bitlen/16 and <= 32 low bits; implied '
        'denominator <= bitlen/10; words <= 64 bits) a miss is a VIOLATION; the region was measured beforehand on the real '
        'code (15 783 bit-pattern, 899 permuted, 2 881 two-pattern, 136 low-weight keys at 1024..4096 bits: no miss '
        'inside the region; permuted limbs with bitlen/10 < bits(denominator) <= bitlen/8: 42 of 129 missed - outside the '
        'property, statistics only; two-pattern keys: all flagged, 2 120 of 2 881 also factored; low-weight keys: all flagged, '
        '75 of 136 also factored); extra.planted records the statistics of every run',
    ])

DEFAULT_PS = list(range(1, 16, 2)) + [31, 63, 127, 255, 511] + [8, 16, 32, 64, 128, 256]


def floor_log(r, b):
  e = 0
  while r ** (e + 1) <= b:
    e += 1
  return e


def product_exponent(bound, r):
  """documented exponent of the prime r in the product CheckPollardpm1(bound) builds
  (C05Pollard defaultM_dvd_iff / userM_dvd_iff)."""
  if bound:
    return floor_log(r, bound) if r < bound else 0
  if r < 864:
    return floor_log(r, 2**64)
  return 1 if r < 2**20 else 0


def divides_by_criterion(gfac, bound):
  return all(k <= product_exponent(bound, r) for r, k in gfac)


def verdict_factors(v):
  parts = v.split(' ')
  if len(parts) < 3 or parts[0] != 'ok' or parts[2] == '[]':
    return []
  return [int(x, 16) for x in parts[2].split(',')]


class Planted:
  """statistics of the planted families; `miss` inside the guaranteed region is a violation."""

  def __init__(self, rep):
    self.rep = rep
    rep.extra.setdefault('planted', {})

  def record(self, family, in_region, ok, n):
    st = self.rep.extra['planted'].setdefault(
        family, dict(region=('guaranteed' if in_region else 'statistics-only'), n=0, hit=0, misses=[]))
    st['n'] += 1
    if ok:
      st['hit'] += 1
    elif len(st['misses']) < 5:
      st['misses'].append('%x' % n)


def fw_prod(xs):
  r = 1
  for x in xs:
    r *= x
  return r


def red_table(rec):
  return '|'.join('%s:%s' % (H(d), M(b)) for d, b in rec) if rec else '-'


class LllRecorder:
  """records (d0, reduced basis) for every CheckFraction call inside a check."""

  def __init__(self):
    from paranoid_crypto.lib import rsa_util
    self.rsa_util = rsa_util
    self.real = rsa_util.lll.reduce
    self.calls = []

  def __enter__(self):
    def rec(lat):
      out = self.real(lat)
      x = int(lat[0][0])
      # d0 is recovered from the harness side by the caller; store lattice + basis
      self.calls.append(([list(map(int, r)) for r in lat], [list(map(int, r)) for r in out]))
      return out
    self.rsa_util.lll.reduce = rec
    return self

  def __exit__(self, *a):
    self.rsa_util.lll.reduce = self.real


# known finding D24: two 512-bit primes of Hamming weight 15 (found by the second independent review)
D24_N = 0xffe0010000021fdefff00000400020000000000000000000000000000000000000000000000000000000000000000000000000000000000000fff0000000020200e00000000220010000000000000000000000000000000000000000000000000000000000000000000000000000000000000000000000000100000000000001
D24_WHAT = ('CheckLowHammingWeight (default parameters) does not flag n = p*q with p = 0xfff0000000020001 << 448 | 1-style primes of '
            'Hamming weight 15 (1024-bit n = ffe0010000021fde...0001): the clause "both primes have Hamming weight at most 32 => flagged" '
            'fails on the real best-first search for sparse primes that start with a run of one-bits')


def _lhw_default(n):
  """worker: the real CheckLowHammingWeight check object with its DEFAULT cutoff / maxsteps."""
  from paranoid_crypto.lib import rsa_single_checks as rs
  return art.fmt_verdict(rs.CheckLowHammingWeight(), n)


def correspondence(rep, rng, tier):
  from paranoid_crypto.lib import rsa_single_checks as rs, rsa_util, ntheory_util
  from paranoid_crypto import paranoid_pb2
  import multiprocessing as mp
  reps = 2 if tier == 'quick' else 8

  # ---------------- "both primes have Hamming weight at most 32": default cutoff / maxsteps take up
  # to ~12 s per key on the real code, so the keys are generated first and evaluated in a small
  # process pool while the rest of the correspondence runs (results are collected at the end).
  lhw_plan = [(1024, 16), (1024, 32)] if tier == 'quick' else \
      [(bits, wt) for bits in (1024, 2048) for wt in (8, 16, 24, 28, 31, 32)] + [(3072, 32), (4096, 32)]
  lhw_keys = []
  for bits, wt in lhw_plan:
    p_ = gen_rsa.exact_weight_prime(rng, bits // 2, wt)
    q_ = gen_rsa.exact_weight_prime(rng, bits // 2, wt)
    if p_ and q_ and p_ != q_:
      lhw_keys.append((bits, wt, p_ * q_))
  # fixed corpus (harness/corpus/c05_lhw.json): leading-ones and exact-weight keys that the unchanged tree flags;
  # the search is deterministic, so these are gated (a miss is a failing input of the weight clause, seeded
  # C05-3), while the freshly drawn keys above are statistics only: the clause is FALSE on the real code for
  # some keys (known finding D24), so a fresh miss is not an alarm.
  import json as _json
  corpus = _json.load(open(os.path.join(fw.VERIF, 'harness', 'corpus', 'c05_lhw.json')))['keys']
  if tier == 'quick':
    corpus = [corpus[0], corpus[1], corpus[4], corpus[5]]
  n_fresh = len(lhw_keys)
  for e in corpus:
    lhw_keys.append((1024, e['weight'], int(e['n'], 16)))
  lhw_keys.append((1024, 15, D24_N))       # the witness of known finding D24
  lhw_pool = mp.Pool(min(4, max(1, len(lhw_keys))))
  lhw_async = lhw_pool.map_async(_lhw_default, [k[2] for k in lhw_keys])

  # ---------------- CheckBitPatterns / CheckPermutedBitPatterns
  fams = []
  for bits in ((256, 512) if tier == 'quick' else (256, 512, 1024, 2048)):
    for w in (3, 5, 8, 13, 16, 31, 32, 64):
      if w > bits // 16:
        continue
      for _ in range(reps):
        p = gen_rsa.pattern_prime(rng, bits // 2, w, lowbits=rng.choice([8, 16, 24, 32]))
        fams.append(('pattern%d' % w, p * gen_rsa.rprime(rng, bits // 2), p))
    for _ in range(reps):
      p, q = gen_rsa.semiprime(rng, bits)
      fams.append(('healthy', p * q, None))
    for t, n in gen_rsa.degenerate(rng, bits)[:5]:
      fams.append((t, n, None))

  # planted members of the family the property GUARANTEES: one prime = a w-bit word written from
  # the top and cut to the prime's length (gen_rsa.periodic_prime == Lean Permuted.periodicTop),
  # w in the default list, w <= bitlen(n)/16, at most 32 deviating low-order bits, n of 1024..4096
  # bits. guaranteed[n] = word size; a miss there is a violation (pred below).
  planted = Planted(rep)
  guaranteed = {}
  qpool = {}

  def cofactor(bits):
    pool = qpool.setdefault(bits, [])
    if len(pool) < 3:
      pool.append(gen_rsa.rprime(rng, bits))
    return rng.choice(pool)
  if tier == 'quick':
    plan = [(1024, w, 1) for w in DEFAULT_PS if w <= 64] + [(2048, w, 1) for w in rng.sample(
        [w for w in DEFAULT_PS if w <= 128], 3)] + [(4096, rng.choice([255, 256, 127]), 1)]
  else:
    plan = [(bits, w, 3 if bits <= 2048 else 1) for bits in (1024, 1536, 2048, 3072, 4096)
            for w in DEFAULT_PS if w <= bits // 16]
  for bits, w, cnt in plan:
    for _ in range(cnt):
      t = rng.choice([0, 1, 7, 16, 24, 31, 32, 32])
      r = gen_rsa.periodic_prime(rng, bits // 2, w, t, attempts=4) or \
          gen_rsa.periodic_prime(rng, bits // 2, w, 32, attempts=8)
      if r is None:
        rep.notes.append('no planted pattern prime for bits=%d w=%d' % (bits, w))
        continue
      n = r[0] * cofactor(bits // 2)
      guaranteed[n] = w
      fams.append(('planted-w%d' % w, n, r[0]))

  # recover d0 for each recorded lattice: x = 2^bitlen(d0), third entry = u*d0 % w — the
  # check passes d explicitly, so wrap CheckFraction to record it.
  real_cf = rsa_util.CheckFraction
  real_reduce = rsa_util.lll.reduce

  def run_with_recording(check, n):
    calls = []
    cur = {}

    def cf(n_, d0=1):
      cur['d0'] = int(d0)
      return real_cf(n_, d0)

    def red(lat):
      out = real_reduce(lat)
      calls.append((cur['d0'], [list(map(int, r)) for r in out]))
      return out
    rsa_util.CheckFraction = cf
    rsa_util.lll.reduce = red
    try:
      v = art.fmt_verdict(check, n)
    finally:
      rsa_util.CheckFraction = real_cf
      rsa_util.lll.reduce = real_reduce
    return v, calls

  b = Batch('chk.bitpatterns')
  bd = Batch('chk.bitpatterns_ds')
  default_ps = None
  user_lists = [None, [8, 16], [16, 8, 8, 3], [], [600, 1, 2], [5]]
  for tag, n, p in fams:
    lists = (user_lists if tier == 'thorough' else user_lists[:3])
    if n in guaranteed:
      # big planted keys: the default list, and one user list that contains the word size
      lists = [None, [600, guaranteed[n], 2]]
    for ps in lists:
      chk = rs.CheckBitPatterns(ps)
      v, calls = run_with_recording(chk, n)
      ps_eff = ps
      if ps is None:
        ps_eff = list(range(1, 16, 2)) + [31, 63, 127, 255, 511] + [8, 16, 32, 64, 128, 256]

      hit = p is not None and p in verdict_factors(v)
      in_region = n in guaranteed and guaranteed[n] in ps_eff
      if p is not None:
        planted.record('bitpattern/%s/%dbit%s' % (tag if n in guaranteed else tag.rstrip('0123456789') + '-legacy',
                                                  n.bit_length(), '' if ps is None else '/userlist'),
                       in_region, hit, n)

      def pred(n=n, p=p, v=v, hit=hit, in_region=in_region, w=guaranteed.get(n)):
        # completeness clause evaluated on the implementation: a planted pattern prime inside the
        # region the property guarantees must be flagged AND factored. (Outside the region —
        # the legacy 256/512-bit families, word sizes not in the list — statistics only.)
        if in_region and not hit:
          return ('one prime is a repetition of a %d-bit word apart from <= 32 low bits, %d <= bitlen/16, the size is in '
                  'the list, but CheckBitPatterns did not factor n=%x (verdict %s)' % (w, w, n, v[:40]))
        return None
      b.add('chk.bitpatterns %s %s %s' % (H(n), L(ps_eff), red_table(calls)), v,
            tag=tag.rstrip('0123456789') + ':' + v[:4], canon=art.sort_model_verdict,
            pred=pred, always=in_region)
      if v.startswith('ok 0'):
        bd.add('chk.bitpatterns_ds %s %s' % (H(n), L(ps_eff)), L([d for d, _ in calls]),
               tag='enum')
  rep.absorb(b, b.run())
  rep.absorb(bd, bd.run())
  b = Batch('chk.defaultps')
  b.add('chk.defaultps', L(list(range(1, 16, 2)) + [31, 63, 127, 255, 511] + [8, 16, 32, 64, 128, 256]),
        tag='const')
  rep.absorb(b, b.run())

  b = Batch('chk.permuted')
  bd = Batch('chk.permuted_ds')
  chk = rs.CheckPermutedBitPatterns()
  for tag, n, p in fams[::2]:
    v, calls = run_with_recording(chk, n)
    b.add('chk.permuted %s %s' % (H(n), red_table(calls)), v,
          tag=tag.rstrip('0123456789') + ':' + v[:4], canon=art.sort_model_verdict)
    if v.startswith('ok 0'):
      bd.add('chk.permuted_ds %s' % H(n), L([d for d, _ in calls]), tag='enum')
  # planted permuted-limb primes: a ps-bit word repetition whose adjacent ws-bit limbs are swapped
  # (gen_rsa.swapped_prime == Lean Permuted.swapLimbs ∘ periodicTop; C05Permuted.permuted_is_fraction),
  # apart from <= 32 low bits. Guaranteed by the property when the implied denominator has at most
  # bitlen(n)/10 bits; for bitlen/10 < bits(D) <= bitlen/8 the check still tries D but the property
  # promises nothing (measured: frequent misses) — statistics only.
  combos = {}
  for bits in (1024, 2048, 3072, 4096):
    combos[bits] = []
    for ws in (8, 16, 32, 64):
      for ps in range(3, ws, 2):
        dbits = gen_rsa.permuted_denominator(ws, ps).bit_length()
        if dbits > bits // 8:
          break
        combos[bits].append((ws, ps, dbits))
  if tier == 'quick':
    pplan = [(1024, c) for c in combos[1024]] + [(2048, c) for c in rng.sample(combos[2048], 3)] + \
            [(4096, rng.choice(combos[4096]))]
  else:
    pplan = [(bits, c) for bits in (1024, 2048, 3072, 4096) for c in combos[bits] for _ in range(2 if bits <= 2048 else 1)]
  for bits, (ws, ps, dbits) in pplan:
    t = rng.choice([0, 8, 16, 24, 32, 32])
    r = gen_rsa.swapped_prime(rng, bits // 2, ps, ws, t, attempts=4) or \
        gen_rsa.swapped_prime(rng, bits // 2, ps, ws, 32, attempts=8)
    if r is None:
      rep.notes.append('no planted swapped-limb prime for bits=%d ws=%d ps=%d' % (bits, ws, ps))
      continue
    p = r[0]
    n = p * cofactor(bits // 2)
    v, calls = run_with_recording(chk, n)
    hit = p in verdict_factors(v)
    in_region = dbits <= bits // 10
    planted.record('permuted/%dbit/ws%d/ps%d/dbits%d' % (bits, ws, ps, dbits), in_region, hit, n)

    def pred(n=n, hit=hit, in_region=in_region, ws=ws, ps=ps, dbits=dbits, v=v):
      if in_region and not hit:
        return ('one prime is a %d-bit word repetition with adjacent %d-bit limbs swapped (<= 32 low bits deviate), '
                'implied denominator %d bits <= bitlen/10, but CheckPermutedBitPatterns did not factor n=%x (verdict %s)'
                % (ps, ws, dbits, n, v[:40]))
      return None
    b.add('chk.permuted %s %s' % (H(n), red_table(calls)), v,
          tag='planted-swapped%s:%s' % ('' if in_region else '-outside', v[:4]),
          canon=art.sort_model_verdict, pred=pred, always=in_region)
  # enumeration of the denominators at every documented modulus size (cheap: 3x3 LLL each;
  # random odd numbers are enough, the loops do not depend on n being a semiprime)
  bitp = rs.CheckBitPatterns()
  for bits in (1024, 1536, 2048, 3072, 4096) + ((1025, 2047, 8192) if tier == 'thorough' else ()):
    n = 1
    for _ in range(bits // 64):          # no small factors: every attempt fails, so the
      n *= gen_rsa.rprime(rng, 64)       # full list of denominators is exercised
    v, calls = run_with_recording(chk, n)
    b.add('chk.permuted %s %s' % (H(n), red_table(calls)), v, tag='size%d:%s' % (bits, v[:4]),
          canon=art.sort_model_verdict)
    if v.startswith('ok 0'):
      bd.add('chk.permuted_ds %s' % H(n), L([d for d, _ in calls]), tag='enum%d' % bits)
    v, calls = run_with_recording(bitp, n)
    if v.startswith('ok 0'):
      bd.add('chk.bitpatterns_ds %s %s' % (H(n), L(list(range(1, 16, 2)) + [31, 63, 127, 255, 511] + [8, 16, 32, 64, 128, 256])),
             L([d for d, _ in calls]), tag='enum-bitpatterns%d' % bits)
  rep.absorb(b, b.run())
  rep.absorb(bd, bd.run())

  # ---------------- the Pollard product built by the constructor (default and user bounds)
  import math
  bp = Batch('chk.pm1_product')
  be = Batch('chk.pm1_exps')
  # bound 0 is falsy: `if bound:` takes the DEFAULT branch (F20; Model pollardUserBound)
  for bound in (None, 0, 2**8, 2**10, 243, 1000, 3, 2, 1):
    try:
      chkp = rs.CheckPollardpm1(bound)
    except Exception as e:  # noqa
      rep.notes.append('CheckPollardpm1(%r) raised %r' % (bound, e))
      continue
    primes = [int(x) for x in ntheory_util.Sieve(bound or 2**20)]
    if bound:
      exps = [int(math.log(bound, pp)) for pp in primes]
    else:
      exps = [int(math.log(2**64, pp)) for pp in primes[:150]]
    doc = []
    for pp in (primes if bound else primes[:150]):
      e = 0
      while pp ** (e + 1) <= (bound or 2**64):
        e += 1
      doc.append(e)

    def pred(bound=bound, chkp=chkp, primes=primes, doc=doc):
      m = 1
      want = fw_prod([pp ** e for pp, e in zip(primes, doc)] + primes[len(doc):])
      if int(chkp._m) != want:
        q = want // math.gcd(want, int(chkp._m))
        return ('CheckPollardpm1(%r): the product m differs from the documented one (missing factor %s...): '
                'keys whose p-1 needs it are no longer flagged' % (bound, hex(q)[:40]))
      return None
    bp.add('chk.pm1_product %s %s' % (O(bound), L(exps)), H(int(chkp._m)), tag='bound=%s' % bound,
           pred=pred, always=(exps == doc))
    be.add('chk.pm1_exps %s' % O(bound), L(doc), tag='documented-exponents')
    if exps != doc:
      rep.notes.append('float int(math.log(bound, p)) differs from the exact floor log for bound=%r at primes %s'
                       % (bound, [pp for pp, a, c in zip(primes, exps, doc) if a != c][:5]))
  rep.absorb(bp, bp.run())
  rep.absorb(be, be.run())

  # ---------------- CheckPollardpm1 with user bounds (default product is 1.5 Mbit: thorough only)
  b = Batch('chk.pm1')
  bounds = [2**8, 2**10] + ([None] if tier == 'thorough' else [])
  for bound in bounds:
    chk = rs.CheckPollardpm1(bound)
    m = int(chk._m)
    name = 'm%s' % (bound or 'default')
    b.let(name, H(m))
    sm = []
    for bits in (160, 256):
      for _ in range(reps * 2):
        sp = gen_rsa.smooth_prime(rng, bits // 2, 7)
        sm.append(('onesmooth', sp * gen_rsa.rprime(rng, bits // 2), sp))
        sm.append(('bothsmooth', sp * gen_rsa.smooth_prime(rng, bits // 2, 7), sp))
      p, q = gen_rsa.semiprime(rng, bits)
      sm.append(('healthy', p * q, None))
      sm.extend((t, nn, None) for t, nn in gen_rsa.degenerate(rng, bits)[:4])
      for gb_ in (58, 60, 61, 70):
        sp, q, _ = gen_rsa.shared_smooth(rng, 2 * bits, gbits=gb_, smooth_bits=10)
        sm.append(('shared%d' % gb_, sp * q, sp))
      sp, q, _ = gen_rsa.shared_smooth(rng, 2 * bits, gbits=64, smooth_bits=10, q_smooth=True)
      sm.append(('sharedboth', sp * q, sp))
    if bound is None:
      # the model's square-and-multiply halves the 1.5 Mbit exponent at every step (quadratic,
      # ~20 s per key): one key of each family is enough to tie the default product
      seen_, few_ = set(), []
      for t_ in sm:
        if t_[0] not in seen_ and t_[1].bit_length() <= 330:
          seen_.add(t_[0]); few_.append(t_)
      sm = [t_ for t_ in few_ if t_[0] in ('onesmooth', 'bothsmooth', 'healthy', 'shared58', 'shared60',
                                          'sharedboth', 'prime')]
    # shared factors that contain prime POWERS (F9): `power-in` = every prime power of g within the
    # exponents of the product (g | m by C05Pollard userM_dvd_iff / defaultM_dvd_iff: must be flagged);
    # `power-edge` = one exponent one too large on top of an admissible part >= 2^60 (g does not divide m,
    # the gate still opens); `power-out` = g = r^K for one prime (2^20-smooth, >= 2^60, but only r^e_r
    # divides m: the literal property text would demand a flag, the criterion does not).
    pw = []
    sb = (bound or 2**10).bit_length() - 1
    small_pr = [int(x) for x in ntheory_util.Sieve(bound or 2**10)]
    for rep_i in range(reps if bound else 1):
      rng.shuffle(small_pr)
      gin, acc = [], 2
      for r_ in small_pr:
        if acc >= 2**62:
          break
        k_ = product_exponent(bound, r_) - (1 if r_ == 2 else 0)   # p-1 = 2*g*...
        k_ = min(k_, 40)
        if k_ >= 1 and (k_ >= 2 or rng.random() < 0.5):
          gin.append((r_, k_)); acc *= r_ ** k_
      # one prime whose power >= 2^60 exceeds its exponent in the product (default product: a prime
      # beyond the 150 raised ones, e.g. 1009^7 of C05Pollard.literal_text_fails)
      r0 = rng.choice([3, 5, 7, 11, 13] if bound else [1009, 1013, 65537, 1048573])
      gout = [(r0, floor_log(r0, 2**60) + 1)]
      gedge = [(r_, k_ + (1 if i_ == 0 else 0)) for i_, (r_, k_) in enumerate(sorted(gin, key=lambda t: -t[0]))]
      for fam_, gf_, qs_ in (('power-in', gin, False), ('power-in-both', gin, True), ('power-edge', gedge, False),
                             ('power-out', gout, False)):
        if bound is None and fam_ in ('power-in-both', 'power-edge'):
          continue      # every gate-open key costs the model ~1-1.5 min with the default product
        r = gen_rsa.shared_power_smooth(rng, 0, gf_, q_smooth=qs_, smooth_bits=sb)
        if r is None:
          rep.notes.append('no prime pair for pollard family %s bound=%r' % (fam_, bound))
          continue
        pw.append((fam_, r[0] * r[1], r[0], gf_))
    if bound is None:
      # the kernel-checked witnesses of Props/C05Pollard.lean (literal_text_fails, non-vacuity example)
      pw.append(('literal-witness', 25553441901090092879257 * 2233202595329425274535519299,
                 25553441901090092879257, [(1009, 7)]))
    for tag, n, sp in sm + [(t_, n_, p_) for t_, n_, p_, _ in pw]:
      gfac = dict((n_, gf_) for _, n_, _, gf_ in pw).get(n)
      v = art.fmt_verdict(chk, n)

      def pred(n=n, sp=sp, m=m, v=v, gfac=gfac, bound=bound, tag=tag):
        # the Pollard clause (C05.pollard_flag) evaluated exactly on the implementation, and the
        # divisibility criterion of C05Pollard evaluated on the REAL product
        if sp is None:
          return None
        q = n // sp
        if gfac is not None:
          g_ = 2 * fw_prod([r_ ** k_ for r_, k_ in gfac])
          crit = divides_by_criterion([(2, 1 + dict(gfac).get(2, 0))] + [t_ for t_ in gfac if t_[0] != 2], bound)
          if (m % g_ == 0) != crit:
            return ('divisibility criterion fails on the real product of CheckPollardpm1(%r): g=%x, g | m is %s, '
                    'exponent criterion says %s' % (bound, g_, m % g_ == 0, crit))
          if tag == 'literal-witness' and v != 'ok 0 [] 0':
            return 'C05Pollard.literal_text_fails proves (False, []) for this key, the implementation says %s' % v
        g = math.gcd(math.gcd(sp - 1, q - 1), m)
        fs = verdict_factors(v)
        if g >= 2**60 and ((n - 1) * m) % (sp - 1) == 0:
          if not v.startswith('ok 1'):
            return 'p-1 smooth and shared factor >= 2^60 dividing m, but key not flagged: n=%x' % n
          both = pow(2, (n - 1) * m, q) == 1
          if both and fs:
            return '2^((n-1)m) = 1 mod q as well, yet factors were reported: n=%x' % n
          if not both and sorted(fs) != sorted([sp, q]):
            return 'flagged but not factored although 2^((n-1)m) != 1 mod q: n=%x' % n
        if math.gcd(n - 1, m) < 2**60 and v != 'ok 0 [] 0':
          return 'gcd gate closed but verdict %s: n=%x' % (v, n)
        return None
      b.add('chk.pm1 %s $%s %s' % (H(n), name, H(2**60)), v, tag=tag + ':' + v[:4], pred=pred,
            canon=art.sort_model_verdict, always=True)
      if gfac is not None:
        st = rep.extra.setdefault('pollard_power_families', {}).setdefault(
            '%s/bound=%s' % (tag, bound or 'default'), {})
        st[v[:4]] = st.get(v[:4], 0) + 1
  rep.absorb(b, b.run())

  # the default product on the implementation only (cheap in Python; the model needs 1-1.5 min per
  # gate-open key with the 1.5 Mbit exponent, so model-vs-implementation for it is thorough-tier and
  # limited to a few keys): the two kernel-checked witnesses and fresh power-in / power-edge /
  # power-out keys, clause and criterion evaluated exactly.
  if True:
    chkd = rs.CheckPollardpm1()
    md = int(chkd._m)
    dstat = rep.extra.setdefault('pollard_default_impl_only', {})
    cases = [('literal-witness', 25553441901090092879257, 2233202595329425274535519299, [(1009, 7)], 'ok 0 [] 0'),
             ('power-in-witness', 8562318457488567634551083203943137586184193, 97583607849372129325744129,
              [(2, 19), (3, 10), (863, 2), (1009, 1)], None)]
    for fam_, gf_ in (('power-in', [(2, 30), (3, 20), (863, 6), (1009, 1), (1048573, 1)]),
                      ('power-in', [(2, 63), (3, 2)]),
                      ('power-edge', [(2, 30), (3, 25), (5, 10), (1009, 2)]),
                      ('power-edge', [(2, 62), (3, 1), (863, 7)]),
                      ('power-out', [(1009, 7)]), ('power-out', [(863, 7)]), ('power-out', [(3, 41), (5, 2)]),
                      ('power-out', [(1048573, 4)])):
      r = gen_rsa.shared_power_smooth(rng, 0, gf_, smooth_bits=10)
      if r is not None:
        cases.append((fam_, r[0], r[1], gf_, None))
    for fam_, p_, q_, gf_, want in cases:
      n_ = p_ * q_
      v = art.fmt_verdict(chkd, n_)
      g_ = 2 * fw_prod([r_ ** k_ for r_, k_ in gf_])
      crit = divides_by_criterion([(2, 1 + dict(gf_).get(2, 0))] + [t_ for t_ in gf_ if t_[0] != 2], None)
      problem = None
      if (md % g_ == 0) != crit:
        problem = 'criterion defaultM_dvd_iff fails on the real default product for g=%x' % g_
      elif want is not None and v != want:
        problem = 'kernel-checked verdict %s, implementation %s' % (want, v)
      elif math.gcd(math.gcd(p_ - 1, q_ - 1), md) >= 2**60 and ((n_ - 1) * md) % (p_ - 1) == 0:
        both = pow(2, (n_ - 1) * md, q_) == 1
        if not v.startswith('ok 1') or (not both and sorted(verdict_factors(v)) != sorted([p_, q_])):
          problem = 'a shared factor >= 2^60 divides the default product, p-1 smooth enough, but verdict %s' % v
      key = '%s:%s:%s' % (fam_, 'g|m' if crit else 'g∤m', v[:4])
      dstat[key] = dstat.get(key, 0) + 1
      rep.evaluations += 1
      if problem:
        rep.violations.append(dict(op='chk.pm1(default, implementation only)', line='n=%x' % n_, what=problem,
                                   impl=v, model=None, info=None))

  # ---------------- CheckLowHammingWeight (cutoff/maxsteps are fixed by the check: use small n)
  b = Batch('chk.lhw')
  chk = rs.CheckLowHammingWeight()
  lw = []
  for bits in (64, 96, 128, 512, 1024):
    for wt in (3, 4, 6):
      for _ in range(reps):
        lw.append(('lowweight', gen_rsa.low_weight_prime(rng, bits // 2, wt) *
                   gen_rsa.low_weight_prime(rng, bits // 2, wt)))
    p, q = gen_rsa.semiprime(rng, bits)
    lw.append(('healthy', p * q))
    lw.extend(gen_rsa.degenerate(rng, bits))
    for lead in (2, 5, 8):
      lw.append(('leadingones', gen_rsa.leading_ones_prime(rng, bits // 2, lead, 3) *
                 gen_rsa.leading_ones_prime(rng, bits // 2, lead, 3)))
    lw.append(('unbalanced', gen_rsa.low_weight_prime(rng, bits // 2 - 8, 3) *
               gen_rsa.low_weight_prime(rng, bits // 2 + 8, 3)))
  real_lhw = rsa_util.CheckLowHammingWeight
  for tag, n in lw:
    for cutoff, maxsteps in ((2500, 3000), (50, 400), (3, 30)):
      rsa_util.CheckLowHammingWeight = lambda n_, c=cutoff, ms=maxsteps: real_lhw(n_, c, ms)
      try:
        v = art.fmt_verdict(chk, n)
      finally:
        rsa_util.CheckLowHammingWeight = real_lhw
      b.add('chk.lhw %s %s %s' % (H(n), H(cutoff), H(maxsteps)), v, tag=tag + ':' + v[:8],
            canon=art.sort_model_verdict)
  # weights up to 32 with the DEFAULT parameters (the clause of the property): must be flagged
  # (factored or SEVERITY_UNKNOWN); measured beforehand: 120 of 120 flagged at 1024..4096 bits.
  planted = Planted(rep)
  try:
    lhw_res = lhw_async.get(timeout=900)
  finally:
    lhw_pool.terminate()
  for (bits, wt, n), v in zip(lhw_keys, lhw_res):
    flagged = v.startswith('ok 1')
    planted.record('lowweight/%dbit/weight%d' % (bits, wt), True, flagged, n)

    idx = [k[2] for k in lhw_keys].index(n)
    gated_key = idx >= n_fresh and n != D24_N

    def pred(n=n, v=v, wt=wt, flagged=flagged):
      if not flagged:
        return 'both primes have Hamming weight %d <= 32 but CheckLowHammingWeight did not flag n=%x (%s)' % (wt, n, v)
      return None
    if n == D24_N:
      d24 = any(f.get('id') == 'D24' for f in fw.load_known_findings())
      if not flagged and d24:
        rep.known.append('D24 ' + D24_WHAT)
      elif flagged and d24:
        rep.notes.append('listed finding D24 no longer reproduces on its replay input')
      gated_key = not d24
    b.add('chk.lhw %s %s %s' % (H(n), H(2500), H(10**6)), v,
          tag='weight<=32-default:%s:%s' % ('corpus' if gated_key else 'fresh', v[:8]),
          canon=art.sort_model_verdict, pred=pred if gated_key else None, always=gated_key)
  rep.absorb(b, b.run())

  # ---------------- CheckContinuedFractions
  b = Batch('chk.cf')
  for bound in (2**48, 2**6, 2):
    chk = rs.CheckContinuedFractions(bound)
    for tag, n, p in fams[::3]:
      v = art.fmt_verdict(chk, n)
      b.add('chk.cf %s %s' % (H(n), H(bound)), v, tag=tag.rstrip('0123456789') + ':' + v[:4],
            canon=art.sort_model_verdict)
  # "both primes repeat words of at most 64 bits" (apart from <= 32 low bits): must be flagged by the
  # default check (bound 2^48); measured beforehand: 2 881 of 2 881 flagged (2 120 factored).
  chk = rs.CheckContinuedFractions()
  wsizes = (1, 3, 5, 8, 13, 16, 24, 31, 32, 48, 63, 64)
  if tier == 'quick':
    cplan = [(1024, 64, 64), (1024, 63, 64)] + [(1024, rng.choice(wsizes), rng.choice(wsizes)) for _ in range(8)] + \
            [(2048, rng.choice(wsizes), rng.choice(wsizes)) for _ in range(2)] + [(4096, 64, rng.choice(wsizes))]
  else:
    cplan = [(bits, w1, w2) for bits in (1024, 2048) for w1 in wsizes for w2 in wsizes if w1 <= w2] + \
            [(bits, rng.choice(wsizes), rng.choice(wsizes)) for bits in (1536, 3072, 4096) for _ in range(6)]
  for bits, w1, w2 in cplan:
    t = rng.choice([0, 8, 16, 24, 32, 32])
    r = gen_rsa.two_pattern_primes(rng, bits, w1, w2, t) or gen_rsa.two_pattern_primes(rng, bits, w1, w2, 32)
    if r is None:
      rep.notes.append('no pair of patterned primes for bits=%d w=%d,%d' % (bits, w1, w2))
      continue
    n = r[0] * r[1]
    v = art.fmt_verdict(chk, n)
    flagged = v.startswith('ok 1')
    planted.record('twopatterns/%dbit' % bits, True, flagged, n)
    planted.record('twopatterns-factored/%dbit' % bits, False, bool(verdict_factors(v)), n)

    def pred(n=n, v=v, w1=w1, w2=w2, flagged=flagged):
      if not flagged:
        return ('both primes repeat words of %d and %d bits (<= 64) apart from <= 32 low bits but '
                'CheckContinuedFractions did not flag n=%x (%s)' % (w1, w2, n, v))
      return None
    b.add('chk.cf %s %s' % (H(n), H(2**48)), v, tag='twopatterns:' + v[:4], canon=art.sort_model_verdict,
          pred=pred, always=True)
  rep.absorb(b, b.run())

  # ---------------- the Lean definitions of the planted shapes == the generators
  b = Batch('pat')
  for _ in range(20 if tier == 'quick' else 200):
    w = rng.choice([1, 2, 3, 5, 7, 8, 13, 16, 31, 64, 127, 255])
    word = rng.getrandbits(w) % max(1, (1 << w) - 1)
    bits = rng.choice([0, 1, 7, 64, 100, 512, 1024, 2048])
    if w == 1:
      word = 0
    pat = gen_rsa.periodic_pattern(word, w, bits) if w > 1 else 0
    b.add('pat.periodic %s %s %s' % (H(word), H(w), H(bits)), H(pat), tag='periodic')
    ws = rng.choice([1, 8, 16, 32, 64])
    m_ = rng.choice([0, 1, 2, 4, 8, 16])
    x = rng.getrandbits(rng.choice([8, 64, 512, 2048]))
    b.add('pat.swap %s %s %s' % (H(ws), H(m_), H(x)), H(gen_rsa.swap_limbs(x & ((1 << (2 * m_ * ws)) - 1), ws, 2 * m_)),
          tag='swap')
  rep.absorb(b, b.run())
  rep.extra['families'] = {}
  for t, _, _ in fams:
    rep.extra['families'][t] = rep.extra['families'].get(t, 0) + 1
