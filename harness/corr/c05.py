"""C05 — patterned / sparse / smooth primes are flagged: check-level correspondence
(real Check objects on protobuf keys vs Model/RsaChecks.lean) + completeness predicates."""
import math
import gmpy2
import os
import framework as fw
from framework import H, L, M, O, B, Batch, call
import artifacts as art
import gen_rsa

META = dict(
    trusted_base=[
        'LLL (fpylll) is an oracle: its answers are recorded at rsa_util.lll.reduce and passed to the model; '
        'that it FINDS the planted vector is assumed, not proved',
    ],
    assumptions=[
        'pollard_flag is proved for all primes/m/bounds with g | m as a hypothesis; g | m is characterised exactly for '
        'the constructor product built from ANY exponent list (C05PollardExps product_dvd_iff: the exponents the float '
        'expression int(math.log(bound, p)) really returned), and in readable form for the DOCUMENTED exponents '
        '(C05Pollard defaultM_dvd_iff / userM_dvd_iff); on every run the float exponents of the DEFAULT branch are required '
        'to be the documented ones (gated), for user bounds the clause is evaluated with the REAL exponents (they differ '
        'from the documented ones at the prime powers 243, 4913, 29791, 59049, 68921, 571787: observation, patch '
        'fixes/pollard-user-bound-exponent.diff); lattice families: pre/post sandwich around the LLL oracle + C01 '
        'soundness; the continued-fraction clause is a theorem (C05Cf cf_clause_default); low-Hamming-weight clause: no '
        'completeness theorem (false on the real code for some keys: known finding D24); permuted limbs: the check only '
        'tries word sizes ps < ws (C05PermutedRegion permuted_tried_region), the members of the property family with '
        'ps >= ws (8-bit limbs, ps = 9, 11, 13, 15, 31) are statistics + the fixed probe of known finding D25. '
        'The completeness clauses are EVALUATED on the implementation for planted members of every '
        'family named by the property (bit patterns, permuted limbs, two patterned primes, Hamming weight up to 32, shared '
        'prime-power factors): inside the property region (sizes >= 1024 bits; w <= bitlen/16 and <= 32 low bits; implied '
        'denominator <= bitlen/10 AND 3 <= ps < ws; words <= 64 bits) a miss is a VIOLATION; the region was measured beforehand on the real '
        'code (15 783 bit-pattern, 899 permuted, 2 881 two-pattern, 136 low-weight keys at 1024..4096 bits: no miss '
        'inside the region; permuted limbs with bitlen/10 < bits(denominator) <= bitlen/8: 42 of 129 missed - outside the '
        'property, statistics only; two-pattern keys: all flagged, 2 120 of 2 881 also factored; low-weight keys: all flagged, '
        '75 of 136 also factored); extra.planted records the statistics of every run',
    ])

DEFAULT_PS = list(range(1, 16, 2)) + [31, 63, 127, 255, 511] + [8, 16, 32, 64, 128, 256]


def floor_log(r, b):
  e = 0
  while r ** (e + 1) <= b:
    e += 1
  return e


def documented_exponent(bound, r):
  """documented exponent of the prime r in the product CheckPollardpm1(bound) builds
  (C05Pollard defaultM_dvd_iff / userM_dvd_iff)."""
  if bound:
    return floor_log(r, bound) if r < bound else 0
  if r < 864:
    return floor_log(r, 2**64)
  return 1 if r < 2**20 else 0


# bounds <= 2^20 at which int(math.log(bound, p)) is one below the exact floor(log_p bound) (measured by brute force
# over every bound <= 2^20 and every prime: /var/tmp/w/review2/scratch/c05/m4_enum.out): bound -> {p: (float, exact)}
FLOAT_DIFF = {243: {3: (4, 5)}, 4913: {17: (2, 3)}, 29791: {31: (2, 3)}, 59049: {3: (9, 10)},
              68921: {41: (2, 3)}, 571787: {83: (2, 3)}}

USED_EXPS = {}      # bound -> {prime: exponent in the product the real constructor built}


def balanced_prod(xs):
  xs = [gmpy2.mpz(x) for x in xs] or [gmpy2.mpz(1)]
  while len(xs) > 1:
    xs = [xs[i] * xs[i + 1] if i + 1 < len(xs) else xs[i] for i in range(0, len(xs), 2)]
  return int(xs[0])


def constructor_exponents(chkp, bound):
  """Which exponents did the real constructor use? The float list [int(math.log(B, p))] of the shipped code and
  the exact list [floor(log_p B)] (the documented value; what fixes/pollard-user-bound-exponent.diff computes) are
  both evaluated here, independently of the constructor; `used` is the one whose product equals the real `_m`
  (None when neither does: the constructor builds something else)."""
  from paranoid_crypto.lib import ntheory_util
  primes = [int(x) for x in ntheory_util.Sieve(bound or 2**20)]
  raised = primes if bound else primes[:150]
  top = bound or 2**64
  flt = [int(math.log(top, pp)) for pp in raised]
  doc = [floor_log(pp, top) for pp in raised]
  m = int(chkp._m)
  used = None
  if m == balanced_prod([pp ** e for pp, e in zip(raised, flt)] + primes[len(raised):]):
    used = flt
  elif flt != doc and m == balanced_prod([pp ** e for pp, e in zip(raised, doc)] + primes[len(raised):]):
    used = doc
  if used is not None:
    d = dict(zip(raised, used))
    d.update((pp, 1) for pp in primes[len(raised):])
    USED_EXPS[bound or None] = d
  return dict(primes=primes, raised=raised, float=flt, doc=doc, used=used,
              diff={pp: (a, c) for pp, a, c in zip(raised, flt, doc) if a != c})


def product_exponent(bound, r):
  """exponent of the prime r in the product the REAL constructor built (C05PollardExps usedExp: the entry of
  the exponent list actually used at the position of r in the sieve; constructor_exponents must have run for
  this bound). It is one below the documented exponent for bound = r^k in FLOAT_DIFF (finding M4)."""
  d = USED_EXPS.get(bound or None)
  if d is None:       # the constructor built neither product (reported by chk.pm1_product): the shipped expression
    if not gmpy2.is_prime(r) or r >= (bound or 2**20):
      return 0
    return int(math.log(bound, r)) if bound else (int(math.log(2**64, r)) if r < 864 else 1)
  return d.get(r, 0)


def divides_by_criterion(gfac, bound):
  return all(k <= product_exponent(bound, r) for r, k in gfac)


def float_edge_key(rng, bound, r0, k0, mreal, tries=40):
  """a key for which the float exponent matters (finding M4): g = r0^k0 * (bound-powersmooth rest), 2^60 <= g < r0 * 2^60
  (so that g / r0 stays below the gcd gate), p - 1 = g * A with A | documented product, q - 1 = g * (large prime), and
  gcd(n - 1, real product) < 2^60. Returns (p, q, factorisation of g / 2) or None."""
  primes = [int(x) for x in range(2, bound) if gmpy2.is_prime(x)]
  mdoc = balanced_prod([pp ** floor_log(pp, bound) for pp in primes])
  for _ in range(tries):
    gf = {r0: k0, 2: rng.randint(1, floor_log(2, bound))}
    g = r0 ** k0 * 2 ** gf[2]
    rest = [pp for pp in primes if pp not in (2, r0)]
    rng.shuffle(rest)
    for pp in rest:
      if g >= 2**60:
        break
      e = rng.randint(1, floor_log(pp, bound))
      g *= pp ** e
      gf[pp] = e
    if not (2**60 <= g < r0 * 2**60):
      continue
    for a in range(1, 4000):
      if math.gcd(a, g) != 1 or mdoc % (g * a):
        continue
      p = g * a + 1
      if not gmpy2.is_prime(p):
        continue
      for _ in range(3000):
        q = g * int(gmpy2.next_prime(rng.getrandbits(70))) + 1
        if gmpy2.is_prime(q) and math.gcd(p * q - 1, mreal) < 2**60:
          gf[2] -= 1
          return p, q, sorted((r, k) for r, k in gf.items() if k > 0)
      break
  return None


def verdict_factors(v):
  parts = v.split(' ')
  if len(parts) < 3 or parts[0] != 'ok' or parts[2] == '[]':
    return []
  return [int(x, 16) for x in parts[2].split(',')]


class Planted:
  """statistics of the planted families; `miss` inside the guaranteed region is a violation."""

  def __init__(self, rep):
    self.rep = rep
    rep.extra.setdefault('planted', {})

  def record(self, family, in_region, ok, n):
    st = self.rep.extra['planted'].setdefault(
        family, dict(region=('guaranteed' if in_region else 'statistics-only'), n=0, hit=0, misses=[]))
    st['n'] += 1
    if ok:
      st['hit'] += 1
    elif len(st['misses']) < 5:
      st['misses'].append('%x' % n)


def fw_prod(xs):
  r = 1
  for x in xs:
    r *= x
  return r


def red_table(rec):
  return '|'.join('%s:%s' % (H(d), M(b)) for d, b in rec) if rec else '-'


class LllRecorder:
  """records (d0, reduced basis) for every CheckFraction call inside a check."""

  def __init__(self):
    from paranoid_crypto.lib import rsa_util
    self.rsa_util = rsa_util
    self.real = rsa_util.lll.reduce
    self.calls = []

  def __enter__(self):
    def rec(lat):
      out = self.real(lat)
      x = int(lat[0][0])
      # d0 is recovered from the harness side by the caller; store lattice + basis
      self.calls.append(([list(map(int, r)) for r in lat], [list(map(int, r)) for r in out]))
      return out
    self.rsa_util.lll.reduce = rec
    return self

  def __exit__(self, *a):
    self.rsa_util.lll.reduce = self.real


# known finding D24: two 512-bit primes of Hamming weight 15 (found by the second independent review)
D24_N = 0xffe0010000021fdefff00000400020000000000000000000000000000000000000000000000000000000000000000000000000000000000000fff0000000020200e00000000220010000000000000000000000000000000000000000000000000000000000000000000000000000000000000000000000000100000000000001
D24_WHAT = ('CheckLowHammingWeight (default parameters) does not flag n = p*q with p = 0xfff0000000020001 << 448 | 1-style primes of '
            'Hamming weight 15 (1024-bit n = ffe0010000021fde...0001): the clause "both primes have Hamming weight at most 32 => flagged" '
            'fails on the real best-first search for sparse primes that start with a run of one-bits')


# known finding D25: members of the permuted-limb family of C05 with a word size ps >= the limb size ws, which
# CheckPermutedBitPatterns never tries (`for psize in range(3, wsize, 2)`). (label, n, p, bits, ws, ps, dbits):
#  - 1024 bits: p = the 11-bit word 0x5c4 repeated, adjacent 8-bit limbs swapped, + 6 (Props/C05PermutedRegion.lean
#    d25_witness); implied denominator 91 bits <= 102; flagged by CheckSizes only (n < 2048 bits), factored by nothing;
#  - 3072 bits: p = the 31-bit word 0x5bf24f9b repeated, 8-bit limbs swapped, - 78; implied denominator 271 bits <= 307;
#    CheckAllRSA returns False for it.
D25_KEYS = [
    ('1024bit/ws8/ps11', 0x91653ceca7d2c8990a3ec5021beb7290649f29e13fcb8f6d1e8c09cf23b4382465c52e88f724d77f28fa1eee7891e442fb5b961c00098f95c7bd3fe888c3354263fee54102d0ea86b8322fc68ebe44b161a74ee24e54d34a25d6296e76f9d915be779b955c0e1e6b7dba0ea476f0b024cc6b540e6d0e1b2c997c49752e1c1e6d,
     0x97b8e2124b5c7189252eb8c412975ce2894b2e71c42597b8e2124b5c7189252eb8c412975ce2894b2e71c42597b8e2124b5c7189252eb8c412975ce2894b2e77,
     0x5c4, 8, 11),
    ('3072bit/ws8/ps31', 0x971c57e239bab7d3a15f1c87d20e1a2e6a1022dcd402d4e674e7c200d637f7ed9fc04c0d98a148e32d2ec3fe6a8a390c9560285b21af6ef75d8450e0f808c0829375762dcfbe7eab15c184e0f604a5b9beca319572a832096efc7f17b2614d44f56a041a436bad205bac6512204a608bb0d49a410dbd1d1fc735cb5c6da3f3e2f20ff6b57283f98387a91a77768a3a774869f185779a32e4d4e17542db67a24847e8deac514a681ff87e1cd8eecfedcfac0b7a96684109f40044aae148bdf55216ed56500d3d3b16730ee486c5755739908e4f74400ba4567421ee1ce9fa71927118962f4af8eb5c5ce941ceac5b534fef75fb4d4235dec284cab2083724b657ab02b82d8bb6b6bb844466352d769027e998df0e45ef9b8603d0070bff3d006a8b984633123de7ff2da4e11d1aa87b02ce31dc14818dfb92db8d4e2c91d42a8028bf583e8a981d7a523af17060ffa5e81ad11668b19dfe58083861b2531290a5d5f43db83001e0088f1d3a5be90c1e27402d19e30c43358bf86e2072eea5c16b,
     0xe4b7379fc96f6e3e92dfdd7c24bfbbf9497e76f393fcede627f9dbcd4ff2b79b9fe46f373ec9df6e7c92bfddf9247ebbf349fc76e693f9edcd27f2db9b4fe4b7379fc96f6e3e92dfdd7c24bfbbf9497e76f393fcede627f9dbcd4ff2b79b9fe46f373ec9df6e7c92bfddf9247ebbf349fc76e693f9edcd27f2db9b4fe4b7379fc96f6e3e92dfdd7c24bfbbf9497e76f393fcede627f9dbcd4ff2b79b9fe46f373ec9df6e7c92bfddf9247ebbf349fc76e693f9edcd27f2db9b4fe4b7379fc921,
     0x5bf24f9b, 8, 31),
]
D25_WHAT = ('CheckPermutedBitPatterns enumerates word sizes psize in range(3, wsize, 2) only, so the members of the C05 family '
            '"repetition of a w-bit word (w in the default list) with adjacent 8-bit limbs swapped, implied denominator <= bitlen/10" '
            'with w = 9, 11, 13, 15, 31 >= 8 are never tried: n = 91653cec...1e6d (1024 bits; prime = 11-bit word 0x5c4 over 8-bit '
            'limbs, swapped, + 6; denominator 91 bits <= 102) and n = 971c57e2... (3072 bits; 31-bit word, denominator 271 bits <= 307) '
            'are factored neither by CheckPermutedBitPatterns nor by CheckBitPatterns, although rsa_util.CheckFraction(n, D) with the '
            'implied denominator factors both; proposed patch fixes/permuted-psize-range.diff')


def _lhw_default(n):
  """worker: the real CheckLowHammingWeight check object with its DEFAULT cutoff / maxsteps."""
  from paranoid_crypto.lib import rsa_single_checks as rs
  return art.fmt_verdict(rs.CheckLowHammingWeight(), n)


def correspondence(rep, rng, tier):
  from paranoid_crypto.lib import rsa_single_checks as rs, rsa_util, ntheory_util
  from paranoid_crypto import paranoid_pb2
  import multiprocessing as mp
  reps = 2 if tier == 'quick' else 8

  # ---------------- "both primes have Hamming weight at most 32": default cutoff / maxsteps take up
  # to ~12 s per key on the real code, so the keys are generated first and evaluated in a small
  # process pool while the rest of the correspondence runs (results are collected at the end).
  lhw_plan = [(1024, 16), (1024, 32)] if tier == 'quick' else \
      [(bits, wt) for bits in (1024, 2048) for wt in (8, 16, 24, 28, 31, 32)] + [(3072, 32), (4096, 32)]
  lhw_keys = []
  for bits, wt in lhw_plan:
    p_ = gen_rsa.exact_weight_prime(rng, bits // 2, wt)
    q_ = gen_rsa.exact_weight_prime(rng, bits // 2, wt)
    if p_ and q_ and p_ != q_:
      lhw_keys.append((bits, wt, p_ * q_))
  # fixed corpus (harness/corpus/c05_lhw.json): leading-ones and exact-weight keys that the unchanged tree flags;
  # the search is deterministic, so these are gated (a miss is a failing input of the weight clause, seeded
  # C05-3), while the freshly drawn keys above are statistics only: the clause is FALSE on the real code for
  # some keys (known finding D24), so a fresh miss is not an alarm.
  import json as _json
  corpus = _json.load(open(os.path.join(fw.VERIF, 'harness', 'corpus', 'c05_lhw.json')))['keys']
  if tier == 'quick':
    corpus = [corpus[0], corpus[1], corpus[4], corpus[5]]
  n_fresh = len(lhw_keys)
  for e in corpus:
    lhw_keys.append((1024, e['weight'], int(e['n'], 16)))
  lhw_keys.append((1024, 15, D24_N))       # the witness of known finding D24
  lhw_pool = mp.Pool(min(4, max(1, len(lhw_keys))))
  lhw_async = lhw_pool.map_async(_lhw_default, [k[2] for k in lhw_keys])

  # ---------------- CheckBitPatterns / CheckPermutedBitPatterns
  fams = []
  for bits in ((256, 512) if tier == 'quick' else (256, 512, 1024, 2048)):
    for w in (3, 5, 8, 13, 16, 31, 32, 64):
      if w > bits // 16:
        continue
      for _ in range(reps):
        p = gen_rsa.pattern_prime(rng, bits // 2, w, lowbits=rng.choice([8, 16, 24, 32]))
        fams.append(('pattern%d' % w, p * gen_rsa.rprime(rng, bits // 2), p))
    for _ in range(reps):
      p, q = gen_rsa.semiprime(rng, bits)
      fams.append(('healthy', p * q, None))
    for t, n in gen_rsa.degenerate(rng, bits)[:5]:
      fams.append((t, n, None))

  # planted members of the family the property GUARANTEES: one prime = a w-bit word written from
  # the top and cut to the prime's length (gen_rsa.periodic_prime == Lean Permuted.periodicTop),
  # w in the default list, w <= bitlen(n)/16, at most 32 deviating low-order bits, n of 1024..4096
  # bits. guaranteed[n] = word size; a miss there is a violation (pred below).
  planted = Planted(rep)
  # the gated members come from a FIXED generator (independent of VERIF_SEED): LLL and the checks are deterministic, so a
  # member the unchanged tree factors is factored on every run and a miss is a failing input, never a seed-dependent
  # false alarm (rule of DESIGN 10.7); the families measured beforehand (15 783 / 899 keys, no miss) are the same.
  import random as _random
  grng = _random.Random('c05-gated-corpus-v1/' + tier)
  guaranteed = {}
  qpool = {}

  def cofactor(bits):
    pool = qpool.setdefault(bits, [])
    if len(pool) < 3:
      pool.append(gen_rsa.rprime(grng, bits))
    return grng.choice(pool)
  if tier == 'quick':
    plan = [(1024, w, 1) for w in DEFAULT_PS if w <= 64] + [(2048, w, 1) for w in grng.sample(
        [w for w in DEFAULT_PS if w <= 128], 3)] + [(4096, grng.choice([255, 256, 127]), 1)]
  else:
    plan = [(bits, w, 3 if bits <= 2048 else 1) for bits in (1024, 1536, 2048, 3072, 4096)
            for w in DEFAULT_PS if w <= bits // 16]
  for bits, w, cnt in plan:
    for _ in range(cnt):
      t = grng.choice([0, 1, 7, 16, 24, 31, 32, 32])
      r = gen_rsa.periodic_prime(grng, bits // 2, w, t, attempts=4) or \
          gen_rsa.periodic_prime(grng, bits // 2, w, 32, attempts=8)
      if r is None:
        rep.notes.append('no planted pattern prime for bits=%d w=%d' % (bits, w))
        continue
      n = r[0] * cofactor(bits // 2)
      guaranteed[n] = w
      fams.append(('planted-w%d' % w, n, r[0]))

  # recover d0 for each recorded lattice: x = 2^bitlen(d0), third entry = u*d0 % w — the
  # check passes d explicitly, so wrap CheckFraction to record it.
  real_cf = rsa_util.CheckFraction
  real_reduce = rsa_util.lll.reduce

  def run_with_recording(check, n):
    calls = []
    cur = {}

    def cf(n_, d0=1):
      cur['d0'] = int(d0)
      return real_cf(n_, d0)

    def red(lat):
      out = real_reduce(lat)
      calls.append((cur['d0'], [list(map(int, r)) for r in out]))
      return out
    rsa_util.CheckFraction = cf
    rsa_util.lll.reduce = red
    try:
      v = art.fmt_verdict(check, n)
    finally:
      rsa_util.CheckFraction = real_cf
      rsa_util.lll.reduce = real_reduce
    return v, calls

  b = Batch('chk.bitpatterns')
  bd = Batch('chk.bitpatterns_ds')
  default_ps = None
  user_lists = [None, [8, 16], [16, 8, 8, 3], [], [600, 1, 2], [5]]
  for tag, n, p in fams:
    lists = (user_lists if tier == 'thorough' else user_lists[:3])
    if n in guaranteed:
      # big planted keys: the default list, and one user list that contains the word size
      lists = [None, [600, guaranteed[n], 2]]
    for ps in lists:
      chk = rs.CheckBitPatterns(ps)
      v, calls = run_with_recording(chk, n)
      ps_eff = ps
      if ps is None:
        ps_eff = list(range(1, 16, 2)) + [31, 63, 127, 255, 511] + [8, 16, 32, 64, 128, 256]

      hit = p is not None and p in verdict_factors(v)
      in_region = n in guaranteed and guaranteed[n] in ps_eff
      if p is not None:
        planted.record('bitpattern/%s/%dbit%s' % (tag if n in guaranteed else tag.rstrip('0123456789') + '-legacy',
                                                  n.bit_length(), '' if ps is None else '/userlist'),
                       in_region, hit, n)

      def pred(n=n, p=p, v=v, hit=hit, in_region=in_region, w=guaranteed.get(n)):
        # completeness clause evaluated on the implementation: a planted pattern prime inside the
        # region the property guarantees must be flagged AND factored. (Outside the region —
        # the legacy 256/512-bit families, word sizes not in the list — statistics only.)
        if in_region and not hit:
          return ('one prime is a repetition of a %d-bit word apart from <= 32 low bits, %d <= bitlen/16, the size is in '
                  'the list, but CheckBitPatterns did not factor n=%x (verdict %s)' % (w, w, n, v[:40]))
        return None
      b.add('chk.bitpatterns %s %s %s' % (H(n), L(ps_eff), red_table(calls)), v,
            tag=tag.rstrip('0123456789') + ':' + v[:4], canon=art.sort_model_verdict,
            pred=pred, always=in_region)
      if v.startswith('ok 0'):
        bd.add('chk.bitpatterns_ds %s %s' % (H(n), L(ps_eff)), L([d for d, _ in calls]),
               tag='enum')
  rep.absorb(b, b.run())
  rep.absorb(bd, bd.run())
  b = Batch('chk.defaultps')
  b.add('chk.defaultps', L(list(range(1, 16, 2)) + [31, 63, 127, 255, 511] + [8, 16, 32, 64, 128, 256]),
        tag='const')
  rep.absorb(b, b.run())

  b = Batch('chk.permuted')
  bd = Batch('chk.permuted_ds')
  chk = rs.CheckPermutedBitPatterns()
  for tag, n, p in fams[::2]:
    v, calls = run_with_recording(chk, n)
    b.add('chk.permuted %s %s' % (H(n), red_table(calls)), v,
          tag=tag.rstrip('0123456789') + ':' + v[:4], canon=art.sort_model_verdict)
    if v.startswith('ok 0'):
      bd.add('chk.permuted_ds %s' % H(n), L([d for d, _ in calls]), tag='enum')
  # planted permuted-limb primes: a ps-bit word repetition whose adjacent ws-bit limbs are swapped
  # (gen_rsa.swapped_prime == Lean Permuted.swapLimbs ∘ periodicTop; C05Permuted.permuted_is_fraction),
  # apart from <= 32 low bits. Guaranteed by the property when the implied denominator has at most
  # bitlen(n)/10 bits; for bitlen/10 < bits(D) <= bitlen/8 the check still tries D but the property
  # promises nothing (measured: frequent misses) — statistics only. GATED REGION = property ∩ what the check
  # tries: ws in 8/16/32/64, ps odd, 3 <= ps < ws, bits(D) <= bitlen/10. The rest of the property family
  # (ps >= ws) is handled below (known finding D25).
  combos = {}
  for bits in (1024, 2048, 3072, 4096):
    combos[bits] = []
    for ws in (8, 16, 32, 64):
      for ps in range(3, ws, 2):
        dbits = gen_rsa.permuted_denominator(ws, ps).bit_length()
        if dbits > bits // 8:
          break
        combos[bits].append((ws, ps, dbits))
  if tier == 'quick':
    pplan = [(1024, c) for c in combos[1024]] + [(2048, c) for c in grng.sample(combos[2048], 3)] + \
            [(4096, grng.choice(combos[4096]))]
  else:
    pplan = [(bits, c) for bits in (1024, 2048, 3072, 4096) for c in combos[bits] for _ in range(2 if bits <= 2048 else 1)]
  for bits, (ws, ps, dbits) in pplan:
    t = grng.choice([0, 8, 16, 24, 32, 32])
    r = gen_rsa.swapped_prime(grng, bits // 2, ps, ws, t, attempts=4) or \
        gen_rsa.swapped_prime(grng, bits // 2, ps, ws, 32, attempts=8)
    if r is None:
      rep.notes.append('no planted swapped-limb prime for bits=%d ws=%d ps=%d' % (bits, ws, ps))
      continue
    p = r[0]
    n = p * cofactor(bits // 2)
    v, calls = run_with_recording(chk, n)
    hit = p in verdict_factors(v)
    in_region = dbits <= bits // 10
    planted.record('permuted/%dbit/ws%d/ps%d/dbits%d' % (bits, ws, ps, dbits), in_region, hit, n)

    def pred(n=n, hit=hit, in_region=in_region, ws=ws, ps=ps, dbits=dbits, v=v):
      if in_region and not hit:
        return ('one prime is a %d-bit word repetition with adjacent %d-bit limbs swapped (<= 32 low bits deviate), '
                'implied denominator %d bits <= bitlen/10, but CheckPermutedBitPatterns did not factor n=%x (verdict %s)'
                % (ps, ws, dbits, n, v[:40]))
      return None
    b.add('chk.permuted %s %s' % (H(n), red_table(calls)), v,
          tag='planted-swapped%s:%s' % ('' if in_region else '-outside', v[:4]),
          canon=art.sort_model_verdict, pred=pred, always=in_region)
  # ---- word sizes ps >= ws: inside the property family (ps odd in the default list, 8-bit limbs, 9*ps - 8 <= bitlen/10)
  # but never tried by the check (C05PermutedRegion.permuted_tried_region): statistics only, plus the FIXED replay inputs
  # of known finding D25 (deterministic: no randomness in the check or in LLL), gated the way D24 is.
  bitp_chk = rs.CheckBitPatterns()
  outside = [(bits, 8, ps) for bits in (1024, 2048, 3072, 4096) for ps in (9, 11, 13, 15, 31)
             if gen_rsa.permuted_denominator(8, ps).bit_length() <= bits // 10]
  if tier == 'quick':
    oplan = [(1024, 8, 9), (1024, 8, 11), (3072, 8, 31), rng.choice(outside)]
  else:
    oplan = outside * 2
  for bits, ws, ps in oplan:
    dbits = gen_rsa.permuted_denominator(ws, ps).bit_length()
    r = gen_rsa.swapped_prime(rng, bits // 2, ps, ws, rng.choice([0, 8, 16, 24, 32, 32]), attempts=4) or \
        gen_rsa.swapped_prime(rng, bits // 2, ps, ws, 32, attempts=8)
    if r is None:
      rep.notes.append('no planted swapped-limb prime for bits=%d ws=%d ps=%d' % (bits, ws, ps))
      continue
    p = r[0]
    n = p * cofactor(bits // 2)
    v, calls = run_with_recording(chk, n)
    v2 = art.fmt_verdict(bitp_chk, n)
    planted.record('permuted-ps>=ws/%dbit/ws%d/ps%d/dbits%d' % (bits, ws, ps, dbits), False,
                   p in verdict_factors(v) or p in verdict_factors(v2), n)
    b.add('chk.permuted %s %s' % (H(n), red_table(calls)), v, tag='planted-swapped-ps>=ws:%s' % v[:4],
          canon=art.sort_model_verdict)
  d25 = any(f_.get('id') == 'D25' for f_ in fw.load_known_findings())
  d25_missed = []
  for label, n, p, word, ws, ps in D25_KEYS:
    dbits = gen_rsa.permuted_denominator(ws, ps).bit_length()
    assert n % p == 0 and dbits <= n.bit_length() // 10 and ps in DEFAULT_PS
    v, calls = run_with_recording(chk, n)
    v2 = art.fmt_verdict(bitp_chk, n)
    missed = p not in verdict_factors(v) and p not in verdict_factors(v2)
    direct = p in [int(x) for x in rsa_util.CheckFraction(gmpy2.mpz(n), gen_rsa.permuted_denominator(ws, ps))]
    rep.extra.setdefault('d25_probe', {})[label] = dict(CheckPermutedBitPatterns=v[:8], CheckBitPatterns=v2[:8],
                                                       CheckFraction_with_implied_denominator=direct)
    if missed:
      d25_missed.append(label)

    def pred(n=n, missed=missed, ws=ws, ps=ps, dbits=dbits, v=v, v2=v2):
      if missed:
        return ('one prime is a %d-bit word repetition (size in the default list) with adjacent %d-bit limbs swapped (< 2^8 deviation), '
                'implied denominator %d bits <= bitlen/10 = %d, but neither CheckPermutedBitPatterns (%s) nor CheckBitPatterns (%s) '
                'factors n=%x: the check never tries psize >= wsize' % (ps, ws, dbits, n.bit_length() // 10, v[:8], v2[:8], n))
      return None
    b.add('chk.permuted %s %s' % (H(n), red_table(calls)), v, tag='D25-probe:%s' % v[:4], canon=art.sort_model_verdict,
          pred=None if d25 else pred, always=not d25)
  if d25 and d25_missed:
    rep.known.append('D25 ' + D25_WHAT)
  elif d25:
    rep.notes.append('listed finding D25 no longer reproduces on its replay inputs (CheckPermutedBitPatterns repaired?)')
  # enumeration of the denominators at every documented modulus size (cheap: 3x3 LLL each;
  # random odd numbers are enough, the loops do not depend on n being a semiprime)
  bitp = rs.CheckBitPatterns()
  for bits in (1024, 1536, 2048, 3072, 4096) + ((1025, 2047, 8192) if tier == 'thorough' else ()):
    n = 1
    for _ in range(bits // 64):          # no small factors: every attempt fails, so the
      n *= gen_rsa.rprime(rng, 64)       # full list of denominators is exercised
    v, calls = run_with_recording(chk, n)
    b.add('chk.permuted %s %s' % (H(n), red_table(calls)), v, tag='size%d:%s' % (bits, v[:4]),
          canon=art.sort_model_verdict)
    if v.startswith('ok 0'):
      bd.add('chk.permuted_ds %s' % H(n), L([d for d, _ in calls]), tag='enum%d' % bits)
    v, calls = run_with_recording(bitp, n)
    if v.startswith('ok 0'):
      bd.add('chk.bitpatterns_ds %s %s' % (H(n), L(list(range(1, 16, 2)) + [31, 63, 127, 255, 511] + [8, 16, 32, 64, 128, 256])),
             L([d for d, _ in calls]), tag='enum-bitpatterns%d' % bits)
  rep.absorb(b, b.run())
  rep.absorb(bd, bd.run())

  # ---------------- the Pollard product built by the constructor (default and user bounds)
  import math
  bp = Batch('chk.pm1_product')
  be = Batch('chk.pm1_exps')
  # bound 0 is falsy: `if bound:` takes the DEFAULT branch (F20; Model pollardUserBound).
  # 243 = 3^5, 4913 = 17^3, 59049 = 3^10 (thorough: 29791, 68921, 571787): the six bounds <= 2^20 where the float
  # exponent is one too small (finding M4).
  pbounds = (None, 0, 2**8, 2**10, 243, 4913, 59049, 1000, 3, 2, 1) + ((29791, 68921, 571787) if tier == 'thorough' else ())
  for bound in pbounds:
    try:
      chkp = rs.CheckPollardpm1(bound)
    except Exception as e:  # noqa
      rep.notes.append('CheckPollardpm1(%r) raised %r' % (bound, e))
      continue
    ce = constructor_exponents(chkp, bound)

    def pred(bound=bound, chkp=chkp, ce=ce):
      # NEVER switched off. (1) the real product is the sieve primes raised to the exponents of the constructor's
      # own expression (float, as shipped) or to the exact integer logarithms (repaired constructor) - anything else
      # means whole families of smooth keys are silently lost; (2) DEFAULT branch: the Pollard clause of C05 and
      # C05Pollard.defaultM_dvd_iff / pollard_default_flag are about the DOCUMENTED default product, so there the
      # real exponents must be the documented ones.
      if ce['used'] is None:
        want = balanced_prod([pp ** e for pp, e in zip(ce['raised'], ce['doc'])] + ce['primes'][len(ce['raised']):])
        q = want // math.gcd(want, int(chkp._m))
        return ('CheckPollardpm1(%r): the product m is neither the product for the float exponents int(math.log(B, p)) nor '
                'for the exact ones (documented/real has the factor %s...): keys whose p-1 needs it are no longer flagged'
                % (bound, hex(q)[:40]))
      if not bound and ce['used'] != ce['doc']:
        return ('default product: the exponents used differ from the documented floor(log_p 2^64) at primes %s: the default '
                'Pollard product of C05 is not the one C05Pollard.defaultM_dvd_iff describes'
                % [pp for pp, a, c in zip(ce['raised'], ce['used'], ce['doc']) if a != c][:5])
      return None
    used = ce['used'] if ce['used'] is not None else ce['float']
    bp.add('chk.pm1_product %s %s' % (O(bound), L(used)), H(int(chkp._m)), tag='bound=%s' % bound,
           pred=pred, always=True)
    be.add('chk.pm1_exps %s' % O(bound), L(ce['doc']), tag='documented-exponents')
    if bound and ce['used'] is not None and ce['used'] != ce['doc']:
      st = rep.extra.setdefault('pollard_float_exponents', {})
      st[str(bound)] = {str(pp): list(ac) for pp, ac in ce['diff'].items()}
      rep.notes.append('OBSERVATION (review-2 M4; user-bound path only, the default product of C05 is unaffected): '
                       'CheckPollardpm1(%d) uses int(math.log(bound, p)) = %s instead of the exact %s at p = %s; the real product '
                       'lacks that factor, the clause is evaluated with the REAL exponents (C05PollardExps.product_dvd_iff); '
                       'proposed patch fixes/pollard-user-bound-exponent.diff%s'
                       % (bound, [a for a, _ in ce['diff'].values()], [c for _, c in ce['diff'].values()], list(ce['diff']),
                          '' if ce['diff'] == FLOAT_DIFF.get(bound) else ' — NOT the recorded difference %r' % (FLOAT_DIFF.get(bound),)))
    elif bound in FLOAT_DIFF and ce['used'] is not None:
      rep.notes.append('CheckPollardpm1(%d) uses the exact exponents (constructor repaired or different float library): '
                       'C05PollardExps.floatExps243 describes the shipped constructor only' % bound)
  # constructor arguments OUTSIDE the model's `Option Nat` (review-2 L15): recorded on the implementation only.
  # -1: ValueError (gmpy2 isqrt of a negative number inside Sieve); 2.5: TypeError; True: truthy, Sieve(True) = [] -> m = 1
  # (as for the bounds 1 and 2, which ARE modelled: pollardProduct (some 1) _ = 1).
  outside_model = {}
  for arg, want in ((-1, 'ValueError'), (2.5, 'TypeError'), (True, 'm=1')):
    try:
      got = 'm=%d' % int(rs.CheckPollardpm1(arg)._m)
    except Exception as e:  # noqa
      got = type(e).__name__
    outside_model[repr(arg)] = got
    if got != want:
      rep.notes.append('CheckPollardpm1(%r): %s (recorded behaviour: %s) — argument outside the model (Option Nat)' % (arg, got, want))
  rep.extra['pollard_constructor_outside_model'] = outside_model
  # the recorded float exponents of Lean (Model/PollardFloat.lean floatExps243, used by C05PollardExps.bound243_*)
  # are the values of the shipped expression on this platform
  bf = Batch('chk.pm1_float243')
  bf.add('chk.pm1_float243', L([int(math.log(243, int(pp))) for pp in ntheory_util.Sieve(243)]), tag='float-exponents-243')
  rep.absorb(bf, bf.run())
  rep.absorb(bp, bp.run())
  rep.absorb(be, be.run())

  # ---------------- CheckPollardpm1 with user bounds (default product is 1.5 Mbit: thorough only)
  b = Batch('chk.pm1')
  # 243 = 3^5: the real constructor raises 3 to the 4th power only (float exponent, finding M4); the clause and the
  # criterion are evaluated with the REAL exponents there as everywhere
  bounds = [2**8, 2**10, 243] + ([None] if tier == 'thorough' else [])
  for bound in bounds:
    chk = rs.CheckPollardpm1(bound)
    m = int(chk._m)
    if (bound or None) not in USED_EXPS:
      constructor_exponents(chk, bound)
    name = 'm%s' % (bound or 'default')
    b.let(name, H(m))
    sm = []
    for bits in (160, 256):
      for _ in range(reps * 2):
        sp = gen_rsa.smooth_prime(rng, bits // 2, 7)
        sm.append(('onesmooth', sp * gen_rsa.rprime(rng, bits // 2), sp))
        sm.append(('bothsmooth', sp * gen_rsa.smooth_prime(rng, bits // 2, 7), sp))
      p, q = gen_rsa.semiprime(rng, bits)
      sm.append(('healthy', p * q, None))
      sm.extend((t, nn, None) for t, nn in gen_rsa.degenerate(rng, bits)[:4])
      for gb_ in (58, 60, 61, 70):
        sp, q, _ = gen_rsa.shared_smooth(rng, 2 * bits, gbits=gb_, smooth_bits=10)
        sm.append(('shared%d' % gb_, sp * q, sp))
      sp, q, _ = gen_rsa.shared_smooth(rng, 2 * bits, gbits=64, smooth_bits=10, q_smooth=True)
      sm.append(('sharedboth', sp * q, sp))
    if bound is None:
      # the model's square-and-multiply halves the 1.5 Mbit exponent at every step (quadratic,
      # ~20 s per key): one key of each family is enough to tie the default product
      seen_, few_ = set(), []
      for t_ in sm:
        if t_[0] not in seen_ and t_[1].bit_length() <= 330:
          seen_.add(t_[0]); few_.append(t_)
      sm = [t_ for t_ in few_ if t_[0] in ('onesmooth', 'bothsmooth', 'healthy', 'shared58', 'shared60',
                                          'sharedboth', 'prime')]
    # shared factors that contain prime POWERS (F9): `power-in` = every prime power of g within the
    # exponents of the product (g | m by C05Pollard userM_dvd_iff / defaultM_dvd_iff: must be flagged);
    # `power-edge` = one exponent one too large on top of an admissible part >= 2^60 (g does not divide m,
    # the gate still opens); `power-out` = g = r^K for one prime (2^20-smooth, >= 2^60, but only r^e_r
    # divides m: the literal property text would demand a flag, the criterion does not).
    pw = []
    sb = (bound or 2**10).bit_length() - 1
    small_pr = [int(x) for x in ntheory_util.Sieve(bound or 2**10)]
    for rep_i in range(reps if bound else 1):
      rng.shuffle(small_pr)
      gin, acc = [], 2
      for r_ in small_pr:
        if acc >= 2**62:
          break
        k_ = product_exponent(bound, r_) - (1 if r_ == 2 else 0)   # p-1 = 2*g*...
        k_ = min(k_, 40)
        if k_ >= 1 and (k_ >= 2 or rng.random() < 0.5):
          gin.append((r_, k_)); acc *= r_ ** k_
      # one prime whose power >= 2^60 exceeds its exponent in the product (default product: a prime
      # beyond the 150 raised ones, e.g. 1009^7 of C05Pollard.literal_text_fails)
      r0 = rng.choice([3, 5, 7, 11, 13] if bound else [1009, 1013, 65537, 1048573])
      gout = [(r0, floor_log(r0, 2**60) + 1)]
      gedge = [(r_, k_ + (1 if i_ == 0 else 0)) for i_, (r_, k_) in enumerate(sorted(gin, key=lambda t: -t[0]))]
      for fam_, gf_, qs_ in (('power-in', gin, False), ('power-in-both', gin, True), ('power-edge', gedge, False),
                             ('power-out', gout, False)):
        if bound is None and fam_ in ('power-in-both', 'power-edge'):
          continue      # every gate-open key costs the model ~1-1.5 min with the default product
        r = gen_rsa.shared_power_smooth(rng, 0, gf_, q_smooth=qs_, smooth_bits=sb)
        if r is None:
          rep.notes.append('no prime pair for pollard family %s bound=%r' % (fam_, bound))
          continue
        pw.append((fam_, r[0] * r[1], r[0], gf_))
    if bound == 243:
      # C05PollardExps.bound243_documented_vs_real (kernel-checked): every hypothesis of C05Pollard.pollard_user_flag
      # holds for the DOCUMENTED product, the real product lacks one factor 3 and the gate stays closed
      pw.append(('bound243-witness', 20733112663155396649 * 681939511396589371385657642542849294057,
                 20733112663155396649, [(2, 2), (3, 5), (19, 1), (23, 1), (43, 1), (59, 1), (103, 1), (127, 1),
                                        (181, 1), (239, 1)]))
      for _ in range(reps if USED_EXPS.get(243, {}).get(3) == 4 else 0):
        r = float_edge_key(rng, 243, 3, 5, m)
        if r is None:
          rep.notes.append('no fresh float-edge key for bound 243')
        else:
          pw.append(('float-edge', r[0] * r[1], r[0], r[2]))
    if bound is None:
      # the kernel-checked witnesses of Props/C05Pollard.lean (literal_text_fails, non-vacuity example)
      pw.append(('literal-witness', 25553441901090092879257 * 2233202595329425274535519299,
                 25553441901090092879257, [(1009, 7)]))
    for tag, n, sp in sm + [(t_, n_, p_) for t_, n_, p_, _ in pw]:
      gfac = dict((n_, gf_) for _, n_, _, gf_ in pw).get(n)
      v = art.fmt_verdict(chk, n)

      def pred(n=n, sp=sp, m=m, v=v, gfac=gfac, bound=bound, tag=tag):
        # the Pollard clause (C05.pollard_flag) evaluated exactly on the implementation, and the
        # divisibility criterion of C05Pollard evaluated on the REAL product
        if sp is None:
          return None
        q = n // sp
        if gfac is not None:
          g_ = 2 * fw_prod([r_ ** k_ for r_, k_ in gfac])
          crit = divides_by_criterion([(2, 1 + dict(gfac).get(2, 0))] + [t_ for t_ in gfac if t_[0] != 2], bound)
          if (m % g_ == 0) != crit:
            return ('divisibility criterion fails on the real product of CheckPollardpm1(%r): g=%x, g | m is %s, '
                    'exponent criterion says %s' % (bound, g_, m % g_ == 0, crit))
          if tag == 'literal-witness' and v != 'ok 0 [] 0':
            return 'C05Pollard.literal_text_fails proves (False, []) for this key, the implementation says %s' % v
          if tag == 'bound243-witness' and USED_EXPS.get(243, {}).get(3) == 4 and v != 'ok 0 [] 0':
            return ('C05PollardExps.bound243_documented_vs_real proves (False, []) for this key and the product with the '
                    'float exponents, the implementation says %s' % v)
        g = math.gcd(math.gcd(sp - 1, q - 1), m)
        fs = verdict_factors(v)
        if g >= 2**60 and ((n - 1) * m) % (sp - 1) == 0:
          if not v.startswith('ok 1'):
            return 'p-1 smooth and shared factor >= 2^60 dividing m, but key not flagged: n=%x' % n
          both = pow(2, (n - 1) * m, q) == 1
          if both and fs:
            return '2^((n-1)m) = 1 mod q as well, yet factors were reported: n=%x' % n
          if not both and sorted(fs) != sorted([sp, q]):
            return 'flagged but not factored although 2^((n-1)m) != 1 mod q: n=%x' % n
        if math.gcd(n - 1, m) < 2**60 and v != 'ok 0 [] 0':
          return 'gcd gate closed but verdict %s: n=%x' % (v, n)
        return None
      b.add('chk.pm1 %s $%s %s' % (H(n), name, H(2**60)), v, tag=tag + ':' + v[:4], pred=pred,
            canon=art.sort_model_verdict, always=True)
      if gfac is not None:
        st = rep.extra.setdefault('pollard_power_families', {}).setdefault(
            '%s/bound=%s' % (tag, bound or 'default'), {})
        st[v[:4]] = st.get(v[:4], 0) + 1
  rep.absorb(b, b.run())

  # the default product on the implementation only (cheap in Python; the model needs 1-1.5 min per
  # gate-open key with the 1.5 Mbit exponent, so model-vs-implementation for it is thorough-tier and
  # limited to a few keys): the two kernel-checked witnesses and fresh power-in / power-edge /
  # power-out keys, clause and criterion evaluated exactly.
  if True:
    chkd = rs.CheckPollardpm1()
    md = int(chkd._m)
    dstat = rep.extra.setdefault('pollard_default_impl_only', {})
    cases = [('literal-witness', 25553441901090092879257, 2233202595329425274535519299, [(1009, 7)], 'ok 0 [] 0'),
             ('power-in-witness', 8562318457488567634551083203943137586184193, 97583607849372129325744129,
              [(2, 19), (3, 10), (863, 2), (1009, 1)], None),
             # C05PollardExps.both_smooth_witness (kernel-checked (True, [])): p-1 and q-1 both divide the default product
             ('both-smooth-witness', 8562318457488567634551083203943137586184193, 49455007315820782842544129,
              [(2, 20), (3, 22), (863, 2), (1009, 1)], 'ok 1 [] 0'),
             # the same PROPERTY-TEXT LIMITATION at the property's size (1024-bit n, found by the second review): g = 1009^7
             # divides p-1 and q-1, (p-1) | (n-1)*m, q-1 not, gcd(n-1, m) has 25 bits: not flagged
             ('literal-witness-1024',
              11514020204091215725318855726955114876037586507592971883966990071685554246757326872735650142435211540754699528075333251819077524720522124206704661997473977,
              9459521728791857765807521144859151501997355735944939458813638992715253154199018518628184660065288639875946358666848535991139027806322135340226414031941799,
              [(1009, 7)], 'ok 0 [] 0')]
    for fam_, gf_ in (('power-in', [(2, 30), (3, 20), (863, 6), (1009, 1), (1048573, 1)]),
                      ('power-in', [(2, 63), (3, 2)]),
                      ('power-edge', [(2, 30), (3, 25), (5, 10), (1009, 2)]),
                      ('power-edge', [(2, 62), (3, 1), (863, 7)]),
                      ('power-out', [(1009, 7)]), ('power-out', [(863, 7)]), ('power-out', [(3, 41), (5, 2)]),
                      ('power-out', [(1048573, 4)])):
      r = gen_rsa.shared_power_smooth(rng, 0, gf_, smooth_bits=10)
      if r is not None:
        cases.append((fam_, r[0], r[1], gf_, None))
    for fam_, p_, q_, gf_, want in cases:
      n_ = p_ * q_
      v = art.fmt_verdict(chkd, n_)
      g_ = 2 * fw_prod([r_ ** k_ for r_, k_ in gf_])
      crit = divides_by_criterion([(2, 1 + dict(gf_).get(2, 0))] + [t_ for t_ in gf_ if t_[0] != 2], None)
      problem = None
      if fam_.startswith('literal-witness') and not ((p_ - 1) % (g_ // 2) == 0 and (q_ - 1) % (g_ // 2) == 0 and g_ // 2 >= 2**60 and
                                                     ((n_ - 1) * md) % (p_ - 1) == 0 and ((n_ - 1) * md) % (q_ - 1) != 0 and
                                                     gmpy2.is_prime(p_) and gmpy2.is_prime(q_)):
        problem = 'the literal-text witness does not satisfy the hypotheses of the property clause'
      elif (md % g_ == 0) != crit:
        problem = 'criterion defaultM_dvd_iff fails on the real default product for g=%x' % g_
      elif want is not None and v != want:
        problem = 'kernel-checked verdict %s, implementation %s' % (want, v)
      elif math.gcd(math.gcd(p_ - 1, q_ - 1), md) >= 2**60 and ((n_ - 1) * md) % (p_ - 1) == 0:
        both = pow(2, (n_ - 1) * md, q_) == 1
        if not v.startswith('ok 1') or (not both and sorted(verdict_factors(v)) != sorted([p_, q_])):
          problem = 'a shared factor >= 2^60 divides the default product, p-1 smooth enough, but verdict %s' % v
      key = '%s:%s:%s' % (fam_, 'g|m' if crit else 'g∤m', v[:4])
      dstat[key] = dstat.get(key, 0) + 1
      rep.evaluations += 1
      if problem:
        rep.violations.append(dict(op='chk.pm1(default, implementation only)', line='n=%x' % n_, what=problem,
                                   impl=v, model=None, info=None))

  # ---------------- CheckLowHammingWeight (cutoff/maxsteps are fixed by the check: use small n)
  b = Batch('chk.lhw')
  chk = rs.CheckLowHammingWeight()
  lw = []
  for bits in (64, 96, 128, 512, 1024):
    for wt in (3, 4, 6):
      for _ in range(reps):
        lw.append(('lowweight', gen_rsa.low_weight_prime(rng, bits // 2, wt) *
                   gen_rsa.low_weight_prime(rng, bits // 2, wt)))
    p, q = gen_rsa.semiprime(rng, bits)
    lw.append(('healthy', p * q))
    lw.extend(gen_rsa.degenerate(rng, bits))
    for lead in (2, 5, 8):
      lw.append(('leadingones', gen_rsa.leading_ones_prime(rng, bits // 2, lead, 3) *
                 gen_rsa.leading_ones_prime(rng, bits // 2, lead, 3)))
    lw.append(('unbalanced', gen_rsa.low_weight_prime(rng, bits // 2 - 8, 3) *
               gen_rsa.low_weight_prime(rng, bits // 2 + 8, 3)))
  real_lhw = rsa_util.CheckLowHammingWeight
  for tag, n in lw:
    for cutoff, maxsteps in ((2500, 3000), (50, 400), (3, 30)):
      rsa_util.CheckLowHammingWeight = lambda n_, c=cutoff, ms=maxsteps: real_lhw(n_, c, ms)
      try:
        v = art.fmt_verdict(chk, n)
      finally:
        rsa_util.CheckLowHammingWeight = real_lhw
      b.add('chk.lhw %s %s %s' % (H(n), H(cutoff), H(maxsteps)), v, tag=tag + ':' + v[:8],
            canon=art.sort_model_verdict)
  # weights up to 32 with the DEFAULT parameters (the clause of the property): flagged (factored or
  # SEVERITY_UNKNOWN) for 136 of 136 measured keys with randomly placed bits at 1024..4096 bits, but NOT for
  # every key (known finding D24: sparse primes starting with a run of ones): the fixed corpus is gated, fresh
  # keys are statistics.
  planted = Planted(rep)
  try:
    lhw_res = lhw_async.get(timeout=900)
  finally:
    lhw_pool.terminate()
  for (bits, wt, n), v in zip(lhw_keys, lhw_res):
    flagged = v.startswith('ok 1')
    planted.record('lowweight/%dbit/weight%d' % (bits, wt), True, flagged, n)

    idx = [k[2] for k in lhw_keys].index(n)
    gated_key = idx >= n_fresh and n != D24_N

    def pred(n=n, v=v, wt=wt, flagged=flagged):
      if not flagged:
        return 'both primes have Hamming weight %d <= 32 but CheckLowHammingWeight did not flag n=%x (%s)' % (wt, n, v)
      return None
    if n == D24_N:
      d24 = any(f.get('id') == 'D24' for f in fw.load_known_findings())
      if not flagged and d24:
        rep.known.append('D24 ' + D24_WHAT)
      elif flagged and d24:
        rep.notes.append('listed finding D24 no longer reproduces on its replay input')
      gated_key = not d24
    b.add('chk.lhw %s %s %s' % (H(n), H(2500), H(10**6)), v,
          tag='weight<=32-default:%s:%s' % ('corpus' if gated_key else 'fresh', v[:8]),
          canon=art.sort_model_verdict, pred=pred if gated_key else None, always=gated_key)
  rep.absorb(b, b.run())

  # ---------------- CheckContinuedFractions
  b = Batch('chk.cf')
  for bound in (2**48, 2**6, 2):
    chk = rs.CheckContinuedFractions(bound)
    for tag, n, p in fams[::3]:
      v = art.fmt_verdict(chk, n)
      b.add('chk.cf %s %s' % (H(n), H(bound)), v, tag=tag.rstrip('0123456789') + ':' + v[:4],
            canon=art.sort_model_verdict)
  # "both primes repeat words of at most 64 bits" (apart from <= 32 low bits): must be flagged by the
  # default check (bound 2^48); measured beforehand: 2 881 of 2 881 flagged (2 120 factored).
  chk = rs.CheckContinuedFractions()
  wsizes = (1, 3, 5, 8, 13, 16, 24, 31, 32, 48, 63, 64)
  if tier == 'quick':
    cplan = [(1024, 64, 64), (1024, 63, 64)] + [(1024, rng.choice(wsizes), rng.choice(wsizes)) for _ in range(8)] + \
            [(2048, rng.choice(wsizes), rng.choice(wsizes)) for _ in range(2)] + [(4096, 64, rng.choice(wsizes))]
  else:
    cplan = [(bits, w1, w2) for bits in (1024, 2048) for w1 in wsizes for w2 in wsizes if w1 <= w2] + \
            [(bits, rng.choice(wsizes), rng.choice(wsizes)) for bits in (1536, 3072, 4096) for _ in range(6)]
  for bits, w1, w2 in cplan:
    t = rng.choice([0, 8, 16, 24, 32, 32])
    r = gen_rsa.two_pattern_primes(rng, bits, w1, w2, t) or gen_rsa.two_pattern_primes(rng, bits, w1, w2, 32)
    if r is None:
      rep.notes.append('no pair of patterned primes for bits=%d w=%d,%d' % (bits, w1, w2))
      continue
    n = r[0] * r[1]
    v = art.fmt_verdict(chk, n)
    flagged = v.startswith('ok 1')
    planted.record('twopatterns/%dbit' % bits, True, flagged, n)
    planted.record('twopatterns-factored/%dbit' % bits, False, bool(verdict_factors(v)), n)

    def pred(n=n, v=v, w1=w1, w2=w2, flagged=flagged):
      if not flagged:
        return ('both primes repeat words of %d and %d bits (<= 64) apart from <= 32 low bits but '
                'CheckContinuedFractions did not flag n=%x (%s)' % (w1, w2, n, v))
      return None
    b.add('chk.cf %s %s' % (H(n), H(2**48)), v, tag='twopatterns:' + v[:4], canon=art.sort_model_verdict,
          pred=pred, always=True)
  rep.absorb(b, b.run())

  # ---------------- the Lean definitions of the planted shapes == the generators
  b = Batch('pat')
  for _ in range(20 if tier == 'quick' else 200):
    w = rng.choice([1, 2, 3, 5, 7, 8, 13, 16, 31, 64, 127, 255])
    word = rng.getrandbits(w) % max(1, (1 << w) - 1)
    bits = rng.choice([0, 1, 7, 64, 100, 512, 1024, 2048])
    if w == 1:
      word = 0
    pat = gen_rsa.periodic_pattern(word, w, bits) if w > 1 else 0
    b.add('pat.periodic %s %s %s' % (H(word), H(w), H(bits)), H(pat), tag='periodic')
    ws = rng.choice([1, 8, 16, 32, 64])
    m_ = rng.choice([0, 1, 2, 4, 8, 16])
    x = rng.getrandbits(rng.choice([8, 64, 512, 2048]))
    b.add('pat.swap %s %s %s' % (H(ws), H(m_), H(x)), H(gen_rsa.swap_limbs(x & ((1 << (2 * m_ * ws)) - 1), ws, 2 * m_)),
          tag='swap')
  rep.absorb(b, b.run())
  rep.extra['families'] = {}
  for t, _, _ in fams:
    rep.extra['families'][t] = rep.extra['families'].get(t, 0) + 1
