"""C07 — healthy artefacts are never accused. The theorems (Props/C07.lean) carry the
closed-form / non-interference part; this module pushes freshly generated healthy RSA keys, EC
keys and ECDSA signatures through the REAL entry points and single checks (alone, in batches, and
next to weak neighbours) and reports any accusation with the artefact as replay. Correspondence
lines: the model's verdict for the same key on the checks that have a per-key model."""
import hashlib
import gmpy2
import framework as fw
from framework import H, L, M, O, B, Batch, call
import artifacts as art
import gen_rsa
from corr.c01 import cbrt_oracle

META = dict(
    trusted_base=['healthy artefacts are generated with Python random seeded from VERIF_SEED '
                  '(gmpy2.next_prime for primes); this is a search for accusations, not a proof'],
    assumptions=['probabilistic clause of C07 is NOT decided by proof; proved: closed-form '
                 'contrapositives, Fermat silence, gcd non-interference, exact ROCA rates, '
                 'entry point = OR'])

STRONG = ['CURVE_SECP224R1', 'CURVE_SECP256R1', 'CURVE_SECP384R1', 'CURVE_SECP521R1',
          'CURVE_SECP256K1', 'CURVE_BRAINPOOLP256R1', 'CURVE_BRAINPOOLP384R1',
          'CURVE_BRAINPOOLP512R1']


def ec_key(pb, ec_util, util, cid, d):
  c = ec_util.CURVE_FACTORY[cid]
  x, y = c.Multiply(c.g, d)
  k = pb.ECKey()
  k.ec_info.curve_type = cid
  k.ec_info.x = util.Int2Bytes(int(x))
  k.ec_info.y = util.Int2Bytes(int(y))
  return k


def ecdsa_sig(pb, ec_util, util, rng, cid, d, msg, hname='sha256'):
  c = ec_util.CURVE_FACTORY[cid]
  n = int(c.n)
  digest = hashlib.new(hname, msg).digest()
  h = int.from_bytes(digest, 'big')
  z = c.TransformOrderLen(h, 8 * len(digest))
  while True:
    k = rng.randrange(1, n)
    r = int(c.Multiply(c.g, k)[0]) % n
    if r == 0:
      continue
    s = int(gmpy2.invert(k, n)) * (int(z) + r * d) % n
    if s:
      break
  sig = pb.ECDSASignature()
  sig.ecdsa_sig_info.r = util.Int2Bytes(r)
  sig.ecdsa_sig_info.s = util.Int2Bytes(s)
  sig.ecdsa_sig_info.message_hash = digest
  x, y = c.Multiply(c.g, d)
  sig.issuer_key_info.curve_type = cid
  sig.issuer_key_info.x = util.Int2Bytes(int(x))
  sig.issuer_key_info.y = util.Int2Bytes(int(y))
  return sig


def accused(ti):
  return [(r.test_name, r.severity) for r in ti.test_results if r.result]


def correspondence(rep, rng, tier):
  from paranoid_crypto import paranoid_pb2 as pb
  from paranoid_crypto.lib import (paranoid, util, ec_util, rsa_single_checks as rs,
                                   ec_single_checks as es, ec_aggregate_checks as ea,
                                   ecdsa_sig_checks as sc)
  thorough = tier == 'thorough'
  stats = dict(rsa=0, ec=0, ecdsa=0)

  # ---------------- RSA: healthy keys through the real CheckAllRSA, alone and with weak neighbours
  b = Batch('chk.fermat')
  bs = Batch('chk.sud')
  bc = Batch('chk.cf')
  sizes = [2048, 2048, 3072] + ([4096, 2048, 3072, 4096] if thorough else [])
  healthy = []
  for bits in sizes:
    p, q = gen_rsa.semiprime(rng, bits)
    while (p * q).bit_length() != bits:      # the property is about keys of AT LEAST 2048 bits
      p, q = gen_rsa.semiprime(rng, bits)
    healthy.append(p * q)
  weakp = gen_rsa.rprime(rng, 1024)
  sudp = gen_rsa.rprime(rng, 1024)
  weak = [weakp * gen_rsa.rprime(rng, 1024), weakp * gen_rsa.rprime(rng, 1024),
          (lambda pq: pq[0] * pq[1])(gen_rsa.close_primes(rng, 2048, 400)),
          sudp * int(gmpy2.next_prime(sudp + 2 ** (1024 - 100))),       # small upper difference
          gen_rsa.pattern_prime(rng, 1024, 16, lowbits=16) * gen_rsa.rprime(rng, 1024)]
  # weak keys BEFORE, BETWEEN and AFTER the healthy ones (a verdict leaking to the next artefact
  # shows only in one of these orders)
  mixed1 = weak[:3] + healthy[:2] + weak[3:]
  mixed2 = [weak[3], healthy[0], weak[4], healthy[1], weak[0]]
  for label, batch in (('alone', [[n] for n in healthy]), ('batch', [healthy]),
                       ('with-weak-neighbours', [healthy[:2] + weak, mixed1, mixed2])):
    for ns in batch:
      keys = [art.rsa_key(n) for n in ns]
      ret = paranoid.CheckAllRSA(keys)
      stats['rsa'] += len(ns)
      for n, k in zip(ns, keys):
        is_h = n in healthy
        acc = accused(k.test_info)
        v_f = 'ok %s %s 0' % (B(art.entry(k.test_info, 'CheckFermat').result), L([]) if is_h else L(art.factors(k.test_info)))

        def pred(n=n, k=k, is_h=is_h, acc=acc, label=label):
          if is_h and (k.test_info.weak or acc):
            return ('healthy %d-bit RSA key accused (%s) by %s: n=%x' %
                    (n.bit_length(), label, acc, n))
          return None
        if is_h:
          b.add('chk.fermat %s %s' % (H(n), H(100000)), v_f, tag=label, pred=pred, always=True,
                canon=art.sort_model_verdict)
          bs.add('chk.sud %s %s' % (H(n), H(cbrt_oracle(n))),
                 'ok %s [] 0' % B(art.entry(k.test_info, 'CheckSmallUpperDifferences').result), tag=label)
          bc.add('chk.cf %s %s' % (H(n), H(2**48)),
                 'ok %s [] 0' % B(art.entry(k.test_info, 'CheckContinuedFractions').result), tag=label)
      if all(n in healthy for n in ns) and ret:
        rep.violations.append(dict(op='CheckAllRSA', line='CheckAllRSA ' + L(ns),
                                   what='CheckAllRSA returned True for a batch of healthy keys',
                                   impl='True', model='False', info=None))
  rep.absorb(b, b.run())
  rep.absorb(bs, bs.run())
  rep.absorb(bc, bc.run())

  # ---------------- EC keys on the strong curves (2^32 / 2^24 searches only in the thorough tier)
  b = Batch('c07.ec')
  cids = [getattr(pb.CurveType, nme) for nme in STRONG]
  keys, ds = [], []
  for cid in cids:
    n = int(ec_util.CURVE_FACTORY[cid].n)
    for _ in range(2):
      d = rng.randrange(2**(n.bit_length() - 2), n)
      keys.append(ec_key(pb, ec_util, util, cid, d))
      ds.append(d)
  if thorough:
    ret = paranoid.CheckAllEC(keys)
    names = 'CheckAllEC'
  else:
    ret = False
    for chk in (es.CheckValidECKey(), es.CheckWeakCurve(), ea.CheckECKeySmallDifference(max_diff=2**10)):
      ret |= chk.Check(keys)
    names = 'CheckValidECKey+CheckWeakCurve+CheckECKeySmallDifference(2^10)'
  stats['ec'] = len(keys)
  # healthy keys next to weak neighbours: duplicates before a small-difference pair, structured
  # private keys (32-bit window at byte offset j) before / after healthy keys
  for cid in cids[1:3] if not thorough else cids:
    n = int(ec_util.CURVE_FACTORY[cid].n)
    dh = [rng.randrange(2**(n.bit_length() - 2), n) for _ in range(3)]
    dw = rng.randrange(2**(n.bit_length() - 2), n)
    dup = rng.randrange(2**(n.bit_length() - 2), n)
    for order in ([('D', dup), ('D', dup), ('H', dh[0]), ('W', dw), ('W', dw + 700)],
                  [('W', dw), ('H', dh[1]), ('D', dup), ('W', dw + 5), ('D', dup), ('H', dh[2])]):
      ks = [ec_key(pb, ec_util, util, cid, d) for _, d in order]
      ea.CheckECKeySmallDifference(max_diff=2**10).Check(ks)
      for (kind, d), k in zip(order, ks):
        stats['ec'] += 1
        if kind == 'H' and (k.test_info.weak or accused(k.test_info)):
          rep.violations.append(dict(op='CheckECKeySmallDifference', line='order=%s curve=%d' % ([o for o, _ in order], cid),
                                     what='healthy EC key accused by CheckECKeySmallDifference next to duplicates / a small-difference pair: %s'
                                          % accused(k.test_info), impl='weak', model='not weak', info=dict(d=hex(d))))
    for j in (2, 3, 7):
      w_ = (rng.getrandbits(31) | 1) << (8 * j)
      for order in ([('H', dh[0]), ('W', w_)], [('W', w_), ('H', dh[1])], [('H', dh[0]), ('H', dh[1]), ('W', w_)]):
        ks = [ec_key(pb, ec_util, util, cid, d) for _, d in order]
        es.CheckWeakECPrivateKey().Check(ks)
        for (kind, d), k in zip(order, ks):
          stats['ec'] += 1
          if kind == 'H' and (k.test_info.weak or accused(k.test_info)):
            rep.violations.append(dict(op='CheckWeakECPrivateKey', line='order=%s curve=%d j=%d' % ([o for o, _ in order], cid, j),
                                       what='healthy EC key accused by CheckWeakECPrivateKey next to a key with a structured private key: %s'
                                            % accused(k.test_info), impl='weak', model='not weak', info=dict(d=hex(d))))
  for k, d in zip(keys, ds):
    acc = accused(k.test_info)
    if k.test_info.weak or acc:
      rep.violations.append(dict(op=names, line='ec key d=%x curve=%d' % (d, k.ec_info.curve_type),
                                 what='healthy EC key accused by %s' % acc, impl='weak', model='not weak', info=None))
  if ret:
    rep.violations.append(dict(op=names, line='healthy EC batch', what='%s returned True for healthy keys' % names,
                               impl='True', model='False', info=None))

  # ---------------- ECDSA signatures with uniformly random nonces
  sigs = []
  for cid in cids[:4] if not thorough else cids:
    n = int(ec_util.CURVE_FACTORY[cid].n)
    for issuer in range(2):
      d = rng.randrange(2**(n.bit_length() - 2), n)
      for i in range(6 if not thorough else 30):
        sigs.append(ecdsa_sig(pb, ec_util, util, rng, cid, d, b'msg %d %d %d' % (cid, issuer, i),
                              rng.choice(['sha1', 'sha256', 'sha384', 'sha512'])))
  checks = [sc.CheckNonceMSB(), sc.CheckNonceCommonPrefix(), sc.CheckNonceCommonPostfix(),
            sc.CheckNonceGeneralized(), sc.CheckCr50U2f(), sc.CheckLCGNonceJavaUtilRandom()]
  if thorough:
    ret = paranoid.CheckAllECDSASigs(sigs)
    names = 'CheckAllECDSASigs'
  else:
    ret = False
    for chk in checks:
      ret |= chk.Check(sigs)
    names = '+'.join(c.check_name for c in checks)
  stats['ecdsa'] = len(sigs)
  for i, s in enumerate(sigs):
    acc = accused(s.test_info)
    if s.test_info.weak or acc:
      rep.violations.append(dict(op=names, line='ecdsa sig #%d r=%s s=%s' % (i, s.ecdsa_sig_info.r.hex(), s.ecdsa_sig_info.s.hex()),
                                 what='healthy ECDSA signature accused by %s' % acc, impl='weak', model='not weak', info=None))
  if ret:
    rep.violations.append(dict(op=names, line='healthy ECDSA batch', what='%s returned True' % names,
                               impl='True', model='False', info=None))
  rep.extra['healthy_artifacts_pushed'] = stats
  rep.extra['entry_points'] = 'real CheckAll* in thorough tier; quick tier runs the listed single checks'
