"""C08 — biased / predictable nonces reveal the signing key.
Lattice half: harness/corr/c08_lattice.py (GetLattice, post-processing with recorded and adversarial
LLL answers, subsets logic, Cr50; LLL hit/miss statistics are evidence, never violations).
Check layer: harness/corr/c02s.py (windows, arguments handed to the solvers, every signature of
the issuer flagged, other issuers untouched).
Chain (F8): harness/corr/c08_chain.py (real checks on planted bias with lll.reduce recorded inside the
solver calls: default-w lattice = model, solver answer = solver model on the recorded LLL answer,
"planted row in the LLL answer => all signatures of the issuer flagged with the key" as a property,
planted-row statistics).
Margin: harness/corr/c08_margin.py (the premise "signatures x bits >= 2 x curve size" on the real checks: known finding D23
replayed, a gated region where a miss is a violation)."""
import corr.c08_lattice as lat
import corr.c02s as c02s
import corr.c08_chain as chain
import corr.c08_margin as margin

META = dict(
    trusted_base=(lat.META.get('trusted_base', []) + c02s.META.get('trusted_base', []) +
                  chain.META.get('trusted_base', [])),
    assumptions=(lat.META.get('assumptions', []) + c02s.META.get('assumptions', []) +
                 chain.META.get('assumptions', [])))


def correspondence(rep, rng, tier):
  lat.correspondence(rep, rng, tier)
  c02s.correspondence_sigs(rep, rng, tier)
  chain.correspondence(rep, rng, tier)
  chain.summarize(rep)
  margin.gated(rep, rng, tier)


def known_findings(rep):
  margin.known_findings(rep)


def search(rep, rng, tier):
  for m in (lat, c02s):
    if hasattr(m, 'search'):
      m.search(rep, rng, tier)


def replay(doc):
  rp = (doc.get('info') or {}).get('replay')
  if isinstance(rp, list) and len(rp) == 5:
    import shims
    shims.install()
    ok = margin.found(*rp)
    print('c08_margin.found%r -> %s' % (tuple(rp), ok))
    if not ok:
      print('VIOLATION property=C08 issuer not flagged although signatures x bits >= 2 x curve size')
    return 0 if ok else 1
  if hasattr(lat, 'replay'):
    return lat.replay(doc)
  return 2
