"""C08 chain (review finding F8) — the composition "biased nonces => planted row in the lattice =>
(ORACLE: LLL returns it) => key among the solver's guesses => every signature of the issuer flagged
with the key", exercised END TO END on the real code: the real nonce CHECKS (CheckNonceMSB,
CheckNonceCommonPrefix, CheckNonceCommonPostfix, CheckNonceGeneralized, CheckCr50U2f) are run on real
signatures with planted bias of every kind, with `lll.reduce` recorded INSIDE every solver call.

For every solver call the check makes (always `w = None`):
 * `hnp.lattice a b - n bias fb`  — the lattice the real GetLattice built for the DEFAULT w equals
                                    the model's (Props/C08Chain.lean `getLattice_none`);
 * `hnp.solve a b - n bias fb B`  — the list the real solver returned equals the solver MODEL on the
                                    recorded LLL answer B: the check layer's solver oracle
                                    (`GroupOracle.answer`) IS `solveCall` (hypothesis `SolvedGroup`);
 * `cr50.guesses … B`             — the same for Cr50U2fGuesses.
Property evaluated on the implementation (pred, always): the statement of `chain_*` itself — if the
recorded LLL answer of a window of an issuer whose nonces carry the bias contains ± the planted row
(the row of Props/C08Chain.lean: `plantedRow`, `plantedRowGen`, `plantedRowCr50`, built from the
private key and the nonces), then EVERY signature of that issuer in the batch is marked weak with
DISCRETE_LOG = format(d, "x").  What remains oracle — "LLL returns a basis containing ± the planted
row" — is only counted: rep.extra['chain_statistics'].

Second review (M1): the row is compared as a LITERAL integer row — first entry n*w+1 (or the
multiplier), tail entries the small parts times w — and the key position is classified: `d` itself
(the hypothesis of Props/C08Chain.lean chain_*), `d - n` (the other member of `keyReps d n`,
Props/C08ChainAny.lean chain_bias_family), or another representative of d mod n (covered by chain_*_any
only).  fpylll leaves the centred representative, so `d - n` occurs for every key above n/2.
(M2) per planted row the hypotheses that make it SHORT are evaluated with the actual bias of the row:
the margin r*bl + 2M <= M*bits, ScaleShort (2*2^(bl-bits))^M < n^(M-r), WeightOK n^r*2^M <= w^M.
"""
import math

import gmpy2
import framework as fw
from framework import H, L, M, O, Batch
import corr.c02s as c02s
import corr.c09 as c09
from corr.c08_lattice import MM, G, fbits

META = dict(
    trusted_base=[
        'chain runs: lll.reduce recorded inside the solver calls of the real nonce checks; the recorded '
        'answers are handed to the solver model (hnp.solve / cr50.guesses)',
    ],
    assumptions=[
        '"lll.reduce returns a basis containing +- the planted row" is NOT proved (Lovasz / short-vector '
        'argument not formalised); per run it is counted on planted-bias batches (extra.chain_statistics)',
    ])

BIAS_OF = {'CheckNonceMSB': 1, 'CheckNonceCommonPrefix': 2, 'CheckNonceCommonPostfix': 3,
           'CheckNonceGeneralized': 4}
BITS = 64


def default_w(bias, m, n):
  if bias in (1, 2):
    return 2**128 if m < 4 else 2**64 if m < 9 else 2**48 if m < 14 else 2**32
  if bias == 3:
    return 2 ** max(3, fbits(n, m))
  return 2**64 if m < 20 else 2**48 if m < 32 else 2**64


def nonces(rng, n, style, count):
  """nonces with BITS biased bits of the given kind; returns (ks, meta)."""
  q = n.bit_length()
  if style == 'msb':
    return [rng.getrandbits(q - BITS) + 1 for _ in range(count)], {}
  if style == 'prefix':
    top = rng.getrandbits(BITS - 1) << (q - BITS)
    return [top + rng.getrandbits(q - BITS) + 1 for _ in range(count)], {}
  if style == 'postfix':
    low = rng.getrandbits(BITS)
    return [((rng.getrandbits(q - BITS - 1) << BITS) + low) or 1 for _ in range(count)], {}
  if style == 'generalized':
    while True:
      mult = rng.randrange(2, n)
      if math.gcd(mult, n) == 1:
        break
    mi = int(gmpy2.invert(mult, n))
    top = rng.getrandbits(BITS - 1) << (q - BITS)
    return [((top + rng.getrandbits(q - BITS)) * mi % n) or 1 for _ in range(count)], {'mult': mult}
  if style == 'cr50':
    out = []
    while len(out) < count:
      k = sum(rng.randrange(0, 256) * (0x01010101 << (32 * j)) for j in range(q // 32))
      if 0 < k < n:
        out.append(k)
    return out, {}
  return [rng.randrange(1, n) for _ in range(count)], {}


GMP_MULT = {32: 0x29CF535, 64: 0xBAECD515DAF0B49D, 128: 0x48A74F367FA7B5C8ACBB36901308FA85}


def gmp_nonces(size, n, seed, count):
  """mpz_urandomm over gmp_randinit_lc_2exp_size(size) (as corr/c08_lattice.py): chunks of size/2 upper state
  bits, least significant chunk first, rejection of values >= n."""
  mul, mod, half, nb = GMP_MULT[size], 1 << size, size // 2, n.bit_length()
  st, out = seed % mod, []
  while len(out) < count:
    k, got = 0, 0
    while got < nb:
      st = (mul * st + 1) % mod
      k |= (st >> (size - half)) << got
      got += half
    k &= (1 << nb) - 1
    if 0 < k < n:
      out.append(k)
  return out


def factory_line(fac):
  ents = []
  for e in fac:
    flat = []
    for c_, d_ in e['constants']:
      flat += [int(c_), int(d_)]
    ents.append(L([int(e['curve']), e['lcg'].value, e['sample_size'], e['min_signatures'],
                   e['sliding_window_size'], e['w']] + flat))
  return ';'.join(ents) if ents else '[]'


def sign_with(w, iss, ks, style, extra):
  """real ECDSA signatures of `iss` with the given nonces (as c02s.World.sign_many)."""
  c = w.curves[iss['cid']]
  n = int(c.n)
  out = []
  for k, R in zip(ks, c.BatchMultiplyG(ks)):
    mh = w.rng.randbytes(w.rng.choice([20, 28, 32, 48, 64]))
    z = c09.ref_bits2int(mh, n.bit_length()) % n
    r = int(R[0]) % n
    s = pow(k, -1, n) * (z + r * iss['d']) % n
    if r == 0 or s == 0:
      continue
    out.append(w.spec(iss, r, s, mh, k=k, style=style, z=z, rr=r, ss=s, **extra))
  return out


def key_rep(x, d, n):
  """which representative of d mod n the key position holds (None: not congruent to d)."""
  if (x - d) % n:
    return None
  return 'd' if x == d else 'd-n' if x == d - n else 'other'


def short_stats(n, w_, M, r, e):
  """the shortness hypotheses of Props/C08ChainAny.lean for a row with small parts e (already divided by w):
  bits := bl - max|e|.bit_length() (so |e_i| < 2^(bl-bits) holds), margin, ScaleShort, WeightOK."""
  L_ = n.bit_length()
  bits = L_ - max(abs(v) for v in e).bit_length()
  return dict(bits=bits, M=M, r=r, bl=L_, w_bits=abs(w_).bit_length() - 1,
              margin=(M >= r and r * L_ + 2 * M <= M * bits),
              scale_short=(M >= r and (2 * 2 ** (L_ - bits)) ** M < n ** (M - r)),
              weight_ok=(n ** r * 2 ** M <= w_ ** M))


def planted_in(bias, n, w_, d, ks, mult, basis, bits=BITS):
  """is +- the planted row of Props/C08ChainAny.lean among the rows of `basis`, as a LITERAL integer row
  (key position: any representative of d mod n, classified in desc['rep'])?
  returns (found, description of the row found / None)."""
  L_ = n.bit_length()
  m = len(ks)
  for row in basis:
    if len(row) != m + 2:
      continue
    for t in (1, -1):
      r = [t * v for v in row]
      if any(v % w_ for v in r[2:]):
        continue
      e = [v // w_ for v in r[2:]]
      if bias in (1, 2, 3):
        rep = key_rep(r[1], d, n)
        if r[0] != n * w_ + 1 or rep is None:
          continue
        desc = dict(rep=rep, y_is_d=(r[1] == d), centred=(2 * abs(r[1]) <= n), negated=(t == -1),
                    bits=max(abs(v) for v in e).bit_length())
        if bias == 1:
          if e == list(ks):
            desc.update(short_stats(n, w_, m, 1, e))
            return True, desc
        elif bias == 2:
          # k_i = top + e_i for ONE integer top
          if len({k - ei for k, ei in zip(ks, e)}) == 1 and all(abs(v) < 2**max(0, L_ - bits) for v in e):
            desc.update(short_stats(n, w_, m - 1, 1, e))
            return True, desc
        else:
          # k_i = low + w*h_i for ONE integer low
          beta = w_.bit_length() - 1
          if len({k - w_ * hi for k, hi in zip(ks, e)}) == 1 and all(abs(v) < 2**max(0, L_ - beta) for v in e):
            desc.update(short_stats(n, w_, m - 1, 1, e))
            # the theorem's bias parameter is beta (what the default weight exploits), not the common bits
            desc['beta'] = beta
            desc['margin_beta'] = (L_ + 2 * (m - 1) <= (m - 1) * beta)
            return True, desc
      else:
        # GENERALIZED: LLL returns the planted row of a SMALL MULTIPLE c*mult of the secret multiplier
        # (c*(top + e_i) has a common prefix too); chain_generalized(_any) applies with mult := r[0], y := r[1].
        if math.gcd(r[0], n) != 1 or (r[1] - r[0] * d) % n:
          continue
        c = r[0] * int(gmpy2.invert(mult, n)) % n
        c = c if c <= n // 2 else c - n
        if abs(c) >= 2**20:
          continue
        if len({(r[0] * k - ei) % n for k, ei in zip(ks, e)}) == 1 and \
            all(abs(v) < 2**max(0, L_ - bits + 20) for v in e):
          desc = dict(exact=abs(c) == 1, c_bits=abs(c).bit_length(), rep='any', centred=(2 * abs(r[1]) <= n),
                      negated=(t == -1), bits=max(abs(v) for v in e).bit_length())
          desc.update(short_stats(n, w_, m - 1, 2, e))
          return True, desc
  return False, None


ROW_KEYS = ('row_key_is_d', 'row_key_is_d_minus_n', 'row_key_other_representative', 'row_key_centred', 'row_negated',
            'row_margin_hypothesis', 'row_scale_short', 'row_weight_ok')


def row_stats(s, desc):
  """adds the classification of one planted row found to the statistics dict s."""
  for k in ROW_KEYS:
    s.setdefault(k, 0)
  if desc is None:
    return
  rep = desc.get('rep')
  s['row_key_is_d'] += int(rep == 'd')
  s['row_key_is_d_minus_n'] += int(rep == 'd-n')
  s['row_key_other_representative'] += int(rep == 'other')
  s['row_key_centred'] += int(bool(desc.get('centred')))
  s['row_negated'] += int(bool(desc.get('negated')))
  s['row_margin_hypothesis'] += int(bool(desc.get('margin_beta', desc.get('margin'))))
  s['row_scale_short'] += int(bool(desc.get('scale_short')))
  s['row_weight_ok'] += int(bool(desc.get('weight_ok')))
  if 'scale_short' in desc and not (desc.get('scale_short') and desc.get('weight_ok')
                                    and desc.get('margin_beta', desc.get('margin'))):
    # key found although the (sufficient, not necessary) shortness hypotheses fail: recorded with its parameters
    ex = s.setdefault('rows_found_outside_the_shortness_hypotheses', [])
    if len(ex) < 8:
      ex.append({k: desc.get(k) for k in ('bl', 'M', 'r', 'bits', 'beta', 'w_bits', 'margin', 'margin_beta',
                                            'scale_short', 'weight_ok') if desc.get(k) is not None})


def digits(k, words):
  return [(k >> (32 * j)) & 0xff for j in range(words)]


def correspondence(rep, rng, tier):
  thorough = tier == 'thorough'
  w = c02s.World(rng, tier)
  from paranoid_crypto.lib import lll
  hnp, cr50, esc = w.hnp, w.cr50, w.esc
  real_reduce = lll.reduce
  stats = rep.extra.setdefault('chain_statistics', {})

  def st(fam, key, inc=1):
    s = stats.setdefault(fam, {'solver_calls_biased_issuer': 0, 'key_found': 0, 'planted_row_in_lll_output': 0,
                               'key_found_other_row': 0, 'planted_row_but_key_missing': 0,
                               'issuer_fully_flagged': 0, 'issuers': 0})
    s[key] += inc

  bl = Batch('hnp.lattice')
  bs = Batch('hnp.solve')
  bc = Batch('cr50.guesses')

  def run(name, cids, count, reps_tag):
    """one real Check call on: one biased issuer per curve id (count signatures) + one healthy
    issuer per curve id (3 signatures), interleaved."""
    bias = BIAS_OF.get(name)
    style = {1: 'msb', 2: 'prefix', 3: 'postfix', 4: 'generalized', None: 'cr50'}[bias]
    specs, issuers = [], []
    for cid in cids:
      n = int(w.curves[cid].n)
      iss = w.issuer(cid)
      ks, meta = nonces(rng, n, style, count)
      sp = sign_with(w, iss, ks, style, meta)
      iss2 = w.issuer(cid)
      ks2, _ = nonces(rng, n, 'healthy', 3)
      sp2 = sign_with(w, iss2, ks2, 'healthy', {})
      # interleave the healthy issuer's signatures (dict order / grouping must not matter)
      mixed = list(sp)
      for i, s2 in enumerate(sp2):
        mixed.insert(min(len(mixed), 1 + 2 * i), s2)
      specs += mixed
      issuers.append((iss, meta, n))
    pbs = [w.to_pb(sp) for sp in specs]
    events = []
    cur = {}

    def rec_reduce(lat):
      out = real_reduce(lat)
      cur.setdefault('lll', []).append(([[int(x) for x in r] for r in lat], [[int(x) for x in r] for r in out]))
      return out
    real_h, real_c = hnp.HiddenNumberProblem, cr50.Cr50U2fGuesses

    def h(a, b, w_, n, bias_):
      cur.clear()
      res = real_h(a, b, w_, n, bias_)
      events.append(('H', ([int(x) for x in a], [int(x) for x in b], w_, int(n), bias_.value),
                     list(cur.get('lll', [])), sorted(int(x) for x in res)))
      return res

    def c(r1, s1, z1, r2, s2, z2, n):
      cur.clear()
      res = real_c(r1, s1, z1, r2, s2, z2, n)
      events.append(('C', tuple(int(x) for x in (r1, s1, z1, r2, s2, z2, n)), list(cur.get('lll', [])),
                     sorted(int(x) for x in res)))
      return res
    lll.reduce = rec_reduce
    hnp.HiddenNumberProblem, cr50.Cr50U2fGuesses = h, c
    err = None
    try:
      w.reg[name].Check(pbs)
    except Exception as e:  # noqa
      err = e
    finally:
      lll.reduce = real_reduce
      hnp.HiddenNumberProblem, cr50.Cr50U2fGuesses = real_h, real_c
    if err is not None:
      # review-2 M3: an exception of the real check (its own layer or a solver inside it) on a chain batch
      # — real signatures, every r, s in [1, n-1]: inside C18's domain, and the biased issuer is NOT
      # flagged — is a VIOLATION with the batch as replay; it used to be a note.  Outside the domain
      # (never built here; kept for safety) it stays a note.
      if c02s.well_formed(w, specs):
        origin = c02s.raise_origin(err)
        rep.violations.append(dict(
            op='c08.chain', line='%s on %d signatures, curves %r, %s' % (name, len(specs), cids, reps_tag),
            impl='err ' + type(err).__name__, model='bool; every signature of the biased issuer flagged',
            what=('%s raised %r (innermost frame %s) on a WELL-FORMED planted-bias batch (%d signatures, every '
                  'r, s in [1, n-1]); the biased issuer is not flagged' % (name, err, origin, len(specs))),
            info=dict(kind='solver-raise', entry=name, origin=origin, tag=reps_tag,
                      batch=[pb_.SerializeToString().hex() for pb_ in pbs])))
      else:
        rep.notes.append('chain run %s raised %r on a batch outside the C18 domain (skipped)' % (name, err))
      return
    verdicts = [c02s.read_verdict(pb, name) for pb in pbs]
    # nonce of every (a_i, b_i) pair / every (r, s, z)
    by_ab, by_rsz = {}, {}
    for sp in specs:
      n = int(w.curves[sp['cid']].n)
      si = pow(sp['ss'], -1, n)
      by_ab[(sp['cid'], sp['z'] * si % n, sp['rr'] * si % n)] = sp
      by_rsz[(sp['rr'], sp['ss'], sp['z'])] = sp
    fam = '%s/%s' % (name, reps_tag)
    planted_issuers = set()
    found_issuers = set()
    for ev in events:
      kind, args, llls, res = ev
      if kind == 'H':
        a, b, w_arg, n, bias_v = args
        if w_arg is not None:
          rep.notes.append('chain: a check passed w=%r (expected None)' % (w_arg,))
        cid = next(cid_ for cid_ in cids if int(w.curves[cid_].n) == n)
        fb = fbits(n, len(a))
        if len(llls) != 1:
          rep.notes.append('chain: %d lll.reduce calls in one HiddenNumberProblem call' % len(llls))
          continue
        lat, basis = llls[0]
        sps = [by_ab.get((cid, ai, bi)) for ai, bi in zip(a, b)]
        biased = all(sp is not None and sp['style'] == style for sp in sps)
        pl, desc = False, None
        if biased:
          d = sps[0]['d']
          ks = [sp['k'] for sp in sps]
          pl, desc = planted_in(bias_v, n, default_w(bias_v, len(a), n), d, ks, sps[0].get('mult', 1), basis)
          st(fam, 'solver_calls_biased_issuer')
          hit = d in res
          st(fam, 'key_found', int(hit))
          st(fam, 'planted_row_in_lll_output', int(pl))
          row_stats(stats[fam], desc if pl else None)
          if pl and bias_v == 4:
            s_ = stats[fam]
            s_['generalized_row_is_exact_multiplier'] = s_.get('generalized_row_is_exact_multiplier', 0) + int(desc['exact'])
            s_['generalized_multiple_c_max_bits'] = max(s_.get('generalized_multiple_c_max_bits', 0), desc['c_bits'])
          st(fam, 'key_found_other_row', int(hit and not pl))
          st(fam, 'planted_row_but_key_missing', int(pl and not hit))
          if pl:
            planted_issuers.add((cid, d))
          if hit:
            found_issuers.add((cid, d))

        def pred(pl=pl, biased=biased, sps=sps, res=res):
          # the statement of chain_msb / chain_prefix / chain_postfix / chain_generalized on the real code
          if not (biased and pl):
            return None
          d = sps[0]['d']
          if d not in res:
            return 'LLL output contains +- the planted row but the solver did not return the key'
          want = '1^%s^%s' % (c02s.S(c02s.DLOG), c02s.S(format(d, 'x')))
          bad = [i for i, sp in enumerate(specs) if sp['d'] == d and sp['cid'] == sps[0]['cid'] and verdicts[i] != want]
          if bad:
            return ('LLL output contains +- the planted row but signatures %s of the issuer are not flagged with '
                    'the key (verdicts %s)' % (bad[:5], [verdicts[i] for i in bad[:3]]))
          return None
        head = '%s %s - %s %s %s' % (L(a), L(b), H(n), H(bias_v), H(fb))
        bl.add('hnp.lattice ' + head, 'ok ' + M(lat), tag='chain:w=None:%s' % c02s_bias_name(bias_v), always=False)
        bs.add('hnp.solve ' + head + ' ' + MM(basis), 'ok ' + G(res),
               tag='chain:%s:%s' % (c02s_bias_name(bias_v),
                                    'planted-row' if pl else ('biased-no-row' if biased else 'other-issuer')),
               pred=pred, always=True)
      else:
        r1, s1, z1, r2, s2, z2, n = args
        if not llls:
          continue
        lat, basis = llls[0]
        sp1, sp2 = by_rsz.get((r1, s1, z1)), by_rsz.get((r2, s2, z2))
        biased = sp1 is not None and sp2 is not None and sp1['style'] == 'cr50' and sp2['style'] == 'cr50' \
            and sp1['d'] == sp2['d']
        pl = False
        if biased:
          words = n.bit_length() // 32
          tgt = digits(sp1['k'], words) + digits(sp2['k'], words) + [-256, 0]
          pl = tgt in basis or [-v for v in tgt] in basis
          d = sp1['d']
          st(fam, 'solver_calls_biased_issuer')
          hit = d in res
          st(fam, 'key_found', int(hit))
          st(fam, 'planted_row_in_lll_output', int(pl))
          st(fam, 'key_found_other_row', int(hit and not pl))
          st(fam, 'planted_row_but_key_missing', int(pl and not hit))
          if pl:
            planted_issuers.add((sp1['cid'], d))

        def predc(pl=pl, biased=biased, sp1=sp1, res=res):
          if not (biased and pl):
            return None
          d = sp1['d']
          if d not in res:
            return 'LLL output contains +- the planted digit row but Cr50U2fGuesses did not return the key'
          want = '1^%s^%s' % (c02s.S(c02s.DLOG), c02s.S(format(d, 'x')))
          bad = [i for i, sp in enumerate(specs) if sp['d'] == d and sp['cid'] == sp1['cid'] and verdicts[i] != want]
          if bad:
            return 'planted digit row in the LLL output but signatures %s are not flagged with the key' % bad[:5]
          return None
        bc.add('cr50.guesses %s %s %s %s %s %s %s %s' % (H(r1), H(s1), H(z1), H(r2), H(s2), H(z2), H(n), MM(basis)),
               'ok ' + G(res), tag='chain:cr50:%s' % ('planted-row' if pl else ('biased-no-row' if biased else 'other')),
               pred=predc, always=True)
    for iss, _, _ in issuers:
      st(fam, 'issuers')
      want = '1^%s^%s' % (c02s.S(c02s.DLOG), c02s.S(format(iss['d'], 'x')))
      mine = [verdicts[i] for i, sp in enumerate(specs) if sp['d'] == iss['d'] and sp['cid'] == iss['cid']]
      st(fam, 'issuer_fully_flagged', int(bool(mine) and all(v == want for v in mine)))

  main = [2, 6, 4]      # secp256r1, secp256k1, secp384r1
  reps = 3 if not thorough else 12
  for name in ('CheckNonceMSB', 'CheckNonceCommonPrefix', 'CheckNonceCommonPostfix'):
    for i in range(reps):
      cid = main[i % 3]
      q = int(w.curves[cid].n).bit_length()
      run(name, [cid], -(-2 * q // BITS) + 2, '%dbit' % q)
    run(name, [2, 6], 10, 'two-curves')
    # more than 24 unique values: windows of 24, the rest, and (len > 24) one window of 48 with everything
    run(name, [2], 30, 'windows-24+6+30')
    if thorough:
      run(name, [5], 20, '521bit')
  for i in range(2 if not thorough else 8):
    cid = main[i % 2]
    run('CheckNonceGeneralized', [cid], 26, '%dbit' % int(w.curves[cid].n).bit_length())
  for i in range(reps):
    cid = main[i % 3]
    run('CheckCr50U2f', [cid], 2 + i % 2, '%dbit' % int(w.curves[cid].n).bit_length())
  run('CheckCr50U2f', [2, 6], 3, 'two-curves')
  # ---- second review L11: the real CheckLCGNonceGMP (never run here before), HiddenNumberProblemForCurve recorded
  from paranoid_crypto.lib import lcg_constants
  real_factory = lcg_constants.CONSTANT_FACTORY
  bf = Batch('hnp.forcurve')
  bf.let('real', factory_line(real_factory))
  bsh = Batch('hnp.shipped')
  bsh.add('hnp.shipped 0', factory_line(real_factory[:1]), tag='shipped-entry-0=Model/LcgShipped.lean')

  def run_lcg(cid, size, count, reps_tag):
    name = 'CheckLCGNonceGMP'
    n = int(w.curves[cid].n)
    iss = w.issuer(cid)
    ks = gmp_nonces(size, n, rng.getrandbits(300), count)
    sp = sign_with(w, iss, ks, 'gmp', {})
    iss2 = w.issuer(cid)
    sp2 = sign_with(w, iss2, [rng.randrange(1, n) for _ in range(2)], 'healthy', {})
    specs = [sp[0]] + sp2[:1] + sp[1:] + sp2[1:]
    pbs = [w.to_pb(x) for x in specs]
    events, cur = [], {}

    def rec_reduce(lat):
      out = real_reduce(lat)
      cur.setdefault('lll', []).append([[int(x) for x in r] for r in out])
      return out
    real_f = hnp.HiddenNumberProblemForCurve

    def f(a, b, curve, lcg, flags):
      cur.clear()
      res = real_f(a, b, curve, lcg, flags)
      events.append(([int(x) for x in a], [int(x) for x in b], int(curve), lcg, flags.value,
                     list(cur.get('lll', [])), [int(x) for x in res]))
      return res
    lll.reduce = rec_reduce
    hnp.HiddenNumberProblemForCurve = f
    err = None
    try:
      w.reg[name].Check(pbs)
    except Exception as e:  # noqa
      err = e
    finally:
      lll.reduce = real_reduce
      hnp.HiddenNumberProblemForCurve = real_f
    fam = '%s/%s' % (name, reps_tag)
    if err is not None:
      # an exception of the real check on well-formed signatures is a divergence from the (total) model
      bf.add('hnp.forcurve [] [] %s %s %s 7 $real []' % (H(cid), H(n), O(lcg_constants.LcgName.GMP.value)),
             'err ' + type(err).__name__, tag='chain:lcg:raised')
      rep.notes.append('chain run %s raised %r' % (name, err))
      return
    verdicts = [c02s.read_verdict(pb, name) for pb in pbs]
    by_ab = {}
    for x in specs:
      si = pow(x['ss'], -1, n)
      by_ab[(x['z'] * si % n, x['rr'] * si % n)] = x
    for a, b, curve, lcg, flags, bases, res in events:
      sps = [by_ab.get((ai, bi)) for ai, bi in zip(a, b)]
      biased = all(x is not None and x['style'] == 'gmp' for x in sps)
      pl, desc = False, None
      if biased:
        d = sps[0]['d']
        subs = list(hnp._HiddenNumberProblemSubsets(list(a), list(b), curve, lcg, hnp.SearchStrategy(flags)))
        for (a0, b0, cs_, w_), basis_ in zip(subs, bases):
          et = []
          for ai, bi in zip(a0, b0):
            for c_, d_ in cs_:
              v = (((ai * c_ - d_) % n) + ((bi * c_) % n) * d) % n
              et.append(v if v <= n // 2 else v - n)
          tail = [e * w_ for e in et]
          for row in basis_:
            for t in (1, -1):
              rr = [t * v for v in row]
              rep_ = key_rep(rr[1], d, n) if len(rr) == len(tail) + 2 else None
              if rep_ is not None and rr[0] == n * w_ + 1 and rr[2:] == tail and not pl:
                pl = True
                desc = dict(rep=rep_, centred=(2 * abs(rr[1]) <= n), negated=(t == -1))
                if any(et):
                  desc.update(short_stats(n, w_, len(et), 1, et))
        st(fam, 'solver_calls_biased_issuer')
        hit = d in res
        st(fam, 'key_found', int(hit))
        st(fam, 'planted_row_in_lll_output', int(pl))
        row_stats(stats[fam], desc if pl else None)
        st(fam, 'key_found_other_row', int(hit and not pl))
        st(fam, 'planted_row_but_key_missing', int(pl and not hit))

      def predf(pl=pl, biased=biased, sps=sps, res=res):
        # the statement of chain_lcg_any on the real code
        if not (biased and pl):
          return None
        d = sps[0]['d']
        if d not in res:
          return 'an LLL answer contains +- the planted row but HiddenNumberProblemForCurve did not return the key'
        want = '1^%s^%s' % (c02s.S(c02s.DLOG), c02s.S(format(d, 'x')))
        bad = [i for i, x in enumerate(specs) if x['d'] == d and x['cid'] == sps[0]['cid'] and verdicts[i] != want]
        if bad:
          return 'planted row in an LLL answer but signatures %s of the issuer are not flagged with the key' % bad[:5]
        return None
      bases_s = '|'.join(MM(m_) for m_ in bases) if bases else '[]'
      bf.add('hnp.forcurve %s %s %s %s %s %s $real %s' % (L(a), L(b), H(curve), H(n), O(lcg.value), H(flags), bases_s),
             'ok ' + G(res), tag='chain:lcg:%s' % ('planted-row' if pl else ('biased-no-row' if biased else 'other-issuer')),
             pred=predf, always=True)
    for iss_ in (iss,):
      st(fam, 'issuers')
      want = '1^%s^%s' % (c02s.S(c02s.DLOG), c02s.S(format(iss_['d'], 'x')))
      mine = [verdicts[i] for i, x in enumerate(specs) if x['d'] == iss_['d'] and x['cid'] == iss_['cid']]
      st(fam, 'issuer_fully_flagged', int(bool(mine) and all(v == want for v in mine)))

  for i in range(2 if not thorough else 6):
    run_lcg(2, (32, 64)[i % 2], 2 + i % 2, 'secp256r1-gmp%d' % (32, 64)[i % 2])
  if thorough:
    run_lcg(4, 128, 3, 'secp384r1-gmp128')
  rep.absorb(bl, bl.run())
  rep.absorb(bs, bs.run())
  rep.absorb(bc, bc.run())
  rep.absorb(bf, bf.run())
  rep.absorb(bsh, bsh.run())


def summarize(rep):
  """totals over all families of extra.chain_statistics (second review M1/M2): of the runs in which the key was
  found, how many satisfy the LITERAL oracle hypothesis of which theorem."""
  stats = rep.extra.get('chain_statistics', {})
  tot = {}
  for level, pick in (('solver_level', lambda f: f.startswith('solver/')),
                      ('check_level', lambda f: not f.startswith('solver/'))):
    t = dict(key_found=0, planted_row_in_lll_output=0, key_found_other_row=0, planted_row_but_key_missing=0)
    for k in ROW_KEYS:
      t[k] = 0
    for fam, s_ in stats.items():
      if pick(fam):
        for k in t:
          t[k] += s_.get(k, 0)
    t['hypothesis_of_chain_any (literal row, key position = any representative of d)'] = t['planted_row_in_lll_output']
    t['hypothesis_of_chain_bias_family (key position d or d-n)'] = t['row_key_is_d'] + t['row_key_is_d_minus_n']
    t['hypothesis_of_C08Chain.chain_* (key position = d)'] = t['row_key_is_d']
    tot[level] = t
  rep.extra['chain_summary'] = tot
  for level, t in tot.items():
    # generalized / cr50 rows have no key-position classification (rep 'any' / digit row): counted in planted only
    rep.notes.append('chain %s: key found %d, literal planted row (any representative) %d, key position d %d, d-n %d, '
                     'other representative %d, key found through another row %d; margin hypothesis %d, ScaleShort %d, '
                     'WeightOK %d of the rows classified'
                     % (level, t['key_found'], t['planted_row_in_lll_output'], t['row_key_is_d'],
                        t['row_key_is_d_minus_n'], t['row_key_other_representative'], t['key_found_other_row'],
                        t['row_margin_hypothesis'], t['row_scale_short'], t['row_weight_ok']))


def c02s_bias_name(v):
  return {1: 'msb', 2: 'prefix', 3: 'postfix', 4: 'generalized'}.get(v, str(v))
