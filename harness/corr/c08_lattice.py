"""C08 (integer-lattice half) — biased / predictable ECDSA nonces reveal the key.

Correspondence of Model/Hnp.lean and Model/Cr50.lean with hidden_number_problem.py and
cr50_u2f_weakness.py.  LLL (fpylll through lll.reduce) is an ORACLE: its answers are recorded at
the call site and passed to the model, and adversarial answers are substituted into the real
code.  That LLL *finds* the planted vector is not claimed: hits and misses per family are only
counted (rep.extra['lll_statistics']).  What is checked as a property on the implementation:
 * pre : the planted vector is in the row lattice of the matrix the code builds (exact solve);
 * post: whenever the basis handed to the post-processing contains a row (u, u*x, …) with
         gcd(u, n) = 1, the real function reports x.
"""
import math
import os
import sys
import time
from fractions import Fraction

import gmpy2
import framework as fw
from framework import H, L, M, O, B, Batch, call

META = dict(
    trusted_base=[
        'LLL (fpylll via lll.reduce) is an oracle: answers recorded at hidden_number_problem.lll.reduce / '
        'cr50_u2f_weakness.lll.reduce and passed to the model; adversarial answers substituted into the real code',
        'float expression int(n.bit_length()/len(a)*1.25) of GetLattice is an oracle value recomputed by the '
        'harness with the same expression and compared with the exact floor on the whole reachable range',
    ],
    assumptions=[
        'integer-lattice half only: inputs are lists a, b with k_i = a_i + b_i*x (mod n); the ECDSA check layer '
        '(grouping by issuer, verification of guesses against the public key) is modelled elsewhere',
        'LLL success on planted instances is NOT claimed (hits/misses are statistics)',
    ])

BIAS_NAMES = {1: 'msb', 2: 'prefix', 3: 'postfix', 4: 'generalized'}


def fbits(n, m):
  """the float expression of GetLattice (oracle value handed to the model)."""
  n = int(n)
  return int(n.bit_length() / m * 1.25) if m else 0


def MM(rows):
  """oracle matrices: `E` = no rows; a row without entries is `[]` (framework.M cannot tell the
  empty matrix from a matrix with one empty row)."""
  rows = list(rows)
  return ';'.join(L(r) for r in rows) if rows else 'E'


def G(gs):
  return L(sorted(int(g) for g in gs))


def solve_row_combination(mat, target):
  """Exact solve of c * mat = target over Q (rows of mat as generators). Returns the list of
  Fractions c or None if there is no solution. Least-index free variables are set to 0."""
  rows = len(mat)
  cols = len(target)
  # system A y = t with A = mat^T (cols x rows)
  A = [[Fraction(int(mat[i][j])) for i in range(rows)] + [Fraction(int(target[j]))]
       for j in range(cols)]
  piv = []
  r = 0
  for c in range(rows):
    p = None
    for i in range(r, cols):
      if A[i][c] != 0:
        p = i
        break
    if p is None:
      continue
    A[r], A[p] = A[p], A[r]
    inv = 1 / A[r][c]
    A[r] = [v * inv for v in A[r]]
    for i in range(cols):
      if i != r and A[i][c] != 0:
        f = A[i][c]
        A[i] = [vi - f * vr for vi, vr in zip(A[i], A[r])]
    piv.append(c)
    r += 1
    if r == cols:
      break
  for i in range(r, cols):
    if A[i][rows] != 0:
      return None
  sol = [Fraction(0)] * rows
  for i, c in enumerate(piv):
    sol[c] = A[i][rows]
  return sol


def in_row_lattice(mat, target):
  if any(len(r) != len(target) for r in mat):
    return 'matrix rows do not have the length of the target'
  sol = solve_row_combination(mat, target)
  if sol is None:
    return 'planted vector is not in the rational span of the rows'
  if any(s.denominator != 1 for s in sol):
    return 'planted vector needs non-integer coefficients %s' % ([str(s) for s in sol if s.denominator != 1][:3],)
  return None


# ----------------------------------------------------------------------------
# instance generation (integers modulo n only)

def curve_orders():
  from paranoid_crypto.lib import ec_util
  out = []
  for cid, c in ec_util.CURVE_FACTORY.items():
    if c is not None:
      out.append((int(cid), int(c.n)))
  return out


TOY_PRIMES = [97, 65537, 2**32 - 5, 2**61 - 1, 2**64 - 59, 2**96 - 17, 2**127 - 1]
TOY_COMPOSITE = [15, 2**32, 3 * 2**30 + 3, (2**31 - 1) * (2**17 - 1), 255 * 2**56]


def planted(rng, n, bias, bits, count):
  """returns (a, b, x, target_fn) with k_i = a_i + b_i x mod n biased by `bits` bits.
  target_fn(w, a_used, b_used) gives the planted lattice vector."""
  Lb = n.bit_length()
  x = rng.randrange(1, n) if n > 1 else 0
  free = max(Lb - bits, 0)
  ks = []
  mult = 1
  if bias == 1:
    ks = [rng.getrandbits(free) % n for _ in range(count)]
  elif bias == 2 or bias == 4:
    top = rng.randrange(0, max(1, n >> free))
    ks = [((top << free) | rng.getrandbits(free)) % n for _ in range(count)]
    if bias == 4:
      while True:
        mult = rng.randrange(1, n) if n > 1 else 0
        if math.gcd(mult, n) == 1:
          break
      mi = int(gmpy2.invert(mult, n)) if n > 1 else 0
      ks = [k * mi % n for k in ks]
  elif bias == 3:
    low = rng.getrandbits(bits)
    ks = []
    tries = 0
    while len(ks) < count:
      k = (rng.getrandbits(free) << bits) | low
      tries += 1
      if k < n or tries > 50 * (count + 1):
        ks.append(k % n)
  a, b = [], []
  for k in ks:
    bi = rng.randrange(1, n) if n > 1 else 0
    a.append((k - bi * x) % n)
    b.append(bi)
  return a, b, x, mult, ks


def planted_target(n, bias, w, a, b, x, mult):
  """the planted lattice vector for the matrix GetLattice(a, b, w, n, bias) builds
  (derived from the code; see Props/C08.lean hnp_pre_*)."""
  n = int(n)
  if bias == 3:
    wi = int(gmpy2.invert(w, n))
    a = [v * wi % n for v in a]
    b = [v * wi % n for v in b]
  if bias == 1:
    return [n * w + 1, x] + [((ai + bi * x) % n) * w for ai, bi in zip(a, b)]
  if bias in (2, 3):
    vals = [(ai + bi * x) % n for ai, bi in zip(a, b)]
    s = vals[0] if vals else 0
    # centre on the first value: differences are small when the values share a prefix
    return [n * w + 1, x] + [(v - s) * w for v in vals]
  vals = [mult * (ai + bi * x) % n for ai, bi in zip(a, b)]
  s = vals[0] if vals else 0
  return [mult, mult * x] + [(v - s) * w for v in vals]


def default_w(bias, m, n):
  if bias in (1, 2):
    return 2**128 if m < 4 else 2**64 if m < 9 else 2**48 if m < 14 else 2**32
  if bias == 3:
    return 2 ** max(3, fbits(n, m))
  return 2**64 if m < 20 else 2**48 if m < 32 else 2**64


def post_pred(fn, n, x, basis_rows):
  """hnp_post on the implementation: a row (u, u*x mod n, …) with gcd(u, n) = 1 in the basis
  handed to the post-processing forces x among the guesses (if no exception is raised)."""
  n = int(n)

  def pred():
    good = False
    for v in basis_rows:
      if len(v) >= 2 and n > 1 and v[0] % n != 0 and math.gcd(v[0], n) == 1 and (v[1] - v[0] * x) % n == 0:
        good = True
    if not good:
      return None
    try:
      gs = fn()
    except Exception:  # noqa
      return None
    if x % n not in [int(g) for g in gs]:
      return 'basis contains a row (u, u*x, ...) with gcd(u,n)=1 but x=%x is not among the guesses' % x
    return None
  return pred


def adversarial_rows(rng, n, target, dim, allow_short=True):
  n = int(n)
  rows = []
  t = list(target)
  pool = [
      [0] * dim,
      [n] + [rng.getrandbits(20) for _ in range(dim - 1)],
      [-2 * n, 7] + [0] * max(0, dim - 2),
      t, [-v for v in t], [2 * v for v in t], [-3 * v for v in t],
      [(n + 1) * v for v in t], [n * v for v in t],
      [t[0], -t[1]] + t[2:] if len(t) >= 2 else [1, 1],
      [-t[0]] + t[1:],
      [rng.getrandbits(2000) - 2**1999 for _ in range(dim)],
      [1, rng.getrandbits(64)] + [0] * max(0, dim - 2),
      [1, -5], [-1, 5], [3, 3],
      [], [5], [n], [t[0]] if t else [1], [0],
      [rng.randrange(1, max(2, n)), rng.randrange(0, max(1, n))],
      [2, 1], [6, 1], [255, 1],
  ]
  for p in (2, 3, 5, 7, 17):
    if n > p and n % p == 0:
      pool.append([p, 1, 0])
      pool.append([p * v for v in t])
  if not allow_short:
    pool = [r for r in pool if len(r) >= 2]
  k = rng.randrange(1, 6)
  picks = [rng.choice(pool) for _ in range(k)]
  if rng.random() < 0.3:
    picks.append(picks[0])   # duplicate guess -> set semantics
  return picks


# ----------------------------------------------------------------------------

def correspondence(rep, rng, tier):
  from paranoid_crypto.lib import hidden_number_problem as hnp
  from paranoid_crypto.lib import cr50_u2f_weakness as cr50
  from paranoid_crypto.lib import lcg_constants, ec_util, lll
  thorough = tier == 'thorough'
  t_start = time.time()
  real_reduce = lll.reduce
  curves = curve_orders()
  rep.extra['lll_statistics'] = {}
  stats = rep.extra['lll_statistics']

  rep.extra['section_s'] = {}
  last = [time.time()]

  def mark(name):
    now = time.time()
    rep.extra['section_s'][name] = round(now - last[0], 1)
    if os.environ.get('C08_TRACE'):
      print('[c08] %-28s %.1fs' % (name, now - last[0]), file=sys.stderr, flush=True)
    last[0] = now

  def stat(fam, hit):
    s = stats.setdefault(fam, {'hit': 0, 'miss': 0})
    s['hit' if hit else 'miss'] += 1

  # ------------------------------------------------------------------ defaults / float oracle
  b = Batch('hnp.postfixbits')
  for bl in list(range(1, 600)) + ([600 + 7 * i for i in range(100)] if thorough else []):
    for m in range(1, 131):
      b.add('hnp.postfixbits %s %s' % (H(bl), H(m)), H(int(bl / m * 1.25)), tag='float=exact',
            nontrivial=False)
  rep.absorb(b, b.run())
  mark('postfixbits')

  # ------------------------------------------------------------------ (a) GetLattice
  bl_ = Batch('hnp.lattice')
  ns = [n for _, n in curves] + TOY_PRIMES + TOY_COMPOSITE + [1, 2, 0]
  sizes_full = list(range(0, 41))
  boundary = [0, 1, 2, 3, 4, 5, 8, 9, 13, 14, 19, 20, 31, 32, 40]

  def lattice_case(m, n, w, bias, tag, mb=None, wrap=int):
    n_ = int(n)
    a = [rng.randrange(0, max(1, n_)) for _ in range(m)]
    bb = [rng.randrange(0, max(1, n_)) for _ in range(m if mb is None else mb)]
    if rng.random() < 0.1:
      a = [v - rng.randrange(0, 2 * max(1, n_)) for v in a]      # negative / unreduced entries
    fbv = fbits(n_, len(a))
    aa, bbb, nn = [wrap(v) for v in a], [wrap(v) for v in bb], wrap(n_)
    r = call(M, hnp.GetLattice, aa, bbb, w, nn, hnp.Bias(bias))

    def pred(a=a, bb=bb, w=w, n_=n_, bias=bias):
      # pre-condition on the implementation: planted vector in the row lattice it builds
      if n_ < 2 or len(a) != len(bb):
        return None
      try:
        mat = hnp.GetLattice(list(a), list(bb), w, n_, hnp.Bias(bias))
      except Exception:  # noqa
        return None
      weff = w if w is not None else default_w(bias, len(a), n_)
      x = (n_ * 2 // 3) + 1
      mult = 1
      if bias == 4:
        mult = next(c for c in range(n_ // 2 + 1, n_ // 2 + 200) if math.gcd(c, n_) == 1)
      try:
        tgt = planted_target(n_, bias, weff, a, bb, x, mult)
      except ZeroDivisionError:
        return None
      return in_row_lattice(mat, tgt)
    bl_.add('hnp.lattice %s %s %s %s %s %s' % (L(a), L(bb), O(w), H(n_), H(bias), H(fbv)), r,
            tag='%s:%s' % (BIAS_NAMES[bias], tag), pred=pred)

  for bias in (1, 2, 3, 4):
    for m in sizes_full:
      for _ in range(3 if thorough else 1):
        lattice_case(m, rng.choice(ns[:9]), rng.choice([None, 2**16, 2**32, 2**64]), bias, 'curve')
        lattice_case(m, rng.choice(ns[9:]), rng.choice([None, 1, 3, 2**20 + 1, 2**8]), bias, 'toy')
    for m in boundary:
      for n in (ns if thorough else [ns[0], ns[4], ns[8], 97, 2**32, 15, 1, 0]):
        for w in (None, 2**32) + ((2**16, 1, 5) if thorough else ()):
          lattice_case(m, n, w, bias, 'boundary' if w is None else 'w-given')
    # degenerate / malformed
    lattice_case(3, ns[0], 0, bias, 'w=0')
    lattice_case(3, ns[0], -4, bias, 'w<0')
    lattice_case(3, 2**32, 2**16, bias, 'w|n')
    lattice_case(4, ns[0], None, bias, 'len-mismatch', mb=3)
    lattice_case(0, ns[0], None, bias, 'len-mismatch', mb=1)
    lattice_case(5, ns[0], None, bias, 'mpz', wrap=gmpy2.mpz)
    lattice_case(24, ns[1], 2**32, bias, 'mpz', wrap=gmpy2.mpz)
  mark('lattice-gen')
  rep.absorb(bl_, bl_.run())
  mark('lattice-model')

  # default w table
  b = Batch('hnp.defaultw')
  for bias in (1, 2, 3, 4):
    for m in range(1, 45):
      for n in (ns[0], ns[4], 97):
        # the implementation's default w is read off the lattice of a real call
        try:
          lat = hnp.GetLattice([0] * m, [1] * m, None, n, hnp.Bias(bias))
          r = 'ok ' + H(lat[2][2] // n if bias == 1 else lat[2][2])
        except Exception as e:  # noqa
          r = 'err ' + fw.exc_name(e)
        b.add('hnp.defaultw %s %s %s' % (H(bias), H(m), H(fbits(n, m))), r, tag=BIAS_NAMES[bias])
  rep.absorb(b, b.run())

  # ------------------------------------------------------------------ (b)+(c) HiddenNumberProblem
  bs = Batch('hnp.solve')
  bl2 = Batch('hnp.lattice')
  rec = {}

  def recording(lat):
    rec['lat'] = [list(map(int, row)) for row in lat]
    out = real_reduce(lat)
    rec['basis'] = [list(map(int, row)) for row in out]
    return out

  def run_instance(n, bias, bits, count, w, fam, adversarial=True):
    a, bb, x, mult, ks = planted(rng, n, bias, bits, count)
    fbv = fbits(n, len(a))
    weff = w if w is not None else default_w(bias, len(a), n)
    try:
      tgt = planted_target(n, bias, weff, a, bb, x, mult)
    except ZeroDivisionError:
      tgt = [1, x] + [0] * len(a)
    head = 'hnp.solve %s %s %s %s %s %s ' % (L(a), L(bb), O(w), H(n), H(bias), H(fbv))
    # pass 1: real LLL, recorded
    rec.clear()
    lll.reduce = recording
    try:
      r = call(G, hnp.HiddenNumberProblem, list(a), list(bb), w, n, hnp.Bias(bias))
    finally:
      lll.reduce = real_reduce
    if 'basis' in rec:
      basis = rec['basis']
      lat = rec['lat']
      hit = r.startswith('ok') and H(x) in r[3:].split(',')
      stat(fam, hit)
      # F8: does the recorded LLL answer contain +- the planted row of Props/C08Chain.lean?
      # (statistics only: "LLL returns the planted row" is the one oracle step of the chain)
      if n > 2 and len(a) > 0 and gmpy2.is_prime(n):
        from corr.c08_chain import planted_in, row_stats
        try:
          pl, pdesc = planted_in(bias, n, weff, x, ks, mult, basis, bits)
        except Exception:  # noqa
          pl, pdesc = False, None
        cs = rep.extra.setdefault('chain_statistics', {}).setdefault(
            'solver/%s/%s' % (BIAS_NAMES[bias], 'w=None' if w is None else 'w-given'),
            {'instances': 0, 'key_found': 0, 'planted_row_in_lll_output': 0, 'key_found_other_row': 0,
             'planted_row_but_key_missing': 0})
        cs['instances'] += 1
        cs['key_found'] += int(hit)
        cs['planted_row_in_lll_output'] += int(pl)
        cs['key_found_other_row'] += int(hit and not pl)
        cs['planted_row_but_key_missing'] += int(pl and not hit)
        row_stats(cs, pdesc if pl else None)

      def fn(a=a, bb=bb, w=w, n=n, bias=bias, basis=basis):
        lll.reduce = lambda lat_: basis
        try:
          return hnp.HiddenNumberProblem(list(a), list(bb), w, n, hnp.Bias(bias))
        finally:
          lll.reduce = real_reduce
      bs.add(head + MM(basis), r, tag='recorded:%s:%s' % (BIAS_NAMES[bias], 'hit' if hit else 'miss'),
             pred=post_pred(fn, n, x, basis), always=True)
      bl2.add('hnp.lattice %s %s %s %s %s %s' % (L(a), L(bb), O(w), H(n), H(bias), H(fbv)), 'ok ' + M(lat),
              tag='%s:planted' % BIAS_NAMES[bias],
              pred=lambda lat=lat, tgt=tgt: in_row_lattice(lat, tgt), always=True)
    # pass 2: adversarial oracle answers substituted into the real code
    if adversarial:
      for _ in range(3):
        rows = adversarial_rows(rng, n, tgt, len(a) + 2)

        def fn2(a=a, bb=bb, w=w, n=n, bias=bias, rows=rows):
          lll.reduce = lambda lat_: rows
          try:
            return hnp.HiddenNumberProblem(list(a), list(bb), w, n, hnp.Bias(bias))
          finally:
            lll.reduce = real_reduce
        r2 = call(G, fn2)
        bs.add(head + MM(rows), r2, tag='adversarial:' + (r2[:3] if r2.startswith('ok') else r2[4:]),
               pred=post_pred(fn2, n, x, rows), always=True)

  n256 = ns[0]
  quick_curves = [n for _, n in curves]
  plan = []
  for n in (quick_curves if not thorough else [n for _, n in curves]):
    Lb = n.bit_length()
    for bits in (16, 32, 64):
      n0 = -(-2 * Lb // bits)
      for bias in (1, 2, 3, 4):
        counts = [n0, n0 + 2] + ([n0 - 2, n0 + 6] if thorough else [])
        if bias == 4:
          counts = [max(24, c) for c in counts]
        if not thorough and Lb > 256 and bits == 16:
          continue
        if not thorough and Lb > 384 and bits == 32 and bias == 4:
          continue
        for c in sorted(set(counts)):
          if c > 70 and not thorough:
            continue
          # the checks always pass w=None: the first count of every (curve, bias, bits) uses the default w
          plan.append((n, bias, bits, c,
                       None if (c == sorted(set(counts))[0] or rng.random() < 0.7) else 2**bits))
  for (n, bias, bits, c, w) in plan:
    t0 = time.time()
    run_instance(n, bias, bits, c, w, '%s/%dbit/%dbits' % (BIAS_NAMES[bias], n.bit_length(), bits))
    if os.environ.get('C08_TRACE') and time.time() - t0 > 3:
      print('[c08] slow instance %s %dbit bits=%d count=%d w=%s: %.1fs' %
            (BIAS_NAMES[bias], n.bit_length(), bits, c, w, time.time() - t0), file=sys.stderr, flush=True)
  mark('solve-planted')
  # toy moduli (prime and composite), tiny sizes, degenerate n
  for n in TOY_PRIMES + TOY_COMPOSITE + [1, 2]:
    for bias in (1, 2, 3, 4):
      for c in (0, 1, 2, 5):
        try:
          run_instance(n, bias, max(1, n.bit_length() // 3), c, rng.choice([None, 2**8, 3]),
                       'toy/%s' % BIAS_NAMES[bias])
        except Exception as e:  # noqa
          rep.notes.append('toy instance n=%d bias=%d skipped: %r' % (n, bias, e))
  # n = 0: ZeroDivisionError paths (real LLL not reached for postfix)
  for bias in (1, 2, 3, 4):
    for rows in ([], [[1, 2, 3]], [[]]):
      def fn0(bias=bias, rows=rows):
        lll.reduce = lambda lat_: rows
        try:
          return hnp.HiddenNumberProblem([1], [2], 4, 0, hnp.Bias(bias))
        finally:
          lll.reduce = real_reduce
      bs.add('hnp.solve 1 2 4 0 %s 0 %s' % (H(bias), MM(rows)), call(G, fn0), tag='n=0')
  mark('solve-gen')
  rep.absorb(bl2, bl2.run())
  rep.absorb(bs, bs.run())
  mark('solve-model')

  # ------------------------------------------------------------------ precomputation variant
  bp = Batch('hnp.precomp')
  bpl = Batch('hnp.precomp_lat')

  def consts_flat(cs):
    out = []
    for c, d in cs:
      out += [int(c), int(d)]
    return out

  def precomp_case(a, bb, n, cs, w, x, tag):
    head = 'hnp.precomp %s %s %s %s %s ' % (L(a), L(bb), H(n), L(consts_flat(cs)), H(w))
    rec.clear()
    lll.reduce = recording
    try:
      r = call(G, hnp.HiddenNumberProblemWithPrecomputation, list(a), list(bb), n, list(cs), w)
    finally:
      lll.reduce = real_reduce
    tgt = None
    if 'basis' in rec:
      basis, lat = rec['basis'], rec['lat']

      def fn(basis=basis):
        lll.reduce = lambda lat_: basis
        try:
          return hnp.HiddenNumberProblemWithPrecomputation(list(a), list(bb), n, list(cs), w)
        finally:
          lll.reduce = real_reduce
      bp.add(head + MM(basis), r, tag='recorded:' + tag, pred=post_pred(fn, n, x, basis), always=True)
      if n > 0 and len(bb) >= len(a):
        tgt = [n * w + 1, x]
        for ai, bi in zip(a, bb):
          for c, d in cs:
            v = ((ai * c - d) % n + x * (bi * c % n)) % n
            tgt.append((v if v < n - v else v - n) * w)
      bpl.add('hnp.precomp_lat %s %s %s %s %s' % (L(a), L(bb), H(n), L(consts_flat(cs)), H(w)),
              'ok ' + M(lat), tag=tag,
              pred=(lambda lat=lat, tgt=tgt: in_row_lattice(lat, tgt)) if tgt else None, always=True)
    else:
      bpl.add('hnp.precomp_lat %s %s %s %s %s' % (L(a), L(bb), H(n), L(consts_flat(cs)), H(w)),
              r, tag=tag + ':raises')
    dim = len(a) * len(cs) + 2
    for _ in range(2):
      rows = adversarial_rows(rng, n, tgt or [1, x] + [0] * (dim - 2), dim)

      def fn2(rows=rows):
        lll.reduce = lambda lat_: rows
        try:
          return hnp.HiddenNumberProblemWithPrecomputation(list(a), list(bb), n, list(cs), w)
        finally:
          lll.reduce = real_reduce
      r2 = call(G, fn2)
      bp.add(head + MM(rows), r2, tag='adversarial:' + (r2[:3] if r2.startswith('ok') else r2[4:]),
             pred=post_pred(fn2, n, x, rows), always=True)

  for n in [ns[0], ns[1], 97, 2**61 - 1, 15, 2**32, 1, 0]:
    for m in (0, 1, 2, 3):
      for nc in (0, 1, 2, 4):
        x = rng.randrange(0, max(1, n))
        a = [rng.randrange(0, max(1, n)) for _ in range(m)]
        bb = [rng.randrange(0, max(1, n)) for _ in range(m)]
        cs = [(rng.randrange(0, max(2, n)), rng.randrange(0, max(2, n))) for _ in range(nc)]
        precomp_case(a, bb, n, cs, rng.choice([2**32, 2**8, 1]), x, 'random')
  precomp_case([5, 6, 7], [1, 2], 97, [(3, 4)], 2**8, 11, 'b-short')
  precomp_case([5, 6], [1, 2, 3], 97, [(3, 4), (9, 1)], 2**8, 11, 'b-long')
  precomp_case([5, 6, 7], [], 0, [(3, 4)], 2**8, 11, 'b-short,n=0')
  precomp_case([-5, 600], [-1, 2000], 97, [(-3, 4), (9, -1)], 2**8, 11, 'negative')
  rep.absorb(bpl, bpl.run())
  rep.absorb(bp, bp.run())
  mark('precomp')

  # ------------------------------------------------------------------ (e) _HiddenNumberProblemSubsets
  real_factory = lcg_constants.CONSTANT_FACTORY
  lcg_ids = {None: None}
  for e in real_factory:
    lcg_ids[e['lcg']] = e['lcg'].value

  def factory_line(fac):
    ents = []
    for e in fac:
      ents.append(L([int(e['curve']), e['lcg'].value, e['sample_size'], e['min_signatures'],
                     e['sliding_window_size'], e['w']] + consts_flat(e['constants'])))
    return ';'.join(ents) if ents else '[]'

  def fmt_subsets(a, bb, curve, lcg, flags):
    out = []
    end = 'end'
    try:
      for a0, b0, cs, w in hnp._HiddenNumberProblemSubsets(a, bb, curve, lcg, hnp.SearchStrategy(flags)):
        out.append('%s/%s/%s/%s/%s' % (L(a0), L(b0), H(len(cs)), L([cs[0][0]] if cs else []), H(w)))
    except Exception as e:  # noqa
      end = 'raise ' + fw.exc_name(e)
    return (';'.join(out) if out else '[]') + ' ' + end

  def fmt_shapes(m, flags, sw):
    """shapes (start:size:withKey:numConstants) read off the yielded slices of a = [0,1,2,…]."""
    a = list(range(100, 100 + m))
    out = []
    end = 'end'
    try:
      for a0, b0, cs, w in hnp._HiddenNumberProblemSubsets(a, a, 2, None, hnp.SearchStrategy(flags)):
        key = len(a0) > 0 and a0[-1] == 0 and b0[-1] == 1
        body = a0[:-1] if key else a0
        start = (body[0] - 100) if body else 0
        out.append('%s:%s:%s:%s' % (H(start), H(len(body)), B(key), H(len(cs))))
    except Exception as e:  # noqa
      end = 'raise ' + fw.exc_name(e)
    return (','.join(out) if out else '[]') + ' ' + end

  bsh = Batch('hnp.shapes')
  bsu = Batch('hnp.subsets')
  try:
    # every shipped (sample_size, min_signatures, sliding_window_size), every len 0..130, every flag set
    triples = sorted({(e['sample_size'], e['min_signatures'], e['sliding_window_size']) for e in real_factory})
    small = [(ss, ms, sw) for ss in range(0, 5) for ms in range(0, 5) for sw in range(0, 5)]
    for (ss, ms, sw) in triples + small:
      ent = dict(real_factory[0])
      ent.update(curve=2, sample_size=ss, min_signatures=ms, sliding_window_size=sw,
                 constants=[(i, i) for i in range(200)])
      lcg_constants.CONSTANT_FACTORY = [ent]
      lens = range(0, 131) if (ss, ms, sw) in triples else range(0, 9)
      for m in lens:
        for flags in range(0, 8):
          if flags == 0:
            continue     # `not flags` is checked by the generator itself: covered by hnp.subsets
          def cover_pred(ent=ent, m=m, flags=flags, sw=sw):
            # windows_cover on the implementation: with SLIDING and len > window every signature
            # lies in a yielded window of `window` consecutive signatures
            if not (flags & 2) or m <= sw or sw == 0 or ent['sample_size'] == 0:
              return None
            lcg_constants.CONSTANT_FACTORY = [ent]
            try:
              a_ = list(range(100, 100 + m))
              seen = set()
              for a0, b0, cs, w in hnp._HiddenNumberProblemSubsets(a_, a_, 2, None, hnp.SearchStrategy(flags)):
                if len(a0) == sw and all(v + 1 == v2 for v, v2 in zip(a0, a0[1:])):
                  seen.update(a0)
              missing = [v - 100 for v in a_ if v not in seen]
              return ('signatures %s lie in no sliding window (len=%d window=%d)' % (missing[:5], m, sw)
                      if missing else None)
            except Exception as e:  # noqa
              return 'generator raised %r' % (e,)
            finally:
              lcg_constants.CONSTANT_FACTORY = real_factory
          bsh.add('hnp.shapes %s %s %s %s %s' % (H(ss), H(ms), H(sw), H(m), H(flags)),
                  fmt_shapes(m, flags, sw), pred=cover_pred,
                  tag='shipped' if (ss, ms, sw) in triples else 'synthetic')
    # the real factory (metadata real; constants replaced by small markers to keep lines short)
    slim = []
    for i, e in enumerate(real_factory):
      e2 = dict(e)
      e2['constants'] = [(1000 * i + j, j) for j in range(len(e['constants']))]
      slim.append(e2)
    lcg_constants.CONSTANT_FACTORY = slim
    bsu.let('slim', factory_line(slim))
    curve_ids = sorted({int(e['curve']) for e in real_factory}) + [1, 99]
    for m in range(0, 131):
      a = [rng.randrange(0, 2**32) for _ in range(m)]
      bb = [rng.randrange(0, 2**32) for _ in range(m)]
      for flags in range(0, 8):
        for lcg in lcg_ids:
          for curve in curve_ids:
            if m > 12 and not thorough and (flags + m + curve) % 5 != 0:
              continue
            bsu.add('hnp.subsets %s %s %s %s %s $slim' % (L(a), L(bb), H(curve), O(lcg_ids[lcg]), H(flags)),
                    fmt_subsets(a, bb, curve, lcg, flags), tag='slim-factory:flags=%d' % flags)
    # the real constants on a few lengths
    lcg_constants.CONSTANT_FACTORY = real_factory
    bsu.let('real', factory_line(real_factory))
    for m in (0, 1, 2, 3, 5, 6, 24, 49):
      a = [rng.randrange(0, 2**32) for _ in range(m)]
      for flags in (7, 1, 2, 4):
        for curve in (2, 4, 6):
          bsu.add('hnp.subsets %s %s %s - %s $real' % (L(a), L(a), H(curve), H(flags)),
                  fmt_subsets(a, a, curve, None, flags), tag='real-factory')
  finally:
    lcg_constants.CONSTANT_FACTORY = real_factory
  mark('subsets-gen')
  rep.absorb(bsh, bsh.run())
  rep.absorb(bsu, bsu.run())
  mark('subsets-model')

  # ------------------------------------------------------------------ (f) HiddenNumberProblemForCurve
  bf = Batch('hnp.forcurve')
  bf.let('real', factory_line(real_factory))
  calls = []

  def recording_seq(lat):
    out = real_reduce(lat)
    calls.append([list(map(int, row)) for row in out])
    return out

  def bases_str(bases):
    return '|'.join(MM(m_) for m_ in bases) if bases else '[]'

  def forcurve_case(a, bb, curve, lcg, flags, x, fam, factory_reg='real'):
    del calls[:]
    lll.reduce = recording_seq
    try:
      r = call(G, hnp.HiddenNumberProblemForCurve, list(a), list(bb), curve, lcg, hnp.SearchStrategy(flags))
    finally:
      lll.reduce = real_reduce
    bases = [c for c in calls]
    cn = ec_util.CURVE_FACTORY.get(curve, 'K')
    cn_s = 'K' if cn == 'K' else '-' if cn is None else H(int(cn.n))
    if x is not None:
      stat(fam, r.startswith('ok') and H(x) in r[3:].split(','))
      # F8: is +- the planted row of Props/C08Chain.lean `sandwich_lcg` -- (n*w+1, x, e_t*w) with
      # e_t = (A_t + B_t*x) mod+- n over the flattened lists of the subset -- in some recorded LLL answer?
      if cn not in ('K', None) and bases and r.startswith('ok'):
        n_ = int(cn.n)
        try:
          subs = list(hnp._HiddenNumberProblemSubsets(list(a), list(bb), curve, lcg, hnp.SearchStrategy(flags)))
        except Exception:  # noqa
          subs = []
        from corr.c08_chain import key_rep, row_stats, short_stats
        pl, pdesc = False, None
        for (a0, b0, cs_, w_), basis_ in zip(subs, bases):
          et = []
          for ai, bi in zip(a0, b0):
            for c_, d_ in cs_:
              v = (((ai * c_ - d_) % n_) + ((bi * c_) % n_) * x) % n_
              et.append(v if v <= n_ // 2 else v - n_)
          tail = [e * w_ for e in et]
          for row in basis_:
            for t in (1, -1):
              rr = [t * v for v in row]
              # LITERAL row of sandwich_lcg_any / chain_lcg_any: (n*w+1, x', e_t*w), x' a representative of x mod n
              rep_ = key_rep(rr[1], x % n_, n_) if len(rr) == len(tail) + 2 else None
              if rep_ is not None and rr[0] == n_ * w_ + 1 and rr[2:] == tail and not pl:
                pl = True
                pdesc = dict(rep=rep_, centred=(2 * abs(rr[1]) <= n_), negated=(t == -1))
                if et and any(et):
                  pdesc.update(short_stats(n_, w_, len(et), 1, et))
        hit_ = H(x % n_) in r[3:].split(',')
        cs2 = rep.extra.setdefault('chain_statistics', {}).setdefault(
            'solver/lcg/' + fam.split('/')[0],
            {'instances': 0, 'key_found': 0, 'planted_row_in_lll_output': 0, 'key_found_other_row': 0,
             'planted_row_but_key_missing': 0})
        cs2['instances'] += 1
        cs2['key_found'] += int(hit_)
        cs2['planted_row_in_lll_output'] += int(pl)
        cs2['key_found_other_row'] += int(hit_ and not pl)
        cs2['planted_row_but_key_missing'] += int(pl and not hit_)
        row_stats(cs2, pdesc if pl else None)
    bf.add('hnp.forcurve %s %s %s %s %s %s $%s %s' % (L(a), L(bb), H(int(curve)), cn_s, O(lcg_ids[lcg]),
                                                    H(flags), factory_reg, bases_str(bases)),
           r, tag=fam + ':' + (r[:2] if r.startswith('ok') else r[4:]))
    return bases

  GMP_MULT = {32: '29CF535', 40: '28F5DA175', 56: 'AA7D735234C0DD', 64: 'BAECD515DAF0B49D',
              100: '292787EBD3329AD7E7575E2FD', 128: '48A74F367FA7B5C8ACBB36901308FA85',
              156: '78A7FDDDC43611B527C3F1D760F36E5D7FC7C45',
              196: '41BA2E104EE34C66B3520CE706A56498DE6D44721E5E24F5',
              256: 'AF66BA932AAF58A071FD8F0742A99A0C76982D648509973DB802303128A14CB5'}

  def gmp_nonces(size, n, seed, count):
    """mpz_urandomm over gmp_randinit_lc_2exp_size(size): chunks of size/2 upper state bits,
    least significant chunk first, rejection of values >= n."""
    mul = int(GMP_MULT[size], 16)
    mod = 1 << size
    half = size // 2
    nb = n.bit_length()
    s = seed % mod
    out = []
    while len(out) < count:
      k, got = 0, 0
      while got < nb:
        s = (mul * s + 1) % mod
        k |= (s >> (size - half)) << got
        got += half
      k &= (1 << nb) - 1
      if k < n:
        out.append(k)
    return out

  def trunc_lcg_nonces(out_size, n, seed, count):
    from paranoid_crypto.lib.randomness_tests import rng as rngmod
    g = rngmod.TruncLcgRand(out_size)
    nb = n.bit_length()
    nb8 = (nb + 7) // 8 * 8           # multiples of 8 only (D5: RandomBits is off otherwise)
    out = []
    s = seed
    while len(out) < count:
      v = g.RandomBits(nb8, seed=s) >> (nb8 - nb)
      s += 1
      if v < n:
        out.append(int(v))
    return out

  def ab_from_nonces(n, ks, x):
    a, bb = [], []
    for k in ks:
      bi = rng.randrange(1, n)
      a.append((k - bi * x) % n)
      bb.append(bi)
    return a, bb

  gmp_entries = [e for e in real_factory if e['lcg'] == lcg_constants.LcgName.GMP and e['lcg_size'] in GMP_MULT]
  if not thorough:
    gmp_entries = [e for e in gmp_entries if e['lcg_size'] in (32, 64) and int(e['curve']) == 2] + \
                  [e for e in gmp_entries if e['lcg_size'] == 128 and int(e['curve']) == 4]
  for e in gmp_entries:
    n = int(ec_util.CURVE_FACTORY[e['curve']].n)
    # self-check of the emulation: the shipped constants must fit the emulated generator
    ks = gmp_nonces(e['lcg_size'], n, rng.getrandbits(300), 4)
    worst = max(min((c * k - d) % n, n - (c * k - d) % n).bit_length() for k in ks for c, d in e['constants'])
    if worst > n.bit_length() - 6:
      rep.notes.append('GMP LCG emulation does not fit the shipped constants for curve %d size %d (skipped)'
                       % (int(e['curve']), e['lcg_size']))
      continue
    for cnt in sorted({e['min_signatures'] - 1, e['min_signatures'], e['sliding_window_size'] + 1}
                      | ({e['sliding_window_size'] + 3} if thorough else set())):
      if cnt < 0:
        continue
      x = rng.randrange(1, n)
      ks = gmp_nonces(e['lcg_size'], n, rng.getrandbits(300), cnt)
      incl_key = cnt == e['min_signatures'] - 1
      if incl_key:
        # INCLUDE_KEY: the private key itself comes from the same generator
        allk = gmp_nonces(e['lcg_size'], n, rng.getrandbits(300), cnt + 1)
        x, ks = allk[-1], allk[:-1]
      a, bb = ab_from_nonces(n, ks, x)
      for flags in ((7,) if not thorough else (7, 1, 2, 3)):
        forcurve_case(a, bb, e['curve'], lcg_constants.LcgName.GMP, flags, x,
                      'gmp%d/curve%d/%d sigs%s' % (e['lcg_size'], int(e['curve']), cnt, '+key' if incl_key else ''))
  # TruncLcgRand of /repo (different multipliers: the shipped constants are not made for it)
  for out_size in ((16, 32) if not thorough else (16, 20, 32, 64)):
    n = ns[0]
    x = rng.randrange(1, n)
    a, bb = ab_from_nonces(n, trunc_lcg_nonces(out_size, n, rng.getrandbits(64), 3), x)
    forcurve_case(a, bb, 2, lcg_constants.LcgName.GMP, 7, x, 'trunclcg%d/curve2' % out_size)
  # shipped test samples (real GMP / java.util.Random output)
  try:
    import importlib
    T = importlib.import_module('paranoid_crypto.lib.hidden_number_problem_test')

    def sample_ab(sample, lo, cnt):
      curve = ec_util.CURVE_FACTORY[sample['curve']]
      a, bb = [], []
      for sig in sample['signatures'][lo:lo + cnt]:
        h = int.from_bytes(bytes.fromhex(sig['digest']), 'big')
        z = curve.TransformOrderLen(h, 4 * len(sig['digest']))
        ai, bi = curve.HiddenNumberParams(sig['r'], sig['s'], z)
        a.append(int(ai))
        bb.append(int(bi))
      return a, bb
    samples = [('SAMPLE_SECP256R1_GMP64_32', lcg_constants.LcgName.GMP, 2),
               ('SAMPLE_SECP256R1_GMP128_64', lcg_constants.LcgName.GMP, 3),
               ('SAMPLE_SECP256R1_GMP200_100', lcg_constants.LcgName.GMP, 6),
               ('SAMPLE_SECP384R1_GMP64_32', lcg_constants.LcgName.GMP, 2)]
    if thorough:
      samples += [('SAMPLE_SECP384R1_GMP256_128', lcg_constants.LcgName.GMP, 4),
                  ('SAMPLE_SECP384R1_GMP200_100', lcg_constants.LcgName.GMP, 3),
                  ('SAMPLE_SECP256R1_JAVA_UTIL_RANDOM', lcg_constants.LcgName.JAVA_UTIL_RANDOM, 2),
                  ('SAMPLE_SECP256K1_JAVA_UTIL_RANDOM', lcg_constants.LcgName.JAVA_UTIL_RANDOM, 2),
                  ('SAMPLE_SECP256R1_JAVA_UTIL_RANDOM', None, 3),
                  ('SAMPLE_SECP256R1_GMP128_64_SUBSET', None, 5)]
    else:
      samples += [('SAMPLE_SECP256R1_JAVA_UTIL_RANDOM', lcg_constants.LcgName.JAVA_UTIL_RANDOM, 2)]
    for nm, lcg, cnt in samples:
      s = getattr(T, nm)
      for lo in ((0, 7) if thorough else (0,)):
        a, bb = sample_ab(s, lo, cnt)
        forcurve_case(a, bb, s['curve'], lcg, 7, s['priv'], 'sample:' + nm[7:].lower())
  except ImportError as e:
    rep.notes.append('shipped samples not importable: %r' % (e,))
  # control flow / errors
  a3 = [rng.randrange(1, ns[0]) for _ in range(3)]
  forcurve_case(a3, a3[:2], 2, None, 7, None, 'len-mismatch')
  forcurve_case(a3, a3, 7, None, 7, None, 'curve-none')
  forcurve_case(a3, a3, 99, None, 7, None, 'curve-unknown')
  forcurve_case(a3, a3, 2, None, 0, None, 'no-flags')
  forcurve_case(a3, a3, 1, None, 7, None, 'curve-without-constants')
  forcurve_case([], [], 2, lcg_constants.LcgName.GMP, 7, None, 'empty')
  forcurve_case(a3[:1], a3[:1], 2, lcg_constants.LcgName.GMP, 4, None, 'include-key')
  forcurve_case(a3[:1], a3[:1], 2, lcg_constants.LcgName.GMP, 3, None, 'no-include-key')
  # adversarial oracle sequences substituted into the real code
  for trial in range(6 if not thorough else 30):
    n = ns[0]
    m = rng.choice([2, 3, 4])
    a = [rng.randrange(1, n) for _ in range(m)]
    bb = [rng.randrange(1, n) for _ in range(m)]
    x = rng.randrange(1, n)
    seq = [adversarial_rows(rng, n, [n * 2**32 + 1, x, 0, 0], 4, allow_short=(trial % 3 == 0))
           for _ in range(40)]
    it = {'i': 0}

    def fake(lat, seq=seq, it=it):
      r_ = seq[it['i'] % len(seq)]
      it['i'] += 1
      return r_
    for flags in (1, 3, 7):
      it['i'] = 0
      lll.reduce = fake
      try:
        r = call(G, hnp.HiddenNumberProblemForCurve, a, bb, 2, lcg_constants.LcgName.GMP,
                 hnp.SearchStrategy(flags))
      finally:
        lll.reduce = real_reduce
      used = [seq[i % len(seq)] for i in range(it['i'])]
      bf.add('hnp.forcurve %s %s 2 %s %s %s $real %s' % (L(a), L(bb), H(n), O(lcg_ids[lcg_constants.LcgName.GMP]),
                                                       H(flags), bases_str(used)),
             r, tag='adversarial:' + (r[:2] if r.startswith('ok') else r[4:]))
  mark('forcurve-gen')
  rep.absorb(bf, bf.run())
  mark('forcurve-model')

  # ------------------------------------------------------------------ (d) Cr50 U2F
  bcb = Batch('cr50.basis')
  for bl in list(range(0, 70)) + [96, 128, 160, 192, 224, 255, 256, 257, 384, 512, 521, 544]:
    bcb.add('cr50.basis %s' % H(bl), L([0x1010101 << j for j in range(0, bl, 32)]), tag='basis')
  rep.absorb(bcb, bcb.run())

  bcl = Batch('cr50.lattice')
  bcs = Batch('cr50.sub')
  bcg = Batch('cr50.guesses')
  real_sub = cr50.Cr50U2fSubProblem
  subargs = {}

  def sub_recording(a, b_, w, p, basis):
    subargs['args'] = (int(a), int(b_), int(w), int(p), [int(v) for v in basis])
    return real_sub(a, b_, w, p, basis)

  def u2f_nonce(n):
    words = n.bit_length() // 32
    while True:
      cs = [rng.randrange(0, 256) for _ in range(words)]
      k = sum(c * (0x01010101 << (32 * j)) for j, c in enumerate(cs))
      if 0 < k < n and math.gcd(k, n) == 1:
        return k, cs

  def signature(n, k, x):
    while True:
      r = rng.randrange(1, n)
      z = rng.randrange(0, n)
      if math.gcd(r, n) != 1:
        continue
      s = int(gmpy2.invert(k, n)) * (z + r * x) % n
      if s != 0:
        return r, s, z

  def cr50_rows(n, c1, c2, words):
    tgt = list(c1) + list(c2) + [-256, 0]
    dim = 2 * words + 2
    pool = [
        tgt, [-v for v in tgt], list(c1) + list(c2), list(c1), [], [1], [0] * dim,
        [2 * v for v in tgt], list(c2) + list(c1) + [-256, 0],
        [rng.randrange(-300, 300) for _ in range(dim)],
        [rng.getrandbits(600) - 2**599 for _ in range(dim)],
        [0] * (2 * words) + [256, 0], [0] * (2 * words + 1) + [n],
        list(c1) + [0] * words + [-256, 0],
        [rng.randrange(0, 256) for _ in range(2 * words)] + [-256, 0, 99, 98],   # too long
    ]
    k = rng.randrange(1, 5)
    picks = [rng.choice(pool) for _ in range(k)]
    if rng.random() < 0.4:
      picks.append(tgt)
    return picks

  def cr50_case(n, sigs, x, fam, c1=None, c2=None, adversarial=True, planted_ok=True):
    (r1, s1, z1), (r2, s2, z2) = sigs
    head = 'cr50.guesses %s %s %s %s %s %s %s ' % (H(r1), H(s1), H(z1), H(r2), H(s2), H(z2), H(n))
    rec.clear()
    subargs.clear()
    lll.reduce = recording
    cr50.Cr50U2fSubProblem = sub_recording
    try:
      r = call(G, cr50.Cr50U2fGuesses, r1, s1, z1, r2, s2, z2, n)
    finally:
      lll.reduce = real_reduce
      cr50.Cr50U2fSubProblem = real_sub
    words = n.bit_length() // 32

    def with_rows(rows):
      def fn():
        lll.reduce = lambda lat_: rows
        try:
          return cr50.Cr50U2fGuesses(r1, s1, z1, r2, s2, z2, n)
        finally:
          lll.reduce = real_reduce
      return fn

    def post(rows):
      def pred():
        if c1 is None or x is None or not planted_ok or n.bit_length() % 32 != 0:
          return None
        tgt = list(c1) + list(c2)
        if not any(list(v[:2 * words]) in (tgt, [-c for c in tgt]) and len(v) >= 2 * words for v in rows):
          return None
        try:
          gs = with_rows(rows)()
        except ArithmeticError as e:
          if not isinstance(e, ZeroDivisionError):
            return 'sanity check raised on well-formed input'
          return None
        except Exception:  # noqa
          return None
        if x % n not in [int(g) for g in gs]:
          return 'basis contains the planted (c1, c2) row but x is not among the guesses'
        return None
      return pred

    if 'basis' in rec and 'args' in subargs:
      basis, lat = rec['basis'], rec['lat']
      hit = r.startswith('ok') and x is not None and H(x % n) in r[3:].split(',')
      if x is not None:
        stat(fam, hit)
      sa = subargs['args']
      bcl.add('cr50.lattice %s %s %s %s %s' % (H(sa[0]), H(sa[1]), H(sa[2]), H(sa[3]), L(sa[4])),
              'ok ' + M(lat), tag=fam,
              pred=(lambda lat=lat: in_row_lattice(lat, list(c1) + list(c2) + [-256, 0])) if (c1 and planted_ok) else None,
              always=True)
      lll.reduce = lambda lat_: basis
      try:
        rs = call(lambda it_: ';'.join('%s,%s' % (H(k1), H(k2)) for k1, k2 in it_) or '[]',
                  lambda: list(real_sub(*sa)))
      finally:
        lll.reduce = real_reduce
      bcs.add('cr50.sub %s %s %s %s %s %s' % (H(sa[0]), H(sa[1]), H(sa[2]), H(sa[3]), L(sa[4]), MM(basis)),
              rs, tag='recorded:' + fam)
      bcg.add(head + MM(basis), r, tag='recorded:%s:%s' % (fam, 'hit' if hit else 'miss'),
              pred=post(basis), always=True)
    else:
      bcg.add(head + 'E', r, tag='no-lll:' + fam + ':' + r[:6])
    if adversarial:
      for _ in range(3):
        rows = cr50_rows(n, c1 or [1] * words, c2 or [2] * words, words)
        r2_ = call(G, with_rows(rows))
        bcg.add(head + MM(rows), r2_, tag='adversarial:' + (r2_[:2] if r2_.startswith('ok') else r2_[4:]),
                pred=post(rows), always=True)
        if 'args' in subargs:
          sa = subargs['args']
          lll.reduce = lambda lat_, rows=rows: rows
          try:
            rs = call(lambda it_: ';'.join('%s,%s' % (H(k1), H(k2)) for k1, k2 in it_) or '[]',
                      lambda: list(real_sub(*sa)))
          finally:
            lll.reduce = real_reduce
          bcs.add('cr50.sub %s %s %s %s %s %s' % (H(sa[0]), H(sa[1]), H(sa[2]), H(sa[3]), L(sa[4]), MM(rows)),
                  rs, tag='adversarial')

  toy32 = [2**32 - 5, 2**64 - 59, 2**96 - 17, (2**31 - 1) * (2**32 + 15), 2**63 + 2**10 + 3 * 2**5]
  toy_not32 = [2**61 - 1, 2**31 - 1, 97, 2**33 + 17]
  cr_ns = [n for _, n in curves] + toy32 + toy_not32
  reps = 6 if thorough else 2
  for n in cr_ns:
    for _ in range(reps):
      if n.bit_length() % 32 == 0:
        x = rng.randrange(1, n)
        k1, c1 = u2f_nonce(n)
        k2, c2 = u2f_nonce(n)
        sigs = [signature(n, k1, x), signature(n, k2, x)]
        cr50_case(n, sigs, x, 'u2f/%dbit' % n.bit_length(), c1, c2)
        # single signature with the weak private key (what the check passes): (r2, s2, z2) = (1, 1, 0)
        kx, cx = u2f_nonce(n)
        cr50_case(n, [signature(n, k1, kx), (1, 1, 0)], kx, 'u2f+key/%dbit' % n.bit_length(), c1, cx)
        # healthy nonces
        kh = [rng.randrange(1, n) for _ in range(2)]
        while math.gcd(kh[0], n) != 1 or math.gcd(kh[1], n) != 1:
          kh = [rng.randrange(1, n) for _ in range(2)]
        cr50_case(n, [signature(n, kh[0], x), signature(n, kh[1], x)], None, 'healthy/%dbit' % n.bit_length())
      else:
        x = rng.randrange(1, n)
        sigs = [(rng.randrange(1, n), rng.randrange(1, n), rng.randrange(0, n)) for _ in range(2)]
        cr50_case(n, sigs, None, 'len%%32!=0/%dbit' % n.bit_length(), adversarial=False)
  # degenerate: r = 0, r not invertible, s = 0, values >= n, negative, n = 0, n = 1
  n = ns[0]
  x = rng.randrange(1, n)
  k1, c1 = u2f_nonce(n)
  k2, c2 = u2f_nonce(n)
  g1, g2 = signature(n, k1, x), signature(n, k2, x)
  cr50_case(n, [(0, g1[1], g1[2]), g2], None, 'r1=0', c1, c2, planted_ok=False)
  cr50_case(n, [g1, (0, g2[1], g2[2])], None, 'r2=0', c1, c2, planted_ok=False)
  cr50_case(n, [(g1[0] + n, g1[1], g1[2] - n), g2], x, 'unreduced', c1, c2)
  cr50_case(n, [g1, g1], x, 'same-signature', c1, c1)
  ncomp = toy32[3]
  for _ in range(3):
    k1, c1 = u2f_nonce(ncomp)
    k2, c2 = u2f_nonce(ncomp)
    x = rng.randrange(1, ncomp)
    g1, g2 = signature(ncomp, k1, x), signature(ncomp, k2, x)
    cr50_case(ncomp, [((2**31 - 1) * 5, g1[1], g1[2]), g2], None, 'r1-not-invertible', c1, c2, planted_ok=False)
    cr50_case(ncomp, [g1, ((2**31 - 1) * 3, g2[1], g2[2])], None, 'r2-not-invertible', c1, c2, planted_ok=False)
  cr50_case(0, [(1, 2, 3), (4, 5, 6)], None, 'n=0', adversarial=False)
  cr50_case(1, [(1, 2, 3), (4, 5, 6)], None, 'n=1', adversarial=False)
  mark('cr50-gen')
  rep.absorb(bcl, bcl.run())
  rep.absorb(bcs, bcs.run())
  rep.absorb(bcg, bcg.run())
  mark('cr50-model')
  rep.extra['c08_wall_s'] = round(time.time() - t_start, 1)


def search(rep, rng, tier):
  """nothing beyond the always-evaluated pre/post predicates of the correspondence items."""
  pass
