"""C08 at the property's own margin: `signatures x biased bits >= 2 x curve size`, on the REAL checks.

The completeness clause of C08 rests on LLL (an oracle of the model), so whether the real checks
find a planted key is a question about the implementation only.  This module
  * replays the listed instances of known finding D23 (keys that satisfy the premise of C08 and are
    NOT found on the unchanged tree: few signatures with a wide bias on secp384r1 / secp521r1),
  * evaluates members of a FIXED, RECORDED corpus (>= 20 signatures in one window, product >= 2L; 2160 signature
    sets, harness/corpus/c08_margin_measurement.json) on which the unchanged tree finds every planted key: a miss
    there is a VIOLATION with the signature set as replay, and never a false alarm (deterministic checks),
  * counts hits at the margin outside the gate (statistics only).
All signature sets are functions of (curve id, #signatures, bits, kind, seed)."""
import hashlib
import os
import random

import framework as fw

KINDS = ('msb', 'prefix', 'postfix')
CHECK_OF = {'msb': 'CheckNonceMSB', 'prefix': 'CheckNonceCommonPrefix', 'postfix': 'CheckNonceCommonPostfix'}

# (curve id, #signatures, biased bits, kind, seed): premise of C08 holds, key NOT found on the unchanged tree
D23_REPLAYS = [
    (4, 4, 192, 'msb', 0),     # secp384r1: 4 x 192 = 768 = 2 x 384
    (5, 9, 116, 'msb', 0),     # secp521r1: 9 x 116 = 1044 >= 1042
    (5, 14, 75, 'prefix', 0),  # secp521r1: 14 x 75 = 1050 >= 1042
]
D23_WHAT = ('nonce checks miss a key that satisfies the premise "signatures x biased bits >= 2 x curve size" when the issuer has '
            'few signatures with a wide bias: secp384r1 4 signatures x 192 zero top bits, secp521r1 9 x 116 zero top bits and '
            '14 x 75 common-prefix bits are not flagged (the default lattice weight 2^int(1.25 * bitlen / len) is far below the bias)')


def make_sigs(cid, nsig, bits, kind, seed):
  """signatures of ONE issuer on curve `cid` whose nonces have `bits` biased bits of the given kind."""
  import gmpy2
  from paranoid_crypto.lib import paranoid  # noqa: F401  (import order of the library)
  from paranoid_crypto.lib import ec_util, util
  from paranoid_crypto import paranoid_pb2 as pb
  rng = random.Random('%d/%d/%d/%s/%d' % (cid, nsig, bits, kind, seed))
  c = ec_util.CURVE_FACTORY[cid]
  n = int(c.n)
  L = n.bit_length()
  d = rng.randrange(1, n)
  Q = c.Multiply(c.g, d)
  common = rng.getrandbits(bits)
  sigs = []
  for i in range(nsig):
    while True:
      if kind == 'msb':
        k = rng.getrandbits(L - bits)
      elif kind == 'prefix':
        k = (common << (L - bits)) | rng.getrandbits(L - bits)
      else:
        k = (rng.getrandbits(L - bits) << bits) | common
      if 0 < k < n:
        break
    R = c.Multiply(c.g, k)
    r = int(R[0]) % n
    h = hashlib.sha512(b'c08-margin %d %d' % (seed, i)).digest()
    z = int.from_bytes(h, 'big')
    if L < 512:
      z >>= 512 - L
    s = (int(gmpy2.invert(k, n)) * (z + r * d)) % n
    if r == 0 or s == 0:
      continue
    sg = pb.ECDSASignature()
    sg.issuer_key_info.curve_type = cid
    sg.issuer_key_info.x = util.Int2Bytes(int(Q[0]))
    sg.issuer_key_info.y = util.Int2Bytes(int(Q[1]))
    sg.ecdsa_sig_info.r = util.Int2Bytes(r)
    sg.ecdsa_sig_info.s = util.Int2Bytes(s)
    sg.ecdsa_sig_info.message_hash = h
    sigs.append(sg)
  return sigs, d


def found(cid, nsig, bits, kind, seed):
  """runs the real nonce check of that kind; True iff EVERY signature is weak with the right key."""
  from paranoid_crypto.lib import paranoid  # noqa: F401  (import order of the library)
  from paranoid_crypto.lib import util, ecdsa_sig_checks as sc
  sigs, d = make_sigs(cid, nsig, bits, kind, seed)
  chk = getattr(sc, CHECK_OF[kind])()
  chk.Check(sigs)
  ok = True
  for sg in sigs:
    tr = util.GetTestResult(sg.test_info, chk.check_name)
    e = util.GetAttachedInfo(sg.test_info, 'DISCRETE_LOG')
    ok = ok and tr is not None and bool(tr.result) and e is not None and e.value == format(d, 'x')
  return ok


def _found_star(t):
  return t, found(*t)


def curve_bits(cid):
  from paranoid_crypto.lib import ec_util
  return int(ec_util.CURVE_FACTORY[cid].n).bit_length()


def known_findings(rep):
  listed = any(f.get('id') == 'D23' for f in fw.load_known_findings())
  res = {t: found(*t) for t in D23_REPLAYS}
  rep.extra['d23_probe'] = {str(t): v for t, v in res.items()}
  missed = [t for t, v in res.items() if not v]
  if not missed:
    if listed:
      rep.notes.append('listed finding D23 no longer reproduces on its replay inputs')
    return
  if listed:
    rep.known.append('D23 %s; replay (curve id, signatures, bits, kind, seed) = %s' % (D23_WHAT, missed))
    return
  for t in missed:
    rep.violations.append(dict(
        op=CHECK_OF[t[3]], line='c08_margin.found%r' % (t,), info=dict(replay=list(t)), impl='not flagged', model='flagged',
        what='%s: issuer with %d signatures x %d biased bits (%s) on curve %d (%d-bit order) satisfies the premise of C08 '
             'but is not flagged with its key (D23, not listed in known_findings.json)'
             % (CHECK_OF[t[3]], t[1], t[2], t[3], t[0], curve_bits(t[0]))))


GATE_NSIG = (20, 22, 24)
GATE_CURVES = (2, 6, 4, 5)
GATE_SEEDS = 60
GATE_MEASUREMENT_FILE = os.path.join(os.path.dirname(os.path.dirname(os.path.abspath(__file__))), 'corpus',
                                     'c08_margin_measurement.json')


def gate_corpus():
  """the FIXED corpus behind the gate: every (curve id, #signatures, bits, kind, seed) with one window of 20 / 22 / 24
  signatures, bits = max(16, ceil(2L / #signatures)) (product >= 2L) and seed < GATE_SEEDS: 2160 signature sets, each a
  deterministic function of its parameters (make_sigs)."""
  import math
  out = []
  for cid in GATE_CURVES:
    L = curve_bits(cid)
    for kind in KINDS:
      for nsig in GATE_NSIG:
        for seed in range(GATE_SEEDS):
          out.append((cid, nsig, max(16, math.ceil(2 * L / nsig)), kind, seed))
  return out


def gate_members():
  """members of the corpus that the recorded measurement (harness/corpus/c08_margin_measurement.json, written by
  harness/measure_c08_margin.py) found on the unchanged tree; empty when the file is missing or describes another corpus."""
  import json
  try:
    m = json.load(open(GATE_MEASUREMENT_FILE))
  except Exception:  # noqa
    return []
  corpus = gate_corpus()
  if m.get('instances') != len(corpus) or m.get('seeds') != GATE_SEEDS:
    return []
  missed = {tuple(t) for t in m.get('missed', [])}
  return [t for t in corpus if t not in missed]


def gated(rep, rng, tier):
  """The gated region is a FIXED, RECORDED corpus (no gate may be seed-dependent on the unchanged tree): the 2160
  signature sets of `gate_corpus` - curves secp256r1, secp256k1, secp384r1, secp521r1 x three kinds x 20 / 22 / 24
  signatures in one window x 60 seeds, bits = ceil(2L / signatures), product >= 2L - were run through the real checks
  (harness/measure_c08_margin.py -> harness/corpus/c08_margin_measurement.json).  VERIF_SEED only selects WHICH members
  a run re-evaluates (one per curve and kind in the quick tier, six in the thorough tier); the checks are deterministic,
  so a miss on a member is a failing input - a regression on a recorded input - and never a false alarm."""
  members = gate_members()
  plan = []
  for cid in GATE_CURVES:
    for kind in KINDS:
      pool = [t for t in members if t[0] == cid and t[3] == kind]
      if pool:
        plan += rng.sample(pool, min(len(pool), 1 if tier == 'quick' else 6))
  if not members:
    rep.notes.append('c08_margin: no recorded measurement (harness/corpus/c08_margin_measurement.json): nothing is gated')
  hits = 0
  for t in plan:
    ok = found(*t)
    hits += ok
    rep.evaluations += 1
    tag = 'c08.margin:gated:%s' % ('found' if ok else 'MISSED')
    rep.tags[tag] = rep.tags.get(tag, 0) + 1
    if not ok:
      rep.violations.append(dict(
          op=CHECK_OF[t[3]], line='c08_margin.found%r' % (t,), info=dict(replay=list(t)), impl='not flagged', model='flagged',
          what='%s: issuer with %d signatures x %d biased bits (%s) on curve %d (%d-bit order; product >= 2 x curve size; a member of the '
               'recorded corpus harness/corpus/c08_margin_measurement.json that the unchanged tree finds) is not flagged with its key'
               % (CHECK_OF[t[3]], t[1], t[2], t[3], t[0], curve_bits(t[0]))))
  rep.extra['c08_margin_gated'] = dict(instances=len(plan), found=hits, corpus_members=len(members),
                                       measurement=os.path.relpath(GATE_MEASUREMENT_FILE, fw.VERIF))
