"""C09 — the nonce relation extracted from any ECDSA signature is exact.

Correspondence of Model/Ecdsa.lean with ec_util.TransformOrderLen / HiddenNumberParams /
ECDSAValues / PublicPoint and util.Hex2Bytes / Bytes2Int / Int2Bytes, and the property
predicates evaluated on the implementation's own output:
  * (a + b*d - k) % n == 0 for signatures built by an independent textbook ECDSA,
  * z == RFC 6979 bits2int recomputed from the byte string, reduced mod n,
  * byte/int round trips.
"""
import hashlib
import gmpy2
import framework as fw
from framework import H, L, Batch, call

META = dict(
    trusted_base=[
        'Only the curve order n enters the modelled functions; r is any integer (x-coordinate '
        'of kG in the harness, or random) — the algebra does not depend on the curve equation',
        'protobuf bytes fields are modelled as lists of byte values; Python str as code points',
    ],
    assumptions=[
        'Model/Ecdsa.lean mirrors ec_util.py (TransformOrderLen, HiddenNumberParams, '
        'PublicPoint, ECDSAValues) and util.py (Hex2Bytes, Bytes2Int, Int2Bytes); tie checked '
        'by this correspondence run on every curve of CURVE_FACTORY',
        'primality of the curve orders is a hypothesis of `hnparams` (the general theorem '
        '`hnparams_general` needs only gcd(s, n) = 1); validated per run with gmpy2.is_prime',
    ])


# ----------------------------------------------------------------------------
# independent reference code (never calls ec_util / util functions under test)

def ref_bits2int(data, qlen):
  """RFC 6979 2.3.2 on the bit string of an octet string, bit by bit."""
  bits = []
  for byte in data:
    for j in range(7, -1, -1):
      bits.append((byte >> j) & 1)
  blen = len(bits)
  if qlen < blen:
    bits = bits[:qlen]
  else:
    bits = [0] * (qlen - blen) + bits
  v = 0
  for b in bits:
    v = 2 * v + b
  return v


def ref_bits2int_int(h, hlen, qlen):
  """same, for the hlen-bit string of the integer 0 <= h < 2**hlen."""
  bits = [(h >> (hlen - 1 - i)) & 1 for i in range(hlen)]
  if qlen < hlen:
    bits = bits[:qlen]
  else:
    bits = [0] * (qlen - hlen) + bits
  v = 0
  for b in bits:
    v = 2 * v + b
  return v


def ref_inv(x, p):
  return pow(x, p - 2, p)   # p prime (Fermat), independent of gmpy.invert / egcd


def aff_add(P, Q, a, p):
  if P is None:
    return Q
  if Q is None:
    return P
  x1, y1 = P
  x2, y2 = Q
  if x1 == x2:
    if (y1 + y2) % p == 0:
      return None
    lam = (3 * x1 * x1 + a) * ref_inv(2 * y1 % p, p) % p
  else:
    lam = (y2 - y1) * ref_inv((x2 - x1) % p, p) % p
  x3 = (lam * lam - x1 - x2) % p
  return (x3, (lam * (x1 - x3) - y1) % p)


def aff_mul(P, k, a, p):
  R = None
  for bit in bin(k)[2:]:
    R = aff_add(R, R, a, p)
    if bit == '1':
      R = aff_add(R, P, a, p)
  return R


def pad(b, k):
  return b'\x00' * k + b


def to_bytes_min(v):
  out = []
  while v:
    out.append(v & 255)
    v >>= 8
  return bytes(reversed(out))


def fmt_pair(r):
  return '%s,%s' % (H(r[0]), H(r[1]))


def fmt_triple(r):
  return '%s,%s,%s' % (H(r[0]), H(r[1]), H(r[2]))


def curves():
  from paranoid_crypto.lib import ec_util
  out = []
  for _, c in sorted(ec_util.CURVE_FACTORY.items()):
    if c is not None:
      out.append(c)
  return out


HASHES = [('sha1', hashlib.sha1), ('sha224', hashlib.sha224), ('sha256', hashlib.sha256),
          ('sha384', hashlib.sha384), ('sha512', hashlib.sha512)]


def hash_pool(rng, tier):
  """(tag, bytes) message hashes: real digests + synthetic 0..64-byte strings."""
  out = []
  for name, hf in HASHES:
    for _ in range(2 if tier == 'quick' else 6):
      out.append((name, hf(rng.randbytes(rng.randrange(0, 80))).digest()))
  lens = list(range(0, 65))
  for ln in lens:
    out.append(('len%d:rand' % ln, rng.randbytes(ln)))
  for ln in (0, 1, 20, 27, 28, 29, 31, 32, 33, 47, 48, 49, 63, 64, 65, 66, 67, 80):
    out.append(('len%d:zero' % ln, b'\x00' * ln))
    out.append(('len%d:ff' % ln, b'\xff' * ln))
    if ln:
      out.append(('len%d:lead0' % ln, b'\x00' + rng.randbytes(ln - 1)))
      out.append(('len%d:msb' % ln, b'\x80' + b'\x00' * (ln - 1)))
      out.append(('len%d:lsb' % ln, b'\x00' * (ln - 1) + b'\x01'))
  return out


# ----------------------------------------------------------------------------

def corr_transform(rep, rng, tier):
  b = Batch('ecdsa.transform')
  for c in curves():
    n = int(c.n)
    qlen = n.bit_length()
    hlens = set(8 * i for i in range(0, 67)) | {qlen - 9, qlen - 8, qlen - 7, qlen - 1, qlen,
                                               qlen + 1, qlen + 7, qlen + 8, qlen + 9, 1, 2, 7,
                                               9, 1000, 2 * qlen}
    for hlen in sorted(hlens):
      hs = [0, (1 << hlen) - 1, rng.getrandbits(hlen) if hlen else 0,
            (1 << hlen) >> 1, n << max(0, hlen - qlen), (n - 1) << max(0, hlen - qlen)]
      if hlen >= qlen:
        hs.append(((n + 1) << (hlen - qlen)) & ((1 << hlen) - 1))
      for h in hs:
        h = h & ((1 << hlen) - 1) if hlen else 0
        impl = call(H, lambda h=h, hlen=hlen: int(c.TransformOrderLen(gmpy2.mpz(h), hlen)))

        def pred(h=h, hlen=hlen, c=c, n=n, qlen=qlen):
          got = int(c.TransformOrderLen(gmpy2.mpz(h), hlen))
          want = ref_bits2int_int(h, hlen, qlen) % n
          if got != want:
            return ('TransformOrderLen(%x, %d) on %s = %x, RFC 6979 bits2int mod n = %x'
                    % (h, hlen, c.name, got, want))
          return None
        tag = 'shorter' if hlen < qlen else 'equal' if hlen == qlen else 'longer'
        b.add('ecdsa.transform %s %s %s' % (H(n), H(h), H(hlen)), impl, tag=tag, pred=pred)
    # outside the property's domain (h >= 2^hlen, negative h / hlen, Python int argument):
    for _ in range(6):
      hlen = rng.choice([-8, -1, 0, 8, qlen - 8, qlen, qlen + 8, 512])
      h = rng.choice([-1, 1]) * rng.getrandbits(rng.choice([8, qlen, qlen + 40, 700]))
      arg = h if rng.random() < 0.5 else gmpy2.mpz(h)
      impl = call(H, lambda arg=arg, hlen=hlen: int(c.TransformOrderLen(arg, hlen)))
      b.add('ecdsa.transform %s %s %s' % (H(n), H(h), H(hlen)), impl, tag='out-of-domain')
  # toy / degenerate orders through a custom EcCurve (n = 0 raises)
  from paranoid_crypto.lib import ec_util
  for n in (0, 1, 2, 3, 23, 24, 255, 256, 257, 2**61 - 1):
    c = ec_util.EcCurve('toy', 0, 7, 2**61 - 1, 1, 1, n)
    for hlen in (0, 1, 5, 8, 9, 16, 61, 64):
      for h in (0, 1, rng.getrandbits(max(hlen, 1)) & ((1 << hlen) - 1), (1 << hlen) - 1):
        impl = call(H, lambda h=h, hlen=hlen, c=c: int(c.TransformOrderLen(gmpy2.mpz(h), hlen)))
        b.add('ecdsa.transform %s %s %s' % (H(n), H(h), H(hlen)), impl,
              tag='toy:n=0' if n == 0 else 'toy')
  rep.absorb(b, b.run())


def make_sig(rng, c, digest, mode):
  """independent textbook ECDSA; returns (d, k, r, s, e) with e = bits2int(digest)."""
  n = int(c.n)
  p = int(c.mod)
  a = int(c.a) % p
  G = (int(c.g[0]), int(c.g[1]))
  qlen = n.bit_length()
  e = ref_bits2int(digest, qlen)
  while True:
    d = rng.randrange(1, n)
    k = rng.randrange(1, n)
    if mode == 'point':
      R = aff_mul(G, k, a, p)
      r = R[0] % n
    else:
      r = rng.randrange(1, n)
    if r == 0:
      continue
    s = ref_inv(k, n) * (e + r * d) % n
    if s == 0:
      continue
    return d, k, r, s, e


def corr_hnp(rep, rng, tier):
  from paranoid_crypto.lib import ec_util
  b = Batch('ecdsa.hnp')
  cs = curves()
  rep.extra['curve_orders_prime'] = {c.name: bool(gmpy2.is_prime(int(c.n), 64)) for c in cs}
  reps = 12 if tier == 'quick' else 120
  for c in cs:
    n = int(c.n)
    qlen = n.bit_length()
    for i in range(reps):
      digest = rng.randbytes(rng.choice([20, 28, 32, 48, 64]))
      mode = 'point' if i < (2 if tier == 'quick' else 10) else 'random-r'
      d, k, r, s, e = make_sig(rng, c, digest, mode)
      z = e % n
      variants = [('canonical', r, s, z)]
      # the Lean-side signer specification (Model.signS, theorems in Props/C09Sign.lean) against
      # the independent reference signer above: same s for the same (r, e, d, k)
      b.add('ecdsa.signs %s %s %s %s %s' % (H(n), H(r), H(e), H(d), H(k)),
            call(H, lambda s=s: s), tag='signS:' + mode)
      if i == 0:
        b.add('ecdsa.signs %s %s %s %s %s' % (H(n), H(r), H(e), H(d), H(n * 3)),
              call(H, lambda n=n: int(gmpy2.invert(gmpy2.mpz(0), n))), tag='signS:k=0 mod n')
      variants.append(('z-unreduced', r, s, e))
      variants.append(('ge-n', r + n * rng.randrange(0, 3), s + n * rng.randrange(1, 3),
                       z + n * rng.randrange(0, 3)))
      variants.append(('negative', r - n, s - 2 * n, z - n))
      for tag, r_, s_, z_ in variants:
        mp = rng.random() < 0.5
        args = tuple(gmpy2.mpz(v) if mp else v for v in (r_, s_, z_))
        impl = call(fmt_pair, c.HiddenNumberParams, *args)

        def pred(args=args, c=c, n=n, d=d, k=k):
          try:
            a_, b_ = c.HiddenNumberParams(*args)
          except Exception as ex:  # noqa
            return 'HiddenNumberParams raised %r on a valid signature' % (ex,)
          if (int(a_) + int(b_) * d - k) % n != 0:
            return 'k != a + b*d mod n: curve=%s d=%x k=%x (r,s,z)=%s -> a=%x b=%x' % (
                c.name, d, k, [hex(int(v)) for v in args], int(a_), int(b_))
          if not (0 <= int(a_) < n and 0 <= int(b_) < n):
            return 'a or b not reduced'
          return None
        b.add('ecdsa.hnp %s %s %s %s' % (H(n), H(r_), H(s_), H(z_)), impl,
              tag=mode + ':' + tag, pred=pred, info=dict(curve=c.name, d=hex(d), k=hex(k)))
    # s not invertible on a prime order: s ≡ 0
    for s_ in (0, n, -n, 5 * n):
      r_, z_ = rng.randrange(1, n), rng.randrange(0, n)
      impl = call(fmt_pair, c.HiddenNumberParams, r_, s_, z_)
      b.add('ecdsa.hnp %s %s %s %s' % (H(n), H(r_), H(s_), H(z_)), impl, tag='s=0 mod n')
    # edge values
    for (r_, s_, z_) in ((0, 1, 0), (1, 1, 1), (n - 1, n - 1, n - 1), (1, n - 1, 0), (0, 1, n)):
      impl = call(fmt_pair, c.HiddenNumberParams, r_, s_, z_)
      b.add('ecdsa.hnp %s %s %s %s' % (H(n), H(r_), H(s_), H(z_)), impl, tag='edge')
  # composite / degenerate orders: gcd(s, n) != 1 raises
  for n in (0, 1, 2, 4, 6, 15, 24, 255, 256, 3 * 5 * 7 * 11 * 13, (2**61 - 1) * (2**31 - 1)):
    c = ec_util.EcCurve('toy', 0, 7, 2**61 - 1, 1, 1, n)
    for _ in range(10):
      m = max(n, 2)
      r_, s_, z_ = rng.randrange(-m, 2 * m), rng.randrange(-m, 2 * m), rng.randrange(-m, 2 * m)
      impl = call(fmt_pair, c.HiddenNumberParams, r_, s_, z_)
      g = int(gmpy2.gcd(s_, n)) if n else 0
      b.add('ecdsa.hnp %s %s %s %s' % (H(n), H(r_), H(s_), H(z_)), impl,
            tag='toy:gcd=1' if g == 1 else 'toy:gcd!=1')
  rep.absorb(b, b.run())


def corr_values(rep, rng, tier):
  from paranoid_crypto.lib import ec_util
  from paranoid_crypto import paranoid_pb2
  b = Batch('ecdsa.values')
  bp = Batch('ecdsa.pubpoint')
  hp = hash_pool(rng, tier)
  cs = curves()
  for ci, c in enumerate(cs):
    n = int(c.n)
    qlen = n.bit_length()
    pool = hp if tier == 'thorough' else [x for j, x in enumerate(hp) if (j + ci) % 3 == 0 or
                                          x[0].startswith('sha')]
    for hi, (htag, digest) in enumerate(pool):
      mode = 'point' if hi % 40 == 0 else 'random-r'
      d, k, r, s, e = make_sig(rng, c, digest, mode)
      zr = rng.choice([0, 0, 1, 2, 5])
      zs = rng.choice([0, 0, 1, 3])
      # sometimes force r / s short so that the minimal encoding is short as well
      if rng.random() < 0.1:
        r = rng.randrange(1, 1 << rng.choice([1, 8, 9, 64]))
        s = ref_inv(k, n) * (e + r * d) % n
        if s == 0:
          continue
      rB, sB = pad(to_bytes_min(r), zr), pad(to_bytes_min(s), zs)
      sig = paranoid_pb2.ECDSASignatureInfo(r=rB, s=sB, message_hash=digest)
      impl = call(fmt_triple, ec_util.ECDSAValues, sig, c)

      def pred(sig=sig, c=c, n=n, qlen=qlen, d=d, k=k, digest=digest, r=r, s=s):
        r_, s_, z_ = ec_util.ECDSAValues(sig, c)
        if int(r_) != r or int(s_) != s:
          return 'r/s field does not round-trip: %x %x vs %x %x' % (int(r_), int(s_), r, s)
        want = ref_bits2int(digest, qlen) % n
        if int(z_) != want:
          return 'z=%x but RFC 6979 bits2int(hash) mod n = %x (curve %s, hash %s)' % (
              int(z_), want, c.name, digest.hex())
        a_, b_ = c.HiddenNumberParams(r_, s_, z_)
        if (int(a_) + int(b_) * d - k) % n != 0:
          return 'k != a + b*d mod n for signature on %s: d=%x k=%x r=%x s=%x hash=%s' % (
              c.name, d, k, r, s, digest.hex())
        return None
      hl = 8 * len(digest)
      tag = ('shorter' if hl < qlen else 'equal' if hl == qlen else 'longer') + \
            (':lead0' if (zr or zs) else '')
      b.add('ecdsa.values %s %s %s %s' % (H(n), L(rB), L(sB), L(digest)), impl,
            tag=tag, pred=pred,
            info=dict(curve=c.name, hash=htag, d=hex(d), k=hex(k)))
    # degenerate fields: empty r / s / hash, all-zero fields
    for rB, sB, mh in ((b'', b'', b''), (b'\x00', b'\x00\x00', b'\x00'), (b'\x01', b'', b'\xff' * 66)):
      sig = paranoid_pb2.ECDSASignatureInfo(r=rB, s=sB, message_hash=mh)
      impl = call(fmt_triple, ec_util.ECDSAValues, sig, c)
      b.add('ecdsa.values %s %s %s %s' % (H(n), L(rB), L(sB), L(mh)), impl, tag='degenerate')
    # PublicPoint: coordinates with / without leading zero bytes
    for _ in range(6):
      x, y = rng.getrandbits(rng.choice([qlen, qlen - 9, 8])), rng.getrandbits(qlen)
      xB, yB = pad(to_bytes_min(x), rng.choice([0, 1, 4])), pad(to_bytes_min(y), rng.choice([0, 2]))
      key = paranoid_pb2.ECKeyInfo(x=xB, y=yB)
      impl = fmt_pair(ec_util.PublicPoint(key))

      def pred(key=key, x=x, y=y):
        got = ec_util.PublicPoint(key)
        if (int(got[0]), int(got[1])) != (x, y):
          return 'PublicPoint does not round-trip (%x,%x)' % (x, y)
        return None
      bp.add('ecdsa.pubpoint %s %s' % (L(xB), L(yB)), impl, tag='lead0' if xB[:1] == b'\0' or yB[:1] == b'\0' else 'minimal', pred=pred)
  rep.absorb(b, b.run())
  rep.absorb(bp, bp.run())


def corr_util(rep, rng, tier):
  from paranoid_crypto.lib import util
  N = 300 if tier == 'quick' else 3000
  # Bytes2Int / Int2Bytes
  b1 = Batch('util.bytes2int')
  b2 = Batch('util.int2bytes')
  for i in range(N):
    ln = rng.choice([0, 1, 2, 3, 8, 20, 32, 33, 66, rng.randrange(0, 70)])
    raw = rng.randbytes(ln)
    raw = pad(raw, rng.choice([0, 0, 1, 2, 7]))
    if rng.random() < 0.1:
      raw = b'\x00' * ln
    impl = H(util.Bytes2Int(raw))

    def pred1(raw=raw):
      v = util.Bytes2Int(raw)
      back = util.Int2Bytes(v)
      if back != raw.lstrip(b'\x00'):
        return 'Int2Bytes(Bytes2Int(%s)) = %s' % (raw.hex(), back.hex())
      return None
    b1.add('util.bytes2int %s' % L(raw), impl, tag='lead0' if raw[:1] == b'\0' else 'minimal',
           pred=pred1)
  vals = [0, 1, 127, 128, 255, 256, 257, 65535, 65536, -1, -255, -256]
  for k in (8, 16, 63, 64, 65, 255, 256, 257, 520, 521, 528):
    vals += [2**k - 1, 2**k, 2**k + 1]
  for i in range(N):
    vals.append(rng.getrandbits(rng.choice([1, 7, 8, 9, 64, 160, 256, 521, rng.randrange(1, 600)])))
  for i in range(N // 20):
    vals.append(-rng.getrandbits(rng.randrange(1, 300)) - 1)
  for v in vals:
    arg = gmpy2.mpz(v) if rng.random() < 0.5 else v
    impl = call(L, util.Int2Bytes, arg)

    def pred2(arg=arg, v=v):
      if v < 0:
        return None
      by = util.Int2Bytes(arg)
      if util.Bytes2Int(by) != v:
        return 'Bytes2Int(Int2Bytes(%x)) = %x' % (v, util.Bytes2Int(by))
      if by[:1] == b'\x00':
        return 'Int2Bytes(%x) has a leading zero byte' % v
      return None
    b2.add('util.int2bytes %s' % H(v), impl, tag='negative' if v < 0 else 'zero' if v == 0 else 'pos',
           pred=pred2)
  rep.absorb(b1, b1.run())
  rep.absorb(b2, b2.run())

  # Hex2Bytes
  b3 = Batch('util.hex2bytes')
  digits = '0123456789abcdefABCDEF'
  strs = ['', '0', '00', '000', 'a', 'A', 'abc', 'ABC', '0abc', ' ', 'a ', ' a', 'ab cd', 'ab  cd',
          'abc d', 'a b', '\tab', 'ab\n', 'ab\x0bcd', 'ab\x0ccd', 'ab\rcd', 'ab\x1ccd', 'g', 'ag',
          '0x12', 'é', 'é1', 'ab cd', '1١', '１２', 'ab cd ef', ' ab cd', 'abcd  ']
  for c in range(0, 128):
    strs.append(chr(c))
    strs.append('a' + chr(c))
    strs.append('ab' + chr(c) + 'cd')
    strs.append('ab' + chr(c) + 'cde')
  for i in range(N):
    ln = rng.choice([1, 2, 3, 4, 5, 8, 9, 40, 41, 64, 131, 132])
    s = ''.join(rng.choice(digits) for _ in range(ln))
    r = rng.random()
    if r < 0.15:      # whitespace at a pair boundary
      pos = 2 * rng.randrange(0, ln // 2 + 1)
      s = s[:pos] + rng.choice([' ', '  ', '\t', '\n ']) + s[pos:]
    elif r < 0.25:    # whitespace anywhere
      pos = rng.randrange(0, ln + 1)
      s = s[:pos] + ' ' + s[pos:]
    elif r < 0.32:    # invalid character
      pos = rng.randrange(0, ln + 1)
      s = s[:pos] + rng.choice('gGxz-+_.:/\\@`\x00\x7f') + s[pos:]
    strs.append(s)
  for s in strs:
    impl = call(L, util.Hex2Bytes, s)

    def pred3(s=s):
      if s and all(ch in digits for ch in s):
        by = util.Hex2Bytes(s)
        if int.from_bytes(by, 'big') != int(s, 16) or len(by) != (len(s) + 1) // 2:
          return 'Hex2Bytes(%r) = %s' % (s, by.hex())
      return None
    if all(ch in digits for ch in s):
      tag = 'hex:odd' if len(s) % 2 else 'hex:even'
    elif impl.startswith('ok'):
      tag = 'whitespace-ok'
    else:
      tag = 'ValueError'
    b3.add('util.hex2bytes %s' % L(ord(ch) for ch in s), impl, tag=tag, pred=pred3)
  rep.absorb(b3, b3.run())


def correspondence(rep, rng, tier):
  corr_transform(rep, rng, tier)
  corr_hnp(rep, rng, tier)
  corr_values(rep, rng, tier)
  corr_util(rep, rng, tier)


def search(rep, rng, tier):
  """Failing-input search on the implementation only: the nonce relation and the RFC 6979
  truncation on fresh signatures for every curve and hash length."""
  from paranoid_crypto.lib import ec_util
  from paranoid_crypto import paranoid_pb2
  found = 0
  for c in curves():
    n = int(c.n)
    qlen = n.bit_length()
    for ln in list(range(0, 67)) * (1 if tier == 'quick' else 5):
      digest = rng.randbytes(ln)
      d, k, r, s, e = make_sig(rng, c, digest, 'random-r')
      sig = paranoid_pb2.ECDSASignatureInfo(r=pad(to_bytes_min(r), ln % 3), s=to_bytes_min(s),
                                            message_hash=digest)
      try:
        r_, s_, z_ = ec_util.ECDSAValues(sig, c)
        a_, b_ = c.HiddenNumberParams(r_, s_, z_)
        what = None
        if int(z_) != e % n:
          what = 'z=%x differs from RFC 6979 bits2int(hash) mod n=%x' % (int(z_), e % n)
        elif (int(a_) + int(b_) * d - k) % n != 0:
          what = 'k != a + b*d mod n'
      except Exception as ex:  # noqa
        what = 'raised %r on a valid signature' % (ex,)
      if what and found < 5:
        found += 1
        rep.violations.append(dict(
            op='search.nonce_relation', what=what,
            line='curve=%s d=%x k=%x r=%s s=%s hash=%s' % (c.name, d, k, sig.r.hex(), sig.s.hex(),
                                                          digest.hex()),
            impl='', model='', info=dict(curve=c.name)))


def _pi(t):
  return -int(t[1:], 16) if t.startswith('-') else int(t, 16)


def _pl(t):
  return bytes([] if t == '[]' else [int(x, 16) for x in t.split(',')])


def impl_of_line(line):
  """Re-evaluates a request line on the implementation (used by --replay)."""
  from paranoid_crypto.lib import ec_util, util
  from paranoid_crypto import paranoid_pb2
  t = line.split()
  op, a = t[0], t[1:]
  if op in ('ecdsa.transform', 'ecdsa.hnp', 'ecdsa.values'):
    c = ec_util.EcCurve('replay', 0, 7, 2**61 - 1, 1, 1, _pi(a[0]))
  if op == 'ecdsa.transform':
    return call(H, lambda: int(c.TransformOrderLen(gmpy2.mpz(_pi(a[1])), _pi(a[2]))))
  if op == 'ecdsa.hnp':
    return call(fmt_pair, c.HiddenNumberParams, _pi(a[1]), _pi(a[2]), _pi(a[3]))
  if op == 'ecdsa.values':
    sig = paranoid_pb2.ECDSASignatureInfo(r=_pl(a[1]), s=_pl(a[2]), message_hash=_pl(a[3]))
    return call(fmt_triple, ec_util.ECDSAValues, sig, c)
  if op == 'ecdsa.pubpoint':
    return fmt_pair(ec_util.PublicPoint(paranoid_pb2.ECKeyInfo(x=_pl(a[0]), y=_pl(a[1]))))
  if op == 'util.bytes2int':
    return H(util.Bytes2Int(_pl(a[0])))
  if op == 'util.int2bytes':
    return call(L, util.Int2Bytes, _pi(a[0]))
  if op == 'util.hex2bytes':
    return call(L, util.Hex2Bytes, ''.join(chr(x) for x in ([] if a[0] == '[]' else
                                                            [int(x, 16) for x in a[0].split(',')])))
  raise ValueError('unknown op ' + op)


def replay(obj):
  """./check C09 --replay file: re-runs the recorded request on model and implementation."""
  line = obj.get('line', '')
  print('what:', obj.get('what'))
  if not line or line.split()[0].startswith('search.'):
    print('input:', line)
    return 1
  model = fw.run_driver([line])[0]
  impl = impl_of_line(line)
  print('request:', line)
  print('model  :', model)
  print('impl   :', impl)
  return 0 if model == impl else 1
