"""C10 — small and structured discrete logarithms are always found (and the EC half of C02: every
recorded discrete log / key relation is true).

Correspondence of Model/Bsgs.lean with ec_util.EcCurve.BatchDL / ExtendedBatchDL /
BatchDLOfDifferences (incl. the mutable attributes `_table`, `_table_size`) and with the Check
methods CheckValidECKey, CheckWeakCurve, CheckWeakECPrivateKey, CheckECKeySmallDifference run on real
protobuf ECKey artefacts.

State protocol. `_table` is `{}` or `PointTable(g, _table_size)`, and PointTable computes its split
as `m = int(math.sqrt(_table_size))`, so the state of a curve object travels as the token
`size:m`; the harness sets `_table`/`_table_size` explicitly before every call (a snapshot taken
after real earlier calls), the model rebuilds the table from the token, and both report the new
token. The exact dict (content AND order) is compared through `ec.pointtable` after the histories.

Float oracles (`int(math.sqrt(n * len(points)))`, `int(math.sqrt(table_size))`) are RECORDED at the
call site (ec_util.math is wrapped by a recording proxy, no change under /repo) and passed on the line.

`pred` (always=True, evaluated on the implementation's own answer, never via the model), with the
independent textbook arithmetic of corr/c11.py (class Ref / the toy tables k -> k*G):
  C02  every recorded log v satisfies v*G == P; every recorded relation (Q, k) satisfies
       P - Q == k*G and Q is one of the other points of the call;
  C10  a planted log 0 <= x < n is found (exactly x when 2n + t + V <= order, else modulo the order);
       planted i*2^(8j) / i*(2^(32r)-1)/(2^32-1) keys are flagged with a value = d (mod n);
       two points with 0 < |d_i - d_j| < table size are both flagged, identical points are not.
"""
import math
import re
import time
import gmpy2
import framework as fw
from framework import H, L, O, B, Batch, call
from corr import c11
from corr.c11 import Ref, fpt, fpl, fol, ftable, to_py, INF

META = dict(
    trusted_base=[
        'Mathlib WeierstrassCurve.Affine.Point group law is the specification (through C11 toPoint)',
        'independent textbook chord-and-tangent implementation of harness/corr/c11.py (pred only)',
        'Std.HashMap (native driver only; Proofs/BsgsFast.lean proves the hash-map instance of the '
        'model gives the same answers as the association-list instance the theorems are about)',
    ],
    assumptions=[
        'Model/Bsgs.lean mirrors ec_util.BatchDL/ExtendedBatchDL/BatchDLOfDifferences and the four EC '
        'Check methods; tie checked by this correspondence run',
        'float oracles int(math.sqrt(.)) are inputs of the model (theorems hold for every value >= 1)',
        'primality of p and n of the named curves is a hypothesis (validated by gmpy2.is_prime in C11)',
        'model domain: bound n >= 0, max_diff >= 0; state after a raised exception is not modelled',
        'ECDSA-signature half of C02 (issuer dlogs) is owned by another module',
    ])


# ----------------------------------------------------------------------------
# recording proxy for ec_util.math

class MathProxy:

  def __init__(self, real):
    self._real = real
    self.log = []

  def sqrt(self, x):
    r = self._real.sqrt(x)
    self.log.append((int(x), r))
    return r

  def __getattr__(self, name):
    return getattr(self._real, name)


PROXY = None


def install_proxy(ec_util):
  global PROXY
  if isinstance(ec_util.math, MathProxy):
    PROXY = ec_util.math
  else:
    PROXY = MathProxy(ec_util.math)
    ec_util.math = PROXY
  return PROXY


def tok(size):
  size = int(size)
  return '%s:%s' % (H(size), H(int(math.sqrt(size)) if size else 0))


def vrange(size):
  """number of multiples of G in PointTable(g, size): ceil(size/m)*m."""
  if not size:
    return 0
  m = int(math.sqrt(size))
  return (size + m - 1) // m * m


FRESH = (0, {})


def set_state(curve, st):
  curve._table_size = st[0]
  curve._table = st[1]           # never mutated in place by ec_util (replaced by a new dict)


def get_state(curve):
  return (int(curve._table_size), curve._table)


def oracles(n_calls_default):
  """(ts, m) from the recorded sqrt calls of one BatchDL; falls back to the expressions."""
  log = PROXY.log
  ts = int(log[0][1]) if log else n_calls_default
  m = int(log[1][1]) if len(log) > 1 else int(math.sqrt(ts))
  return ts, m


# ----------------------------------------------------------------------------
# curves

def find_ss(ec_util, rng, name, bits, form='x'):
  """supersingular toy curve with a subgroup of prime order N of exactly `bits` bits:
  y^2 = x^3 + x over p = 4N - 1 (p % 4 == 3, group order p + 1 = 4N, cofactor 4)."""
  cof = 4
  while True:
    N = int(gmpy2.next_prime(rng.getrandbits(bits) | (1 << (bits - 1))))
    if N.bit_length() != bits:
      continue
    p = cof * N - 1
    if not gmpy2.is_prime(p) or p % 4 != 3:
      continue
    a, b = 1, 0
    ref = Ref(a, b, p)
    for _ in range(200):
      x = rng.randrange(p)
      r = (x * x * x + a * x + b) % p
      if gmpy2.jacobi(r, p) != 1:
        continue
      y = int(gmpy2.powmod(r, (p + 1) // 4, p))
      G = ref.mul((x, y), cof)
      if G is None:
        continue
      assert ref.mul(G, N) is None
      ctx = c11.Ctx(ec_util, name, a, b, p, G[0], G[1], N, cof)
      return ctx


def tiny_toy(ec_util, rng, name, lo, hi):
  return c11.find_toy(ec_util, rng, name, lo, hi, rng.choice(['m3', 'rand', 'pm3']), 1)


def mulG(ctx, k):
  """independent k*G (reduced point or None)."""
  if ctx.table is not None and ctx.h == 1:
    return ctx.table[int(k) % len(ctx.table)]
  return ctx.ref.mul(ctx.g, int(k) % ctx.n)


class Section:
  """one Batch with the curve registers."""

  def __init__(self, name, ctxs):
    self.b = Batch(name)
    for c in ctxs:
      c.let(self.b)

  def finish(self, rep):
    t0 = time.time()
    div = self.b.run()
    rep.extra.setdefault('driver_wall_s', {})[self.b.name] = round(time.time() - t0, 2)
    regs = dict(l.split(' ')[1:3] for l in self.b.setup_lines)
    for it in div:
      used = {k: fw.trunc(v, 3000) for k, v in regs.items() if ('$' + k) in it['line'].split(' ')}
      it['info'] = dict(it['info'] or {}, registers=used)
    rep.absorb(self.b, div)


# ----------------------------------------------------------------------------
# BatchDL

def run_batchdl(ctx, state, points, n):
  c = ctx.c
  set_state(c, state)
  PROXY.log.clear()
  try:
    r = c.BatchDL(list(points), n)
    ans = 'ok %s %s' % (fol(r), tok(c._table_size))
  except Exception as e:  # noqa
    r = None
    ans = 'err ' + fw.exc_name(e)
  ts, m = oracles(0)
  return r, ans, ts, m, get_state(c)


def add_batchdl(sec, ctx, state, points, exps, xs, n, tag, expect_ok=True):
  """points: python points; exps: textbook reduced points (None = inf, 'skip' = no C02 reference);
  xs: planted logs (None = nothing planted)."""
  r, ans, ts, m, st2 = run_batchdl(ctx, state, points, n)
  line = 'bsgs.batchdl %s %s %s %s %s %s' % (ctx.C, tok(state[0]), fpl(points), H(n), H(ts), H(m))
  N = ctx.n
  t = 2 * ts - 1
  V = vrange(st2[0])

  def pred():
    if r is None:
      return ('BatchDL raised (%s) on on-curve points' % ans) if expect_ok else None
    for i, v in enumerate(r):
      e, x = exps[i], xs[i]
      if v is not None and e != 'skip' and mulG(ctx, v) != e:
        return 'C02: recorded log %d of point %d is false (%d*G != P)' % (v, i, v)
      if x is not None and 0 <= x < n:
        if v is None:
          return 'C10: planted log %d < bound %d of point %d not found' % (x, n, i)
        if 2 * n + t + V <= N and v != x:
          return 'C10: found %d instead of the planted log %d (no wrap-around possible)' % (v, x)
    return None
  sec.b.add(line, ans, tag=tag, pred=pred, always=True)
  return r, st2


def history_states(sec, ctx, rng, sizes):
  """all orders of two earlier calls (BatchDL / BatchDLOfDifferences with a small and a large table);
  every call is a correspondence line; returns named snapshots."""
  N = ctx.n
  small, large = sizes
  ops = [('dl', small), ('dl', large), ('diff', small), ('diff', large)]
  snaps = {'fresh': FRESH}
  tabs = []
  for o1 in ops:
    for o2 in ops:
      st = FRESH
      for kind, sz in (o1, o2):
        if kind == 'dl':
          # n * len == sz*sz  ->  table_size == sz
          x1, x2 = rng.randrange(N), rng.randrange(sz * sz)
          xs = [x1, x2 % N]
          pts = [to_py(mulG(ctx, x)) for x in xs]
          n = (sz * sz + 1) // 2
          _, st = add_batchdl(sec, ctx, st, pts, [mulG(ctx, x) for x in xs],
                              [x if x < n else None for x in xs], n, 'history-%s-%s' % (kind, 'small' if sz == small else 'large'))
        else:
          d = rng.randrange(1, max(2, sz))
          k = rng.randrange(N)
          ds = [k, (k + d) % N, rng.randrange(N)]
          _, st = add_diff(sec.diff, ctx, st, ds, [], sz, 'history-%s-%s' % (kind, 'small' if sz == small else 'large'))
      name = '%s%d>%s%d' % (o1[0], o1[1], o2[0], o2[1])
      snaps[name] = st
      tabs.append(st)
  return snaps, tabs


def batchdl_toy(rep, rng, tier, ec_util, toys):
  sec = Section('bsgs.batchdl', toys)
  sec.diff = Section('bsgs.diffdl', toys)
  sec_tab = Section('ec.pointtable', toys)
  superset_fail, superset_cases = [], [0]
  for idx, ctx in enumerate(toys):
    N = ctx.n
    tab = ctx.table
    small, large = 3, max(6, int(math.sqrt(12 * N)) + 3)
    snaps, tabs = history_states(sec, ctx, rng, (small, large))
    # the dict itself (content and order) after the histories
    seen = set()
    for st in tabs:
      if st[0] and st[0] not in seen:
        seen.add(st[0])
        sec_tab.b.add('ec.pointtable %s %s %s %s' % (ctx.C, fpt(to_py(ctx.g)), H(st[0]), H(int(math.sqrt(st[0])))),
                      'ok ' + ftable(st[1]), tag='state-table')
    st_small = snaps['dl%d>dl%d' % (small, small)]
    st_large = snaps['dl%d>dl%d' % (small, large)]
    st_large2 = snaps['diff%d>dl%d' % (large, small)]
    states = [('fresh', FRESH), ('after-small', st_small), ('after-large', st_large)]
    assert st_small[0] == small and st_large[0] == large and st_large2[0] == large
    exhaustive = (idx == 0) or (tier == 'thorough' and N <= 200)
    if exhaustive:
      bounds = list(range(0, N + 2))
      lens = list(range(1, 13))
    else:
      extra_b = 6 if tier == 'quick' else 40
      bounds = sorted(set([0, 1, 2, 3, N // 2, N - 1, N, N + 1, 2 * N] + [rng.randrange(N) for _ in range(extra_b)]))
      lens = [1, 2, 5, 12] if tier == 'quick' else [1, 2, 3, 5, 8, 12]
    k = 0
    for n in bounds:
      for ln in lens:
        xs_all = list(range(N))
        while len(xs_all) % ln:
          xs_all.append(rng.randrange(N))
        for s in range(0, len(xs_all), ln):
          xs = xs_all[s:s + ln]
          if exhaustive and (idx == 0 and (tier == 'thorough' or ln in (1, 2, 12) or n % 7 == 3)):
            which = states
          else:
            which = [states[k % 3]]
          k += 1
          got = {}
          for sname, st in which:
            got[sname], _ = add_batchdl(sec, ctx, st, [to_py(tab[x]) for x in xs], [tab[x] for x in xs], xs, n,
                                        'toy-%s' % sname)
          # literal superset (Props/C10 `history_superset`, not a theorem: depends on the float split):
          # whatever the fresh object finds, the object with a cached table finds too
          if len(got) == 3 and got['fresh'] is not None:
            superset_cases[0] += 1
            for sname in ('after-small', 'after-large'):
              r2 = got[sname]
              if r2 is None or any(a is not None and b is None for a, b in zip(got['fresh'], r2)):
                superset_fail.append(dict(op='bsgs.batchdl', line=sec.b.items[-1]['line'],
                                          what='history: a log found from the fresh state (%s) is not found %s (%s)'
                                          % (got['fresh'], sname, r2), impl=str(r2), model='', info=None))
    # empty list, INFINITY, unreduced, off-curve
    for n in (0, 1, 2, 3, 50):
      for sname, st in states:
        add_batchdl(sec, ctx, st, [], [], [], n, 'toy-empty-list', expect_ok=False)
        add_batchdl(sec, ctx, st, [INF, to_py(tab[1])], [None, tab[1]], [0, 1], n, 'toy-inf')
    for _ in range(30):
      x = rng.randrange(N)
      U = c11.unreduced(rng, ctx, tab[x]) if x else INF
      n = rng.randrange(1, N)
      add_batchdl(sec, ctx, rng.choice(states)[1], [to_py(U) if U != INF else INF, to_py(tab[x])],
                  [tab[x], tab[x]], [None if x else 0, x], n, 'toy-unreduced')
      P = (rng.randrange(ctx.p), rng.randrange(ctx.p))
      if not ctx.ref.on(P):
        add_batchdl(sec, ctx, rng.choice(states)[1], [to_py(P), to_py(tab[x])], ['skip', tab[x]], [None, x], n,
                    'toy-offcurve', expect_ok=False)
    # the table is larger than the group (wrap-around inside the table)
    for n in (N * N // 3, 5 * N):
      xs = [rng.randrange(N) for _ in range(3)]
      add_batchdl(sec, ctx, FRESH, [to_py(tab[x]) for x in xs], [tab[x] for x in xs], xs, n, 'toy-table-wraps')
  sec.finish(rep)
  sec.diff.finish(rep)
  sec_tab.finish(rep)
  rep.extra['history_superset_calls_compared'] = superset_cases[0]
  rep.violations.extend(superset_fail[:5])


def batchdl_named(rep, rng, tier, named):
  sec = Section('bsgs.batchdl', named)
  for ci, ctx in enumerate(named):
    N, ref, G = ctx.n, ctx.ref, ctx.g
    big = (2**20, 2**16) if (tier == 'thorough' or ci % 3 == 0) else (2**14, 2**10)
    for n in big:
      ln = 16 if n >= 2**16 else 8
      ts = int(math.sqrt(n * ln))
      t = 2 * ts - 1
      gs = 2 + n // t
      cand = [0, 1, n - 1, ts - 1, ts, t, t + 1]
      for j in (1, 2, n // t, gs - 2):
        cand += [j * t - (ts - 1), j * t + (ts - 1), j * t - ts, j * t + ts]
      cand = [x for x in cand if 0 <= x]
      inside = sorted(set(x for x in cand if x < n))
      rng.shuffle(inside)
      outside = [n, n + 1, -1, -(ts - 1), N - 1, N - 5, rng.randrange(N), (gs - 1) * t + ts - 1]
      xs = inside[:ln - 4] + outside
      xs = (xs + [rng.randrange(n) for _ in range(ln)])[:ln]
      exps = [ref.mul(G, x % N) for x in xs]
      pts = [to_py(e) for e in exps]
      planted = [x if 0 <= x < n else None for x in xs]
      # fresh, then the same call on the table it left (cached == requested), then with a larger /
      # smaller cached table
      _, st1 = add_batchdl(sec, ctx, FRESH, pts, exps, planted, n, 'named-fresh')
      add_batchdl(sec, ctx, st1, pts, exps, planted, n, 'named-cached-equal')
      add_batchdl(sec, ctx, st1, pts[:ln // 4], exps[:ln // 4], planted[:ln // 4], n, 'named-cached-larger')
      add_batchdl(sec, ctx, st1, pts + pts, exps + exps, planted + planted, n, 'named-cached-smaller')
    add_batchdl(sec, ctx, FRESH, [], [], [], 2**10, 'named-empty-list', expect_ok=False)
    add_batchdl(sec, ctx, FRESH, [INF], [None], [0], 1, 'named-inf')
    ctx.c._table, ctx.c._table_size = {}, 0
  sec.finish(rep)


# ----------------------------------------------------------------------------
# ExtendedBatchDL

def multipliers(n):
  bits = int(n).bit_length()
  ms = [2**j for j in range(0, bits - 31, 8)]
  ms += [sum(2**(32 * i) for i in range(j)) for j in range(2, bits // 32 + 1)]
  return ms


def run_ext(ctx, state, points):
  c = ctx.c
  set_state(c, state)
  PROXY.log.clear()
  try:
    r = c.ExtendedBatchDL(list(points))
    ans = 'ok %s %s' % (fol(r), tok(c._table_size))
  except Exception as e:  # noqa
    r = None
    ans = 'err ' + fw.exc_name(e)
  ts, m = oracles(int(math.sqrt(2**32 * len(points) * len(multipliers(ctx.n)))))
  return r, ans, ts, m, get_state(c)


def add_ext(sec, ctx, state, ds, tag, extra_pts=()):
  """ds: list of (d, planted?) private keys; extra_pts: (python point, textbook point) appended."""
  N = ctx.n
  exps = [mulG(ctx, d) for d, _ in ds] + [e for _, e in extra_pts]
  pts = [to_py(e) for e in exps[:len(ds)]] + [p for p, _ in extra_pts]
  r, ans, ts, m, st2 = run_ext(ctx, state, pts)
  line = 'bsgs.extdl %s %s %s %s %s' % (ctx.C, tok(state[0]), fpl(pts), H(ts), H(m))

  def pred():
    if r is None:
      return 'ExtendedBatchDL raised (%s)' % ans if pts else None
    for i, v in enumerate(r):
      if v is not None and exps[i] != 'skip' and mulG(ctx, v) != exps[i]:
        return 'C02: recorded log %d of point %d is false' % (v, i)
      if i < len(ds) and ds[i][1]:
        if v is None:
          return 'C10: structured private key %x not found' % ds[i][0]
        if (v - ds[i][0]) % N:
          return 'C10: recorded %x is not the private key %x modulo n' % (v, ds[i][0])
    return None
  sec.b.add(line, ans, tag=tag, pred=pred, always=True)
  return r, st2


def structured_keys(rng, ctx):
  """(d, tag) for every multiplier: i * 2^(8j) and i * repunit(r) with boundary i."""
  N = ctx.n
  bits = N.bit_length()
  out = []
  for j in range(0, bits - 31, 8):
    for i in (1, 2**32 - 1, 2**31, rng.randrange(1, 2**32)):
      out.append((i << j, 'shift%d' % j))
  for r in range(2, bits // 32 + 1):
    u = sum(2**(32 * k) for k in range(r))
    for i in (1, 2**32 - 1, rng.randrange(1, 2**32)):
      out.append((i * u, 'rep%d' % r))
  return out


def ext_section(rep, rng, tier, ec_util, sscurves, named):
  sec = Section('bsgs.extdl', sscurves + named)
  secm = Section('bsgs.multipliers', sscurves + named)
  for ctx in sscurves + named:
    secm.b.add('bsgs.multipliers %s' % ctx.C, L(multipliers(ctx.n)), tag='named' if ctx in named else 'toy')
  for ctx in sscurves:
    N = ctx.n
    bits = N.bit_length()
    keys = structured_keys(rng, ctx)
    rng.shuffle(keys)
    # the largest shift and the longest repetition first (boundary of the multiplier loops)
    top = max((k for k in keys if k[1].startswith('shift')), key=lambda k: int(k[1][5:]))
    reps = [k for k in keys if k[1].startswith('rep')]
    first = [top] + ([max(reps, key=lambda k: int(k[1][3:]))] if reps else [])
    keys = first + [k for k in keys if k not in first]
    per = 3 if tier == 'quick' else 2
    nb = 2 if tier == 'quick' else max(2, (len(keys) + per - 1) // per)
    st = FRESH
    for bi in range(nb):
      chunk = keys[bi * per:(bi + 1) * per]
      if not chunk:
        break
      ds = [(d, True) for d, _ in chunk]
      ds.append((rng.randrange(N), False))                      # healthy key
      if bi == 0:
        ds.append((N - 3, False))                               # found as -3 (not promised)
        extra = [(INF, None)]
      else:
        ds.append(((2**32) << (8 * ((bits - 32) // 8)), False))   # i = 2^32: just outside
        extra = []
      # state: first batch fresh, later ones on the table the previous call left
      _, st = add_ext(sec, ctx, st, ds, 'toy%d-%s' % (bits, 'fresh' if bi == 0 else 'cached'), extra)
    add_ext(sec, ctx, FRESH, [], 'toy-empty-list')
    # 2-torsion point (0, 0) of y^2 = x^3 + x: on the curve, NOT in the subgroup (C02 hypothesis)
    r, _ = add_ext(sec, ctx, st, [(rng.randrange(1, 2**32), True)], 'toy%d-out-of-subgroup' % bits,
                   [(to_py((0, 0)), 'skip')])
    if r is not None and r[1] is not None:
      rep.notes.append('ExtendedBatchDL on %s records log %d for the 2-torsion point (0,0), which is not in the '
                       'subgroup (no log exists): C02 needs the validity hypothesis n*P = inf '
                       '(Props/C10 extended_needs_subgroup)' % (ctx.name, r[1]))
    ctx.c._table, ctx.c._table_size = {}, 0
  if tier == 'thorough':
    for ctx in named[:1] + named[2:3] + named[5:6]:
      keys = structured_keys(rng, ctx)
      rng.shuffle(keys)
      ds = [(d, True) for d, _ in keys[:4]] + [(rng.randrange(ctx.n), False)]
      add_ext(sec, ctx, FRESH, ds, 'named-fresh')
      ctx.c._table, ctx.c._table_size = {}, 0
  sec.finish(rep)
  secm.finish(rep)


# ----------------------------------------------------------------------------
# BatchDLOfDifferences

REL = re.compile(r'^key - \((-?[0-9a-f]+), (-?[0-9a-f]+)\) = (-?\d+) \* G$')


def parse_rel(s):
  if s is None:
    return None
  m = REL.match(s)
  if not m:
    raise ValueError('unparsable relation string %r' % (s,))
  return (int(m.group(1), 16), int(m.group(2), 16), int(m.group(3)))


def frel(r):
  return '-' if r is None else '%s:%s:%s' % (H(r[0]), H(r[1]), H(r[2]))


def frels(rs):
  rs = list(rs)
  return ','.join(frel(r) for r in rs) if rs else '[]'


def add_diff(sec, ctx, state, ds, other_ds, max_diff, tag, pts=None, others=None, use_none=False):
  """ds / other_ds: private keys (None in ds -> INFINITY is not used here)."""
  c, N, ref = ctx.c, ctx.n, ctx.ref
  exps = [mulG(ctx, d) for d in ds]
  oexps = [mulG(ctx, d) for d in other_ds]
  pts = pts if pts is not None else [to_py(e) for e in exps]
  others = others if others is not None else [to_py(e) for e in oexps]
  set_state(c, state)
  PROXY.log.clear()
  try:
    if use_none:
      raw = c.BatchDLOfDifferences(list(pts), max_diff=max_diff)
    else:
      raw = c.BatchDLOfDifferences(list(pts), list(others), max_diff)
    r = [parse_rel(s) for s in raw]
    ans = 'ok %s %s' % (frels(r), tok(c._table_size))
  except Exception as e:  # noqa
    r = None
    ans = 'err ' + fw.exc_name(e)
  m = int(PROXY.log[0][1]) if PROXY.log else int(math.sqrt(max_diff))
  st2 = get_state(c)
  line = 'bsgs.diffdl %s %s %s %s %s %s' % (ctx.C, tok(state[0]), fpl(pts), fpl(others), H(max_diff), H(m))
  size_after = st2[0]
  active = bool(pts) and len(pts) + len(others) >= 2

  def pred():
    if r is None:
      # INFINITY among the points: '%x' % None raises TypeError (never reached from the checks,
      # whose points come from PublicPoint); mirrored by the model, no property to evaluate
      if any(e is None for e in exps + oexps) and ans == 'err TypeError':
        return None
      return 'BatchDLOfDifferences raised (%s)' % ans
    allq = exps + oexps
    for i, rel in enumerate(r):
      if rel is not None:
        Q = ref.norm((rel[0], rel[1]))
        if ref.add(exps[i], ref.neg(Q)) != mulG(ctx, rel[2]):
          return 'C02: relation %s recorded for key %d is false' % (rel, i)
        if Q not in [q for k, q in enumerate(allq) if k != i]:
          return 'C02: relation of key %d names a point that is not another key of the call' % i
        if Q == exps[i]:
          return 'C10: key %d flagged against an identical key' % i
      if active:
        close = [k for k, q in enumerate(allq) if k != i and q != exps[i]
                 and min((ds[i] - (ds + other_ds)[k]) % N, ((ds + other_ds)[k] - ds[i]) % N) < size_after]
        if close and rel is None:
          return 'C10: key %d differs by less than %d from key %d and is not flagged' % (i, size_after, close[0])
        if rel is None:
          continue
        if all(q == exps[i] for k, q in enumerate(allq) if k != i):
          return 'C10: key %d flagged although all other keys are identical to it' % i
    return None
  sec.b.add(line, ans, tag=tag, pred=pred, always=True)
  return r, st2


def diff_section(rep, rng, tier, toys, named):
  sec = Section('bsgs.diffdl', toys + named)
  for idx, ctx in enumerate(toys):
    N = ctx.n
    # cached tables: size 3 and size 9 built by real earlier calls
    _, st3 = add_diff(sec, ctx, FRESH, [1, 2], [], 3, 'toy-state')
    _, st9 = add_diff(sec, ctx, FRESH, [1, 2], [], 9, 'toy-state')
    states = [('fresh', FRESH), ('cached3', st3), ('cached9', st9)]
    if idx == 0:
      # every pair of keys, several max_diff
      cnt = 0
      for md in (0, 1, 2, 3, 5, 8):
        for d1 in range(N):
          for d2 in range(N):
            cnt += 1
            if tier == 'quick' and cnt % 3:
              continue
            sname, st = states[(cnt // 3) % 3]
            add_diff(sec, ctx, st, [d1, d2], [], md, 'toy-pairs-%s' % sname)
    for _ in range(150 if tier == 'quick' else 1500):
      md = rng.choice([0, 1, 2, 4, 7, 16, N // 3, N, 2 * N])
      k = rng.randrange(N)
      ln, lo = rng.randrange(0, 6), rng.randrange(0, 4)
      pool = [k, k, (k + 1) % N, (k + md) % N, (k + max(md, 1) - 1) % N, (k - 2) % N, rng.randrange(N), rng.randrange(N), 0]
      ds = [rng.choice(pool) for _ in range(ln)]
      os_ = [rng.choice(pool) for _ in range(lo)]
      sname, st = rng.choice(states)
      add_diff(sec, ctx, st, ds, os_, md, 'toy-mixed-%s' % sname, use_none=(lo == 0 and rng.random() < 0.5))
    add_diff(sec, ctx, FRESH, [5], [], 4, 'toy-single')
    add_diff(sec, ctx, FRESH, [], [1, 2], 4, 'toy-empty')
    add_diff(sec, ctx, st9, [7, 7, 7], [7], 4, 'toy-identical')
    # unreduced duplicate of the same key (x + p, y)
    P = ctx.table[5]
    add_diff(sec, ctx, FRESH, [5, 5, 6], [], 4, 'toy-unreduced',
             pts=[to_py(P), to_py(c11.unreduced(rng, ctx, P, 0)), to_py(ctx.table[6])])
    # INFINITY among other_points: formatting None raises TypeError when the key is a small multiple of G
    add_diff(sec, ctx, FRESH, [2], [0], 4, 'toy-inf-other', others=[INF])
    ctx.c._table, ctx.c._table_size = {}, 0
  for ctx in named:
    N = ctx.n
    for md in ((16, 200) if tier == 'quick' else (16, 200, 2**12)):
      k = rng.randrange(N)
      ds = [k, k + 1, k + md - 1, k + 2 * md + 5, rng.randrange(N), k]
      os_ = [k + md + 2, rng.randrange(N)]
      _, st = add_diff(sec, ctx, FRESH, [d % N for d in ds], [d % N for d in os_], md, 'named-fresh')
      add_diff(sec, ctx, st, [(k + md) % N, k, (k - md) % N], [], md // 2, 'named-cached-larger')
    ctx.c._table, ctx.c._table_size = {}, 0
  sec.finish(rep)


# ----------------------------------------------------------------------------
# Check level (real protobuf artefacts)

def mk_eckey(curve_type, x, y):
  from paranoid_crypto import paranoid_pb2
  from paranoid_crypto.lib import util
  k = paranoid_pb2.ECKey()
  k.ec_info.curve_type = curve_type
  k.ec_info.x = util.Int2Bytes(int(x))
  k.ec_info.y = util.Int2Bytes(int(y))
  return k


def fkeys(keys):
  from paranoid_crypto.lib import util
  return ','.join('%s:%s:%s' % (H(k.ec_info.curve_type), H(util.Bytes2Int(k.ec_info.x)),
                                H(util.Bytes2Int(k.ec_info.y))) for k in keys) if keys else '[]'


def ffactory(factory):
  ents = []
  for cid, c in factory.items():
    if c is None:
      ents.append('%s=-' % H(int(cid)))
    else:
      ents.append('%s=%s' % (H(int(cid)), L([c.a, c.b, c.mod, c.g[0], c.g[1], c.n, c.h])))
  return ';'.join(ents) if ents else '[]'


def verdicts(check, keys):
  """per-key verdict strings in the format of Driver/Bsgs.lean `fmtKV`."""
  from paranoid_crypto.lib import util, consts
  out = []
  for k in keys:
    tr = util.GetTestResult(k.test_info, check.check_name)
    if tr is None:
      out.append('-')
      continue
    s = B(tr.result)
    for a in k.test_info.attached_info:
      if a.info_name == consts.INFO_NAME_DISCRETE_LOG:
        s += '|' + H(int(a.value, 16))
      elif a.info_name == consts.INFO_NAME_DISCRETE_LOG_DIFF:
        s += '|' + frel(parse_rel(a.value))
    out.append(s)
  return ','.join(out) if out else '[]'


def run_check_ec(check, keys, factory):
  """runs check.Check; returns 'ok <verdicts> [<state tokens>]' / 'err X' and the bool."""
  try:
    ret = check.Check(keys)
  except Exception as e:  # noqa
    return 'err ' + fw.exc_name(e), None
  v = verdicts(check, keys)
  flagged = any(s.startswith('1') for s in v.split(','))
  if bool(ret) != flagged:
    return 'inconsistent return value %r' % (ret,), ret
  return 'ok ' + v, ret


def state_toks(factory):
  return ','.join(tok(c._table_size) if c is not None else '0:0' for c in factory.values()) or '[]'


class PatchedFactory:
  """temporarily replaces entries of ec_util.CURVE_FACTORY (dict order is kept)."""

  def __init__(self, ec_util, repl):
    self.f = ec_util.CURVE_FACTORY
    self.repl = repl

  def __enter__(self):
    self.saved = {k: self.f[k] for k in self.repl if k in self.f}
    self.added = [k for k in self.repl if k not in self.f]
    for k, v in self.repl.items():
      self.f[k] = v
    return self.f

  def __exit__(self, *a):
    for k, v in self.saved.items():
      self.f[k] = v
    for k in self.added:
      del self.f[k]


def key_coordinate_cases(rng, ctx):
  """(x, y, tag) around the validity conditions of one curve."""
  p, ref = ctx.p, ctx.ref
  P = ref.mul(ctx.g, rng.randrange(1, ctx.n))
  out = [(P[0], P[1], 'valid'), (ctx.g[0], ctx.g[1], 'valid-generator'),
         (P[0] + p, P[1], 'x-plus-p'), (P[0], P[1] + p, 'y-plus-p'), (P[0] + p, P[1] + p, 'both-plus-p'),
         (p, P[1], 'x-eq-p'), (P[0], p, 'y-eq-p'), (0, 0, 'zero'), (P[0], 0, 'y-zero'), (0, P[1], 'x-zero'),
         (P[0], (P[1] + 1) % p, 'off-curve'), ((P[0] + 1) % p, P[1], 'off-curve'),
         (2**600 + P[0], P[1], 'huge'), (P[0], p - P[1], 'valid-negated'), (p - 1, p - 1, 'p-minus-1')]
  # x = 0 on the curve when b is a square
  b = ctx.params[1] % p
  if gmpy2.jacobi(b, p) == 1 and p % 4 == 3:
    y0 = int(gmpy2.powmod(b, (p + 1) // 4, p))
    out += [(0, y0, 'x-zero-on-curve'), (p, y0, 'x-eq-p-congruent-to-valid'), (0, y0 + p, 'y-plus-p-congruent-to-valid')]
  # a valid point with the largest coordinates found among a few multiples
  cand = [ref.mul(ctx.g, rng.randrange(1, ctx.n)) for _ in range(4)]
  Q = max(cand, key=lambda T: T[0])
  out += [(Q[0], Q[1], 'valid-large-x'), (Q[0] - p, Q[1], 'x-minus-p-negative-not-encodable')]
  return out


def checks_section(rep, rng, tier, ec_util, toys, sscurves, named, only_validity=False, extra=False):
  """only_validity: just CheckValidECKey / CheckWeakCurve (EC half of C06, called from corr/c06.py);
  extra: more coordinate cases per curve and every key also checked alone."""
  from paranoid_crypto import paranoid_pb2
  from paranoid_crypto.lib import ec_single_checks as es, ec_aggregate_checks as ea
  ct = paranoid_pb2.CurveType
  real_ids = [int(k) for k in ec_util.CURVE_FACTORY]
  none_ids = [int(k) for k, v in ec_util.CURVE_FACTORY.items() if v is None]
  unknown_ids = [0, 20, 99]
  by_name = {c.name: c for c in named}
  id_of = {v.name: int(k) for k, v in ec_util.CURVE_FACTORY.items() if v is not None}
  toy_h2 = [t for t in toys if t.h > 1]
  sec_v = Batch('bsgs.validkey')
  sec_w = Batch('bsgs.weakcurve')
  sec_k = Batch('bsgs.weakkey')
  sec_d = Batch('bsgs.smalldiff')

  # --- factories: the real one, and one with toy curves planted under real ids
  repl = {}
  if toy_h2:
    repl[int(ct.CURVE_SECP224R1)] = toy_h2[0].c
  ss64 = [s for s in sscurves if s.n.bit_length() >= 64][0]
  ss40 = [s for s in sscurves if 40 <= s.n.bit_length() < 64][0]
  repl[int(ct.CURVE_SECP256K1)] = ss64.c
  repl[int(ct.CURVE_BRAINPOOLP256R1)] = ss40.c
  repl[int(ct.CURVE_SECT163K1)] = toys[0].c          # a None entry replaced by a curve of 7..10-bit order
  toy_ctx = {int(ct.CURVE_SECP256K1): ss64, int(ct.CURVE_BRAINPOOLP256R1): ss40, int(ct.CURVE_SECT163K1): toys[0]}
  if toy_h2:
    toy_ctx[int(ct.CURVE_SECP224R1)] = toy_h2[0]

  def ctx_of(factory, cid):
    c = factory.get(cid)
    if c is None:
      return None
    for x in list(toy_ctx.values()) + named:
      if x.c is c:
        return x
    return None

  def reset(factory):
    for c in factory.values():
      if c is not None:
        c._table, c._table_size = {}, 0

  def valid_and_curve(factory, freg, keys, meta, tag):
    """CheckValidECKey + CheckWeakCurve on one batch; meta[i] = (ctx or None, x, y)."""
    chk = es.CheckValidECKey()
    ans, _ = run_check_ec(chk, keys, factory)

    def pred_v():
      if not ans.startswith('ok'):
        return 'CheckValidECKey: ' + ans
      vs = ans[3:].split(',') if keys else []
      for (cx, x, y), v in zip(meta, vs):
        if cx is None:
          exp = True
        else:
          ref, p = cx.ref, cx.p
          ok = 0 <= x < p and 0 <= y < p and ref.on((x, y))
          if ok and cx.h > 1 and ref.mul((x, y), cx.n) is not None:
            ok = False
          exp = not ok
        if v != B(exp):
          return 'C06: CheckValidECKey verdict %s for (%x, %x), criterion says %s' % (v, x, y, B(exp))
      return None
    sec_v.add('bsgs.validkey %s %s' % (freg, fkeys(keys)), ans, tag=tag, pred=pred_v, always=True)
    keys2 = [mk_eckey(k.ec_info.curve_type, int.from_bytes(k.ec_info.x, 'big'), int.from_bytes(k.ec_info.y, 'big')) for k in keys]
    chk2 = es.CheckWeakCurve()
    ans2, _ = run_check_ec(chk2, keys2, factory)
    # (evaluated now: the factory may be a temporary patch)
    exp_w = []
    for k in keys2:
      c = factory.get(k.ec_info.curve_type)
      exp_w.append('-' if c is None else B(int(c.n).bit_length() < 224))

    def pred_w():
      if not ans2.startswith('ok'):
        return 'CheckWeakCurve: ' + ans2
      vs = ans2[3:].split(',') if keys else []
      for exp, v in zip(exp_w, vs):
        if v != exp:
          return 'C06: CheckWeakCurve verdict %s, criterion (order below 224 bits / unknown curve skipped) says %s' % (v, exp)
      return None
    sec_w.add('bsgs.weakcurve %s %s' % (freg, fkeys(keys2)), 'ok ' + ans2[3:] if ans2.startswith('ok') else ans2,
              tag=tag, pred=pred_w, always=True, canon=lambda m: 'ok ' + m)

  def all_ids_batch(factory):
    keys, meta = [], []
    ids = list(factory.keys()) + unknown_ids
    for cid in ids:
      cx = ctx_of(factory, int(cid))
      if cx is None:
        cases = [(rng.randrange(2**200), rng.randrange(2**200), 'unknown'), (0, 0, 'unknown-zero')]
      else:
        cases = key_coordinate_cases(rng, cx)
        if extra:
          for _ in range(3):
            cases += key_coordinate_cases(rng, cx)
          p_ = cx.p
          cases += [(rng.randrange(p_), rng.randrange(p_), 'random'), (p_ + 1, 1, 'x-p-plus-1'),
                    (2 * p_ + cx.g[0], cx.g[1], 'x-plus-2p'), (cx.g[0], cx.g[1] + 7 * p_, 'y-plus-7p'),
                    (p_ - 1, 0, 'x-p-minus-1'), (1, 1, 'small'), (2**(p_.bit_length()), cx.g[1], 'power-of-two')]
        if cx.h > 1 and cx.table is not None:
          # points of the full group outside the subgroup
          outside = [P for k, P in enumerate(cx.table) if k % cx.h and P is not None][:3]
          cases += [(P[0], P[1], 'out-of-subgroup') for P in outside]
        if cx.h > 1 and cx.table is None:
          cases.append((0, 0, 'out-of-subgroup-2torsion'))
      for x, y, _ in cases:
        if x < 0 or y < 0:
          continue            # Int2Bytes raises OverflowError: not representable in an ECKey
        keys.append(mk_eckey(int(cid), x, y))
        meta.append((cx, x, y))
    return keys, meta

  # real factory
  F = ec_util.CURVE_FACTORY
  freg_real = ffactory(F)
  for b in (sec_v, sec_w, sec_k, sec_d):
    b.let('F_real', freg_real)
  keys, meta = all_ids_batch(F)
  valid_and_curve(F, '$F_real', keys, meta, 'real-factory')
  valid_and_curve(F, '$F_real', [], [], 'empty-batch')
  for i in range(0, len(keys), 1 if extra else 7):
    valid_and_curve(F, '$F_real', [keys[i]], [meta[i]], 'real-factory-single')
  if extra:
    perm = list(range(len(keys)))
    rng.shuffle(perm)
    valid_and_curve(F, '$F_real', [keys[i] for i in perm], [meta[i] for i in perm], 'real-factory-shuffled')

  # CheckECKeySmallDifference on the real factory (small max_diff), several curves interleaved
  def small_diff(factory, freg, spec, md, tag, pre=None):
    """spec: list of (curve id, private key or None for a random point id without curve)."""
    keys, info = [], []
    for cid, d in spec:
      cx = ctx_of(factory, cid)
      if cx is None:
        keys.append(mk_eckey(cid, rng.randrange(2**100), rng.randrange(2**100)))
        info.append((None, None))
      else:
        P = mulG(cx, d)
        keys.append(mk_eckey(cid, P[0], P[1]))
        info.append((cx, d))
    reset(factory)
    if pre:
      pre()
    toks = state_toks(factory)
    ms = L([int(math.sqrt(md)) for _ in factory])
    chk = ea.CheckECKeySmallDifference(max_diff=md)
    ans, _ = run_check_ec(chk, keys, factory)
    if ans.startswith('ok'):
      ans += ' ' + state_toks(factory)
    size_after = {id(c): int(c._table_size) for c in factory.values() if c is not None}

    def pred():
      if not ans.startswith('ok'):
        return 'CheckECKeySmallDifference: ' + ans
      vs = ans.split(' ')[1].split(',')
      for i, ((cx, d), v) in enumerate(zip(info, vs)):
        if cx is None:
          if v != '-':
            return 'key %d without curve got a result' % i
          continue
        same = [(j, dj) for j, (cj, dj) in enumerate(info) if cj is cx and j != i]
        size = max(md, size_after[id(cx.c)])
        close = [j for j, dj in same if (dj - d) % cx.n and min((dj - d) % cx.n, (d - dj) % cx.n) < size]
        if close and not v.startswith('1'):
          return 'C10: key %d differs by less than %d from key %d and is not flagged' % (i, size, close[0])
        if v.startswith('1'):
          qx, qy, dl = [int(z, 16) for z in v.split('|')[1].split(':')]
          Q = cx.ref.norm((qx, qy))
          if cx.ref.add(mulG(cx, d), cx.ref.neg(Q)) != mulG(cx, dl):
            return 'C02: relation attached to key %d is false' % i
          if Q == mulG(cx, d) or Q not in [mulG(cx, dj) for _, dj in same]:
            return 'C02/C10: relation of key %d names an identical key or a key of another curve' % i
      return None
    sec_d.add('bsgs.smalldiff %s %s %s %s %s' % (freg, toks, ms, fkeys(keys), H(md)), ans, tag=tag,
              pred=pred, always=True)
    reset(factory)

  n1, n2, n3 = named[0], named[1], named[5]
  i1, i2, i3 = id_of[n1.name], id_of[n2.name], id_of[n3.name]
  for md in (() if only_validity else (16, 100)):
    k1, k2, k3 = rng.randrange(n1.n), rng.randrange(n2.n), rng.randrange(n3.n)
    spec = [(i1, k1), (i2, k2), (i1, (k1 + md - 1) % n1.n), (0, None), (i2, k2), (i3, k3), (i1, (k1 + 2 * md) % n1.n),
            (none_ids[0], None), (i3, (k3 - 1) % n3.n), (i1, k1), (i2, (k2 + md) % n2.n)]
    small_diff(F, '$F_real', spec, md, 'real-factory-md%d' % md)
  def pre():
    n1.c.BatchDLOfDifferences([to_py(mulG(n1, 1)), to_py(mulG(n1, 2))], max_diff=64)
  if not only_validity:
    small_diff(F, '$F_real', [], 16, 'empty-batch')
    small_diff(F, '$F_real', [(i1, 5)], 16, 'single-key')
    small_diff(F, '$F_real', [(i1, 5), (i2, 6)], 16, 'one-key-per-curve')
    # cached larger table from an earlier check call on the same curve objects
    small_diff(F, '$F_real', [(i1, 1000), (i1, 1040), (i2, 7), (i2, 47)], 16, 'cached-larger', pre=pre)

  # patched factory
  with PatchedFactory(ec_util, repl) as PF:
    fpatched = ffactory(PF)
    for b in (sec_v, sec_w, sec_k, sec_d):
      b.let('F_toy', fpatched)
    keys, meta = all_ids_batch(PF)
    valid_and_curve(PF, '$F_toy', keys, meta, 'toy-factory')
    if extra:
      for i in range(len(keys)):
        if meta[i][0] is not None and meta[i][0].h > 1:
          valid_and_curve(PF, '$F_toy', [keys[i]], [meta[i]], 'toy-factory-cofactor-single')
    if only_validity:
      for b in (sec_v, sec_w):
        t0_ = time.time()
        div = b.run()
        rep.extra.setdefault('driver_wall_s', {})[b.name] = round(time.time() - t0_, 2)
        rep.absorb(b, div)
      return

    tid = int(ct.CURVE_SECT163K1)
    t0 = toys[0]
    spec = []
    for d in range(0, t0.n, 3):
      spec.append((tid, d if d else 1))
    small_diff(PF, '$F_toy', spec + [(int(ct.CURVE_SECP256K1), 77), (int(ct.CURVE_SECP256K1), 79)], 2, 'toy-factory')
    small_diff(PF, '$F_toy', spec, 4, 'toy-factory')

    # CheckWeakECPrivateKey: structured keys on the 64-bit and 40-bit toy curves, interleaved with
    # keys of unknown / None curve types
    def weak_key(spec, tag, pre=None):
      keys, info = [], []
      for cid, d, planted in spec:
        cx = ctx_of(PF, cid)
        if cx is None:
          keys.append(mk_eckey(cid, rng.randrange(2**100), rng.randrange(2**100)))
          info.append((None, None, False))
        else:
          P = mulG(cx, d)
          keys.append(mk_eckey(cid, P[0], P[1]))
          info.append((cx, d, planted))
      reset(PF)
      if pre:
        pre()
      toks = state_toks(PF)
      orcs = []
      for cid, c in PF.items():
        np_ = sum(1 for k in keys if k.ec_info.curve_type == cid)
        if c is None or np_ == 0:
          orcs.append('0:0')
        else:
          ts = int(math.sqrt(2**32 * np_ * len(multipliers(c.n))))
          orcs.append('%s:%s' % (H(ts), H(int(math.sqrt(ts)))))
      chk = es.CheckWeakECPrivateKey()
      ans, _ = run_check_ec(chk, keys, PF)
      if ans.startswith('ok'):
        ans += ' ' + state_toks(PF)

      def pred():
        if not ans.startswith('ok'):
          return 'CheckWeakECPrivateKey: ' + ans
        vs = ans.split(' ')[1].split(',')
        for i, ((cx, d, planted), v) in enumerate(zip(info, vs)):
          if cx is None:
            if v != '-':
              return 'key %d without curve got a result' % i
            continue
          if v.startswith('1'):
            dl = int(v.split('|')[1], 16)
            if mulG(cx, dl) != mulG(cx, d):
              return 'C02: DISCRETE_LOG %x attached to key %d is not its private key' % (dl, i)
          elif planted:
            return 'C10: structured private key %x (key %d) not flagged' % (d, i)
        return None
      sec_k.add('bsgs.weakkey $F_toy %s %s %s' % (toks, ','.join(orcs), fkeys(keys)), ans, tag=tag,
                pred=pred, always=True)
      reset(PF)

    a64, a40 = int(ct.CURVE_SECP256K1), int(ct.CURVE_BRAINPOOLP256R1)
    k64 = structured_keys(rng, ss64)
    k40 = structured_keys(rng, ss40)
    rng.shuffle(k64)
    rng.shuffle(k40)
    spec = [(a64, k64[0][0], True), (0, None, False), (a40, k40[0][0], True), (a64, rng.randrange(ss64.n), False),
            (none_ids[1], None, False), (a40, k40[1][0], True), (a64, k64[1][0], True)]
    weak_key(spec, 'toy-factory-two-curves')
    weak_key([], 'empty-batch')
    weak_key([(0, None, False), (none_ids[2], None, False)], 'no-known-curve')
    if tier == 'thorough':
      for s in range(2, len(k64), 3):
        weak_key([(a64, d, True) for d, _ in k64[s:s + 3]] + [(a40, d, True) for d, _ in k40[s:s + 2]], 'toy-factory-sweep')
  if tier == 'thorough':
    # real secp256r1 / secp192r1 keys
    for b in (sec_k,):
      pass
    keys, info = [], []
    for cx in (named[0], named[2]):
      ks = structured_keys(rng, cx)
      rng.shuffle(ks)
      for d, _ in ks[:3]:
        P = mulG(cx, d)
        keys.append(mk_eckey(id_of[cx.name], P[0], P[1]))
        info.append((cx, d))
    reset(F)
    toks = state_toks(F)
    orcs = []
    for cid, c in F.items():
      np_ = sum(1 for k in keys if k.ec_info.curve_type == cid)
      if c is None or np_ == 0:
        orcs.append('0:0')
      else:
        ts = int(math.sqrt(2**32 * np_ * len(multipliers(c.n))))
        orcs.append('%s:%s' % (H(ts), H(int(math.sqrt(ts)))))
    chk = es.CheckWeakECPrivateKey()
    ans, _ = run_check_ec(chk, keys, F)
    if ans.startswith('ok'):
      ans += ' ' + state_toks(F)

    def pred_real():
      if not ans.startswith('ok'):
        return ans
      for (cx, d), v in zip(info, ans.split(' ')[1].split(',')):
        if not v.startswith('1') or (int(v.split('|')[1], 16) - d) % cx.n:
          return 'C10: structured key %x on %s not flagged with its private key (%s)' % (d, cx.name, v)
      return None
    sec_k.add('bsgs.weakkey $F_real %s %s %s' % (toks, ','.join(orcs), fkeys(keys)), ans, tag='real-factory',
              pred=pred_real, always=True)
    reset(F)
  for b in (sec_v, sec_w, sec_d, sec_k):
    t0_ = time.time()
    div = b.run()
    rep.extra.setdefault('driver_wall_s', {})[b.name] = round(time.time() - t0_, 2)
    rep.absorb(b, div)


# ----------------------------------------------------------------------------

def correspondence(rep, rng, tier):
  from paranoid_crypto.lib import ec_util
  install_proxy(ec_util)
  named = c11.named_curves(ec_util)
  tiny = tiny_toy(ec_util, rng, 'tiny', 37, 61)
  specs = [('toy_a', 101, 160, 'm3', 1), ('toy_b', 600, 1009, 'rand', 1)]
  toys = [tiny] + [c11.find_toy(ec_util, rng, *s) for s in specs]
  toy_h2 = c11.find_toy(ec_util, rng, 'toy_h2', 101, 200, 'rand', 2)
  ss_bits = [40, 64] if tier == 'quick' else [32, 40, 64, 72, 97]
  sscurves = [find_ss(ec_util, rng, 'ss%d' % b, b) for b in ss_bits]
  rep.extra['toy_curves'] = [dict(name=c.name, a=c.params[0], b=c.params[1], p=c.p, g=list(c.g), n=c.n, h=c.h)
                             for c in toys + [toy_h2] + sscurves]
  rep.extra['section_wall_s'] = {}
  sections = [
      ('batchdl_toy', lambda: batchdl_toy(rep, rng, tier, ec_util, toys)),
      ('batchdl_named', lambda: batchdl_named(rep, rng, tier, named)),
      ('ext', lambda: ext_section(rep, rng, tier, ec_util, sscurves, named)),
      ('diff', lambda: diff_section(rep, rng, tier, toys, named)),
      ('checks', lambda: checks_section(rep, rng, tier, ec_util, toys + [toy_h2], sscurves, named)),
  ]
  for name, f in sections:
    t0 = time.time()
    f()
    rep.extra['section_wall_s'][name] = round(time.time() - t0, 1)
  for c in named:
    c.c._table, c.c._table_size = {}, 0
