"""C11 — elliptic-curve arithmetic is the group law on every input.

Correspondence of Model/Ec.lean with ec_util.EcCurve:
  * toy curves (prime order 101…1009, found by brute force, deterministic from rng; one curve of
    order 2q with cofactor 2) — EXHAUSTIVELY over the whole group;
  * the nine named curves of CURVE_FACTORY with edge operands, unreduced coordinates and the
    comb-window boundaries of BatchMultiplyG.
`pred` re-evaluates the property on the implementation against an independent textbook
chord-and-tangent implementation (class Ref below; for the toy curves additionally against the
table k -> k*G built with it) and compares reduced points.

Defect D3 (fixes/D3-ec-add-double.diff): the model mirrors the FIXED code. The classes of inputs
on which the pinned tree differs are recognised while the implementation runs (wrappers around
EcCurve.Add / Double / BatchDouble that only observe their arguments):
  add-x    Add with x1 ≡ x2 (mod p), x1 != x2 as integers        (pinned: ZeroDivisionError)
  add-y    Add with x1 == x2, y1 ≡ y2 (mod p), y1 != y2            (pinned: INFINITY instead of 2P)
  double-y Double with y ≡ 0 (mod p)                               (pinned: ZeroDivisionError)
  bdouble-y BatchDouble with y ≡ 0 (mod p), y != 0                 (pinned: ZeroDivisionError)
A divergence on such an input is reported as KNOWN-FINDING (and, for the direct operations,
only if the implementation agrees with the model of the pinned code `ec.*.pinned`).
"""
import math
import os
import gmpy2
import framework as fw
from framework import H, L, O, B, Batch, call

META = dict(
    trusted_base=[
        'Mathlib WeierstrassCurve.Affine.Point group law is the specification',
        'independent textbook chord-and-tangent implementation inside harness/corr/c11.py (pred only)',
    ],
    assumptions=[
        'model functions in Model/Ec.lean mirror ec_util.EcCurve (with fixes/D3-ec-add-double.diff applied); '
        'tie checked by this correspondence run',
        'primality of the field prime p and the group order n of the nine named curves: proved by the '
        'Lean kernel from Pratt certificates (Props/C11Primes.lean, C11.curve_primes_certified) for the '
        'numbers listed under coverage.primality_kernel_certified; for those under '
        'coverage.primality_hypothesis_gmpy2_only it remains a hypothesis of the refinement theorems '
        '([Fact p.Prime] / Nat.Prime n), validated in every run by gmpy2.is_prime(., 64)',
        'PointTable: m = int(math.sqrt(n)) is a float oracle passed to the model',
        'model domain: mod >= 1, n >= 1',
    ])

INF = (None, None)


# ----------------------------------------------------------------------------
# formatting (must match Driver/Ec.lean)

def fpt(P):
  return 'inf' if P[0] is None else '%s:%s' % (H(P[0]), H(P[1]))


def fj(P):
  return '%s:%s:%s' % (H(P[0]), H(P[1]), H(P[2]))


def fpl(ps):
  ps = list(ps)
  return ','.join(fpt(p) for p in ps) if ps else '[]'


def fjl(ps):
  ps = list(ps)
  return ','.join(fj(p) for p in ps) if ps else '[]'


def fol(xs):
  xs = list(xs)
  return ','.join(O(x) for x in xs) if xs else '[]'


def fcache(d):
  items = sorted((int(k), v) for k, v in d.items())
  return ','.join('%s=%s' % (H(k), fpt(v)) for k, v in items) if items else '[]'


def ftable(d):
  return ','.join('%s=%s' % (O(k), H(v)) for k, v in d.items()) if d else '[]'


# ----------------------------------------------------------------------------
# independent textbook arithmetic (reduced points, None = infinity)

class Ref:

  def __init__(self, a, b, p):
    self.a, self.b, self.p = int(a) % int(p), int(b) % int(p), int(p)

  def norm(self, P):
    if P is None or P[0] is None:
      return None
    return (int(P[0]) % self.p, int(P[1]) % self.p)

  def on(self, P):
    P = self.norm(P)
    if P is None:
      return True
    x, y = P
    return (y * y - (x * x * x + self.a * x + self.b)) % self.p == 0

  def neg(self, P):
    P = self.norm(P)
    return None if P is None else (P[0], (-P[1]) % self.p)

  def add(self, P, Q):
    P, Q = self.norm(P), self.norm(Q)
    p = self.p
    if P is None:
      return Q
    if Q is None:
      return P
    if P[0] == Q[0]:
      if (P[1] + Q[1]) % p == 0:
        return None
      lam = (3 * P[0] * P[0] + self.a) * pow(2 * P[1], -1, p) % p
    else:
      lam = (Q[1] - P[1]) * pow(Q[0] - P[0], -1, p) % p
    x = (lam * lam - P[0] - Q[0]) % p
    return (x, (lam * (P[0] - x) - P[1]) % p)

  def mul(self, P, k):
    P = self.norm(P)
    if k < 0:
      return self.mul(self.neg(P), -k)
    R = None
    for bit in bin(k)[2:]:     # msb first (the code under test goes lsb first)
      R = self.add(R, R)
      if bit == '1':
        R = self.add(R, P)
    return R


# ----------------------------------------------------------------------------
# D3 watch

class Watch:
  flags = set()
  installed = None

  @classmethod
  def install(cls, ec_util):
    if cls.installed is ec_util.EcCurve:
      return
    E = ec_util.EcCurve
    o_add, o_double, o_bdouble = E.Add, E.Double, E.BatchDouble

    def Add(self, p, q):
      if p != INF and q != INF:
        if p[0] != q[0] and (p[0] - q[0]) % self.mod == 0:
          cls.flags.add('add-x')
        elif p[0] == q[0] and p[1] != q[1] and (p[1] - q[1]) % self.mod == 0:
          cls.flags.add('add-y')
      return o_add(self, p, q)

    def Double(self, p):
      if p != INF and p[1] % self.mod == 0:
        cls.flags.add('double-y')
      return o_double(self, p)

    def BatchDouble(self, p_list):
      for p in p_list:
        if p != INF and p[1] != 0 and p[1] % self.mod == 0:
          cls.flags.add('bdouble-y')
      return o_bdouble(self, p_list)

    E.Add, E.Double, E.BatchDouble = Add, Double, BatchDouble
    cls.installed = E



def _d3(rep, line, text):
  """pinned D3 behaviour: KNOWN-FINDING only while listed in known_findings.json."""
  if any(f.get('id') == 'D3' for f in fw.load_known_findings()):
    rep.known.append(text)
  else:
    rep.violations.append(dict(op='ec.d3', line=line, what=text, impl='pinned', model='repaired',
                               info=None))


class Known:
  """collects divergences that fall in the D3 input classes."""

  def __init__(self):
    self.classes = {}
    self.pinned_check = []   # (pinned line, impl answer, item)

  def note(self, flags, it):
    key = '+'.join(sorted(flags))
    c = self.classes.setdefault(key, dict(count=0, sample=None))
    c['count'] += 1
    if c['sample'] is None:
      c['sample'] = dict(line=it['line'], impl=it['impl'], model=it['model'])


PINNED_OPS = {'ec.add': 'ec.add.pinned', 'ec.double': 'ec.double.pinned',
              'ec.batchdouble': 'ec.batchdouble.pinned'}


# ----------------------------------------------------------------------------
# curves

class Ctx:

  def __init__(self, ec_util, name, a, b, p, gx, gy, n, h, curve=None):
    self.name = name
    self.reg = 'C_' + ''.join(ch if ch.isalnum() else '_' for ch in name)
    self.params = [int(a), int(b), int(p), int(gx), int(gy), int(n), int(h)]
    self.c = curve if curve is not None else ec_util.EcCurve(name, a, b, p, gx, gy, n, h)
    self.p, self.n, self.h = int(p), int(n), int(h)
    self.g = (int(gx), int(gy))
    self.ref = Ref(a, b, p)
    self.table = None       # toy: list k -> k*G_full (reduced, None = inf) over the WHOLE group
    self.index = None

  def let(self, b):
    b.let(self.reg, L(self.params))

  @property
  def C(self):
    return '$' + self.reg


def small_primes(lo, hi):
  return [q for q in range(lo, hi) if gmpy2.is_prime(q)]


def curve_points(a, b, p):
  roots = {}
  for y in range(p):
    roots.setdefault(y * y % p, []).append(y)
  pts = []
  for x in range(p):
    for y in roots.get((x * x * x + a * x + b) % p, []):
      pts.append((x, y))
  return pts


def find_toy(ec_util, rng, name, lo, hi, akind, cof=1):
  """random curve over a random prime field with group order cof*q, q prime in [lo, hi]."""
  primes = small_primes(max(5, cof * lo - 70), cof * hi + 70)
  for _ in range(200000):
    p = rng.choice(primes)
    if akind == 'zero' and p % 3 != 1:
      continue
    a = {'m3': -3, 'pm3': p - 3, 'zero': 0, 'rand': rng.randrange(1, p)}[akind]
    b = rng.randrange(1, p)
    if (4 * a * a * a + 27 * b * b) % p == 0:
      continue
    pts = curve_points(a % p, b, p)
    order = len(pts) + 1
    if order % cof or not gmpy2.is_prime(order // cof) or not lo <= order // cof <= hi:
      continue
    ref = Ref(a, b, p)
    # a generator of the whole (cyclic) group
    rng.shuffle(pts)
    gen = None
    for P in pts:
      if all(ref.mul(P, order // f) is not None for f in set([cof, order // cof]) if f > 1):
        gen = P
        break
    if gen is None:
      continue
    table = [None]
    for _k in range(1, order):
      table.append(ref.add(table[-1], gen))
    assert ref.add(table[-1], gen) is None and len(set(table)) == order
    g = table[cof]
    ctx = Ctx(ec_util, name, a, b, p, g[0], g[1], order // cof, cof)
    ctx.table = table
    ctx.index = {P: k for k, P in enumerate(table)}
    ctx.order = order
    return ctx
  raise RuntimeError('no toy curve found')


def toy_curves(ec_util, rng, tier):
  specs = [('toy_m3', 101, 160, 'm3', 1), ('toy_rand', 300, 560, 'rand', 1),
           ('toy_zero', 160, 300, 'zero', 1), ('toy_pm3', 900, 1009, 'pm3', 1),
           ('toy_h2', 101, 200, 'rand', 2)]
  if tier == 'thorough':
    specs += [('toy_m3b', 560, 900, 'm3', 1), ('toy_randb', 101, 1009, 'rand', 1)]
  return [find_toy(ec_util, rng, *s) for s in specs]


def named_curves(ec_util):
  out = []
  for k, c in ec_util.CURVE_FACTORY.items():
    if c is None:
      continue
    ctx = Ctx(ec_util, c.name, c.a, c.b, c.mod, c.g[0], c.g[1], c.n, c.h, curve=c)
    out.append(ctx)
  return out


# ----------------------------------------------------------------------------
# case helper

class Cases:
  """wraps a Batch: runs the implementation under the D3 watch and records the flags."""

  def __init__(self, name, ctxs, known):
    self.b = Batch(name)
    self.known = known
    for c in ctxs:
      c.let(self.b)

  def add(self, line, fmt, f, args, tag='', pred=None, ok_prefix=True):
    Watch.flags = set()
    if ok_prefix:
      ans = call(fmt, f, *args)
    else:
      ans = fmt(f(*args))
    flags = set(Watch.flags)
    self.b.add(line, ans, tag=tag + ('|d3' if flags else ''), pred=pred,
               info={'d3': sorted(flags)} if flags else None)
    return ans

  def finish(self, rep):
    import time
    t0 = time.time()
    div = self.b.run()
    rep.extra.setdefault('driver_wall_s', {})[self.b.name] = round(time.time() - t0, 2)
    real = []
    regs = dict(l.split(' ')[1:3] for l in self.b.setup_lines)
    for it in div:
      used = {k: v for k, v in regs.items() if ('$' + k) in it['line'].split(' ')}
      it['info'] = dict(it['info'] or {}, registers=used)
      flags = (it['info'] or {}).get('d3')
      if flags:
        op = it['line'].split(' ', 1)[0]
        if op in PINNED_OPS:
          self.known.pinned_check.append((PINNED_OPS[op] + ' ' + it['line'].split(' ', 1)[1],
                                          it, self.b.setup_lines))
        else:
          self.known.note(flags, it)
      else:
        real.append(it)
    rep.absorb(self.b, real)


def pred_point(ref, get, expected):
  """impl result (affine point) must equal the textbook point `expected` (reduced)."""
  def pred():
    exp = expected() if callable(expected) else expected
    try:
      r = get()
    except Exception as e:  # noqa
      return 'raised %r; textbook result is %s' % (e, exp)
    if ref.norm(r) != exp:
      return 'returned %s; textbook result is %s' % (ref.norm(r), exp)
    return None
  return pred


def pred_points(ref, get, expected):
  def pred():
    exp = list(expected() if callable(expected) else expected)
    try:
      r = get()
    except Exception as e:  # noqa
      return 'raised %r; textbook result is %s' % (e, exp[:8])
    got = [ref.norm(P) for P in r]
    if got != exp:
      bad = [i for i in range(min(len(got), len(exp))) if got[i] != exp[i]]
      return 'returned list differs from textbook list at indices %s (len %d vs %d)' % (
          bad[:5], len(got), len(exp))
    return None
  return pred


def pred_xs(ref, get, expected_pts):
  def pred():
    pts = expected_pts() if callable(expected_pts) else expected_pts
    exp = [None if P is None else P[0] for P in pts]
    try:
      r = get()
    except Exception as e:  # noqa
      return 'raised %r; textbook x-coordinates are %s' % (e, exp[:8])
    got = [None if x is None else int(x) % ref.p for x in r]
    if got != exp:
      return 'x-coordinates differ from textbook: %s vs %s' % (got[:8], exp[:8])
    return None
  return pred


def unreduced(rng, ctx, P, kind=None):
  """same point with unreduced coordinates."""
  if P is None or P[0] is None:
    return INF
  p = ctx.p
  kind = kind if kind is not None else rng.randrange(6)
  x, y = int(P[0]), int(P[1])
  return [(x + p, y), (x, y + p), (x - p, y - p), (x + 2 * p, y + 3 * p), (x - 5 * p, y),
          (x + p * rng.randrange(1, 2**16), y - p * rng.randrange(1, 2**16))][kind]


def to_py(P):
  return INF if (P is None or P[0] is None) else (gmpy2.mpz(P[0]), gmpy2.mpz(P[1]))


def jac_forms(rng, ctx, P):
  """Jacobian representations of an affine point (None = inf), incl. degenerate ones."""
  p = ctx.p
  out = []
  if P is None:
    z = rng.randrange(1, p)
    out += [(1, 1, 0), (z * z % p, z * z * z % p, 0), (rng.randrange(1, p), 0, 0), (0, rng.randrange(1, p), 0)]
  else:
    x, y = P
    for z in (1, p - 1, rng.randrange(2, p), rng.randrange(2, p)):
      out.append((x * z * z % p, y * z * z * z % p, z))
    z = rng.randrange(2, p)
    out.append((x * z * z % p + p, y * z * z * z % p - p, z))        # unreduced x, y
    out.append((x * z * z, y * z * z * z, z - p))                     # negative z, unreduced products
  return out


# ----------------------------------------------------------------------------
# the correspondence proper

def affine_ops(rep, rng, tier, ctxs_toy, ctxs_named, known):
  allc = ctxs_toy + ctxs_named
  cs_on = Cases('ec.oncurve', allc, known)
  cs_neg = Cases('ec.neg', allc, known)
  cs_dbl = Cases('ec.double', allc, known)
  cs_add = Cases('ec.add', allc, known)
  cs_sub = Cases('ec.sub', allc, known)
  cs_val = Cases('ec.validkey', allc, known)

  def one_pair(ctx, P, Q, eP, eQ, tag, oncurve=True):
    """P, Q python points (possibly unreduced); eP, eQ reduced textbook points or None."""
    c, ref = ctx.c, ctx.ref
    exp = ref.add(eP, eQ) if oncurve else None
    cs_add.add('ec.add %s %s %s' % (ctx.C, fpt(P), fpt(Q)), fpt, c.Add, (P, Q), tag=tag,
               pred=pred_point(ref, lambda: c.Add(P, Q), exp) if oncurve else None)
    exps = ref.add(eP, ref.neg(eQ)) if oncurve else None
    cs_sub.add('ec.sub %s %s %s' % (ctx.C, fpt(P), fpt(Q)), fpt, c.Subtract, (P, Q), tag=tag,
               pred=pred_point(ref, lambda: c.Subtract(P, Q), exps) if oncurve else None)

  def one_point(ctx, P, eP, tag, oncurve=True):
    c, ref = ctx.c, ctx.ref
    cs_on.add('ec.oncurve %s %s' % (ctx.C, fpt(P)), B, c.OnCurve, (P,), tag=tag, ok_prefix=False,
              pred=(lambda: None if bool(c.OnCurve(P)) == ref.on(P) else 'OnCurve disagrees with the curve equation'))
    cs_neg.add('ec.neg %s %s' % (ctx.C, fpt(P)), fpt, c.Negate, (P,), tag=tag, ok_prefix=False,
               pred=pred_point(ref, lambda: c.Negate(P), ref.neg(eP)) if oncurve else None)
    cs_dbl.add('ec.double %s %s' % (ctx.C, fpt(P)), fpt, c.Double, (P,), tag=tag,
               pred=pred_point(ref, lambda: c.Double(P), ref.add(eP, eP)) if oncurve else None)

    def exp_valid():
      if not oncurve or eP is None:
        return False
      if ctx.h > 1 and ref.mul(eP, ctx.n) is not None:
        return False
      return 0 <= P[0] <= ctx.p - 1 and 0 <= P[1] <= ctx.p - 1
    cs_val.add('ec.validkey %s %s' % (ctx.C, fpt(P)), B, c.IsValidPublicKey, (P,), tag=tag,
               pred=(lambda: None if bool(c.IsValidPublicKey(P)) == exp_valid()
                     else 'IsValidPublicKey != %s' % exp_valid()))

  # --- toy curves: every point, every pair
  for ti, ctx in enumerate(ctxs_toy):
    tab = ctx.table
    N = len(tab)
    for k, P in enumerate(tab):
      one_point(ctx, to_py(P), P, 'toy')
      U = unreduced(rng, ctx, P)
      one_point(ctx, to_py(U) if U != INF else INF, P, 'toy-unreduced')
    full = N <= (620 if tier == 'thorough' else 260)
    if full:
      pairs = ((i, j) for i in range(N) for j in range(N))
    else:
      # every pair through the batched operations (below); here: all special pairs + a sample
      sp = set()
      for i in range(N):
        sp.update([(i, i), (i, (N - i) % N), (i, 0), (0, i), (i, (i + 1) % N), (i, (2 * i) % N)])
      for _ in range(12000 if tier == 'quick' else 60000):
        sp.add((rng.randrange(N), rng.randrange(N)))
      pairs = sorted(sp)
    for i, j in pairs:
      tag = ('inf' if i == 0 or j == 0 else 'equal' if i == j else
             'opposite' if (i + j) % N == 0 else 'generic')
      one_pair(ctx, to_py(tab[i]), to_py(tab[j]), tab[i], tab[j], 'toy-' + tag)
    # unreduced pairs: congruent-but-different coordinates in every relation
    for _ in range(400):
      i = rng.randrange(N)
      j = rng.choice([i, (N - i) % N, rng.randrange(N), rng.randrange(N)])
      P = unreduced(rng, ctx, tab[i]) if rng.random() < 0.7 else to_py(tab[i])
      Q = unreduced(rng, ctx, tab[j]) if rng.random() < 0.7 else to_py(tab[j])
      tag = ('inf' if i == 0 or j == 0 else 'equal' if i == j else
             'opposite' if (i + j) % N == 0 else 'generic')
      one_pair(ctx, to_py(P) if P != INF else INF, to_py(Q) if Q != INF else INF, tab[i], tab[j],
               'toy-unreduced-' + tag)
    # off-curve points (no textbook answer; model must still agree), incl. y = 0 and x = p
    for _ in range(150):
      P = (rng.randrange(-ctx.p, 2 * ctx.p), rng.choice([0, ctx.p, rng.randrange(ctx.p)]))
      Q = rng.choice([P, (P[0] + ctx.p, P[1]), (P[0], -P[1]), (rng.randrange(ctx.p), rng.randrange(ctx.p)), INF])
      if ctx.ref.on(P) and (Q == INF or ctx.ref.on(Q)):
        continue
      one_pair(ctx, P, Q, None, None, 'toy-offcurve', oncurve=False)
      one_point(ctx, P, None, 'toy-offcurve', oncurve=ctx.ref.on(P) and False)

  # --- named curves: edge operands
  for ctx in ctxs_named:
    ref, p, n = ctx.ref, ctx.p, ctx.n
    G = ctx.g
    ks = [0, 1, 2, 3, n - 1, n - 2, (n + 1) // 2, rng.randrange(1, n), rng.randrange(1, n)]
    pts = {k: ref.mul(G, k) for k in ks}
    for k in ks:
      P = pts[k]
      one_point(ctx, to_py(P), P, 'named')
      for kind in (0, 1, 2, 5):
        U = unreduced(rng, ctx, P, kind)
        one_point(ctx, to_py(U) if U != INF else INF, P, 'named-unreduced')
    for k1 in ks:
      for k2 in ks:
        P, Q = pts[k1], pts[k2]
        tag = ('inf' if P is None or Q is None else 'equal' if P == Q else
               'opposite' if ref.neg(P) == Q else 'generic')
        one_pair(ctx, to_py(P), to_py(Q), P, Q, 'named-' + tag)
        if rng.random() < 0.5:
          U = unreduced(rng, ctx, P)
          V = unreduced(rng, ctx, Q) if rng.random() < 0.5 else to_py(Q)
          one_pair(ctx, to_py(U) if U != INF else INF, to_py(V) if V != INF else INF, P, Q,
                   'named-unreduced-' + tag)
    # D3 replays: (x_P + p, y_P) and (5, 0)
    one_pair(ctx, to_py(G), (gmpy2.mpz(G[0] + p), gmpy2.mpz(G[1])), G, G, 'named-D3')
    one_pair(ctx, (5, 0), (5, 0), None, None, 'named-D3-offcurve', oncurve=False)
    one_point(ctx, (5, 0), None, 'named-D3-offcurve', oncurve=False)
    one_point(ctx, (gmpy2.mpz(p), gmpy2.mpz(1)), None, 'named-offcurve', oncurve=False)
    one_point(ctx, (G[0], -G[1]), ref.neg(G), 'named-negative-y')
  for cs in (cs_on, cs_neg, cs_dbl, cs_add, cs_sub, cs_val):
    cs.finish(rep)


def jacobian_ops(rep, rng, tier, ctxs_toy, ctxs_named, known):
  allc = ctxs_toy + ctxs_named
  cs_aj = Cases('ec.addj', allc, known)
  cs_dj = Cases('ec.doublej', allc, known)
  cs_ja = Cases('ec.j2a', allc, known)
  cs_a2j = Cases('ec.a2j', allc, known)

  def j2a_norm(ctx, J):
    """textbook reading of a Jacobian triple: None for z ≡ 0."""
    p = ctx.p
    x, y, z = (int(v) for v in J)
    if z % p == 0:
      return None
    w = pow(z, -1, p)
    return (x * w * w % p, y * w * w * w % p)

  def valid_j(ctx, J):
    return int(J[2]) == 0 or int(J[2]) % ctx.p != 0

  def pair(ctx, J1, J2, e1, e2, tag, oncurve=True):
    c, ref = ctx.c, ctx.ref
    J1 = tuple(gmpy2.mpz(v) for v in J1)
    J2 = tuple(gmpy2.mpz(v) for v in J2)
    ok = oncurve and valid_j(ctx, J1) and valid_j(ctx, J2)
    exp = ref.add(e1, e2) if ok else None
    cs_aj.add('ec.addj %s %s %s' % (ctx.C, fj(J1), fj(J2)), fj, c.AddJacobian, (J1, J2), tag=tag,
              ok_prefix=False,
              pred=(lambda: None if j2a_norm(ctx, c.AddJacobian(J1, J2)) == exp
                    else 'AddJacobian result is not the textbook sum %s' % (exp,)) if ok else None)

  def single(ctx, J, e, tag, oncurve=True):
    c, ref = ctx.c, ctx.ref
    J = tuple(gmpy2.mpz(v) for v in J)
    ok = oncurve and valid_j(ctx, J)
    exp = ref.add(e, e) if ok else None
    cs_dj.add('ec.doublej %s %s' % (ctx.C, fj(J)), fj, c.DoubleJacobian, (J,), tag=tag,
              ok_prefix=False,
              pred=(lambda: None if j2a_norm(ctx, c.DoubleJacobian(J)) == exp
                    else 'DoubleJacobian result is not the textbook double %s' % (exp,)) if ok else None)
    cs_ja.add('ec.j2a %s %s' % (ctx.C, fj(J)), fpt, c.JacobianToAffine, (J,), tag=tag,
              pred=pred_point(ref, lambda: c.JacobianToAffine(J), e) if ok and tuple(J) != (0, 0, 0) else None)

  for ctx in ctxs_toy:
    tab = ctx.table
    N = len(tab)
    for k, P in enumerate(tab):
      cs_a2j.add('ec.a2j %s' % fpt(to_py(P)), fj, ctx.c.AffineToJacobian, (to_py(P),), tag='toy',
                 ok_prefix=False)
      for J in jac_forms(rng, ctx, P):
        single(ctx, J, P, 'toy')
    full = N <= (420 if tier == 'thorough' else 160)
    if full:
      pairs = [(i, j) for i in range(N) for j in range(N)]
    else:
      sp = set()
      for i in range(N):
        sp.update([(i, i), (i, (N - i) % N), (i, 0), (0, i), (i, (i + 1) % N)])
      for _ in range(6000 if tier == 'quick' else 40000):
        sp.add((rng.randrange(N), rng.randrange(N)))
      pairs = sorted(sp)
    for i, j in pairs:
      tag = ('inf' if i == 0 or j == 0 else 'equal' if i == j else
             'opposite' if (i + j) % N == 0 else 'generic')
      J1 = rng.choice(jac_forms(rng, ctx, tab[i]))
      J2 = rng.choice(jac_forms(rng, ctx, tab[j]))
      pair(ctx, J1, J2, tab[i], tab[j], 'toy-' + tag)
    # degenerate triples: (0,0,0), z = p, y = p
    for _ in range(60):
      P = tab[rng.randrange(1, N)]
      J = rng.choice(jac_forms(rng, ctx, P))
      for D in ((0, 0, 0), (J[0], J[1], ctx.p), (J[0], J[1], 2 * ctx.p), (J[0], ctx.p, J[2]), (J[0], 0, J[2]),
                (ctx.p, ctx.p, ctx.p)):
        single(ctx, D, None, 'toy-degenerate', oncurve=False)
        pair(ctx, D, J, None, None, 'toy-degenerate', oncurve=False)
        pair(ctx, J, D, None, None, 'toy-degenerate', oncurve=False)
  for ctx in ctxs_named:
    ref, n = ctx.ref, ctx.n
    ks = [0, 1, 2, n - 1, n - 2, rng.randrange(1, n), rng.randrange(1, n)]
    pts = {k: ref.mul(ctx.g, k) for k in ks}
    for k in ks:
      for J in jac_forms(rng, ctx, pts[k]):
        single(ctx, J, pts[k], 'named')
    for k1 in ks:
      for k2 in ks:
        P, Q = pts[k1], pts[k2]
        tag = ('inf' if P is None or Q is None else 'equal' if P == Q else
               'opposite' if ref.neg(P) == Q else 'generic')
        for _ in range(2):
          pair(ctx, rng.choice(jac_forms(rng, ctx, P)), rng.choice(jac_forms(rng, ctx, Q)), P, Q,
               'named-' + tag)
    single(ctx, (0, 0, 0), None, 'named-degenerate', oncurve=False)
    single(ctx, (1, ctx.p, 1), None, 'named-degenerate', oncurve=False)
  for cs in (cs_a2j, cs_aj, cs_dj, cs_ja):
    cs.finish(rep)


def comb_params(ctx):
  n = ctx.n
  steps = (n.bit_length() + 7) // 8
  mask = sum(1 << j for j in range(0, n.bit_length(), steps))
  return steps, mask


def scalar_pool(rng, ctx, count):
  n = ctx.n
  steps, mask = comb_params(ctx)
  pool = [0, 1, -1, 2, -2, 3, n - 1, n, n + 1, -n, -n - 1, 1 - n, 2 * n, 2 * n + 1, -2 * n, 3 * n - 1,
          mask, mask - 1, mask + 1, (mask << 1) % n, n // 2, (n + 1) // 2]
  for j in range(0, n.bit_length() // steps + 2):
    for d in (-1, 0, 1):
      pool.append(2 ** (steps * j) + d)
  for i in range(0, steps + 1):
    pool.append((mask << i) & (2 ** n.bit_length() - 1))
  for _ in range(count):
    pool.append(rng.randrange(-2 * n, 2 * n))
    pool.append(rng.getrandbits(rng.randrange(1, n.bit_length() + 3)))
  return pool


def multiply_ops(rep, rng, tier, ctxs_toy, ctxs_named, known):
  allc = ctxs_toy + ctxs_named
  cs_m = Cases('ec.mul', allc, known)
  cs_ma = Cases('ec.mulaffine', allc, known)

  def one(ctx, P, eP, k, tag, expected, affine=True):
    c, ref = ctx.c, ctx.ref
    k = int(k)
    cs_m.add('ec.mul %s %s %s' % (ctx.C, fpt(P), H(k)), fpt, c.Multiply, (P, k), tag=tag,
             pred=pred_point(ref, lambda: c.Multiply(P, k), expected) if expected != 'skip' else None)
    if affine:
      cs_ma.add('ec.mulaffine %s %s %s' % (ctx.C, fpt(P), H(k)), fpt, c.MultiplyAffine, (P, k), tag=tag,
                pred=pred_point(ref, lambda: c.MultiplyAffine(P, k), expected) if expected != 'skip' else None)

  for ctx in ctxs_toy:
    tab = ctx.table
    N = len(tab)
    exhaustive = N <= (320 if tier == 'thorough' else 160)
    for i, P in enumerate(tab):
      if exhaustive:
        ks = range(-2 * N, 2 * N + 1) if tier == 'thorough' else range(-N - 3, 2 * N + 4)
      else:
        ks = sorted(set([0, 1, -1, 2, -2, N - 1, N, N + 1, -N, 2 * N, -2 * N, 2 * N - 1, ctx.n, -ctx.n] +
                        [rng.randrange(-2 * N, 2 * N + 1) for _ in range(4 if tier == 'quick' else 40)]))
      for k in ks:
        tag = 'zero' if k == 0 else 'neg' if k < 0 else 'multiple-of-order' if k % N == 0 else 'ge-order' if k >= N else 'pos'
        one(ctx, to_py(P), P, k, 'toy-' + tag, tab[(i * k) % N],
            affine=(tier == 'thorough' or not exhaustive or abs(k) <= N + 1))
      for k in (rng.randrange(-2 * N, 2 * N), N, 0, -3):
        U = unreduced(rng, ctx, P)
        one(ctx, to_py(U) if U != INF else INF, P, k, 'toy-unreduced', tab[(i * k) % N])
    for _ in range(40):
      P = (rng.randrange(-ctx.p, 2 * ctx.p), rng.choice([0, ctx.p, rng.randrange(ctx.p)]))
      if not ctx.ref.on(P):
        one(ctx, P, None, rng.randrange(-20, 20), 'toy-offcurve', 'skip')
  for ctx in ctxs_named:
    ref, n = ctx.ref, ctx.n
    G = ctx.g
    pool = scalar_pool(rng, ctx, 6 if tier == 'quick' else 40)
    for k in pool:
      tag = 'zero' if k == 0 else 'neg' if k < 0 else 'multiple-of-order' if k % n == 0 else 'ge-order' if k >= n else 'pos'
      # the affine ladder is ~30x slower in Python: only a subset
      one(ctx, to_py(G), G, k, 'named-' + tag, (lambda k=k, ref=ref, G=G: ref.mul(G, k)), affine=(abs(k) < 2**64 or rng.random() < 0.15))
    for kP in (2, n - 1, rng.randrange(1, n)):
      P = ref.mul(G, kP)
      for k in [0, 1, -1, n, n + 1, -n, rng.randrange(-2 * n, 2 * n)]:
        one(ctx, to_py(P), P, k, 'named-point', (lambda P=P, k=k, ref=ref: ref.mul(P, k)), affine=abs(k) < 2**16)
      U = unreduced(rng, ctx, P)
      for k in (2, 3, n - 1, rng.randrange(n)):
        one(ctx, to_py(U), P, k, 'named-unreduced', (lambda P=P, k=k, ref=ref: ref.mul(P, k)), affine=abs(k) < 2**16)
    one(ctx, INF, None, rng.randrange(n), 'named-inf', None)
    one(ctx, (1, ctx.p), None, 2, 'named-offcurve', 'skip')      # DESIGN section 6: ValueError path
    one(ctx, (1, ctx.p), None, 3, 'named-offcurve', 'skip')
  cs_m.finish(rep)
  cs_ma.finish(rep)


def mixed_list(rng, ctx, base_pts, length, P0=None):
  """list of (python point, textbook point) mixing ∞, P0, -P0, duplicates, unreduced."""
  ref = ctx.ref
  out = []
  for _ in range(length):
    r = rng.random()
    if r < 0.15:
      e = None
    elif r < 0.3 and P0 is not None:
      e = P0
    elif r < 0.45 and P0 is not None:
      e = ref.neg(P0)
    elif r < 0.55 and out:
      e = rng.choice(out)[1]
    else:
      e = rng.choice(base_pts)
    if e is None:
      out.append((INF, None))
    elif rng.random() < 0.25:
      out.append((to_py(unreduced(rng, ctx, e)), e))
    else:
      out.append((to_py(e), e))
  return out


def batch_ops(rep, rng, tier, ctxs_toy, ctxs_named, known):
  allc = ctxs_toy + ctxs_named
  cs_inv = Cases('ec.batchinverse', allc, known)
  cs_al = Cases('ec.batchaddlist', allc, known)
  cs_bd = Cases('ec.batchdouble', allc, known)
  cs_ba = Cases('ec.batchadd', allc, known)
  cs_bx = Cases('ec.batchaddx', allc, known)
  cs_bs = Cases('ec.batchaddsubx', allc, known)
  cs_jx = Cases('ec.batchj2x', allc, known)
  cs_ja = Cases('ec.batchj2a', allc, known)

  def inv_case(ctx, vals, tag):
    c, p = ctx.c, ctx.p
    vals = [None if v is None else gmpy2.mpz(v) for v in vals]

    def pred():
      try:
        r = c.BatchInverse(list(vals))
      except ZeroDivisionError:
        if any(v is not None and v != 0 and v % p == 0 for v in vals):
          return None
        return 'BatchInverse raised although every non-zero entry is invertible'
      except Exception as e:  # noqa
        return 'BatchInverse raised %r' % (e,)
      for v, w in zip(vals, r):
        if not v:
          if w is not None:
            return 'entry for None/0 is %s' % (w,)
        elif w is None or not (0 <= w < p) or (v * w) % p != 1 % p:
          return 'entry %s is not the inverse of %s' % (w, v)
      return None
    cs_inv.add('ec.batchinverse %s %s' % (ctx.C, fol(vals)), fol, c.BatchInverse, (list(vals),), tag=tag, pred=pred)

  def with_p(ctx, P, eP, lst, tag):
    c, ref = ctx.c, ctx.ref
    pts = [x[0] for x in lst]
    exp = [ref.add(eP, x[1]) for x in lst]
    exps = [ref.add(eP, ref.neg(x[1])) for x in lst]
    cs_ba.add('ec.batchadd %s %s %s' % (ctx.C, fpt(P), fpl(pts)), fpl, c.BatchAdd, (P, list(pts)), tag=tag,
              pred=pred_points(ref, lambda: c.BatchAdd(P, list(pts)), exp))
    cs_bx.add('ec.batchaddx %s %s %s' % (ctx.C, fpt(P), fpl(pts)), fol, c.BatchAddX, (P, list(pts)), tag=tag,
              pred=pred_xs(ref, lambda: c.BatchAddX(P, list(pts)), exp))

    def pred_as():
      try:
        s, d = c.BatchAddSubtractX(P, list(pts))
      except Exception as e:  # noqa
        return 'raised %r' % (e,)
      return (pred_xs(ref, lambda: s, exp)() or pred_xs(ref, lambda: d, exps)())
    cs_bs.add('ec.batchaddsubx %s %s %s' % (ctx.C, fpt(P), fpl(pts)),
              lambda r: fol(r[0]) + ' ' + fol(r[1]), c.BatchAddSubtractX, (P, list(pts)), tag=tag, pred=pred_as)

  def lists(ctx, l1, l2, tag):
    c, ref = ctx.c, ctx.ref
    p1 = [x[0] for x in l1]
    p2 = [x[0] for x in l2]
    exp = [ref.add(a[1], b[1]) for a, b in zip(l1, l2)] if len(l1) == len(l2) else None
    cs_al.add('ec.batchaddlist %s %s %s' % (ctx.C, fpl(p1), fpl(p2)), fpl, c.BatchAddList, (list(p1), list(p2)),
              tag=tag, pred=pred_points(ref, lambda: c.BatchAddList(list(p1), list(p2)), exp) if exp is not None else None)
    expd = [ref.add(a[1], a[1]) for a in l1]
    cs_bd.add('ec.batchdouble %s %s' % (ctx.C, fpl(p1)), fpl, c.BatchDouble, (list(p1),), tag=tag,
              pred=pred_points(ref, lambda: c.BatchDouble(list(p1)), expd))

  def jlists(ctx, lst, tag, valid=True):
    c, ref = ctx.c, ctx.ref
    js = [tuple(gmpy2.mpz(v) for v in x[0]) for x in lst]
    exp = [x[1] for x in lst]
    cs_ja.add('ec.batchj2a %s %s' % (ctx.C, fjl(js)), fpl, c.BatchJacobianToAffine, (list(js),), tag=tag,
              pred=pred_points(ref, lambda: c.BatchJacobianToAffine(list(js)), exp) if valid else None)
    cs_jx.add('ec.batchj2x %s %s' % (ctx.C, fjl(js)), fol, c.BatchJacobianToX, (list(js),), tag=tag,
              pred=pred_xs(ref, lambda: c.BatchJacobianToX(list(js)), exp) if valid else None)

  for ctx in ctxs_toy + ctxs_named:
    p = ctx.p
    toy = ctx.table is not None
    if toy:
      base = ctx.table
    else:
      base = [ctx.ref.mul(ctx.g, k) for k in (0, 1, 2, 3, ctx.n - 1, ctx.n - 2, rng.randrange(1, ctx.n),
                                               rng.randrange(1, ctx.n), rng.randrange(1, ctx.n))]
    pre = 'toy' if toy else 'named'
    # BatchInverse
    reps = (40 if toy else 10) * (4 if tier == 'thorough' else 1)
    for _ in range(reps):
      ln = rng.choice([0, 1, 2, 3, 8, 33])
      vals = []
      for _ in range(ln):
        r = rng.random()
        vals.append(None if r < 0.15 else 0 if r < 0.3 else rng.randrange(1, p) if r < 0.8 else
                    rng.randrange(1, p) + p * rng.randrange(-3, 4) if r < 0.93 else 1 if r < 0.96 else p - 1)
      inv_case(ctx, vals, pre)
    inv_case(ctx, [3, p, 5], pre + '-zero-mod-p')
    inv_case(ctx, [None, 2 * p], pre + '-zero-mod-p')
    inv_case(ctx, [None, None, 0], pre + '-all-skipped')
    # exhaustive: P + every point of the group, for every P (toy) / edge operands (named)
    if toy:
      N = len(base)
      allpts = [(to_py(Q), Q) for Q in base]
      step = 1 if (tier == 'thorough' or N <= 600) else 3
      for i in range(0, N, step):
        with_p(ctx, to_py(base[i]), base[i], allpts, 'toy-all')
      with_p(ctx, to_py(unreduced(rng, ctx, base[5])), base[5],
             [(to_py(unreduced(rng, ctx, Q)), Q) for Q in base], 'toy-all-unreduced')
      lists(ctx, allpts, allpts[::-1], 'toy-all')
      lists(ctx, allpts, allpts, 'toy-all-equal')
      lists(ctx, allpts, [(to_py(ctx.ref.neg(Q)), ctx.ref.neg(Q)) for Q in base], 'toy-all-opposite')
      for s in range(1, N, max(1, N // 25)):
        lists(ctx, allpts, allpts[s:] + allpts[:s], 'toy-all-shift')
    for _ in range((30 if toy else 12) * (4 if tier == 'thorough' else 1)):
      P0 = rng.choice(base)
      ln = rng.choice([0, 1, 2, 5, 17])
      l1 = mixed_list(rng, ctx, base, ln, P0)
      l2 = mixed_list(rng, ctx, base, ln, P0)
      # make sure equal / opposite / inf pairs occur in the same list
      for idx in range(ln):
        r = rng.random()
        if r < 0.15:
          l2[idx] = l1[idx]
        elif r < 0.3 and l1[idx][1] is not None:
          e = ctx.ref.neg(l1[idx][1])
          l2[idx] = (to_py(e), e)
        elif r < 0.4 and l1[idx][1] is not None:
          l2[idx] = (to_py(unreduced(rng, ctx, l1[idx][1])), l1[idx][1])
      lists(ctx, l1, l2, pre + '-mixed')
      Ppy = to_py(P0) if rng.random() < 0.7 else (to_py(unreduced(rng, ctx, P0)) if P0 is not None else INF)
      with_p(ctx, Ppy, P0, l1, pre + '-mixed')
    lists(ctx, mixed_list(rng, ctx, base, 3), mixed_list(rng, ctx, base, 2), pre + '-length-mismatch')
    # D3 class bdouble-y: y ≡ 0 (mod p) with y != 0, next to ordinary entries (off-curve: no pred)
    cs_bd.add('ec.batchdouble %s %s' % (ctx.C, fpl([(5, p), to_py(base[1]), INF, (7, 0), (7, -2 * p)])), fpl,
              ctx.c.BatchDouble, ([(5, p), to_py(base[1]), INF, (7, 0), (7, -2 * p)],), tag=pre + '-y-zero-mod-p')
    # Jacobian batches
    for _ in range((20 if toy else 8) * (4 if tier == 'thorough' else 1)):
      ln = rng.choice([0, 1, 2, 6, 20])
      lst = []
      for _ in range(ln):
        e = rng.choice(base) if rng.random() < 0.8 else None
        lst.append((rng.choice(jac_forms(rng, ctx, e)[:5 if e is not None else 4]), e))
      jlists(ctx, lst, pre + '-mixed')
    J = jac_forms(rng, ctx, base[1])[2]
    jlists(ctx, [(J, base[1]), ((0, 0, 0), None), (J, base[1])], pre + '-000', valid=False)
    jlists(ctx, [(J, base[1]), ((J[0], J[1], p), None)], pre + '-z-eq-p', valid=False)
  for cs in (cs_inv, cs_al, cs_bd, cs_ba, cs_bx, cs_bs, cs_jx, cs_ja):
    cs.finish(rep)


def generator_ops(rep, rng, tier, ctxs_toy, ctxs_named, known):
  allc = ctxs_toy + ctxs_named
  cs_mg = Cases('ec.batchmulg', allc, known)
  cs_cp = Cases('ec.combparams', allc, known)
  cs_ps = Cases('ec.pointsequence', allc, known)
  cs_pt = Cases('ec.pointtable', allc, known)

  def mulg(ctx, cache, scalars, tag, check=True):
    c, ref = ctx.c, ctx.ref
    cache0 = dict(cache)
    last = {'cache': {}}

    def run():
      c._cache = dict(cache0)
      try:
        r = c.BatchMultiplyG(list(scalars))
        last['cache'] = dict(c._cache)
        return r, dict(c._cache)
      finally:
        c._cache = {}
    def pred():
      exp = [ref.mul(ctx.g, int(s) % ctx.n) for s in scalars]
      try:
        r, _ = run()
      except Exception as e:  # noqa
        return 'raised %r' % (e,)
      if [ref.norm(P) for P in r] != exp:
        return 'BatchMultiplyG differs from textbook s*G'
      return None
    cs_mg.add('ec.batchmulg %s %s %s' % (ctx.C, fcache(cache0), L(scalars)),
              lambda r: fpl(r[0]) + ' ' + fcache(r[1]), run, (), tag=tag, pred=pred if check else None)
    return last['cache']

  def seq(ctx, P, eP, n, tag):
    c, ref = ctx.c, ctx.ref
    exp = lambda: [ref.mul(eP, i) for i in range(n)]
    cs_ps.add('ec.pointsequence %s %s %s' % (ctx.C, fpt(P), H(n)), fpl, c.PointSequence, (P, n), tag=tag,
              pred=pred_points(ref, lambda: c.PointSequence(P, n), exp) if n > 0 else None)

  def table(ctx, P, eP, n, tag):
    c, ref = ctx.c, ctx.ref
    m = int(math.sqrt(n)) if n >= 0 else 0

    def pred():
      try:
        t = c.PointTable(P, n)
      except Exception as e:  # noqa
        return None if n == 0 else 'raised %r' % (e,)
      exp = {}
      for i in range(n):
        Q = ref.mul(eP, i)
        exp[None if Q is None else Q[0]] = i
      # the table may contain entries for i >= n (r*m > n); every i < n must be retrievable
      got = {(None if k is None else int(k) % ctx.p): v for k, v in t.items()}
      for k, i in exp.items():
        if k not in got:
          return 'x-coordinate of %d*base missing from the table' % i
        Q = ref.mul(eP, got[k])
        if (None if Q is None else Q[0]) != k:
          return 'table entry %s does not map to a multiple with that x' % (got[k],)
      return None
    cs_pt.add('ec.pointtable %s %s %s %s' % (ctx.C, fpt(P), H(n), H(m)), ftable, c.PointTable, (P, n), tag=tag,
              pred=pred)

  for ctx in ctxs_toy + ctxs_named:
    toy = ctx.table is not None
    pre = 'toy' if toy else 'named'
    n = ctx.n
    steps, mask = comb_params(ctx)
    cs_cp.add('ec.combparams %s' % ctx.C, lambda r: r, lambda: '%s %s' % (H(steps), H(mask)), (), tag=pre,
              ok_prefix=False)
    if toy:
      if tier == 'thorough' or n <= 600:
        cache = mulg(ctx, {}, list(range(-n - 3, 2 * n + 3)), 'toy-all-cold')
        mulg(ctx, cache, list(range(0, n + 1)), 'toy-all-warm')
      else:
        cache = mulg(ctx, {}, list(range(-3, n + 3, 1))[::2], 'toy-half-cold')
      mulg(ctx, {}, [], 'toy-empty')
      mulg(ctx, cache, [], 'toy-empty-warm')
      mulg(ctx, {}, [0], 'toy-zero')
      mulg(ctx, {}, [n, 0, -n, 2 * n], 'toy-multiples-of-order')
      mulg(ctx, {}, [rng.randrange(-2 * n, 2 * n) for _ in range(20)], 'toy-random')
      # poisoned cache: violates the cache invariant; model and code must still agree
      bad = {0: to_py(ctx.table[3]), mask & 1: INF}
      mulg(ctx, bad, [0, 1, 2, 3, n - 1], 'toy-poisoned-cache', check=False)
    else:
      pool = scalar_pool(rng, ctx, 4 if tier == 'quick' else 20)
      cache = mulg(ctx, {}, pool[: len(pool) // 2], 'named-cold')
      mulg(ctx, cache, pool[len(pool) // 2:], 'named-warm')
      mulg(ctx, {}, [], 'named-empty')
      mulg(ctx, {}, [0, n, -n], 'named-zero')
      mulg(ctx, {}, [rng.randrange(n)], 'named-single')
    # PointSequence / PointTable
    if toy:
      tab = ctx.table
      N = len(tab)
      for i in [0, 1, 2, 3, N - 1] + [rng.randrange(N) for _ in range(6)]:
        for cnt in (0, 1, 2, 3, N - 1, N, N + 1, 2 * N + 2, rng.randrange(1, 40)):
          seq(ctx, to_py(tab[i]), tab[i], cnt, 'toy')
        U = unreduced(rng, ctx, tab[i])
        seq(ctx, to_py(U) if U != INF else INF, tab[i], rng.randrange(1, 30), 'toy-unreduced')
      for i in [1, 2, N - 1, rng.randrange(1, N)]:
        for cnt in (0, 1, 2, 3, 4, 5, 8, 9, 10, 15, 16, 17, 24, 25, 26, N - 1, N, N + 1, 2 * N, rng.randrange(1, 2 * N)):
          table(ctx, to_py(tab[i]), tab[i], cnt, 'toy')
      table(ctx, INF, None, 10, 'toy-inf')
    else:
      G = ctx.g
      for cnt in (0, 1, 2, 3, 17):
        seq(ctx, to_py(G), G, cnt, 'named')
      P = ctx.ref.mul(G, ctx.n - 2)
      seq(ctx, to_py(P), P, 6, 'named-wrap')
      seq(ctx, to_py(unreduced(rng, ctx, G)), G, 5, 'named-unreduced')
      seq(ctx, INF, None, 4, 'named-inf')
      for cnt in (0, 1, 2, 5, 16, 30):
        table(ctx, to_py(G), G, cnt, 'named')
      table(ctx, to_py(P), P, 12, 'named-wrap')
  for cs in (cs_cp, cs_mg, cs_ps, cs_pt):
    cs.finish(rep)


def degenerate_ops(rep, rng, tier, ctxs_toy, ctxs_named, known):
  """moduli that are not odd primes (1, 2, composite): the refinement theorems do not apply, the
  model must still mirror the code — this reaches the error-propagation branches
  (ZeroDivisionError out of Add/Double/BatchInverse inside loops, ArithmeticError self-check of
  BatchInverse for mod = 1). Correspondence only, no textbook predicate."""
  from paranoid_crypto.lib import ec_util
  ctxs = [Ctx(ec_util, 'deg_mod1', 0, 0, 1, 0, 0, 1, 1), Ctx(ec_util, 'deg_mod2', 1, 1, 2, 0, 1, 3, 1),
          Ctx(ec_util, 'deg_mod91', 2, 3, 91, 3, 6, 5, 2), Ctx(ec_util, 'deg_mod9', -3, 1, 9, 0, 1, 7, 1)]
  mk = lambda name: Cases(name, ctxs, known)
  cs = {n: mk(n) for n in ('ec.add', 'ec.sub', 'ec.double', 'ec.mul', 'ec.mulaffine', 'ec.j2a', 'ec.addj',
                           'ec.doublej', 'ec.batchinverse', 'ec.batchaddlist', 'ec.batchdouble', 'ec.batchadd',
                           'ec.batchaddx', 'ec.batchaddsubx', 'ec.batchj2a', 'ec.batchj2x', 'ec.batchmulg',
                           'ec.pointsequence', 'ec.pointtable', 'ec.validkey', 'ec.oncurve')}
  for ctx in ctxs:
    c, p = ctx.c, ctx.p
    tag = ctx.name

    def rp():
      if rng.random() < 0.12:
        return INF
      return (gmpy2.mpz(rng.randrange(-p, 2 * p + 1)), gmpy2.mpz(rng.randrange(-p, 2 * p + 1)))

    def rj():
      return tuple(gmpy2.mpz(rng.randrange(-1, p + 2)) for _ in range(3))
    for _ in range(60 if tier == 'quick' else 400):
      P, Q = rp(), rp()
      if rng.random() < 0.3:
        Q = P
      k = rng.randrange(-12, 13)
      cs['ec.add'].add('ec.add %s %s %s' % (ctx.C, fpt(P), fpt(Q)), fpt, c.Add, (P, Q), tag=tag)
      cs['ec.sub'].add('ec.sub %s %s %s' % (ctx.C, fpt(P), fpt(Q)), fpt, c.Subtract, (P, Q), tag=tag)
      cs['ec.double'].add('ec.double %s %s' % (ctx.C, fpt(P)), fpt, c.Double, (P,), tag=tag)
      cs['ec.oncurve'].add('ec.oncurve %s %s' % (ctx.C, fpt(P)), B, c.OnCurve, (P,), tag=tag, ok_prefix=False)
      cs['ec.validkey'].add('ec.validkey %s %s' % (ctx.C, fpt(P)), B, c.IsValidPublicKey, (P,), tag=tag)
      cs['ec.mul'].add('ec.mul %s %s %s' % (ctx.C, fpt(P), H(k)), fpt, c.Multiply, (P, k), tag=tag)
      cs['ec.mulaffine'].add('ec.mulaffine %s %s %s' % (ctx.C, fpt(P), H(k)), fpt, c.MultiplyAffine, (P, k), tag=tag)
      J1, J2 = rj(), rj()
      cs['ec.j2a'].add('ec.j2a %s %s' % (ctx.C, fj(J1)), fpt, c.JacobianToAffine, (J1,), tag=tag)
      cs['ec.addj'].add('ec.addj %s %s %s' % (ctx.C, fj(J1), fj(J2)), fj, c.AddJacobian, (J1, J2), tag=tag, ok_prefix=False)
      cs['ec.doublej'].add('ec.doublej %s %s' % (ctx.C, fj(J1)), fj, c.DoubleJacobian, (J1,), tag=tag, ok_prefix=False)
    for _ in range(25 if tier == 'quick' else 150):
      ln = rng.choice([0, 1, 2, 4, 7])
      ps, qs = [rp() for _ in range(ln)], [rp() for _ in range(ln)]
      js = [rj() for _ in range(ln)]
      vals = [rng.choice([None, 0, gmpy2.mpz(rng.randrange(-p, 2 * p + 1))]) for _ in range(ln)]
      P = rp()
      cs['ec.batchinverse'].add('ec.batchinverse %s %s' % (ctx.C, fol(vals)), fol, c.BatchInverse, (list(vals),), tag=tag)
      cs['ec.batchaddlist'].add('ec.batchaddlist %s %s %s' % (ctx.C, fpl(ps), fpl(qs)), fpl, c.BatchAddList, (list(ps), list(qs)), tag=tag)
      cs['ec.batchdouble'].add('ec.batchdouble %s %s' % (ctx.C, fpl(ps)), fpl, c.BatchDouble, (list(ps),), tag=tag)
      cs['ec.batchadd'].add('ec.batchadd %s %s %s' % (ctx.C, fpt(P), fpl(ps)), fpl, c.BatchAdd, (P, list(ps)), tag=tag)
      cs['ec.batchaddx'].add('ec.batchaddx %s %s %s' % (ctx.C, fpt(P), fpl(ps)), fol, c.BatchAddX, (P, list(ps)), tag=tag)
      cs['ec.batchaddsubx'].add('ec.batchaddsubx %s %s %s' % (ctx.C, fpt(P), fpl(ps)),
                                lambda r: fol(r[0]) + ' ' + fol(r[1]), c.BatchAddSubtractX, (P, list(ps)), tag=tag)
      cs['ec.batchj2a'].add('ec.batchj2a %s %s' % (ctx.C, fjl(js)), fpl, c.BatchJacobianToAffine, (list(js),), tag=tag)
      cs['ec.batchj2x'].add('ec.batchj2x %s %s' % (ctx.C, fjl(js)), fol, c.BatchJacobianToX, (list(js),), tag=tag)
      n = rng.randrange(0, 7)
      cs['ec.pointsequence'].add('ec.pointsequence %s %s %s' % (ctx.C, fpt(P), H(n)), fpl, c.PointSequence, (P, n), tag=tag)
      m = int(math.sqrt(n))
      cs['ec.pointtable'].add('ec.pointtable %s %s %s %s' % (ctx.C, fpt(P), H(n), H(m)), ftable, c.PointTable, (P, n), tag=tag)
      ss = [rng.randrange(-9, 10) for _ in range(rng.randrange(0, 4))]

      def run(ss=ss, c=c):
        c._cache = {}
        try:
          r = c.BatchMultiplyG(list(ss))
          return r, dict(c._cache)
        finally:
          c._cache = {}
      if ss:   # (empty list + failing Multiply leaves `res` unbound only for n = 0; n >= 1 here)
        cs['ec.batchmulg'].add('ec.batchmulg %s [] %s' % (ctx.C, L(ss)),
                               lambda r: fpl(r[0]) + ' ' + fcache(r[1]), run, (), tag=tag)
  for v in cs.values():
    v.finish(rep)


def check_primality(rep, ctxs_named):
  bad = []
  for ctx in ctxs_named:
    if not gmpy2.is_prime(ctx.p, 64):
      bad.append('%s: field modulus is not prime' % ctx.name)
    if not gmpy2.is_prime(ctx.n, 64):
      bad.append('%s: group order n is not prime' % ctx.name)
    if ctx.h != 1:
      rep.notes.append('%s: cofactor %d' % (ctx.name, ctx.h))
  rep.extra['primality_checked'] = {ctx.name: [hex(ctx.p), hex(ctx.n)] for ctx in ctxs_named}
  for b in bad:
    rep.broken.append('hypothesis of the C11 refinement theorems fails (gmpy2.is_prime): ' + b)
  primality_status(rep, ctxs_named)


def primality_status(rep, ctxs_named):
  """Which of the 18 numbers are proved prime by the Lean kernel (Pratt certificates emitted by
  harness/consts/pratt.py, checked in Proofs/PrattCurves.lean, listed in Props/C11Primes.lean and
  `C11.curve_primes_certified`) and which remain a hypothesis validated by gmpy2 only."""
  import re
  from consts import pratt
  st = pratt.status()
  src = fw.strip_comments(open(os.path.join(fw.LEAN, 'ParanoidModel', 'Proofs', 'PrattCurves.lean')).read())
  proved = set('%s.%s' % m for m in re.findall(r'^theorem\s+(\w+)_([pn])_prime\b', src, re.M))
  want = ['%s.%s' % (ctx.name, w) for ctx in ctxs_named for w in 'pn']
  certified = [k for k in want if k in proved and k in st['certified']]
  hypo = {k: st['hypothesis'].get(k, 'certificate available but no theorem in Proofs/PrattCurves.lean')
          for k in want if k not in certified}
  rep.extra['primality_kernel_certified'] = certified
  rep.extra['primality_hypothesis_gmpy2_only'] = hypo
  for k in sorted(proved - set(st['certified'])):
    # the theorem exists but the regenerated certificate is empty: the Lean build has failed already
    rep.broken.append('Pratt certificate for %s no longer available for the regenerated constant: %s'
                      % (k, st['hypothesis'].get(k, 'not a CURVE_FACTORY prime any more')))
  print('C11 primality: kernel-certified %d/%d [%s]; hypothesis (gmpy2.is_prime only): %s' % (
      len(certified), len(want), ' '.join(certified),
      '; '.join('%s (%s)' % kv for kv in hypo.items()) or 'none'))


def settle_known(rep, known):
  """direct operations: a flagged divergence is a known finding only if the implementation
  agrees with the model of the PINNED code."""
  if known.pinned_check:
    setup = []
    for _, _, s in known.pinned_check:
      for l in s:
        if l not in setup:
          setup.append(l)
    out = fw.run_driver(setup + [x[0] for x in known.pinned_check])[len(setup):]
    b = Batch('ec.pinned')
    real = []
    for (line, it, _), m in zip(known.pinned_check, out):
      b.add(line, it['impl'], tag='d3')
      b.items[-1]['model'] = m
      if m == it['impl']:
        known.note(it['info']['d3'], it)
      else:
        it2 = dict(b.items[-1])
        it2['pred'] = it['pred']
        it2['info'] = dict(it['info'], fixed_model=it['model'])
        real.append(it2)
    rep.absorb(b, real)
  for key, c in sorted(known.classes.items()):
    s = c['sample']
    _d3(rep, s['line'], 
        'D3 (fixes/D3-ec-add-double.diff) input class [%s]: %d generated inputs where the pinned '
        'ec_util differs from the group law; e.g. `%s` implementation: %s, fixed model: %s' %
        (key, c['count'], fw.trunc(s['line'], 300), fw.trunc(s['impl'], 80), fw.trunc(s['model'], 80)))
  rep.extra['d3_classes'] = {k: v['count'] for k, v in known.classes.items()}


def known_findings(rep):
  """check-level replay of D3 (DESIGN section 6) on P-256 with the pair [P, (x_P + p, y_P)] and
  with [(5, 0), (5, 0)]: CheckECKeySmallDifference(max_diff=16) in the quick tier (fast), the whole
  paranoid.CheckAllEC (builds the 2^32 baby-step table, ~1 min) in the thorough tier."""
  from paranoid_crypto import paranoid_pb2
  from paranoid_crypto.lib import paranoid, ec_util, util, ec_aggregate_checks
  ct = paranoid_pb2.CurveType.CURVE_SECP256R1
  c = ec_util.CURVE_FACTORY.get(ct)
  if c is None:
    return
  def key(x, y):
    k = paranoid_pb2.ECKey()
    k.ec_info.curve_type = ct
    k.ec_info.x = util.Int2Bytes(int(x))
    k.ec_info.y = util.Int2Bytes(int(y))
    return k
  P = c.Multiply(c.g, 123456789)
  res = {}
  for name, pts in (('[P, (x_P+p, y_P)], P = 123456789*G', [P, (P[0] + c.mod, P[1])]),
                    ('[(5, 0), (5, 0)]', [(5, 0), (5, 0)])):
    try:
      if rep.tier == 'thorough':
        what = 'paranoid.CheckAllEC'
        paranoid.CheckAllEC([key(*q) for q in pts])
      else:
        what = 'ec_aggregate_checks.CheckECKeySmallDifference(max_diff=16).Check'
        ec_aggregate_checks.CheckECKeySmallDifference(max_diff=16).Check([key(*q) for q in pts])
      res[name] = 'no exception'
    except ZeroDivisionError as e:
      res[name] = 'ZeroDivisionError'
      _d3(rep, 'check-level %s' % name, 'D3 check level: %s on secp256r1 keys %s raises ZeroDivisionError '
                       '(Add compares unreduced x / Double inverts 2y ≡ 0); fixes/D3-ec-add-double.diff' % (what, name))
    except Exception as e:  # noqa
      res[name] = repr(e)
      rep.notes.append('CheckAllEC %s raised %r' % (name, e))
  c._cache = {}
  c._table = {}
  c._table_size = 0
  rep.extra['d3_check_level'] = res



def cross_curve_state(rep, rng, tier, named):
  """Fresh EcCurve objects used one after another in the same process WITHOUT the harness
  touching their private attributes: state (comb cache, tables) must be per object."""
  from paranoid_crypto.lib import ec_util
  b = Batch('ec.batchmulg')
  order = list(named)
  rng.shuffle(order)
  order = order[:4] if tier == 'quick' else order
  fresh = []
  for ctx in order:
    a, bb, p, gx, gy, n, h = ctx.params
    fresh.append((ctx, ec_util.EcCurve(ctx.name + '-fresh', a, bb, p, gx, gy, n, h)))
  for ctx, _ in fresh:
    ctx.let(b)
  for rnd in range(2):
    for ctx, c in fresh:
      scalars = [1, 2, rng.randrange(1, ctx.n), ctx.n - 1]
      before = dict(c._cache)
      r = fw.call(lambda r: fpl(r), c.BatchMultiplyG, list(scalars))
      after = dict(c._cache)

      def pred(ctx=ctx, c=c, scalars=scalars):
        exp = [ctx.ref.mul(ctx.g, int(s) % ctx.n) for s in scalars]
        try:
          got = [ctx.ref.norm(P) for P in c.BatchMultiplyG(list(scalars))]
        except Exception as e:  # noqa
          return 'BatchMultiplyG raised %r on a fresh %s object after other curves were used' % (e, ctx.name)
        if got != exp:
          return ('BatchMultiplyG(%s) on a fresh %s object differs from s*G after other curves were '
                  'used in the same process' % ([hex(x) for x in scalars], ctx.name))
        return None
      b.add('ec.batchmulg %s %s %s' % (ctx.C, fcache(before), L(scalars)),
            (r + ' ' + fcache(after)) if r.startswith('ok') else r, tag='fresh-object-round%d' % rnd,
            pred=pred, always=True)
  rep.absorb(b, b.run())

def correspondence(rep, rng, tier):
  from paranoid_crypto.lib import ec_util
  Watch.install(ec_util)
  known = Known()
  toys = toy_curves(ec_util, rng, tier)
  named = named_curves(ec_util)
  rep.extra['toy_curves'] = [dict(name=c.name, a=c.params[0], b=c.params[1], p=c.p, g=list(c.g), n=c.n,
                                  h=c.h, group_order=len(c.table)) for c in toys]
  check_primality(rep, named)
  import time
  rep.extra['section_wall_s'] = {}
  for f in (affine_ops, jacobian_ops, multiply_ops, batch_ops, generator_ops, degenerate_ops):
    t0 = time.time()
    f(rep, rng, tier, toys, named, known)
    rep.extra['section_wall_s'][f.__name__] = round(time.time() - t0, 1)
  cross_curve_state(rep, rng, tier, named)
  settle_known(rep, known)


# ----------------------------------------------------------------------------
# replay of a recorded failing input: ./check C11 --replay replays/C11_<seed>_<k>.json

def _pi(s):
  return int(s, 16)


def _ppt(s):
  if s == 'inf':
    return INF
  x, y = s.split(':')
  return (gmpy2.mpz(_pi(x)), gmpy2.mpz(_pi(y)))


def _pj(s):
  return tuple(gmpy2.mpz(_pi(v)) for v in s.split(':'))


def _plist(f):
  return lambda s: [] if s == '[]' else [f(v) for v in s.split(',')]


def _popt(s):
  return None if s == '-' else gmpy2.mpz(_pi(s))


def _pcache(s):
  return {} if s == '[]' else {_pi(e.split('=')[0]): _ppt(e.split('=')[1]) for e in s.split(',')}


def _mulg(c, cache, ss):
  c._cache = dict(cache)
  r = c.BatchMultiplyG(ss)
  return r, dict(c._cache)


REPLAY_OPS = {
    'ec.oncurve': (lambda c, P: c.OnCurve(P), [_ppt], B, False),
    'ec.validkey': (lambda c, P: c.IsValidPublicKey(P), [_ppt], B, True),
    'ec.neg': (lambda c, P: c.Negate(P), [_ppt], fpt, False),
    'ec.double': (lambda c, P: c.Double(P), [_ppt], fpt, True),
    'ec.add': (lambda c, P, Q: c.Add(P, Q), [_ppt, _ppt], fpt, True),
    'ec.sub': (lambda c, P, Q: c.Subtract(P, Q), [_ppt, _ppt], fpt, True),
    'ec.doublej': (lambda c, P: c.DoubleJacobian(P), [_pj], fj, False),
    'ec.addj': (lambda c, P, Q: c.AddJacobian(P, Q), [_pj, _pj], fj, False),
    'ec.j2a': (lambda c, P: c.JacobianToAffine(P), [_pj], fpt, True),
    'ec.mul': (lambda c, P, k: c.Multiply(P, k), [_ppt, _pi], fpt, True),
    'ec.mulaffine': (lambda c, P, k: c.MultiplyAffine(P, k), [_ppt, _pi], fpt, True),
    'ec.batchinverse': (lambda c, v: c.BatchInverse(v), [_plist(_popt)], fol, True),
    'ec.batchj2x': (lambda c, v: c.BatchJacobianToX(v), [_plist(_pj)], fol, True),
    'ec.batchj2a': (lambda c, v: c.BatchJacobianToAffine(v), [_plist(_pj)], fpl, True),
    'ec.batchaddlist': (lambda c, a, b: c.BatchAddList(a, b), [_plist(_ppt), _plist(_ppt)], fpl, True),
    'ec.batchdouble': (lambda c, a: c.BatchDouble(a), [_plist(_ppt)], fpl, True),
    'ec.batchadd': (lambda c, P, a: c.BatchAdd(P, a), [_ppt, _plist(_ppt)], fpl, True),
    'ec.batchaddx': (lambda c, P, a: c.BatchAddX(P, a), [_ppt, _plist(_ppt)], fol, True),
    'ec.batchaddsubx': (lambda c, P, a: c.BatchAddSubtractX(P, a), [_ppt, _plist(_ppt)],
                        lambda r: fol(r[0]) + ' ' + fol(r[1]), True),
    'ec.batchmulg': (_mulg, [_pcache, _plist(_pi)], lambda r: fpl(r[0]) + ' ' + fcache(r[1]), True),
    'ec.pointsequence': (lambda c, P, n: c.PointSequence(P, n), [_ppt, _pi], fpl, True),
    'ec.pointtable': (lambda c, P, n, m: c.PointTable(P, n), [_ppt, _pi, _pi], ftable, True),
}


def replay(d):
  """re-runs one recorded line on the implementation and on the model; exit 1 if they still differ."""
  from paranoid_crypto.lib import ec_util
  line = d.get('line')
  if not line:
    print('replay file has no request line (obligation-broken record): nothing to re-run')
    return 0
  regs = (d.get('info') or {}).get('registers', {})
  toks = line.split(' ')
  op, args = toks[0], [regs.get(t[1:], t) if t.startswith('$') else t for t in toks[1:]]
  if op not in REPLAY_OPS:
    print('cannot replay op', op)
    return 2
  f, parsers, fmt, okp = REPLAY_OPS[op]
  a, b, p, gx, gy, n, h = [_pi(v) for v in args[0].split(',')]
  c = ec_util.EcCurve('replay', a, b, p, gx, gy, n, h)
  pargs = [pp(v) for pp, v in zip(parsers, args[1:])]
  impl = call(fmt, f, c, *pargs) if okp else fmt(f(c, *pargs))
  model = fw.run_driver([' '.join([op] + args)])[0]
  print('request       :', fw.trunc(' '.join([op] + args), 600))
  print('implementation:', fw.trunc(impl, 600))
  print('model (fixed) :', fw.trunc(model, 600))
  if d.get('what'):
    print('recorded      :', fw.trunc(d['what'], 600))
  if impl != model:
    print('VIOLATION property=C11 replay reproduces: implementation differs from the verified model')
    return 1
  print('implementation agrees with the model on this input')
  return 0


def search(rep, rng, tier):
  """the predicates attached to every case ARE the failing-input search (textbook comparison on
  the implementation); nothing further."""
  pass
