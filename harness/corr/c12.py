"""C12 — NIST SP 800-22 statistics and p-values are computed as specified.

correspondence: the exact Lean model (Model/Nist.lean, ops `nist.*`) gives parameter choice /
exception, integer counts and the exact rational statistic; harness/nist_tail.py turns that
into p-values with mpmath (50 digits); the implementation's p-values must agree within
max(1e-9, 1e-7·p), be in [0, 1], not nan; exceptions must agree; and the integer arguments
the implementation hands to its special functions (ChiSquare counts, cusum z, BinomialCdf
arguments, selected parameters) must equal the model's exactly.

float-decided exceptions (review F11; Model/NistFloat.lean): where Python raises because a FLOAT underflowed
(ChiSquare rejecting an expected probability that became 0.0 in RankDistribution / the overlapping-template
matrix power; `excursions * pi[k] == 0.0` in RandomWalk), the float test's outcome is an explicit oracle of
the model, recorded here at the call site (Recorder.chisq / Recorder.red) and passed on the request line.

pred (property clauses on the implementation, never through the model): range, agreement
with the definitional reference harness/nist_ref.py + tail (includes "InsufficientDataError
exactly below the documented minimum"), and the invariances.
"""
import itertools
import json
import math
import os
import time
import warnings

import gmpy2
import mpmath as mp

import framework as fw
from framework import H, L, O, B, Batch
import nist_tail as nt
import nist_ref as ref
from consts import nist_tables

warnings.simplefilter('ignore')

META = dict(
    trusted_base=[
        'float tail oracle: mpmath 1.3.0 at 50 digits evaluates erfc/igamc/erf/log/sqrt and the exact '
        'rational distributions (harness/nist_tail.py); tolerance max(1e-9, 1e-7·p); where the tail is ill-conditioned '
        '(igamc(1/2, x) near x = 0) the p-value is compared at the implementation\'s own float statistic, which must '
        'agree with the exact one up to 1e-13·n (count in evidence: ill_conditioned_tail_accepted)',
        'per-block linear complexities are an oracle recorded from berlekamp_massey.LinearComplexity (C14)',
        'batch nist.stats (Props/C12Stats.lean): LinearComplexity / LinearComplexityScatter are ALSO evaluated as functions of '
        'the bit string (Berlekamp-Massey inside the model: ops nist.lcstat / nist.scatterbits) and compared with the recorded '
        'oracle and the recorded ChiSquare / Igamc / BinomialCdf arguments; the NIST formulae (T and its classes, the scan of '
        '2.7.4) are transcribed in stats_batch with Fractions as a third voice',
        'float-underflow oracles (Model/NistFloat.lean), recorded from the real run by wrappers around the module '
        'globals nist_suite.ChiSquare and nist_suite.RandomExcursionsDistribution and passed on the request line: '
        'ChiOracle.badProb = any(not 0.0 < p <= 1.0 for p in prob), ChiOracle.badSum = abs(sum(prob) - 1.0) > 1e-04 '
        'for the ChiSquare call of BinaryMatrixRankImpl / OverlappingTemplateMatchingImpl (-> ValueError); '
        'excZero = some RandomExcursionsDistribution(x, max_cnt) has a 0.0 entry (-> ZeroDivisionError in RandomWalk); '
        'counts per run in evidence: float_oracle',
        'definitional Python reference harness/nist_ref.py (used by the property predicates only)',
    ],
    assumptions=[
        'bits < 2^n (contract of every test function); optional parameters >= 1',
        'n < 2^1023 and memory suffices: int -> float overflow (Frequency(0, 2**1100) raises OverflowError in '
        'math.sqrt(n)) and MemoryError are not modelled',
        'model functions in Model/Nist.lean mirror nist_suite.py / extended_nist_suite.py with D4, D10-D14, D19 '
        'repaired; tie checked by this correspondence run',
        'Spectral (2.6) has no exact part (FFT in floating point): cross-checked against an mpmath DFT only',
    ])

KNOWN_CLASSES = {
    'D4': 'RandomWalk reverse cusum ignores S_0 = 0 when the walk stays on one side (e.g. bits=1111)',
    'D10': 'ApproximateEntropy returns nan when the exact chi-square is 0 (rounds below 0)',
    'D11': 'Serial returns nan when a psi-square difference is 0 (rounds below 0)',
    'D12': 'cumulative sums p-value exceeds 1 (NIST series outside its range / rounding)',
    'D13': 'Runs raises ZeroDivisionError on a constant string (pi(1-pi) = 0)',
    'D14': 'OverlappingTemplateMatching returns nan instead of InsufficientDataError when there is no complete block',
    'D19': 'Universal always selects block size L = 6 (min instead of max over the admissible sizes)',
    'D20': 'LongestRuns probabilities for M = 10000 (printed in NIST SP 800-22) differ from the exact distribution',
}


_LISTED = None


def listed_findings():
  global _LISTED
  if _LISTED is None:
    _LISTED = {f.get('id') for f in fw.load_known_findings() if f.get('property') == 'C12'}
  return _LISTED


def mods():
  from paranoid_crypto.lib.randomness_tests import nist_suite as ns, extended_nist_suite as ens, util
  return ns, ens, util


# ----------------------------------------------------------------------------
# recording the implementation's calls of its special functions

class _Proxy:

  def __init__(self, real, **over):
    self.__dict__['_real'] = real
    self.__dict__['_over'] = over

  def __getattr__(self, k):
    o = self.__dict__['_over']
    return o[k] if k in o else getattr(self.__dict__['_real'], k)


class Recorder:
  """patches nist_suite / extended_nist_suite module globals (not /repo) to log the
  arguments of the tail functions; everything is restored on exit."""

  def __init__(self, bm_oracle=None):
    self.tr = []
    self.oracle = []
    self.bm_oracle = bm_oracle
    # float-decided exceptions (Model/NistFloat.lean): flags of every ChiSquare call, zero entry in
    # any RandomExcursionsDistribution result
    # chi_prob: the float `prob` list of every ChiSquare call; exc_calls: (x, max_cnt, indices of 0.0 entries) of
    # every RandomExcursionsDistribution call — the material of Case.float_oracle_failure (review-2 M6)
    self.flo = dict(chi=[], exc0=False, chi_zero_idx=[], chi_prob=[], exc_calls=[])

  def __enter__(self):
    ns, ens, util = mods()
    self.saved = dict(ns_math=ns.math, ns_util=ns.util, ens_util=ens.util, chi=ns.ChiSquare,
                      cus=ns.CumulativeSumsPValue, uni=ns.UniversalImpl, bfi=ns.BlockFrequencyImpl,
                      ns_bm=ns.berlekamp_massey, ens_bm=ens.berlekamp_massey,
                      red=ns.RandomExcursionsDistribution)
    tr = self.tr
    flo = self.flo

    def erfc(x):
      tr.append(('erfc', x))
      return math.erfc(x)

    def igamc(a, x):
      tr.append(('igamc', a, x))
      return util.Igamc(a, x)

    def binom(n, m):
      tr.append(('binom', int(n), int(m)))
      return util.BinomialCdf(n, m)

    def chisq(count, prob, k=None):
      tr.append(('chi', tuple(int(c) for c in count), k))
      # the two float tests of ChiSquare's argument validation, on the floats actually passed
      pr = list(prob)
      flo['chi'].append((any(not 0.0 < p <= 1.0 for p in pr), bool(abs(sum(pr) - 1.0) > 1e-04)))
      flo['chi_zero_idx'].append([i for i, p in enumerate(pr) if p == 0.0])
      flo['chi_prob'].append(pr)
      return self.saved['chi'](count, prob, k)

    def red(x, max_cnt=5):
      pi = self.saved['red'](x, max_cnt)
      if any(p == 0.0 for p in pi):
        flo['exc0'] = True
      flo['exc_calls'].append((int(x), int(max_cnt), [i for i, p in enumerate(pi) if p == 0.0], len(pi)))
      return pi

    def cusum(n, z):
      tr.append(('cusum', int(n), int(z)))
      return self.saved['cus'](n, z)

    def uni(bits, n, bs, q):
      tr.append(('uni', bs, q))
      return self.saved['uni'](bits, n, bs, q)

    def bfi(blocks, m):
      tr.append(('bf', len(blocks), m))
      return self.saved['bfi'](blocks, m)

    def lc(s, length):
      c = self.saved['ns_bm'].LinearComplexity(s, length)
      self.oracle.append(int(c))
      return c

    up = _Proxy(util, Igamc=igamc, BinomialCdf=binom)
    bm = _Proxy(self.saved['ns_bm'], LinearComplexity=lc)
    ns.math = _Proxy(math, erfc=erfc)
    ns.util = up
    ens.util = up
    ns.berlekamp_massey = bm
    ens.berlekamp_massey = bm
    ns.ChiSquare = chisq
    ns.RandomExcursionsDistribution = red
    ns.CumulativeSumsPValue = cusum
    ns.UniversalImpl = uni
    ns.BlockFrequencyImpl = bfi
    return self

  def __exit__(self, *a):
    ns, ens, util = mods()
    s = self.saved
    ns.math, ns.util, ens.util = s['ns_math'], s['ns_util'], s['ens_util']
    ns.ChiSquare, ns.CumulativeSumsPValue, ns.UniversalImpl = s['chi'], s['cus'], s['uni']
    ns.BlockFrequencyImpl = s['bfi']
    ns.RandomExcursionsDistribution = s['red']
    ns.berlekamp_massey, ens.berlekamp_massey = s['ns_bm'], s['ens_bm']


# ----------------------------------------------------------------------------
# cases: op + python arguments  <->  request line

def popt(s):
  return None if s == '-' else int(s, 16)


def poptl(s):
  return None if s == '-' else nt.pl(s)


# ----------------------------------------------------------------------------
# exact distributions for the underflow verification of the float oracles (Case.float_oracle_failure)

from fractions import Fraction as _Fr

UNDERFLOW_BOUND = _Fr(1, 2 ** 1000)
_EXACT = {}


class Dyadic:
  """num / 2^e without normalisation (a gcd of million-bit integers costs seconds); just enough of the
  Fraction interface for Case.float_oracle_failure."""

  def __init__(self, num, e):
    self.numerator, self.e = int(num), e

  @property
  def denominator(self):
    return 1 << self.e

  def __ge__(self, q):
    return self.numerator * q.denominator >= q.numerator << self.e

  def fraction(self):
    return _Fr(self.numerator, 1 << self.e)


def rank_distribution_closed(r, c, k):
  """RankDistribution(r, c, k, allow_approximation=False) exactly, from the number of r x c matrices over GF(2)
  of rank rho, N(rho) = [r choose rho]_2 * prod_{i<rho} (2^c - 2^i), walked downwards from rho = min(r, c) by
  N(rho-1) = N(rho) (2^rho - 1) / ((2^(r-rho+1) - 1)(2^c - 2^(rho-1))):
  [P(rank = r), ..., P(rank = r-k+1), P(rank <= r-k)] as Dyadic values over 2^(r c).  Linear in r big-integer
  products where the column recurrence of nist_tail.rank_distribution (= the Lean model's `rankDistribution`)
  needs r*c Fraction operations on r*c-bit numbers; used for shapes with r*c*r > 4e6 only, and compared with the
  recurrence on every run (distributions check of helpers_batch)."""
  mpz = gmpy2.mpz
  one = mpz(1)
  top_rho = min(r, c)
  # N(top_rho): Gaussian binomial [r choose top_rho]_2 times the number of surjections
  num = den = mpz(1)
  for i in range(top_rho):
    num *= (one << (r - i)) - 1
    den *= (one << (top_rho - i)) - 1
  n_rho = num // den
  assert n_rho * den == num
  for i in range(top_rho):
    n_rho *= (one << c) - (one << i)
  counts = {}
  rho = top_rho
  while rho >= 0 and rho > r - k:
    counts[rho] = n_rho
    if rho >= 1:
      num = n_rho * ((one << rho) - 1)
      den = ((one << (r - rho + 1)) - 1) * ((one << c) - (one << (rho - 1)))
      n_rho, rem = divmod(num, den)
      assert rem == 0
    rho -= 1
  top = [counts.get(r - i, 0) for i in range(k)]
  e = r * c
  return tuple(Dyadic(t, e) for t in top) + (Dyadic((one << e) - sum(top), e),)


def exact_rank(r, c, k):
  key = ('rank', r, c, k)
  if key not in _EXACT:
    if r == c and r >= 31 and k <= 5:
      _EXACT[key] = tuple(nt.rank_distribution(r, c, k, True))        # the table branch of RankDistribution
    elif r * c * r <= 4 * 10 ** 6:
      _EXACT[key] = tuple(nt.rank_distribution(r, c, k, False))
    else:
      _EXACT[key] = rank_distribution_closed(r, c, k)
  return _EXACT[key]


def otm_shape(args):
  """(block_size, m) of OverlappingTemplateMatching(bits, n, m, block_size) with the documented defaults."""
  m = 9 if args[0] is None else args[0]
  bs = (2 ** (m + 1) + m - 1) if args[1] is None else args[1]
  return bs, m


def exact_otm(bs, m):
  return tuple(nt.otm_distribution(bs, m, 5))


def exact_excursion(x, mc):
  key = ('exc', abs(x), mc)
  if key not in _EXACT:
    _EXACT[key] = tuple(nt.excursion_distribution(x, mc))
  return _EXACT[key]


class Case:
  """one input of one test. `args` are the Python arguments after (bits, n)."""

  def __init__(self, op, bits, n, args=(), tag='', transform=None):
    self.op, self.bits, self.n, self.args, self.tag = op, bits, n, tuple(args), tag
    self.transform = transform   # name of an invariance: impl runs on T(bits), model on bits
    self.oracle = None
    self.flo = None      # float oracles of the run (Recorder.flo); None = implementation not run
    self.res = None
    self.tr = None

  # -- implementation --------------------------------------------------------
  def call(self, bits=None):
    ns, ens, util = mods()
    bits = self.bits if bits is None else bits
    n, a, op = self.n, self.args, self.op
    f = {
        'nist.frequency': lambda: ns.Frequency(bits, n),
        'nist.blockfreq': lambda: ns.BlockFrequency(bits, n),
        'nist.runs': lambda: ns.Runs(bits, n),
        'nist.longestruns': lambda: ns.LongestRuns(bits, n),
        'nist.rank': lambda: ns.BinaryMatrixRank(bits, n, a[0], a[1], a[2], a[3]),
        'nist.notm': lambda: ns.NonOverlappingTemplateMatching(bits, n, a[0], a[1], None if a[2] is None else list(a[2])),
        'nist.otm': lambda: ns.OverlappingTemplateMatching(bits, n, a[0], a[1]),
        'nist.universal': lambda: ns.Universal(bits, n),
        'nist.universalimpl': lambda: ns.UniversalImpl(bits, n, a[0], a[1]),
        'nist.lincomp': lambda: ns.LinearComplexity(bits, n, a[0]),
        'nist.lincompimpl': lambda: ns.LinearComplexityImpl(util.SplitSequence(bits, n, a[0]), a[0]),
        'nist.serial': lambda: ns.Serial(bits, n, a[0]),
        'nist.apen': lambda: ns.ApproximateEntropy(bits, n, a[0]),
        'nist.randomwalk': lambda: ns.RandomWalk(bits, n, a[0], a[1], a[2]),
        'nist.largerank': lambda: ens.LargeBinaryMatrixRank(bits, n),
        'nist.scatter': lambda: ens.LinearComplexityScatter(bits, n, a[0], a[1]),
    }[op]
    with Recorder() as rec:
      try:
        r = f()
      except Exception as e:  # noqa
        self.flo = rec.flo
        return ('err', type(e).__name__), rec.tr, rec.oracle
    self.flo = rec.flo
    if isinstance(r, list):
      out = [(str(name), float(p)) for name, p in r]
    else:
      out = [('', float(r))]
    return ('ok', out), rec.tr, rec.oracle

  def run_impl(self):
    bits = TRANSFORMS[self.transform](self.bits, self.n) if self.transform else self.bits
    self.res, self.tr, oracle = self.call(bits)
    if self.op in ('nist.lincomp', 'nist.lincompimpl', 'nist.scatter'):
      self.oracle = oracle
    return self

  # -- float oracles ----------------------------------------------------------
  def chi_flags(self):
    """(badProb, badSum) of the ChiSquare call of this run ((False, False) if not reached / not run)."""
    f = (self.flo or {}).get('chi') or []
    return f[-1] if f else (False, False)

  def exc_zero(self):
    return bool((self.flo or {}).get('exc0'))

  def float_oracle_failure(self):
    """review-2 M6.  The oracle flags are ChiSquare's own two tests re-evaluated on the float list, and
    model line, reference and predicate all follow the flags: without this check ANY rejection, whatever
    caused it (a wrong RankDistribution, a wrong normalisation), was reported `agree`.  Here the harness
    verifies INDEPENDENTLY that a reported rejection is an underflow, against the exact rational
    distribution (nist_tail.rank_distribution / otm_distribution / excursion_distribution — the Fraction
    loops that are tied to the Lean model's `rankDistribution` / `excursionPi` on every run, ops
    nist.rankdist / nist.excursionpi; big shapes: the closed form `rank_distribution_closed`, tied to the
    loop on every run):
      * badProb: every entry that fails `0.0 < p <= 1.0` must be exactly 0.0 (a negative, nan or > 1 entry is
        never an underflow) and the exact probability of that class must be below UNDERFLOW_BOUND = 2^-1000
        (the smallest positive double is 2^-1074; all entries are sums of products of non-negative numbers
        <= 1, so a class of exact probability >= 2^-1000 cannot round to 0.0: 74 bits of slack for the
        accumulated rounding; a class in [2^-1074, 2^-1000) may or may not underflow: accepted either way);
      * badSum is never an underflow (the mass lost by underflows is < r*c*2^-1074, the exact distribution
        sums to 1): any `abs(sum - 1) > 1e-4` is a failure;
      * excZero: the same bound for every 0.0 entry of every RandomExcursionsDistribution(x, max_cnt) call.
    Returns None or the description of the failing predicate."""
    flo = self.flo
    if not flo:
      return None
    if self.op in ('nist.rank', 'nist.otm') and flo.get('chi'):
      (bp, bsum), pr = flo['chi'][-1], flo['chi_prob'][-1]
      if bp or bsum:
        a = self.args
        what = ('RankDistribution(%d, %d, %d)' % (a[0], a[1], a[2]) if self.op == 'nist.rank' else
                'OverlappingTemplateMatchingDistribution(%d, %d, 5)' % otm_shape(a)[::-1])
        offending = [i for i, p in enumerate(pr) if not 0.0 < p <= 1.0]
        nonzero = [(i, pr[i]) for i in offending if pr[i] != 0.0]
        if nonzero:
          return ('ChiSquare rejected %s because entry %d is %r: not an underflow (an underflowed probability is '
                  'exactly 0.0)' % (what, nonzero[0][0], nonzero[0][1]))
        ex = exact_rank(a[0], a[1], a[2]) if self.op == 'nist.rank' else exact_otm(*otm_shape(a))
        if len(ex) != len(pr):
          return '%s has %d entries, the exact distribution %d' % (what, len(pr), len(ex))
        big = [(i, ex[i]) for i in offending if ex[i] >= UNDERFLOW_BOUND]
        if big:
          return ('ChiSquare rejected a distribution whose exact probabilities are all >= 2^-1000 at the rejected '
                  'classes: %s entry %d is 0.0, exact probability %s (not an underflow)' % (
                      what, big[0][0], mp.nstr(mp.mpf(big[0][1].numerator) / big[0][1].denominator, 8)))
        if bsum:
          return ('ChiSquare rejected %s because the float probabilities sum to %r (|sum - 1| > 1e-4): never an '
                  'underflow — the exact distribution sums to 1 and underflows lose less than 2^-1000 in total' % (
                      what, sum(pr)))
    if self.op == 'nist.randomwalk':
      for (x, mc, zeros, ln) in flo.get('exc_calls', []):
        if not zeros:
          continue
        ex = exact_excursion(x, mc)
        if ln != len(ex):
          return 'RandomExcursionsDistribution(%d, %d) has %d entries, the exact distribution %d' % (x, mc, ln, len(ex))
        for i in zeros:
          if ex[i] >= UNDERFLOW_BOUND:
            return ('RandomExcursionsDistribution(%d, %d)[%d] is 0.0 but the exact probability is %s >= 2^-1000 '
                    '(not an underflow)' % (x, mc, i, mp.nstr(mp.mpf(ex[i].numerator) / ex[i].denominator, 8)))
    return None

  def float_suffix(self):
    """oracle arguments on the request line; empty (= clean oracle) when the implementation was not run."""
    if self.flo is None:
      return ''
    if self.op in ('nist.rank', 'nist.otm'):
      bp, bs = self.chi_flags()
      return ' %s %s' % (B(bp), B(bs))
    if self.op == 'nist.randomwalk':
      return ' %s' % B(self.exc_zero())
    return ''

  # -- request line ----------------------------------------------------------
  def line(self, reg=None):
    b = ('$' + reg) if reg else H(self.bits)
    n, a, op = H(self.n), self.args, self.op
    if op in ('nist.frequency', 'nist.blockfreq', 'nist.runs', 'nist.longestruns', 'nist.universal',
              'nist.largerank'):
      return '%s %s %s' % (op, b, n)
    if op == 'nist.rank':
      return '%s %s %s %s %s %s %s' % (op, b, n, H(a[0]), H(a[1]), H(a[2]), B(a[3])) + self.float_suffix()
    if op == 'nist.notm':
      return '%s %s %s %s %s %s' % (op, b, n, H(a[0]), O(a[1]), '-' if a[2] is None else L(a[2]))
    if op == 'nist.otm':
      return '%s %s %s %s %s' % (op, b, n, O(a[0]), O(a[1])) + self.float_suffix()
    if op == 'nist.universalimpl':
      return '%s %s %s %s %s' % (op, b, n, H(a[0]), H(a[1]))
    if op in ('nist.serial', 'nist.apen'):
      return '%s %s %s %s' % (op, b, n, O(a[0]))
    if op == 'nist.randomwalk':
      return '%s %s %s %s %s %s' % (op, b, n, H(a[0]), H(a[1]), H(a[2])) + self.float_suffix()
    # oracle ops: the model sees lengths and the recorded complexities, not the bits
    if op == 'nist.lincomp':
      return '%s %s %s %s' % (op, n, H(a[0]), L(self.oracle))
    if op == 'nist.lincompimpl':
      return '%s %s %s' % (op, H(a[0]), L(self.oracle))
    if op == 'nist.scatter':
      return '%s %s %s %s %s' % (op, n, H(a[0]), O(a[1]), L(self.oracle))
    raise KeyError(op)

  def extra(self):
    return self.args if self.op == 'nist.randomwalk' else ()

  def replay(self):
    return dict(op=self.op, bits=hex(self.bits), n=self.n, args=fw.jsonable(list(self.args)),
                transform=self.transform)

  # -- definitional reference ------------------------------------------------
  def reference(self):
    a, n, bits = self.args, self.n, self.bits
    op = self.op
    if op == 'nist.frequency': return ref.frequency(bits, n)
    if op == 'nist.blockfreq': return ref.blockfreq(bits, n)
    if op == 'nist.runs': return ref.runs(bits, n)
    if op == 'nist.longestruns': return ref.longestruns(bits, n)
    if op == 'nist.rank': return ref.rank(bits, n, *a, chi_rejects=any(self.chi_flags()))
    if op == 'nist.notm': return ref.notm(bits, n, a[0], a[1], None if a[2] is None else list(a[2]))
    if op == 'nist.otm': return ref.otm(bits, n, a[0], a[1], chi_rejects=any(self.chi_flags()))
    if op == 'nist.universal': return ref.universal(bits, n)
    if op == 'nist.universalimpl': return ref.universalimpl(bits, n, a[0], a[1])
    if op == 'nist.lincomp': return ref.lincomp(n, a[0], self.oracle)
    if op == 'nist.lincompimpl': return ref.lincompimpl(a[0], self.oracle)
    if op == 'nist.serial': return ref.serial(bits, n, a[0])
    if op == 'nist.apen': return ref.apen(bits, n, a[0])
    if op == 'nist.randomwalk': return ref.randomwalk(bits, n, *a, exc_zero=self.exc_zero())
    if op == 'nist.largerank': return ref.largerank(bits, n)
    if op == 'nist.scatter': return ref.scatter(n, a[0], a[1], self.oracle)
    raise KeyError(op)


def case_from_replay(d):
  args = d.get('args', [])
  if d['op'] == 'nist.notm' and args and args[2] is not None:
    args = [args[0], args[1], tuple(args[2])]
  return Case(d['op'], int(d['bits'], 16), d['n'], args, transform=d.get('transform'))


# ----------------------------------------------------------------------------
# invariances (statistic provably unchanged)

def complement(bits, n):
  return bits ^ ((1 << n) - 1)


def reverse(bits, n):
  return int(format(bits, 'b').zfill(n)[::-1], 2) if n else 0


def rotate1(bits, n):
  return ((bits >> 1) | ((bits & 1) << (n - 1))) if n else 0


def rotate_k(k):
  def f(bits, n):
    if not n:
      return 0
    j = k % n
    return ((bits >> j) | ((bits & ((1 << j) - 1)) << (n - j)))
  return f


TRANSFORMS = {'complement': complement, 'reverse': reverse, 'rotate1': rotate1,
              'rotate7': rotate_k(7), 'rotate_half': lambda b, n: rotate_k(n // 2)(b, n)}

# which transformation leaves which test's p-values unchanged
INVARIANT = {
    'nist.frequency': ['complement', 'reverse', 'rotate1'],
    'nist.runs': ['complement', 'reverse'],
    'nist.blockfreq': ['complement'],
    'nist.serial': ['rotate1', 'rotate7', 'complement', 'reverse'],
    'nist.apen': ['rotate1', 'rotate7', 'complement', 'reverse'],
    'nist.largerank': [],
}


# ----------------------------------------------------------------------------
# comparison

def pclose(p, q):
  """implementation p-value p (float) against exact q (mpf)."""
  if p != p or p < 0.0 or p > 1.0:
    return False
  q = float(q)
  return abs(p - q) <= max(1e-9, 1e-7 * q)


def fclose(x, y, rtol=1e-6, atol=1e-6):
  if x in (math.inf, -math.inf):
    # the implementation's float statistic overflowed, e.g. (c - n p)^2 / (n p) with p ~ 1e-320 (halved only
    # afterwards): accepted iff the exact value is itself at the top of the double range (> 2^1000) on the
    # same side; the p-value (0 at such arguments) is compared separately
    return mp.mpf(y) * (1 if x > 0 else -1) > mp.mpf(2) ** 1000
  y = float(y)
  return x == x and abs(x - y) <= atol + rtol * abs(y)


def compare_trace(tr_impl, tr_exp):
  """integer records exactly, float records approximately. Returns None or a description."""
  ti = [t for t in tr_impl]
  te = [t for t in tr_exp]
  if len(ti) != len(te):
    return 'trace length %d vs expected %d: %s / %s' % (len(ti), len(te), fw.trunc(ti, 200), fw.trunc(te, 200))
  for a, b in zip(ti, te):
    if a[0] != b[0]:
      return 'trace record %s vs expected %s' % (a[0], b[0])
    if a[0] in ('chi',):
      if tuple(a[1]) != tuple(b[1]) or (a[2] is not None and a[2] != b[2]):
        return 'ChiSquare called with counts %s, k=%s; exact counts %s, k=%s' % (a[1], a[2], b[1], b[2])
    elif a[0] in ('cusum', 'binom', 'uni', 'bf'):
      if tuple(a[1:]) != tuple(b[1:]):
        return '%s called with %s; exact %s' % (a[0], a[1:], b[1:])
    elif a[0] == 'igamc':
      if not fclose(a[1], b[1], 1e-12, 0) or not fclose(a[2], b[2]):
        return 'igamc called with (%r, %r); exact (%s, %s)' % (a[1], a[2], mp.nstr(b[1], 12), mp.nstr(b[2], 15))
    elif a[0] == 'erfc':
      if not fclose(a[1], b[1]):
        return 'erfc called with %r; exact %s' % (a[1], mp.nstr(b[1], 15))
  return None


def compare(case, model_answer, aux=None):
  """Returns (verdict, detail, classes): verdict 'agree' | 'known' | 'diverge'."""
  op = case.op
  ans = model_answer
  pinned = None
  ff = case.float_oracle_failure()
  if ff:
    # the recorded oracle flag is not an underflow: the model line was driven by a wrong flag (review-2 M6)
    FLO['not_an_underflow'] += 1
    return 'diverge', 'float oracle: ' + ff, set()
  if op == 'nist.randomwalk' and ' | pinned ' in ans:
    ans, pinned = ans.split(' | pinned ')
  try:
    kind, T = nt.evaluate(op, ans, case.extra())
  except Exception as e:  # noqa
    return 'diverge', 'tail evaluation failed: %r' % (e,), set()
  ikind, ires = case.res
  classes = set()
  if kind == 'err':
    if ikind == 'err' and ires == T:
      return 'agree', '', classes
    if op == 'nist.randomwalk' and case.n == 0 and ikind == 'err' and ires == 'ValueError':
      # empty walk: the pinned code takes max() of the empty dict of visited states
      return 'known', 'max() of an empty dict for the empty string', {'D4'}
    if op == 'nist.otm' and T == 'InsufficientDataError' and ans.startswith('err') and (
        (ikind == 'ok' and len(ires) == 1 and ires[0][1] != ires[0][1]) or
        (ikind == 'err' and ires == 'ValueError')):
      # no complete block: nan (0/0), or "Invalid probability" when the distribution underflows
      return 'known', 'nan / ValueError instead of InsufficientDataError', {'D14'}
    return 'diverge', 'implementation %s, model err %s' % (fmt_res(case.res), T), classes
  # model ok
  if ikind == 'err':
    if op == 'nist.runs' and ires == 'ZeroDivisionError' and ans == 'ok degenerate':
      return 'known', 'ZeroDivisionError on constant string', {'D13'}
    if (op == 'nist.randomwalk' and ires == 'ZeroDivisionError' and pinned and not pinned.startswith('err')
        and int(pinned.split(' ')[1], 16) == 0):
      # pinned reverse extreme is 0 (n = 1): CumulativeSumsPValue(n, 0) divides by zero
      return 'known', 'pinned reverse cusum z = 0', {'D4'}
    return 'diverge', 'implementation raised %s, model %s' % (ires, fw.trunc(ans, 120)), classes
  exp = T.p
  if [nm for nm, _ in ires] != [nm for nm, _ in exp]:
    return 'diverge', 'p-value names %s vs %s' % ([nm for nm, _ in ires][:6], [nm for nm, _ in exp][:6]), classes
  bad = []
  for (nm, p), (_, q) in zip(ires, exp):
    if pclose(p, q):
      continue
    if ill_conditioned(case, nm, p, T):
      ILL['count'] += 1
      continue
    cls = classify(case, nm, p, q, T, pinned, aux)
    if cls:
      classes.add(cls)
    else:
      bad.append('%s: implementation %r, exact %s' % (nm or 'p-value', p, mp.nstr(q, 15)))
  if bad:
    return 'diverge', '; '.join(bad[:4]), classes
  if classes:
    return 'known', '', classes
  t = compare_trace(case.tr, T.tr) if case.tr is not None else None
  if t and op == 'nist.randomwalk' and pinned and not pinned.startswith('err'):
    # p-values agree within tolerance (both ~0 or ~1) but the integer z handed to
    # CumulativeSumsPValue is the pinned one: same defect class D4, seen through the trace
    zbp = int(pinned.split(' ')[1], 16)
    tr2 = [(('cusum', r[1], zbp) if (i == 1 and r[0] == 'cusum') else r) for i, r in enumerate(T.tr)]
    if compare_trace(case.tr, tr2) is None:
      return 'known', 'pinned reverse z in the call of CumulativeSumsPValue', {'D4'}
  if t and op == 'nist.universal' and aux and case.n >= 904960 and ('uni', 6, 640) in case.tr:
    # p-values agree within tolerance (both 0 or 1) but the block size is the pinned one
    kind6, T6 = nt.evaluate('nist.universalimpl', aux, ())
    if kind6 == 'ok' and compare_trace(case.tr, T6.tr) is None:
      return 'known', 'pinned block size L = 6', {'D19'}
  if t:
    return 'diverge', t, classes
  return 'agree', '', classes


ILL = {'count': 0}


def ill_conditioned(case, name, p, T):
    """The exact statistic sits where the tail function is ill-conditioned (igamc(1/2, x) at
    x -> 0 has an infinite derivative): a rounding error of 1e-13 in the float statistic moves
    the p-value by 3e-7.  Accepted iff (1) the implementation's float statistic agrees with the
    exact one up to cancellation error, 1e-13*max(1, n) + 1e-12*|x|, and (2) the p-value is the
    special function AT THE IMPLEMENTATION'S OWN ARGUMENT within the normal tolerance."""
    t = T.fin.get(name)
    if t is None or case.tr is None or len(case.tr) != len(T.tr) or p != p:
      return False
    ri, re_ = case.tr[t], T.tr[t]
    if ri[0] != re_[0]:
      return False
    xi, xe = float(ri[-1]), re_[-1]
    if xi != xi or abs(xi - float(xe)) > 1e-13 * max(1, case.n) + 1e-12 * abs(float(xe)):
      return False
    if ri[0] == 'igamc':
      return pclose(p, nt.igamc(re_[1], mp.mpf(xi)))
    if ri[0] == 'erfc':
      return pclose(p, mp.erfc(mp.mpf(xi)))
    return False


def classify(case, name, p, q, T, pinned, aux):
  """is the disagreement on this p-value one of the pinned defects?"""
  op = case.op
  if op == 'nist.apen' and p != p and abs(T.raw.get(name, 1)) < 1e-6:
    return 'D10'
  if op == 'nist.serial' and p != p and abs(T.raw.get(name, 1)) < 1e-6:
    return 'D11'
  if op == 'nist.randomwalk' and name.startswith('cumulative sums'):
    raw = T.raw[name]
    # unclamped series value (or 1 + rounding) returned
    if p > 1.0 and (abs(p - float(raw)) <= 1e-7 * p or (raw <= 1 + mp.mpf(10) ** -30 and p - 1 <= 1e-9)):
      return 'D12'
    if name.endswith('reverse') and pinned and not pinned.startswith('err'):
      zbp = int(pinned.split(' ')[1], 16)
      s = nt.cusum_series(case.n, zbp)
      if abs(p - float(s)) <= max(1e-9, 1e-7 * float(s)):
        return 'D4'
  if op == 'nist.universal' and aux:
    kind, T6 = nt.evaluate('nist.universalimpl', aux, ())
    if kind == 'ok' and pclose(p, T6.p[0][1]) and case.n >= 904960:
      return 'D19'
  return None


def fmt_res(res):
  if res[0] == 'err':
    return 'err ' + res[1]
  return 'ok ' + ','.join('%s=%r' % (nm, p) if nm else repr(p) for nm, p in res[1][:40])


# ----------------------------------------------------------------------------
# property predicate on the implementation

def make_pred(case):
  def pred():
    c = Case(case.op, case.bits, case.n, case.args)
    c.run_impl()
    kind, res = c.res
    # the float oracle that the reference below follows must be an UNDERFLOW (review-2 M6): a rejection of a
    # distribution whose exact probabilities are representable is a wrong answer of the implementation
    ff = c.float_oracle_failure()
    if ff:
      return '%s n=%d: %s; implementation gives %s' % (c.op, c.n, ff, fmt_res(c.res))
    # clause: range
    if kind == 'ok':
      for nm, p in res:
        if p != p or p < 0.0 or p > 1.0:
          return '%s%s returns p-value %r (%s) outside [0, 1]' % (c.op, c.args, p, nm)
    # clause: value / exception the NIST definition assigns (definitional reference + tail)
    r = c.reference()
    rk, T = nt.evaluate(c.op, r, c.extra())
    if rk == 'err':
      if kind != 'err' or res != T:
        return '%s n=%d: NIST/doc prescribe %s, implementation gives %s' % (c.op, c.n, T, fmt_res(c.res))
    elif kind == 'err':
      return '%s n=%d: implementation raises %s, NIST definition gives %s' % (
          c.op, c.n, res, fw.trunc(r, 100))
    else:
      if [a for a, _ in res] != [a for a, _ in T.p]:
        return '%s n=%d: p-value names differ from the definition' % (c.op, c.n)
      for (nm, p), (_, q) in zip(res, T.p):
        if not pclose(p, q) and not ill_conditioned(c, nm, p, T):
          return '%s n=%d %s: p-value %r, NIST formula gives %s' % (c.op, c.n, nm, p, mp.nstr(q, 15))
      # the statistic itself (argument of erfc / igamc / ChiSquare counts / cusum z), where the
      # p-value tolerance is blind (p-values near 0 or 1)
      t = compare_trace(c.tr, T.tr)
      if t:
        return '%s n=%d: statistic differs from the NIST definition: %s' % (c.op, c.n, t)
    # clause: invariances
    for tname in INVARIANT.get(c.op, []):
      if tname not in TRANSFORMS:
        continue
      c2 = Case(c.op, TRANSFORMS[tname](c.bits, c.n), c.n, c.args).run_impl()
      if not same_result(c.res, c2.res):
        return '%s n=%d: result changes under %s: %s vs %s' % (
            c.op, c.n, tname, fmt_res(c.res), fmt_res(c2.res))
    return None
  return pred


def same_result(r1, r2):
  if r1[0] != r2[0]:
    return False
  if r1[0] == 'err':
    return r1[1] == r2[1]
  if len(r1[1]) != len(r2[1]):
    return False
  for (a, p), (b, q) in zip(r1[1], r2[1]):
    if a != b or not (abs(p - q) <= max(1e-9, 1e-7 * abs(q)) or (p != p and q != q)):
      return False
  return True


# ----------------------------------------------------------------------------
# batch with tolerance comparison

class NBatch(Batch):

  def __init__(self, name, rep):
    super().__init__(name)
    self.rep = rep
    self.cases = []
    self.nreg = 0
    self.known_hits = {}
    self.pred_cap = 12

  def add_case(self, case, aux_line=None):
    case.run_impl()
    note_float(case)
    if case.op == 'nist.universal' and case.n >= 904960 and aux_line is None:
      # the pinned code uses L = 6 whatever n is (D19): ask the model for that variant as well
      aux_line = 'nist.universalimpl $B %s 6 280' % H(case.n)
    reg = None
    if case.bits.bit_length() > 4096 and case.op not in ('nist.lincomp', 'nist.lincompimpl', 'nist.scatter'):
      reg = 'b%d' % self.nreg
      self.nreg += 1
    self.cases.append((case, reg, aux_line))

  def run(self):
    lines, idx = [], []
    for case, reg, aux in self.cases:
      if reg:
        lines.append('let %s %s' % (reg, H(case.bits)))
      idx.append(len(lines))
      lines.append(case.line(reg))
      if aux:
        lines.append(aux.replace('$B', '$' + reg if reg else H(case.bits)))
    t0 = time.time()
    out = fw.run_driver(lines)
    self.model_s = time.time() - t0
    div = []
    npred = 0
    for (case, reg, aux), i in zip(self.cases, idx):
      model = out[i]
      auxans = out[i + 1] if aux else None
      verdict, detail, classes = compare(case, model, auxans)
      tag = case.tag + (':' + case.transform if case.transform else '')
      it = dict(line=fw.trunc(case.line(), 300), impl=fw.trunc(fmt_res(case.res), 600), tag=tag, pred=None,
                info=dict(replay=case.replay(), detail=detail), nontrivial=True,
                model=fw.trunc(model, 600))
      self.items.append(it)
      self.tags[tag] = self.tags.get(tag, 0) + 1
      listed = listed_findings()
      if verdict == 'known' and classes <= listed:
        for c in classes:
          self.known_hits.setdefault(c, case.replay())
        continue
      if verdict != 'agree':
        if verdict == 'known':
          it['info']['detail'] = 'defect class %s not listed in known_findings.json' % sorted(classes)
        npred += 1
        if npred <= self.pred_cap:
          it['pred'] = make_pred(case)
        div.append(it)
    return div


FLO = {'chi_calls': 0, 'rank_rejected': 0, 'otm_rejected': 0, 'other_chi_rejected': 0,
       'bad_sum': 0, 'excursion_zero': 0, 'not_an_underflow': 0, 'underflow_verified': 0}


def note_float(case):
  """counts the float-oracle outcomes of a run (evidence: float_oracle) and, for the cases of the
  dedicated generator (tags 'float:…'), appends which side of the underflow boundary was hit."""
  flo = case.flo or {}
  side = None
  for bp, bsum in flo.get('chi', []):
    FLO['chi_calls'] += 1
    if bp or bsum:
      key = {'nist.rank': 'rank_rejected', 'nist.otm': 'otm_rejected'}.get(case.op, 'other_chi_rejected')
      FLO[key] += 1
    if bsum and not bp:
      FLO['bad_sum'] += 1
  if flo.get('exc0'):
    FLO['excursion_zero'] += 1
  if (flo.get('exc0') or any(bp or bsum for bp, bsum in flo.get('chi', []))) and case.float_oracle_failure() is None:
    FLO['underflow_verified'] += 1      # rejection / 0.0 entry confirmed as an underflow against the exact distribution
  if case.tag.startswith('float:'):
    if case.op in ('nist.rank', 'nist.otm'):
      side = ('chi-rejected' if any(case.chi_flags()) else 'chi-accepted') if flo.get('chi') else 'chi-not-reached'
    elif case.op == 'nist.randomwalk':
      side = 'pi-zero' if case.exc_zero() else 'pi-positive'
    if side:
      case.tag += ':' + side


CANONICAL_REPLAY = {
    'D4': dict(op='nist.randomwalk', bits='0xf', n=4, args=[4, 5, 9]),
    'D12': dict(op='nist.randomwalk', bits='0x5', n=4, args=[4, 5, 9]),
    'D13': dict(op='nist.runs', bits='0x0', n=8, args=[]),
    'D14': dict(op='nist.otm', bits='0x5', n=100, args=[None, None]),
}


def absorb(rep, b):
  div = b.run()
  rep.absorb(b, div)
  for c, rp in sorted(b.known_hits.items()):
    rp = CANONICAL_REPLAY.get(c, rp)
    line = '%s %s replay=%s' % (c, KNOWN_CLASSES[c], json.dumps(rp)[:200])
    if not any(k.startswith(c + ' ') for k in rep.known):
      rep.known.append(line)


# ----------------------------------------------------------------------------
# input generators

def de_bruijn(k):
  """binary de Bruijn sequence of order k (length 2^k), standard Lyndon-word construction."""
  a = [0] * (2 * k)
  seq = []

  def db(t, p):
    if t > k:
      if k % p == 0:
        seq.extend(a[1:p + 1])
    else:
      a[t] = a[t - p]
      db(t + 1, p)
      for j in range(a[t - p] + 1, 2):
        a[t] = j
        db(t + 1, t)
  db(1, 1)
  return seq


def from_list(e):
  return sum(b << i for i, b in enumerate(e))


def periodic(pattern, n):
  e = [int(pattern[i % len(pattern)]) for i in range(n)]
  return from_list(e) if n < 5000 else int(''.join(str(x) for x in reversed(e)), 2)


def structured(rng, n):
  """(tag, bits) for one length: constant, periodic, one-sided walk, random, sparse."""
  out = [('zeros', 0), ('ones', (1 << n) - 1)]
  for pat in ('01', '10', '0011', '000111', '0111', '0001', '110'):
    out.append(('periodic', periodic(pat, n)))
  # one-sided walks: never below 0 / never above 0 / touching 0 only at the ends
  out.append(('onesided', periodic('1' * (n // 2 + 1) + '01' * n, n)))
  out.append(('onesided', periodic('0' * (n // 3 + 1) + '10' * n, n)))
  out.append(('onesided', periodic('1' + '10' * n, n)))
  out.append(('random', rng.getrandbits(n) if n else 0))
  out.append(('random', rng.getrandbits(n) if n else 0))
  out.append(('sparse', rng.getrandbits(n) & rng.getrandbits(n) & rng.getrandbits(n) if n else 0))
  out.append(('dense', (rng.getrandbits(n) | rng.getrandbits(n) | rng.getrandbits(n)) if n else 0))
  return out


def harvested_lengths():
  """integer literals of the modelled functions -> candidate lengths (DESIGN 3.6)."""
  fns = ['BlockFrequency', 'LongestRuns', 'BinaryMatrixRank', 'NonOverlappingTemplateMatching',
         'OverlappingTemplateMatching', 'Universal', 'LinearComplexity', 'Serial', 'ApproximateEntropy',
         'RandomWalk', 'BinaryMatrixRankImpl', 'UniversalImpl', 'RankDistribution']
  lits = nist_tables.int_literals(fns)
  ext = nist_tables.int_literals(['LargeBinaryMatrixRank', 'LinearComplexityScatter'],
                                 'extended_nist_suite.py')
  lits.update(ext)
  return lits


def boundary(cs, cap):
  s = set()
  for c in cs:
    for v in (c - 1, c, c + 1):
      if 0 <= v <= cap:
        s.add(v)
    if 1 <= c <= 24:
      for v in (2 ** c - 1, 2 ** c, 2 ** c + 1):
        if v <= cap:
          s.add(v)
  return sorted(s)


SIMPLE_OPS = ['nist.frequency', 'nist.runs', 'nist.blockfreq', 'nist.longestruns']
RW_DEFAULT = (4, 5, 9)


def all_tests(bits, n, tag, rng, heavy=True):
  """default-parameter cases of every test for one string."""
  cs = [Case(op, bits, n, (), tag) for op in SIMPLE_OPS]
  cs.append(Case('nist.rank', bits, n, (32, 32, 3, True), tag))
  cs.append(Case('nist.notm', bits, n, (8, None, None), tag))
  cs.append(Case('nist.otm', bits, n, (None, None), tag))
  cs.append(Case('nist.serial', bits, n, (None,), tag))
  cs.append(Case('nist.apen', bits, n, (None,), tag))
  cs.append(Case('nist.randomwalk', bits, n, RW_DEFAULT, tag))
  cs.append(Case('nist.largerank', bits, n, (), tag))
  if heavy:
    cs.append(Case('nist.universal', bits, n, (), tag))
    cs.append(Case('nist.lincomp', bits, n, (max(10, min(500, n // 200)),), tag))
    cs.append(Case('nist.scatter', bits, n, (32, 2000 if n > 64000 else None), tag))
  return cs


def correspondence(rep, rng, tier):
  thorough = tier == 'thorough'
  t0 = time.time()
  lits = harvested_lengths()
  rep.extra['harvested_literals'] = {k: v for k, v in lits.items()}
  rep.extra['mpmath'] = mp.__version__

  # --- 0. bit order / conversion glue
  b = Batch('nist.bits')
  for n in list(range(0, 70)) + [100, 129, 1000]:
    x = rng.getrandbits(n) if n else 0
    b.add('nist.bits %s %s' % (H(x), H(n)), L(ref.bitlist(x, n)), tag='bits')
  rep.absorb(b, b.run())

  # --- 1. ladders alone, for lengths far beyond what can be materialised
  ladder_batch(rep, rng, lits, thorough)

  # --- 2. exhaustive short strings
  nmax = 14 if thorough else 10
  b = NBatch('nist.exhaustive', rep)
  for n in range(0, nmax + 1):
    strings = range(2 ** n)
    for x in strings:
      tag = 'exh%d' % n
      b.add_case(Case('nist.frequency', x, n, (), tag))
      b.add_case(Case('nist.runs', x, n, (), tag))
      b.add_case(Case('nist.randomwalk', x, n, RW_DEFAULT, tag))
      if n <= 12 or x % 5 == 0:
        b.add_case(Case('nist.serial', x, n, (None,), tag))
        b.add_case(Case('nist.apen', x, n, (None,), tag))
      if n <= 10:
        b.add_case(Case('nist.serial', x, n, (3,), tag))
        b.add_case(Case('nist.apen', x, n, (3,), tag))
        b.add_case(Case('nist.notm', x, n, (1, None, None), tag))
        b.add_case(Case('nist.notm', x, n, (2, 2, None), tag))
        b.add_case(Case('nist.otm', x, n, (2, 6), tag))
        b.add_case(Case('nist.otm', x, n, (1, 5), tag))
        b.add_case(Case('nist.rank', x, n, (3, 3, 2, False), tag))
        b.add_case(Case('nist.rank', x, n, (2, 4, 1, False), tag))
        b.add_case(Case('nist.universalimpl', x, n, (2, 2), tag))
        b.add_case(Case('nist.universalimpl', x, n, (3, 1), tag))
        b.add_case(Case('nist.lincompimpl', x, n, (5,), tag))
  if not thorough:
    # D11 lives at length 12: Serial on every string of length 11 and 12
    for n in (11, 12):
      for x in range(2 ** n):
        b.add_case(Case('nist.serial', x, n, (None,), 'exh%d' % n))
  absorb(rep, b)

  # --- 3. lengths around every threshold (harvested literals) with structured strings
  cap_full = 2 ** 21 if thorough else 2 ** 17
  b = NBatch('nist.boundary', rep)
  per_fn = {
      'BlockFrequency': 'nist.blockfreq', 'LongestRuns': 'nist.longestruns',
      'Serial': 'nist.serial', 'ApproximateEntropy': 'nist.apen', 'RandomWalk': 'nist.randomwalk',
      'LargeBinaryMatrixRank': 'nist.largerank', 'OverlappingTemplateMatching': 'nist.otm',
  }
  defaults = {'nist.serial': (None,), 'nist.apen': (None,), 'nist.randomwalk': RW_DEFAULT,
              'nist.otm': (None, None)}
  extra_len = {'nist.otm': [1031, 1032, 1033, 2063, 2064],
               'nist.largerank': [4095, 4096, 4097, 16383, 16384, 16385, 65535, 65536, 65537]}
  for fn, op in per_fn.items():
    for n in sorted(set(boundary(lits.get(fn, []), cap_full) + extra_len.get(op, []))):
      for tag, x in structured(rng, n)[::3] + [('random', rng.getrandbits(n) if n else 0)]:
        b.add_case(Case(op, x, n, defaults.get(op, ()), 'bnd:' + tag))
  # BlockFrequency: every doubling of m (n // m >= 100)
  for k in range(0, 14 if thorough else 10):
    for n in (1600 * 2 ** k - 1, 1600 * 2 ** k, 1600 * 2 ** k + 1):
      b.add_case(Case('nist.blockfreq', rng.getrandbits(n), n, (), 'bnd:bf-doubling'))
  for n in (1999, 2000, 2001, 2015):
    b.add_case(Case('nist.blockfreq', rng.getrandbits(n), n, (), 'bnd:bf-20'))
  # LongestRuns 750000, Universal 387840 (and 904960 / 2068480 in the thorough tier)
  for n in (749999, 750000, 750001):
    b.add_case(Case('nist.longestruns', rng.getrandbits(n), n, (), 'bnd:lr-750000'))
  for n in (750001, 800000):
    b.add_case(Case('nist.randomwalk', rng.getrandbits(n), n, RW_DEFAULT, 'bnd:randomwalk-long'))
  for n in (387839, 387840, 387841):
    b.add_case(Case('nist.universal', rng.getrandbits(n), n, (), 'bnd:universal'))
  big = [904959, 904960] + ([904961, 2068479, 2068480] if thorough else [])
  for n in big:
    b.add_case(Case('nist.universal', rng.getrandbits(n), n, (), 'bnd:universal-L'),
               aux_line='nist.universalimpl $B %s 6 280' % H(n))
  # rank: 38·r·c for several shapes
  for (r, c, k) in ((32, 32, 3), (3, 3, 2), (6, 8, 2), (4, 4, 4), (31, 31, 5), (31, 31, 6), (8, 6, 2)):
    for n in (38 * r * c - 1, 38 * r * c, 38 * r * c + 1):
      x = rng.getrandbits(n)
      b.add_case(Case('nist.rank', x, n, (r, c, k, True), 'bnd:rank'))
      b.add_case(Case('nist.rank', x & rng.getrandbits(n) & rng.getrandbits(n), n, (r, c, k, True), 'bnd:rank-sparse'))
  # non-overlapping: block-size ladder
  for bs in boundary(lits.get('NonOverlappingTemplateMatching', []), 40000 if thorough else 9000):
    for blocks in (1, 2, 8):
      n = bs * blocks + (blocks - 1 if blocks > 1 else 0)
      if n <= cap_full:
        b.add_case(Case('nist.notm', rng.getrandbits(n) if n else 0, n, (blocks, None, None), 'bnd:notm'))
  # linear complexity: block_size 10, 200 blocks
  for bs in (9, 10, 11, 13, 64):
    for n in (bs * 200 - 1, bs * 200, bs * 200 + 1):
      b.add_case(Case('nist.lincomp', rng.getrandbits(n), n, (bs,), 'bnd:lincomp'))
  absorb(rep, b)

  # --- 4. structured + random strings over a range of lengths, all tests
  b = NBatch('nist.structured', rep)
  lengths = [1, 2, 3, 7, 8, 9, 16, 31, 63, 64, 65, 100, 127, 128, 200, 256, 1000, 1032, 2064, 4096, 6272]
  lengths += [2 ** 14, 2 ** 14 + 5, 2 ** 16]
  if thorough:
    lengths += [2 ** 18 + 3, 2 ** 20]
  for n in lengths:
    fam = structured(rng, n)
    if (n >= 2 ** 16 and not thorough) or n >= 2 ** 18:
      fam = fam[:3] + fam[9:13]
    for tag, x in fam:
      for c in all_tests(x, n, tag, rng, heavy=(n >= 2000)):
        b.add_case(c)
    # every residue of the length mod 8 for the byte-oriented primitives
  for n in range(300, 308):
    for tag, x in structured(rng, n)[-4:]:
      for c in all_tests(x, n, tag, rng, heavy=False):
        b.add_case(c)
  absorb(rep, b)

  # --- 5. de Bruijn sequences (perfectly uniform pattern counts)
  b = NBatch('nist.debruijn', rep)
  for k in range(2, 15 if thorough else 12):
    e = de_bruijn(k)
    x = from_list(e)
    n = len(e)
    for mm in (k - 1, k, None):
      if mm is None or mm >= 1:
        b.add_case(Case('nist.apen', x, n, (mm,), 'debruijn'))
        b.add_case(Case('nist.serial', x, n, (mm,), 'debruijn'))
    for op in ('nist.frequency', 'nist.runs'):
      b.add_case(Case(op, x, n, (), 'debruijn'))
    b.add_case(Case('nist.randomwalk', x, n, RW_DEFAULT, 'debruijn'))
  absorb(rep, b)

  # --- 6. optional parameters
  b = NBatch('nist.params', rep)
  for n in (64, 200, 1000, 5000) + ((40000,) if thorough else ()):
    for _ in range(2):
      x = rng.getrandbits(n)
      for (r, c, k, chk) in ((3, 3, 1, False), (3, 3, 3, False), (6, 8, 2, False), (8, 6, 2, False), (5, 5, 6, False),
                             (31, 31, 5, False), (31, 31, 6, False), (32, 32, 3, False), (33, 33, 2, False),
                             (2, 2, 1, True), (4, 7, 3, True), (1, 1, 1, False), (30, 30, 3, False)):
        b.add_case(Case('nist.rank', x, n, (r, c, k, chk), 'param:rank'))
      for blocks in (1, 2, 3, 8, 16, n, n + 1):
        b.add_case(Case('nist.notm', x, n, (blocks, None, None), 'param:notm-blocks'))
      for m in (1, 2, 3, 5, 6):
        b.add_case(Case('nist.notm', x, n, (4, m, None), 'param:notm-m'))
      b.add_case(Case('nist.notm', x, n, (4, 3, (1, 3, 4)), 'param:notm-templates'))
      b.add_case(Case('nist.notm', x, n, (4, 3, (1, 2)), 'param:notm-overlapping-template'))
      b.add_case(Case('nist.notm', x, n, (4, 2, (1, 9)), 'param:notm-template-out-of-range'))
      b.add_case(Case('nist.notm', x, n, (4, None, (1,)), 'param:notm-templates-without-m'))
      b.add_case(Case('nist.notm', x, n, (0, None, None), 'param:notm-zero-blocks'))
      b.add_case(Case('nist.notm', x, n, (2, n // 2 + 1, (1,)), 'param:notm-m-gt-block'))
      for (m, bs) in ((None, None), (1, None), (2, None), (3, 10), (3, 7), (3, 6), (5, 64), (9, 100), (2, n), (2, n + 1), (4, 0)):
        b.add_case(Case('nist.otm', x, n, (m, bs), 'param:otm'))
      for mm in (1, 2, 3, 5, 8, n.bit_length(), n - 1, n, n + 1):
        if mm <= 16:
          b.add_case(Case('nist.serial', x, n, (mm,), 'param:serial-mmax'))
          b.add_case(Case('nist.apen', x, n, (mm,), 'param:apen-mmax'))
      for prm in ((4, 5, 9), (1, 1, 1), (2, 3, 4), (4, 5, 2), (9, 2, 4), (3, 8, 12)):
        b.add_case(Case('nist.randomwalk', x, n, prm, 'param:randomwalk'))
      for (l, q) in ((2, 1), (2, 4), (3, 10), (4, 16), (6, 20), (16, 1), (17, 1), (3, n // 3), (3, n // 3 + 1), (0, 1)):
        b.add_case(Case('nist.universalimpl', x, n, (l, q), 'param:universalimpl'))
      for (step, mbs) in ((1, None), (2, None), (7, None), (32, None), (8, 10), (8, 1000), (n, None), (n + 3, None)):
        b.add_case(Case('nist.scatter', x, n, (step, mbs), 'param:scatter'))
      for bs in (4, 10, 11, 16):
        b.add_case(Case('nist.lincompimpl', x, n, (bs,), 'param:lincompimpl'))
  # exactly J cycles for J around every literal of RandomWalk (the 500-cycle rule): J - 1 returns
  # to zero built from random 01 / 10 / 0011 / 1100 pieces, then a tail that never returns
  for J in boundary(lits.get('RandomWalk', []), 2000):
    if J < 1:
      continue
    for _ in range(2):
      # every piece returns to zero exactly once (at its end)
      pieces = [rng.choice(('01', '10', '0011', '1100', '000111', '111000', '11011000', '0010101011'))
                for _ in range(J - 1)]
      e = ''.join(pieces)
      tail = rng.choice(('1', '0')) * rng.randrange(1, 40)
      st = e + tail
      s_, zeros = 0, 0
      for ch in st:
        s_ += 1 if ch == '1' else -1
        zeros += s_ == 0
      x = int(st[::-1], 2)
      b.add_case(Case('nist.randomwalk', x, len(st), RW_DEFAULT, 'param:randomwalk-J=%d' % (zeros + 1)))
  # random walks with many cycles (J >= 500) incl. small max_cnt / state parameters
  for n in (4000, 20000):
    for pat in ('01', '0011', '0110', '01' * 7 + '0011'):
      x = periodic(pat, n) ^ (rng.getrandbits(n) & rng.getrandbits(n) & rng.getrandbits(n) & rng.getrandbits(n))
      for prm in ((4, 5, 9), (2, 2, 3), (1, 1, 1), (4, 3, 2)):
        b.add_case(Case('nist.randomwalk', x, n, prm, 'param:randomwalk-cycles'))
  absorb(rep, b)

  # --- 6b. exceptions decided by a float underflow (F11): both sides of every boundary
  float_batch(rep, rng, thorough)

  # --- 7. invariances: implementation on T(x) against the model on x
  b = NBatch('nist.invariance', rep)
  for n in (5, 8, 13, 64, 100, 257, 1000, 4096):
    for tag, x in structured(rng, n)[::2] + [('random', rng.getrandbits(n))]:
      for op, ts in (('nist.frequency', ('complement', 'reverse', 'rotate7')), ('nist.runs', ('complement', 'reverse')),
                     ('nist.blockfreq', ('complement',)), ('nist.serial', ('rotate1', 'rotate7', 'rotate_half')),
                     ('nist.apen', ('rotate1', 'rotate7', 'rotate_half'))):
        for t in ts:
          b.add_case(Case(op, x, n, defaults.get(op, ()), 'inv', transform=t))
      # cusum: forward of the reversed string = backward of the original
      c = Case('nist.randomwalk', x, n, RW_DEFAULT, 'inv-cusum')
      c.run_impl()
      c2 = Case('nist.randomwalk', reverse(x, n), n, RW_DEFAULT).run_impl()
      if c.res[0] == 'ok' and c2.res[0] == 'ok':
        fwd = dict(c2.res[1])['cumulative sums forward']
        c.res = ('ok', [(nm, (fwd if nm == 'cumulative sums reverse' else p)) for nm, p in c.res[1]])
        c.tr = None
        b.cases.append((c, None, None))
  absorb(rep, b)

  # --- 7b. probability tables against their exact derivation
  tables_batch(rep)

  # --- 7c. helper functions of the model against their Python counterparts
  helpers_batch(rep, rng)

  # --- 7d. exact statistics / NIST-side definitions of Model/NistStats.lean (Props/C12Stats.lean)
  stats_batch(rep, rng, thorough)

  # --- 8. spectral test: no exact part; p-value against an mpmath DFT
  spectral_batch(rep, rng, thorough)

  # --- 9. definitional reference as third voice on a sample
  b = Batch('nist.reference')
  sample = []
  for n in (0, 1, 5, 12, 100, 128, 131, 1000, 6272, 8000):
    for tag, x in structured(rng, n)[::4] + [('random', rng.getrandbits(n) if n else 0)]:
      for c in all_tests(x, n, tag, rng, heavy=(n >= 2000)):
        if c.op in ('nist.lincomp', 'nist.scatter'):
          c.run_impl()
        sample.append(c)
  for c in sample:
    b.add(c.line(), c.reference() + (' | pinned -' if False else ''), tag='ref')
  out = fw.run_driver([it['line'] for it in b.items])
  div = []
  for it, m in zip(b.items, out):
    it['model'] = m
    if m.split(' | pinned ')[0] != it['impl']:
      div.append(it)
  rep.absorb(b, div)
  rep.extra['correspondence_s'] = round(time.time() - t0, 1)
  rep.extra['ill_conditioned_tail_accepted'] = ILL['count']
  rep.extra['float_oracle'] = dict(FLO)


def float_batch(rep, rng, thorough):
  """Shapes for which the FLOAT expected distribution underflows (or just does not), so that the
  implementation raises where the exact distribution is positive (Model/NistFloat.lean).  The tag records
  the side of the boundary that the real run took: `:chi-rejected` / `:chi-accepted` (ChiSquare's float
  validation), `:pi-zero` / `:pi-positive` (RandomExcursionsDistribution)."""
  b = NBatch('nist.float', rep)

  def strings(n):
    return [('random', rng.getrandbits(n)), ('zeros', 0), ('ones', (1 << n) - 1),
            ('sparse', rng.getrandbits(n) & rng.getrandbits(n) & rng.getrandbits(n))]

  # -- BinaryMatrixRank: lumped tail P(rank <= r - k) ~ 2^(-k(c-r+k)) against 2^-1074
  shapes = []
  # the reviewer's cases and their neighbours
  shapes += [('8xc,k=5', 8, 300, 5, True, 38)] + [('8xc,k=5', 8, c, 5, False, 2) for c in (214, 216, 217, 218, 219, 220, 222)]
  shapes += [('40x40', 40, 40, k, False, 3) for k in (6, 30, 32, 33, 34, 40)]
  shapes += [('2xc,k=1', 2, c, 1, False, 2) for c in (1070, 1073, 1074, 1075, 1076, 1077, 1078, 1100)]
  # P(rank = 0) = 2^-(r c) exactly: 2^-1070, 2^-1074 (smallest subnormal), 2^-1075, 2^-1076, 2^-1077, 2^-1080
  shapes += [('k=r,rc~1074', r, c, r, False, nm) for (r, c, nm) in (
      (5, 214, 1), (6, 179, 1), (3, 358, 2), (5, 215, 1), (4, 269, 1), (3, 359, 1), (6, 180, 2), (3, 400, 1))]
  shapes += [('1xc', 1, c, 1, False, 3) for c in (1073, 1074, 1075, 1076)]
  # square shapes with k > 5 (no precomputed table): k^2 against 1074
  shapes += [('square,k>5', r, r, k, False, nm) for (r, k, nm) in (
      (33, 32, 1), (33, 33, 2), (34, 32, 1), (34, 33, 1), (32, 6, 2), (32, 32, 1), (31, 6, 1))]
  # table branch: never rejected, whatever k <= 5
  shapes += [('table', 32, 32, k, False, 2) for k in (1, 2, 3, 4, 5)] + [('table', 40, 40, 5, False, 1), ('table', 64, 64, 1, False, 1)]
  # c < r: exactly zero (decided by the model without the oracle), also when the tail underflows as well
  shapes += [('c<r', 300, 8, 5, False, 1), ('c<r', 40, 39, 33, False, 1)]
  # r beyond the exponent range of 2**(j - r)
  if thorough:
    # (accepted shapes need the exact distribution in the tail: Fractions, super-cubic in r — keep r small there)
    shapes += [('r>1074', 1100, 1100, 40, False, 1), ('8xc,k=5', 8, 300, 5, True, 37),
               ('16xc,k=13', 16, 100, 13, False, 2), ('16xc,k=13', 16, 85, 13, False, 2), ('100x100', 100, 100, 33, False, 1),
               ('100x100', 100, 100, 32, False, 1)]
  for (fam, r, c, k, chk, nm) in shapes:
    n = r * c * nm + (0 if chk else rng.randrange(0, c))
    for tag, x in strings(n)[:(4 if r * c < 3000 else 2)]:
      b.add_case(Case('nist.rank', x, n, (r, c, k, chk), 'float:rank[%s]' % fam))

  # -- RandomWalk: pi[k] = 2^-(k+1) for x = +-1 against 2^-1074; needs J >= 500 and max_state >= 1
  many = int('01' * 600, 2)                       # J = 601
  mixed = periodic('0011' * 3 + '01', 2800)       # J >= 500, visits +-1, +-2
  few = int('01' * 200, 2)                        # J = 201 < 500: the excursion tests are skipped
  for mc in (1072, 1073, 1074, 1075, 1076, 1077, 1200) + ((2000, 5600) if thorough else ()):
    for ms, msv in ((4, 9), (1, 1)):
      b.add_case(Case('nist.randomwalk', many, 1200, (ms, mc, msv), 'float:randomwalk(ms>=1,J>=500)'))
    b.add_case(Case('nist.randomwalk', mixed, 2800, (2, mc, 3), 'float:randomwalk(ms>=1,J>=500)'))
    b.add_case(Case('nist.randomwalk', many, 1200, (0, mc, 9), 'float:randomwalk(ms=0)'))
    b.add_case(Case('nist.randomwalk', few, 400, (4, mc, 9), 'float:randomwalk(J<500)'))
  for J in (499, 500, 501):
    x = int('01' * (J - 1) + '1', 2)
    for mc in (1074, 1075):
      b.add_case(Case('nist.randomwalk', x, 2 * J - 1, (4, mc, 9), 'float:randomwalk(J=%d)' % J))

  # -- OverlappingTemplateMatching: P(>= 5 occurrences) = 2^-(m+4) for block_size = m + 4.  One matrix
  # power of a (5m+1)^2 float matrix costs ~15 s: one case on either side in the quick tier.
  otm = [(1070, 1074), (1071, 1075)]
  if thorough:
    otm += [(1069, 1073), (1072, 1076), (1100, 3000), (1074, 1078)]
  for (m, bs) in otm:
    n = bs + rng.randrange(0, 50)
    b.add_case(Case('nist.otm', rng.getrandbits(n), n, (m, bs), 'float:otm[m=%d]' % m))
  if thorough:
    b.add_case(Case('nist.otm', (1 << 1074) - 1, 1074, (1070, 1074), 'float:otm[m=1070,ones]'))
  absorb(rep, b)


def ladder_batch(rep, rng, lits, thorough):
  """parameter selection only: the Impl functions are replaced by recorders so that no bit
  string of the (possibly astronomically large) length has to exist."""
  ns, ens, util = mods()
  b = Batch('nist.ladder')
  pool = set()
  for fn, cs in lits.items():
    for c in cs:
      pool.update((c - 1, c, c + 1))
      if 1 <= c <= 40:
        pool.update((2 ** c - 1, 2 ** c, 2 ** c + 1))
  for k in range(0, 30):
    pool.update((1600 * 2 ** k - 1, 1600 * 2 ** k, 100 * 2 ** k))
  for bs in (4, 64, 256, 1024, 2048, 4096, 8192, 16384, 32768):
    pool.update((8 * bs - 1, 8 * bs, 8 * bs + 7))
  for _ in range(300):
    pool.add(rng.getrandbits(rng.randrange(1, 40)))
  pool = sorted(x for x in pool if x >= 0)
  saved = (ns.util, ns.UniversalImpl, ns.BlockFrequencyImpl, ns.NonOverlappingTemplateMatchingImpl, ns.ChiSquare)

  class Stop(Exception):
    pass

  got = {}

  def split(seq, length, m):
    got['split'] = m
    raise Stop()

  def fcount(seq, length, m, wrap=True):
    got['fc'] = m
    raise Stop()

  def uni(bits, n, bs, q):
    got['uni'] = bs
    return 0.5

  try:
    ns.util = _Proxy(util, SplitSequence=split, FrequencyCount=fcount)
    ns.UniversalImpl = uni
    for n in pool:
      def probe(f, key, *a):
        got.clear()
        try:
          f(0, n, *a)
        except Stop:
          return got.get(key)
        except ns.InsufficientDataError:
          return None
        return got.get(key)
      bf = probe(ns.BlockFrequency, 'split')
      lr = probe(ns.LongestRuns, 'split')
      lrs = '-'
      if lr is not None:
        row = [p for p in nt.tables()['longest_runs_params'] if p[1] == lr][0]
        lrs = '%x,%x,%x' % (row[1], row[2], row[3])
      # NonOverlapping: m is fixed before SplitSequence; read it from the template list
      nm = None
      got.clear()
      try:
        ns.NonOverlappingTemplateMatchingImpl = lambda blocks, bs, m, t: got.__setitem__('m', m) or []
        ns.util = _Proxy(util, SplitSequence=lambda s, l, m: [], FrequencyCount=fcount)
        ns.NonOverlappingTemplateMatching(0, n, 8)
        nm = got.get('m')
      except ns.InsufficientDataError:
        nm = None
      finally:
        ns.util = _Proxy(util, SplitSequence=split, FrequencyCount=fcount)
      se = probe(ns.Serial, 'fc') if n >= 1 else None
      ap = probe(ns.ApproximateEntropy, 'fc') if n >= 1 else None
      un = probe(ns.Universal, 'uni')
      # the model reports the repaired (max) and the pinned (min) Universal choice
      impl = 'bf=%s lr=%s notm=%s serial=%s apen=%s' % (
          O(bf), lrs, O(nm), H(se) if se is not None else '?', H(ap - 1) if ap is not None else '?')
      b.add('nist.ladder %s 8' % H(n), (impl, un), tag='ladder', info=dict(n=n))
  finally:
    ns.util, ns.UniversalImpl, ns.BlockFrequencyImpl, ns.NonOverlappingTemplateMatchingImpl, ns.ChiSquare = saved
  out = fw.run_driver([it['line'] for it in b.items])
  div = []
  known17 = None
  for it, m in zip(b.items, out):
    impl, un = it['impl']
    it['model'] = m
    parts = dict(p.split('=') for p in m.split(' '))
    head = ' '.join('%s=%s' % (k, parts[k]) for k in ('bf', 'lr', 'notm', 'serial', 'apen'))
    n = it['info']['n']
    if n < 1:
      head = head.replace('serial=%s' % parts['serial'], 'serial=?').replace('apen=%s' % parts['apen'], 'apen=?')
    it['impl'] = impl + ' univ=%s' % O(un)
    if head != impl:
      it['pred'] = None
      div.append(it)
    elif O(un) != parts['univ']:
      if O(un) == parts['univp'] and 'D19' in listed_findings():
        known17 = known17 or n
      else:
        div.append(it)
  rep.absorb(b, div)
  if known17 is not None and not any(k.startswith('D19 ') for k in rep.known):
    rep.known.append('D19 %s replay={"op": "nist.universal", "n": %d}' % (KNOWN_CLASSES['D19'], known17))


def helpers_batch(rep, rng):
  ns, ens, util = mods()
  from paranoid_crypto.lib.randomness_tests import berlekamp_massey as bm
  from fractions import Fraction as Fr
  b = Batch('nist.helpers')
  for n in range(0, 14):
    for m in range(0, n + 2):
      b.add('nist.lfsrcount %s %s' % (H(n), H(m)), H(bm.LfsrCount(n, m)), tag='lfsrcount')
  for n, m in ((100, 50), (100, 51), (101, 50), (101, 51), (64, 0), (64, 64), (500, 3)):
    b.add('nist.lfsrcount %s %s' % (H(n), H(m)), H(bm.LfsrCount(n, m)), tag='lfsrcount')
  for m in range(1, 11):
    b.add('nist.templates %s' % H(m), L([t for t in range(2 ** m) if ns.IsNonOverlappingTemplate(t, m)]),
          tag='templates')
  for x in range(1, 12):
    for mc in (1, 2, 5, 8):
      b.add('nist.excursionpi %s %s' % (H(x), H(mc)),
            ','.join('%x:%x' % (p.numerator, p.denominator) for p in nt.excursion_distribution(x, mc)),
            tag='excursionpi', info=dict(x=x, mc=mc))
  # RankDistribution(r, c, k, allow_approximation=False): the model's exact rational recurrence against
  # the same loop over Fractions, and against the implementation's floats
  for (r, c, k) in ((1, 1, 1), (2, 2, 1), (3, 3, 2), (3, 5, 3), (5, 3, 2), (6, 8, 2), (4, 7, 3), (8, 8, 9),
                    (8, 8, 0), (10, 12, 4), (16, 16, 3), (30, 30, 3), (31, 31, 6), (32, 32, 3), (32, 32, 6)):
    if k == 0:
      res = [Fr(0)] * (r + 1)
      res[0] = Fr(1)
      for _ in range(c):
        for j in range(r - 1, -1, -1):
          pdj = Fr(1, 2 ** (r - j))
          res[j + 1] += res[j] * (1 - pdj)
          res[j] *= pdj
      ex = res[-k:][::-1] + [sum(res[:-k])]
    else:
      ex = nt.rank_distribution(r, c, k, False)
    b.add('nist.rankdist %s %s %s' % (H(r), H(c), H(k)),
          ','.join('%x:%x' % (p.numerator, p.denominator) for p in ex),
          tag='rankdist', info=dict(r=r, c=c, k=k))
  out = fw.run_driver([it['line'] for it in b.items])
  div = []
  for it, m in zip(b.items, out):
    it['model'] = m
    ok = True
    if it['tag'] == 'rankdist':
      ok = m == it['impl']
      if ok:
        mv = [Fr(int(a, 16), int(c, 16)) for a, c in (p.split(':') for p in m.split(','))]
        pv = ns.RankDistribution(it['info']['r'], it['info']['c'], it['info']['k'], False)
        ok = len(pv) == len(mv) and all(abs(float(a) - p) <= 1e-12 * max(p, 1e-300) + 1e-300
                                        for a, p in zip(mv, pv))
    elif it['tag'] == 'excursionpi':
      # the model prints unreduced fractions: compare values, and both against the implementation's floats
      mv = [Fr(int(a, 16), int(c, 16)) for a, c in (p.split(':') for p in m.split(','))]
      ev = [Fr(int(a, 16), int(c, 16)) for a, c in (p.split(':') for p in it['impl'].split(','))]
      pv = ns.RandomExcursionsDistribution(it['info']['x'], it['info']['mc'])
      pv2 = ns.RandomExcursionsDistribution(-it['info']['x'], it['info']['mc'])
      ok = mv == ev and len(pv) == len(mv) and all(abs(float(a) - c) <= 1e-15 + 1e-13 * c for a, c in zip(mv, pv)) \
          and list(pv) == list(pv2)
    else:
      ok = m == it['impl']
    if not ok:
      div.append(it)
  rep.absorb(b, div)
  # the exact distributions used by the tail against the implementation's floating-point ones
  bad = []
  cnt = 0
  for (r, c, k) in ((3, 3, 2), (6, 8, 2), (4, 7, 3), (30, 30, 3), (31, 31, 6), (32, 32, 3), (31, 31, 5), (40, 40, 2)):
    approx = r == c and r >= 31 and k <= 5
    ex = nt.rank_distribution(r, c, k, approx)
    py = ns.RankDistribution(r, c, k)
    cnt += 1
    if len(ex) != len(py) or any(abs(float(a) - p) > 1e-12 * max(p, 1e-300) + 1e-300 for a, p in zip(ex, py)):
      bad.append('RankDistribution(%d,%d,%d): %s vs exact %s' % (r, c, k, list(py), [float(a) for a in ex]))
  # the closed form used by the underflow verification for big shapes (rank_distribution_closed) against the
  # column recurrence (= the Lean model's rankDistribution, op nist.rankdist above)
  for (r, c, k) in ((1, 1, 1), (2, 2, 1), (3, 5, 3), (5, 3, 2), (5, 3, 5), (6, 8, 2), (4, 7, 3), (8, 8, 8), (8, 300, 5),
                    (10, 12, 4), (16, 16, 3), (30, 30, 3), (31, 31, 6), (32, 32, 6), (33, 40, 3), (40, 40, 33), (2, 1100, 1), (300, 8, 5), (40, 39, 33),
                    (7, 7, 7)):
    cnt += 1
    if tuple(d.fraction() for d in rank_distribution_closed(r, c, k)) != tuple(nt.rank_distribution(r, c, k, False)):
      bad.append('rank_distribution_closed(%d,%d,%d) differs from the exact column recurrence' % (r, c, k))
  for (n, m) in ((1032, 9), (10, 3), (6, 2), (64, 5), (100, 9), (200, 2)):
    ex = nt.otm_distribution(n, m, 5)
    py = ns.OverlappingTemplateMatchingDistribution(n, m, 5)
    cnt += 1
    if len(ex) != len(py) or any(abs(float(a) - p) > 1e-10 * max(float(a), 1e-300) for a, p in zip(ex, py)):
      bad.append('OverlappingTemplateMatchingDistribution(%d,%d,5): %s vs exact %s' % (n, m, list(py), [float(a) for a in ex]))
  rep.evaluations += cnt
  rep.ops['nist.distributions'] = cnt
  rep.tags['nist.distributions:exact-vs-float'] = cnt
  for w in bad:
    rep.divergences.append(dict(op='nist.distributions', line=w[:80], impl=w, model='exact rational distribution',
                                tag='distribution', info=None, property_fails=None))


def stats_batch(rep, rng, thorough):
  """Props/C12Stats.lean: the exact rational statistics and the NIST-side definitions of Model/NistStats.lean
  (ops nist.lcclass / lcpi / lcstat / notmstat / largematrix / largep / scatterbits / scatterseq / rotate /
  reverse / complement) against the REAL functions: the integers and floats are recorded at the call sites of
  nist_suite / extended_nist_suite / util (module globals patched, /repo untouched); the NIST formulae
  (T, its classes, the scan of 2.7.4) are transcribed here with Fractions as a third voice."""
  ns, ens, util = mods()
  from fractions import Fraction as Fr

  def R(q):
    q = Fr(q)
    return '%s%x:%x' % ('-' if q < 0 else '', abs(q.numerator), q.denominator)

  def PR(s_):
    a, b = s_.split(':')
    return Fr(int(a, 16), int(b, 16))

  def close(x, q):
    q = float(q)
    return x == x and abs(x - q) <= 1e-9 * max(1.0, abs(q))

  b = Batch('nist.stats')

  # -- (a) LinearComplexity: class of one block value, through the real LinearComplexityImpl
  def nist_T(M, Lv):
    mu = Fr(M, 2) + Fr(9 + (-1) ** (M + 1), 36) - (Fr(M, 3) + Fr(2, 9)) / 2 ** M
    return (-1) ** M * (Lv - mu) + Fr(2, 9), mu

  def nist_class(T):
    for i, bound in enumerate((Fr(-5, 2), Fr(-3, 2), Fr(-1, 2), Fr(1, 2), Fr(3, 2), Fr(5, 2))):
      if T <= bound:
        return i
    return 6

  NIST_PI = [Fr(1, 96), Fr(1, 32), Fr(1, 8), Fr(1, 2), Fr(1, 4), Fr(1, 16), Fr(1, 48)]

  def impl_class(M, Lval):
    got = {}
    saved = (ns.berlekamp_massey, ns.ChiSquare)
    try:
      ns.berlekamp_massey = _Proxy(saved[0], LinearComplexity=lambda s_, length: Lval)

      def chi(count, prob, k=None):
        got['v'], got['pi'] = list(count), list(prob)
        return 0.5
      ns.ChiSquare = chi
      ns.LinearComplexityImpl([0], M)
    finally:
      ns.berlekamp_massey, ns.ChiSquare = saved
    return got['v'].index(1), got['pi']

  for M in (10, 11, 12, 13, 64, 65, 500, 501) + ((1000, 1001, 4999, 5000) if thorough else ()):
    med = (M + 1) // 2
    par = 'even' if M % 2 == 0 else 'odd'
    pi = None
    for Lv in sorted(set([0, 1, M - 1, M] + list(range(max(0, med - 5), min(M, med + 5) + 1)))):
      cls, pi = impl_class(M, Lv)
      T, mu = nist_T(M, Lv)
      b.add('nist.lcclass %s %s' % (H(M), H(Lv)), '%x %x %s %s' % (cls, nist_class(T), R(T), R(mu)),
            tag='lcclass:%s:class%d' % (par, cls))
    b.add('nist.lcpi %s' % H(M), ','.join(R(Fr(p).limit_denominator(1000)) for p in pi) + ' ' +
          ','.join(R(p) for p in NIST_PI), tag='lcpi:' + par)

  # -- (b) LinearComplexity as a function of the bit string
  def lc_string(M, nblocks, extra, mixed):
    x = 0
    for i in range(nblocks):
      kind = rng.choice(('random', 'random', 'random', 'zero', 'last', 'period2', 'lowhalf', 'onebit')) if mixed else 'random'
      blk = {'random': rng.getrandbits(M), 'zero': 0, 'last': 1 << (M - 1), 'period2': periodic('01', M),
             'lowhalf': rng.getrandbits(M // 2 - 1), 'onebit': 1 << rng.randrange(M)}[kind]
      x |= blk << (i * M)
    return x | (rng.getrandbits(extra) << (nblocks * M) if extra else 0)

  def lc_canon(chi2_impl):
    def canon(m):
      f = m.split(' ')
      if f[0] != 'ok':
        return m
      code_chi, nist_chi = PR(f[7]), PR(f[8])
      if code_chi != nist_chi:
        return m + ' CODE-CHI-DIFFERS-FROM-NIST-CHI'
      if not close(chi2_impl, code_chi):
        return m + ' CHI-FLOAT-MISMATCH impl=%r' % chi2_impl
      return ' '.join(f[:7] + [f[8]])
    return canon

  lc_shapes = [(10, 200, 0), (10, 199, 9), (11, 200, 5), (12, 200, 0), (13, 201, 3), (64, 200, 0), (9, 300, 0)]
  lc_shapes += [(101, 200, 7), (327, 200, 136), (500, 200, 0)] if thorough else [(101, 200, 7), (327, 200, 136)]
  for (M, nb, extra) in lc_shapes:
    for mixed in (False, True, True):
      x = lc_string(M, nb, extra, mixed)
      n = M * nb + extra
      with Recorder() as rec:
        try:
          ns.LinearComplexity(x, n, M)
          err = None
        except Exception as e:  # noqa
          err = type(e).__name__
      line = 'nist.lcstat %s %s %s' % (H(x), H(n), H(M))
      tag = 'lcstat:%s:%s' % ('even' if M % 2 == 0 else 'odd', 'mixed' if mixed else 'random')
      if err:
        b.add(line, 'err ' + err, tag='lcstat:' + err)
        continue
      chi_rec = [t for t in rec.tr if t[0] == 'chi'][0]
      ig = [t for t in rec.tr if t[0] == 'igamc'][0]
      bn = [t for t in rec.tr if t[0] == 'binom'][0]
      cs = list(rec.oracle)
      nu = [0] * 7
      for c in cs:
        nu[nist_class(nist_T(M, c)[0])] += 1
      N = len(cs)
      chi_nist = sum((Fr(v) - N * p) ** 2 / (N * p) for v, p in zip(nu, NIST_PI))
      for i_, v in enumerate(chi_rec[1]):
        if v:
          rep.tags['nist.stats:lcstat-class%d-hit:%s' % (i_, 'even' if M % 2 == 0 else 'odd')] = \
              rep.tags.get('nist.stats:lcstat-class%d-hit:%s' % (i_, 'even' if M % 2 == 0 else 'odd'), 0) + 1
      exp = 'ok %x %s %x %x %s %s %s' % (M, L(list(chi_rec[1])), bn[2] + 1, bn[1] + 1, L(cs), L(nu), R(chi_nist))
      b.add(line, exp, tag=tag, canon=lc_canon(2 * ig[2]))

  # -- (c) NonOverlappingTemplateMatching: counts = hits of NIST's scan; chi-square per template
  def nist_scan(block, tpl):
    m, i, W = len(tpl), 0, 0
    while i + m <= len(block):
      if block[i:i + m] == tpl:
        W += 1
        i += m
      else:
        i += 1
    return W

  def notm_canon(chis_impl):
    def canon(m):
      f = m.split(' ')
      if f[0] != 'ok':
        return m
      chis = [] if f[8] == '[]' else [PR(t) for t in f[8].split(',')]
      if len(chis) != len(chis_impl) or not all(close(a, q) for a, q in zip(chis_impl, chis)):
        return m + ' CHI-FLOAT-MISMATCH impl=%r' % (chis_impl[:4],)
      return ' '.join(f[:8])
    return canon

  notm_cases = []
  for n in (48, 200, 1000) + ((5000, 40000) if thorough else (3000,)):
    for blocks, m, ts in ((2, 3, (1, 4)), (1, None, None), (2, None, None), (8, None, None), (4, 1, None), (4, 2, None),
                          (4, 3, None), (3, 4, None), (4, 5, None), (4, 3, (1, 3, 4, 6)), (4, 3, (1, 2)), (4, 2, (1, 9)),
                          (n, None, None), (5, 4, (1, 3, 7, 8, 12, 14))):
      notm_cases.append((rng.getrandbits(n), n, blocks, m, ts, 'random'))
    notm_cases.append((periodic('0001', n), n, 4, 4, (8, 1), 'periodic'))
    notm_cases.append((periodic('011', n), n, 2, 3, (6, 3, 4), 'periodic'))
    notm_cases.append(((1 << n) - 1, n, 2, 2, None, 'ones'))
  notm_cases.append((rng.getrandbits(8200), 8200, 8, None, None, 'random'))
  for (x, n, blocks, m, ts, fam) in notm_cases:
    fc_log, ig_log = [], []
    saved = ns.util
    try:
      def fc(seq, length, mm, wrap=True):
        r = util.FrequencyCount(seq, length, mm, wrap)
        fc_log.append(list(r))
        return r

      def igamc(a, xx):
        ig_log.append((a, xx))
        return util.Igamc(a, xx)
      ns.util = _Proxy(util, FrequencyCount=fc, Igamc=igamc)
      try:
        r = ns.NonOverlappingTemplateMatching(x, n, blocks, m, None if ts is None else list(ts))
        err = None
      except Exception as e:  # noqa
        err = type(e).__name__
    finally:
      ns.util = saved
    line = 'nist.notmstat %s %s %s %s %s' % (H(x), H(n), H(blocks), O(m), '-' if ts is None else L(ts))
    if err:
      b.add(line, 'err ' + err, tag='notmstat:' + err)
      continue
    names = [nm for nm, _ in r]
    mm = len(names[0]) - len("template ''") if names else (m or 0)
    tpls = [int(nm[len("template '"):-1], 2) for nm in names]
    bs = n // blocks
    counts = [[cnt[t] for t in tpls] for cnt in fc_log]
    blist = [[(x >> (j * bs + i)) & 1 for i in range(bs)] for j in range(len(fc_log))]
    scan = [[nist_scan(blk, [(t >> i) & 1 for i in range(mm)]) for t in tpls] for blk in blist]
    mean = Fr(bs - mm + 1, 2 ** mm)
    var = bs * (Fr(1, 2 ** mm) - Fr(2 * mm - 1, 2 ** (2 * mm)))
    rows = lambda rr: '[]' if not rr else ';'.join(L(w) for w in rr)
    exp = 'ok %x %x %s %s %s %s %s' % (mm, bs, L(tpls), rows(counts), rows(scan), R(mean), R(var))
    b.add(line, exp, tag='notmstat:%s:m=%d' % (fam, mm), canon=notm_canon([2 * xx for _, xx in ig_log]))

  # -- (d) LargeBinaryMatrixRank: the sub-matrix through util.SplitSequence, its rank through util.BinaryMatrixRank,
  #        the p-value through the real function with the rank forced
  for s_ in (1, 2, 3, 5, 8, 13, 49, 50, 51, 64, 65) + ((128, 256) if thorough else (128,)):
    for fam in ('random', 'deficient', 'zero'):
      if fam == 'random':
        x = rng.getrandbits(s_ * s_ + 17)
      elif fam == 'zero':
        x = rng.getrandbits(17) << (s_ * s_)
      else:
        base = [rng.getrandbits(s_) for _ in range(max(1, s_ - rng.randrange(0, min(s_, 8) + 0) - 1))]
        rows_ = [base[rng.randrange(len(base))] ^ base[rng.randrange(len(base))] for _ in range(s_)]
        x = sum(r_ << (i * s_) for i, r_ in enumerate(rows_)) | (rng.getrandbits(9) << (s_ * s_))
      mat = util.SplitSequence(x & ((1 << (s_ * s_)) - 1), s_ * s_, s_)
      rk = util.BinaryMatrixRank(list(mat))
      b.add('nist.largematrix %s %s' % (H(x), H(s_)), '%s %x' % (L(mat), rk),
            tag='largematrix:%s:%s' % (fam, 'small-path' if s_ < 50 else 'table-path'))
  for size, n in ((64, 4096), (128, 16384)):
    for rk in list(range(size - 36, size + 1)):
      saved = ens.util
      try:
        ens.util = _Proxy(util, BinaryMatrixRank=lambda mtx: rk if len(mtx) == size else len(mtx))
        pv = dict(ens.LargeBinaryMatrixRank(0, n))
      finally:
        ens.util = saved
      p = pv['%d * %d' % (size, size)]
      b.add('nist.largep %s %s' % (H(size), H(rk)), repr(float(p)), tag='largep:%s' % ('beyond-table' if size - rk >= 33 else 'table'),
            canon=lambda m: repr(float(PR(m))))

  # -- (e) LinearComplexityScatter as a function of the bit string; the streams through util.Scatter
  sc_cases = []
  for n in (64, 200, 1000) + ((5000,) if thorough else (2500,)):
    for (step, mbs) in ((1, None), (2, None), (3, 10), (7, None), (32, None), (8, 10), (8, 1000), (n, None), (n + 3, None), (5, 1)):
      sc_cases.append((rng.getrandbits(n), n, step, mbs, 'random'))
    sc_cases.append((periodic('0110', n), n, 4, None, 'periodic'))
    sc_cases.append((0, n, 3, None, 'zeros'))
  sc_cases.append((rng.getrandbits(70000), 70000, 32, 2000, 'random'))
  for (x, n, step, mbs, fam) in sc_cases:
    with Recorder() as rec:
      try:
        ens.LinearComplexityScatter(x, n, step, mbs)
        err = None
      except Exception as e:  # noqa
        err = type(e).__name__
    n2 = step * mbs if (mbs is not None and step * mbs < n) else n
    line = 'nist.scatterbits %s %s %s %s' % (H(x), H(n), H(step), O(mbs))
    if err:
      b.add(line, 'err ' + err, tag='scatterbits:' + err)
    else:
      bn = [t for t in rec.tr if t[0] == 'binom'][0]
      sizes = [(n2 + step - 1 - i) // step for i in range(step)]
      b.add(line, 'ok %x %s %x %s' % (n2, L(sizes), bn[2] + 1, L(list(rec.oracle))),
            tag='scatterbits:%s:%s' % (fam, 'truncated' if n2 != n else 'full'))
    b.add('nist.scatterseq %s %s %s' % (H(x), H(n2), H(step)), L(util.Scatter(x & ((1 << n2) - 1), step)),
          tag='scatterseq:' + fam)

  # -- (f) the integer-level transformations the invariance clauses are about
  for n in (0, 1, 5, 8, 13, 64, 100, 257, 1000):
    for _ in range(2):
      x = rng.getrandbits(n) if n else 0
      lst = [(x >> i) & 1 for i in range(n)]
      for k in (0, 1, 7, n // 2, n, n + 3):
        j = k % n if n else 0
        want = from_list(lst[j:] + lst[:j])
        if want != rotate_k(k)(x, n) or (k == 1 and want != rotate1(x, n)):
          want = -1   # the harness transform is not the list rotation: reported as a divergence
        b.add('nist.rotate %s %s %s' % (H(x), H(n), H(k)), H(want), tag='rotate')
      rv = util.ReverseBits(x, n)
      if rv != from_list(lst[::-1]) or rv != reverse(x, n):
        rv = -1
      b.add('nist.reverse %s %s' % (H(x), H(n)), 'ok ' + H(rv), tag='reverse')
      b.add('nist.complement %s %s' % (H(x), H(n)), H(complement(x, n)), tag='complement')
  rep.absorb(b, b.run())


def spectral_batch(rep, rng, thorough):
  """Spectral: everything is floating point. p-value recomputed from an exact-arithmetic DFT
  (mpmath) for short strings; strings whose peak count is numerically on the threshold are skipped."""
  ns, ens, util = mods()
  mp.mp.dps = 30
  bad = []
  cnt = 0
  try:
    cases = []
    for n in range(2, 9 if not thorough else 11):
      cases += [(x, n) for x in range(2 ** n)]
    for n in (16, 31, 64, 100) + ((256, 500) if thorough else ()):
      cases += [(rng.getrandbits(n), n) for _ in range(3)] + [(0, n), ((1 << n) - 1, n), (periodic('01', n), n)]
    roots = {}
    for x, n in cases:
      e = [1 if (x >> i) & 1 else -1 for i in range(n)]
      if n not in roots:
        roots[n] = [mp.expjpi(mp.mpf(-2 * j) / n) for j in range(n)]
      w = roots[n]
      mags = [abs(sum(e[k] * w[(j * k) % n] for k in range(n))) for j in range(n // 2)]
      t = mp.sqrt(mp.log(1 / mp.mpf('0.05')) * n)
      if any(abs(m - t) < mp.mpf(10) ** -9 for m in mags):
        continue
      n1 = sum(1 for m in mags if m < t)
      n0 = mp.mpf('0.95') * (n // 2)
      d = (n0 - n1) / mp.sqrt(n * mp.mpf('0.95') * mp.mpf('0.05') / 4)
      q = mp.erfc(abs(d) / mp.sqrt(2))
      try:
        p = float(ns.Spectral(x, n))
      except Exception as ex:  # noqa
        p = float('nan')
        bad.append(dict(bits=hex(x), n=n, what='raised %r' % (ex,)))
        continue
      cnt += 1
      if not pclose(p, q):
        bad.append(dict(bits=hex(x), n=n, what='Spectral p-value %r, mpmath DFT gives %s' % (p, mp.nstr(q, 12))))
  finally:
    mp.mp.dps = 50
  rep.evaluations += cnt
  rep.ops['nist.spectral'] = cnt
  rep.tags['nist.spectral:mpmath-dft'] = cnt
  for d in bad[:5]:
    rep.divergences.append(dict(op='nist.spectral', line='Spectral(%s, %d)' % (d['bits'], d['n']), impl=d['what'],
                                model='(no exact model: float tail only)', tag='spectral', info=d,
                                property_fails=d['what']))
    rep.violations.append(dict(op='nist.spectral', line='Spectral(%s, %d)' % (d['bits'], d['n']), what=d['what'],
                               impl='', model='', info=dict(replay=dict(op='nist.spectral', bits=d['bits'], n=d['n']))))


# ----------------------------------------------------------------------------
# table clauses evaluated in exact arithmetic on the tables harvested from the source

def longest_run_distribution(M, vl, vu):
  from fractions import Fraction as Fr

  def le(k):
    a = [1]
    for i in range(1, M + 1):
      s = sum(a[i - 1 - j] for j in range(0, k + 1) if i - 1 - j >= 0) + (1 if i <= k else 0)
      a.append(s)
    return a[M]
  cum = [Fr(le(k), 2 ** M) for k in range(vl, vu)]
  return [cum[0]] + [cum[i] - cum[i - 1] for i in range(1, len(cum))] + [1 - cum[-1]]


def universal_expected(L):
  """E[log2 A] for Maurer's statistic with block size L (numerical series, float):
  2^-L * sum_{i>=1} (1 - 2^-L)^(i-1) log2 i."""
  import numpy
  p = 2.0 ** -L
  tot, start, chunk = 0.0, 1, 1 << 20
  while True:
    i = numpy.arange(start, start + chunk, dtype=numpy.float64)
    term = numpy.exp((i - 1) * math.log1p(-p)) * numpy.log2(i)
    tot += float(numpy.sum(term))
    start += chunk
    if (start - 1) * p > 60:
      break
  return p * tot


def table_clauses(include_big=False):
  """Returns list of (table, description, key) for entries that are neither the rounded nor the
  truncated value of the exactly derived distribution at the printed precision; key = (M, index, printed
  value) for a LongestRuns entry (what the D20 downgrade matches on), else None."""
  from fractions import Fraction as Fr
  t = nt.tables()
  bad = []
  for (mn, M, vl, vu, pi) in t['longest_runs_params']:
    if M > 200 and not include_big:
      continue
    ex = longest_run_distribution(M, vl, vu)
    for i, (p, e) in enumerate(zip(pi, ex)):
      if p * 10 ** 4 not in (math.floor(e * 10 ** 4), math.floor(e * 10 ** 4 + Fr(1, 2))):
        bad.append(('LongestRuns M=%d' % M, 'pi[%d] = %s is neither the rounded nor the truncated exact value %.6f' % (
            i, float(p), float(e)), (M, i, Fr(p))))
  from nist_ref import neg_log_prob
  for name, m in (('lincomp_pi_even', 1000), ('lincomp_pi_odd', 1001)):
    med = (m + 1) // 2
    probs = [Fr(0)] * 7
    for c in range(0, m + 1):
      cls = 0 if c <= med - 3 else 6 if c >= med + 3 else c - med + 3
      probs[cls] += Fr(1, 2 ** neg_log_prob(m, c))
    for i, (p, e) in enumerate(zip(t[name], probs)):
      if abs(p - e) > Fr(1, 2 ** 400):
        bad.append((name, 'pi[%d] = %s, exact %s' % (i, p, float(e)), None))
  pre = t['rank_precomputed']
  ex = list(nt.rank_distribution(40, 40, 5, False))
  exact_inf = ex[:5] + [ex[5]]
  for i, p in enumerate(pre[:5]):
    if abs(p - ex[i]) >= Fr(1, 10 ** 7):
      bad.append(('RankDistribution.precomputed', 'entry %d = %s, 40x40 exact %.10f' % (i, float(p), float(ex[i])), None))
  sf = t['asymptotic_rank_sf']
  full = list(nt.rank_distribution(64, 64, 33, False))
  for k in range(0, 12):
    e = 1 - sum(full[:k])
    if e > 0 and abs(sf[k] - e) / e > Fr(1, 10 ** 4):
      bad.append(('ASYMPTOTIC_RANK_SF', 'entry %d = %s, 64x64 exact %.8g' % (k, float(sf[k]), float(e)), None))
  for L_, (mean, var) in sorted(t['universal_table'].items()):
    e = universal_expected(L_)
    if abs(float(mean) - e) > 1.5e-7 * (10 if L_ >= 11 else 1):
      bad.append(('UniversalDistribution', 'expected value for L=%d is %s, series gives %.8f' % (L_, float(mean), e), None))
  return bad


# known finding D20: the M = 10000 row of LongestRuns.params as printed in NIST SP 800-22 (known_findings.json).
# The downgrade matches the ENTRY (row, index, printed value), not the table name (review-2 L20): any other wrong
# value in that row — or in another row — stays a violation.
D20_ROW = ('0.0882', '0.2092', '0.2483', '0.1933', '0.1208', '0.0675', '0.0727')


def is_d20(key):
  from fractions import Fraction as Fr
  M, i, p = key
  return M == 10000 and 0 <= i < len(D20_ROW) and p == Fr(D20_ROW[i])


def tables_batch(rep):
  """table clauses, evaluated on the tables harvested from the current source."""
  bad = table_clauses(include_big=True)
  rep.evaluations += 1
  rep.ops['nist.tables'] = 1
  rep.tags['nist.tables:exact-derivation'] = 1
  for table, what, key in bad:
    if key is not None and is_d20(key) and 'D20' in listed_findings():
      if not any(k.startswith('D20 ') for k in rep.known):
        rep.known.append('D20 %s (%s)' % (KNOWN_CLASSES['D20'], what))
      continue
    rep.divergences.append(dict(op='nist.tables', line=table, impl=what, model='exact derivation', tag='table',
                                info=None, property_fails=what))
    rep.violations.append(dict(op='nist.table', line=table, what='%s: %s' % (table, what), impl='', model='',
                               info=dict(replay=dict(op='nist.table', table=table))))


def search(rep, rng, tier):
  """failing-input search: more inputs around every harvested literal, each compared with the
  model (so that listed findings are recognised) and, on disagreement, judged by the property
  predicate on the implementation alone."""
  if rep.violations:
    return
  lits = harvested_lengths()
  per_fn = {'BlockFrequency': 'nist.blockfreq', 'LongestRuns': 'nist.longestruns', 'Serial': 'nist.serial',
            'ApproximateEntropy': 'nist.apen', 'RandomWalk': 'nist.randomwalk',
            'OverlappingTemplateMatching': 'nist.otm', 'LargeBinaryMatrixRank': 'nist.largerank'}
  defaults = {'nist.serial': (None,), 'nist.apen': (None,), 'nist.randomwalk': RW_DEFAULT, 'nist.otm': (None, None)}
  b = NBatch('nist.search', rep)
  b.pred_cap = 200
  for fn, op in per_fn.items():
    for n in boundary(lits.get(fn, []), 2 ** 15 if tier == 'quick' else 2 ** 18):
      for tag, x in structured(rng, n):
        b.add_case(Case(op, x, n, defaults.get(op, ()), 'search:' + tag))
  absorb(rep, b)


def known_findings(rep):
  """replays the inputs of the listed findings: prints nothing new, but notices when a listed
  finding no longer reproduces (noted in the evidence, not an alarm)."""
  gone = []
  probes = {
      'D4': Case('nist.randomwalk', 0b1111, 4, RW_DEFAULT),
      'D13': Case('nist.runs', 0, 8, ()),
      'D14': Case('nist.otm', 5, 100, (None, None)),
      'D12': Case('nist.randomwalk', 0b0101, 4, RW_DEFAULT),
      'D10': Case('nist.apen', from_list(de_bruijn(4)), 16, (3,)),
      'D11': Case('nist.serial', 0x2b, 12, (None,)),
  }
  listed = listed_findings()
  for k, c in probes.items():
    if k not in listed:
      continue
    try:
      ok = make_pred(c)() is None
    except Exception:  # noqa
      ok = False
    if ok:
      gone.append(k)
  if gone:
    rep.notes.append('listed findings that no longer reproduce on their replay input: %s' % gone)


def replay(obj):
  """./check C12 --replay file"""
  import shims
  shims.install()
  info = obj.get('info') or {}
  rp = info.get('replay') or obj.get('replay')
  if not rp:
    print('replay file has no replay record')
    return 2
  if rp['op'] == 'nist.table':
    bad = [b for b in table_clauses(include_big=True) if b[0] == rp['table']]
    bad = [b for b in bad if not (b[2] is not None and is_d20(b[2]) and 'D20' in listed_findings())]
    for t, w, _ in bad:
      print('VIOLATION property=C12 %s: %s' % (t, w))
    return 1 if bad else 0
  if rp['op'] == 'nist.spectral':
    ns, _, _ = mods()
    print('Spectral(%s, %d) = %r' % (rp['bits'], rp['n'], ns.Spectral(int(rp['bits'], 16), rp['n'])))
    return 1
  c = case_from_replay(rp)
  what = make_pred(c)()
  c.run_impl()
  print('%s bits=%s n=%d args=%s -> %s' % (c.op, fw.trunc(hex(c.bits), 80), c.n, c.args, fw.trunc(fmt_res(c.res), 300)))
  if what:
    print('VIOLATION property=C12 %s' % what)
    return 1
  print('property holds on this input')
  return 0
