"""C13 (decision-rule part) — the suite's decision rule: correspondence + rule predicates.

Only the third sentence of C13 is decided: "a sub-test is failed exactly when the Fisher
combination of its p-values is below the fail level, is repeated exactly while that combination
does not exceed the combination of the repeat level, and the entry points return True exactly
when some sub-test failed".  The two statistical sentences are NOT decided here.

The real `TestStructure`, `TestSource`, `TestBitString`, `util.CombinedPValue` are driven with
SCRIPTED test outcomes (fake test functions put into `random_test_suite.TESTS`, a fake source):
lists of named p-values, single floats/ints, InsufficientDataError; values 0, 1, -0.0, nan, inf,
tiny, exact ties with both thresholds.  The float tail `Igamc(k, sum(-log p))` is the oracle:
every value the real code computed is recorded and handed to the model as an exact ratio
(`float.as_integer_ratio`), so model and code compare the same exact numbers.
"""
import math

import framework as fw
from framework import H, B, Batch

META = dict(
    trusted_base=[
        'Igamc(k, sum(-log p)) (scipy gammaincc, math.log) is an oracle: recorded per call and '
        'passed to the model as exact ratios; theorems quantify over every oracle value',
        'what the statistical tests return is an oracle (scripted in the correspondence run)',
    ],
    assumptions=[
        'Model/Suite.lean mirrors random_test_suite.State/TestStructure/TestSource/TestBitString '
        'and util.CombinedPValue; tie checked by this correspondence run',
        'NOT decided: sentences 1-2 of C13 (p-values of a good generator are not systematically '
        'small; the documented weak generators fail the documented tests)',
    ])


def S(s):
  b = s.encode('utf-8')
  return b.hex() if b else '~'


def V(x):
  if isinstance(x, float):
    if math.isnan(x):
      return 'nan'
    if math.isinf(x):
      return 'inf' if x > 0 else '-inf'
    n, d = x.as_integer_ratio()
    return '%s/%s' % (H(n), H(d))
  return '%s/1' % H(int(x))


def vals(xs, sep=','):
  xs = list(xs)
  return sep.join(V(x) for x in xs) if xs else '[]'


def lst(items):
  items = list(items)
  return ','.join(items) if items else '[]'


class Recorder:
  """records the float tail of util.CombinedPValue (only calls that reached Igamc / math.log)."""

  def __init__(self):
    from paranoid_crypto.lib.randomness_tests import util
    self.util = util
    self.table = {}
    self.real_comb = util.CombinedPValue
    self.real_igamc = util.Igamc
    self.flag = False

  def install(self):
    rec = self

    def igamc(a, x):
      rec.flag = True
      return rec.real_igamc(a, x)

    def comb(pvalues):
      rec.flag = False
      key = vals(pvalues)
      try:
        r = rec.real_comb(pvalues)
      except ValueError:
        if pvalues:
          rec.table[key] = '!'
        raise
      if rec.flag:
        rec.table[key] = V(r)
      return r
    self.util.Igamc = igamc
    self.util.CombinedPValue = comb

  def uninstall(self):
    self.util.Igamc = self.real_igamc
    self.util.CombinedPValue = self.real_comb

  def take(self):
    t = self.table
    self.table = {}
    return '|'.join('%s=>%s' % kv for kv in t.items()) if t else '[]'


SPECIAL = [0, 0.0, -0.0, 1, 1.0, 0.5, 1e-9, 0.01, 1e-300, 5e-324, 0.999999, float('nan'),
           float('inf'), 1.5, 2, 1e-10, 0.0099999, 0.010000001]


def rand_p(rng, clean=False):
  c = rng.random()
  if clean or c < 0.6:
    return rng.random()
  if c < 0.7:
    return 10.0 ** (-rng.uniform(0, 20))
  if c < 0.8:
    return rng.choice([0.01, 1e-9, 0.5, 1.0, 1])
  if c < 0.9:
    return rng.choice([0, 0.0, -0.0])
  return rng.choice(SPECIAL)


NAMES = ['result', 'distribution', 'extreme values', 'a', '', 'p-value2']


def fmt_outcome(o):
  if o == 'I':
    return 'I'
  if isinstance(o, (int, float)):
    return 'S:' + V(o)
  return 'N:' + lst('%s=%s' % (S(n), V(p)) for n, p in o)


def rand_outcome(rng, names, clean=False):
  c = rng.random()
  if c < 0.08:
    return 'I'
  if c < 0.25:
    return rand_p(rng, clean)
  if c < 0.3:
    return []
  ns = list(names)
  if rng.random() < 0.25 and len(ns) > 1:
    ns = rng.sample(ns, rng.randrange(1, len(ns)))     # names that disappear
  if rng.random() < 0.1 and ns:
    ns.append(ns[0])                                    # duplicate name in one result
  return [(n, rand_p(rng, clean)) for n in ns]


def state_letter(st):
  return st.name[0]


def fmt_ts(rts, ts):
  cnt = ts.StateCount()
  return '%s/%s/%s/%s/%s/%s/%s.%s.%s' % (
      H(ts.runs), B(ts.finished),
      lst('%s=%s' % (S(n), vals(v, '.')) for n, v in ts.p_values.items()),
      lst('%s=%s' % (S(n), V(v)) for n, v in ts.combined_p_values.items()),
      lst('%s=%s' % (S(n), state_letter(v)) for n, v in ts.state.items()),
      B(ts.Failed()), H(cnt[rts.State.PASSED]), H(cnt[rts.State.UNDECIDED]),
      H(cnt[rts.State.FAILED]))


def rule_violation(rts, util_comb, ts, last=None, insufficient=False):
  """the decision rule evaluated directly on a TestStructure's recorded state."""
  for name, st in ts.state.items():
    pv = ts.p_values[name]
    try:
      c = util_comb(pv)
    except ValueError:
      return None
    is_failed = c < ts.p_value_fail
    if (st == rts.State.FAILED) != is_failed:
      return 'sub-test %r: state %s, combined %r, fail level %r' % (name, st.name, c, ts.p_value_fail)
    if not is_failed:
      try:
        rp = util_comb([ts.p_value_repeat] * len(pv))
      except ValueError:
        return None
      if (st == rts.State.PASSED) != (rp < c):
        return 'sub-test %r: state %s, combined %r, repeat combination %r' % (name, st.name, c, rp)
    rec = ts.combined_p_values.get(name)
    if not (rec == c or (rec != rec and c != c)):
      return 'sub-test %r: recorded combination %r, CombinedPValue %r' % (name, rec, c)
  if ts.Failed() != any(s == rts.State.FAILED for s in ts.state.values()):
    return 'Failed() differs from "some sub-test FAILED"'
  if insufficient:
    if not ts.finished:
      return 'InsufficientDataError but not finished'
  elif last is not None and len({n for n, _ in last}) == len(last):
    exp = (all(ts.state[n] != rts.State.UNDECIDED for n, _ in last) and
           ts.runs >= ts.min_repetitions)
    if ts.finished != exp:
      return 'finished=%r but rule gives %r' % (ts.finished, exp)
  return None


def as_items(o):
  if o == 'I':
    return None
  return [('result', o)] if isinstance(o, (int, float)) else list(o)


def history_violation(rts, util_comb, ts, outcomes):
  """C13 rule in terms of the HISTORY (Props/C13History.lean): the recorded p-values of every name
  are everything the runs `outcomes` returned under that name, in order; the state is the decision
  for exactly those; `finished` (last run returned a list, names may repeat) counts one decision
  per item of the last result."""
  hist = {}
  for o in outcomes:
    for n, p in (as_items(o) or []):
      hist.setdefault(n, []).append(p)
  rec = {n: list(v) for n, v in ts.p_values.items()}
  if list(rec.keys()) != list(hist.keys()) or any(
      vals(rec[n]) != vals(hist[n]) for n in hist):
    return 'recorded p-values %r are not the history %r' % (rec, hist)
  if set(ts.state.keys()) != set(hist.keys()) or set(ts.combined_p_values.keys()) != set(hist.keys()):
    return 'names with a state %r / combined value %r differ from names returned %r' % (
        list(ts.state), list(ts.combined_p_values), list(hist))

  def decide(pv):
    c = util_comb(pv)
    if c < ts.p_value_fail:
      return rts.State.FAILED
    return rts.State.PASSED if util_comb([ts.p_value_repeat] * len(pv)) < c else rts.State.UNDECIDED
  try:
    for n, pv in hist.items():
      if ts.state[n] != decide(pv):
        return 'sub-test %r: state %s, rule on the returned p-values %r gives %s' % (
            n, ts.state[n].name, pv, decide(pv).name)
    last = as_items(outcomes[-1]) if outcomes else None
    if last is not None:
      before = {}
      for o in outcomes[:-1]:
        for n, p in (as_items(o) or []):
          before.setdefault(n, []).append(p)
      und = 0
      for n, p in last:
        before.setdefault(n, []).append(p)
        und += decide(before[n]) == rts.State.UNDECIDED
      exp = und == 0 and len(outcomes) >= ts.min_repetitions
      if ts.finished != exp:
        return 'finished=%r, per-item rule on the history gives %r' % (ts.finished, exp)
  except ValueError:
    return None
  return None


def make_test(script, counter, nist_suite, name='Fake'):
  def fake(bits, n, *params):
    o = script[counter[0]] if counter[0] < len(script) else 'I'
    if o == 'I':
      raise nist_suite.InsufficientDataError('scripted')
    return o
  fake.__name__ = name
  return fake


def correspondence(rep, rng, tier):
  from paranoid_crypto.lib.randomness_tests import random_test_suite as rts, nist_suite, util
  quick = tier == 'quick'
  rec = Recorder()
  real_comb = util.CombinedPValue
  rec.install()
  try:
    # ---------------- util.CombinedPValue
    b = Batch('su.comb')
    cases = [[], [0.3], [0], [0.0, 0.3], [0.3, 0.0], [-0.0, 0.5], [0, 1], [1, 1], [1.0, 1.0, 1.0],
             [float('nan')], [float('nan'), 0.0], [0.0, float('nan')], [float('nan'), 0.3],
             [0.3, float('nan')], [0.3, 0.0, float('nan')], [float('nan'), 0.3, 0.0],
             [1e-300, 1e-300], [5e-324] * 3, [1.5, 0.3], [float('inf'), 0.3], [0.01] * 5,
             [1e-9] * 7, [0.5, 0.5], [2, 3]]
    for _ in range(1500 if quick else 10000):
      k = rng.choice([1, 2, 2, 3, 5, 9, 20])
      cases.append([rand_p(rng) for _ in range(k)])
    for ps in cases:
      try:
        impl = 'ok ' + V(util.CombinedPValue(ps))
      except ValueError:
        impl = 'err ValueError'

      def pred(ps=ps, impl=impl):
        if not ps:
          return None if impl.startswith('err') else 'empty sample did not raise'
        if len(ps) == 1 and impl != 'ok ' + V(ps[0]):
          return 'single p-value not returned as is'
        return None
      tag = ('empty' if not ps else 'single' if len(ps) == 1 else
             'raise' if impl.startswith('err') else 'zero' if min(ps) == 0 else 'igamc')
      b.add('su.comb %s %s' % (vals(ps), rec.take()), impl, tag=tag, pred=pred)
    rep.absorb(b, b.run())

    # ---------------- TestStructure.Run histories
    b = Batch('su.run')
    n_hist = 3000 if quick else 20000
    for it in range(n_hist):
      style = rng.choice(['std', 'std', 'equal', 'odd', 'tie-repeat', 'tie-fail', 'clean'])
      fail, rp = 1e-9, 0.01
      if style == 'equal':
        fail = rp = rng.choice([1e-9, 0.01, 0.5])
      elif style == 'odd':
        fail, rp = rng.choice(SPECIAL), rng.choice(SPECIAL)
      min_rep = rng.choice([0, 1, 1, 1, 2, 3, 5])
      names = rng.sample(NAMES, rng.randrange(1, 4))
      k = rng.choice([1, 1, 2, 3, 4, 6, 10])
      clean = style == 'clean'
      script = [rand_outcome(rng, names, clean) for _ in range(k)]
      if style == 'tie-repeat':
        # every run returns exactly the repeat level: combination == repeat combination
        script = [[(n, rp) for n in names] for _ in range(k)]
      elif style == 'tie-fail':
        # the fail level is exactly the combination of the scripted p-values
        ps = [rng.choice([0.001, 0.02, 1e-5, rng.random()]) for _ in range(k)]
        script = [[(names[0], p)] for p in ps]
        fail = real_comb(ps)
        if rng.random() < 0.5:
          rp = fail
      counter = [0]
      ts = rts.TestStructure(make_test(script, counter, nist_suite), [], fail, rp, min_rep)
      rets, failure, impl = [], None, None
      for j in range(k):
        counter[0] = j
        try:
          rets.append(ts.Run(0, 0))
        except ValueError:
          impl = 'err ValueError'
          break
        if failure is None:
          o = script[j]
          last = None if o == 'I' else ([('result', o)] if isinstance(o, (int, float)) else o)
          failure = rule_violation(rts, real_comb, ts, last=last, insufficient=(o == 'I'))
          failure = failure or history_violation(rts, real_comb, ts, script[:j + 1])
          if failure is None and rets[-1] != ts.finished:
            failure = 'Run returned %r, finished=%r' % (rets[-1], ts.finished)
      if impl is None:
        impl = 'ok %s %s' % (''.join(B(r) for r in rets), fmt_ts(rts, ts))
      tag = style + ('/raise' if impl.startswith('err') else '')
      b.add('su.run %s %s %s %s %s' % (V(fail), V(rp), H(min_rep),
                                       ';'.join(fmt_outcome(o) for o in script), rec.take()),
            impl, tag=tag, pred=(lambda f=failure: f), always=True)
    rep.absorb(b, b.run())

    # ---------------- TestSource / TestBitString with scripted tests and source
    class StopScript(Exception):
      pass

    bs = Batch('su.source')
    bb = Batch('su.bits')
    saved_tests, saved_cls = rts.TESTS, rts.TestStructure
    created = []

    class Capturing(saved_cls):

      def __init__(self, *a, **kw):
        super().__init__(*a, **kw)
        created.append(self)
    rts.TestStructure = Capturing
    try:
      for it in range(1500 if quick else 10000):
        n_all = rng.choice([1, 2, 3, 5])
        fuel = rng.choice([1, 2, 3, 5, 8])
        clean = rng.random() < 0.6
        names = [rng.sample(NAMES, rng.randrange(1, 3)) for _ in range(n_all)]
        prefix = rng.choice([None, None, '', 'FakeA', 'FakeB', 'Nope'])
        fnames = ['Fake%s%d' % (rng.choice('AB'), i) for i in range(n_all)]
        sel = [i for i in range(n_all) if not prefix or fnames[i].startswith(prefix)]
        scripts = [[rand_outcome(rng, names[i], clean) for _ in range(fuel)] for i in range(n_all)]
        if rng.random() < 0.5:
          # make termination likely: healthy values towards the end
          for i in range(n_all):
            scripts[i][-1] = [(n, rng.uniform(0.2, 0.9)) for n in names[i]]
        counter = [-1]
        rts.TESTS = [(make_test(scripts[i], counter, nist_suite, fnames[i]),
                      ([] if rng.random() < 0.7 else [7])) for i in range(n_all)]
        rounds = '|'.join(';'.join(fmt_outcome(scripts[i][r]) for i in sel) if sel else '[]'
                          for r in range(fuel))
        min_rep = rng.choice([0, 1, 1, 2, 3])
        fail, rp = (1e-9, 0.01) if rng.random() < 0.7 else (rng.choice(SPECIAL), rng.choice(SPECIAL))
        if rng.random() < 0.6:
          # --- TestSource
          def source(n):
            counter[0] += 1
            if counter[0] >= fuel:
              raise StopScript()
            return 0
          del created[:]
          failure = None
          try:
            ret = rts.TestSource(source, 64, rp, fail, None, prefix, 0, min_rep)
            impl = 'ok %s %s' % ('-' if ret is None else B(ret),
                                 ';'.join(fmt_ts(rts, t) for t in created) if created else '[]')
            if sel:
              if ret != any(t.Failed() for t in created):
                failure = 'TestSource returned %r, failed sub-tests: %r' % (
                    ret, [t.Failed() for t in created])
              elif not all(t.finished for t in created):
                failure = 'TestSource returned while a test is unfinished'
            for idx, t in enumerate(created):
              failure = failure or rule_violation(rts, real_comb, t)
              # the structure of test i is the history of column i of the script (run exactly in
              # the rounds in which it was unfinished)
              failure = failure or history_violation(rts, real_comb, t, scripts[sel[idx]][:t.runs])
          except StopScript:
            impl = 'ok running'
            if all(t.finished for t in created) and created:
              failure = 'TestSource asked for more bits although every test is finished'
            for idx, t in enumerate(created):
              failure = failure or history_violation(rts, real_comb, t, scripts[sel[idx]][:t.runs])
          except ValueError:
            impl = 'err ValueError'
          tag = ('none-selected' if not sel else impl.split(' ')[1] if impl.startswith('ok') else 'raise')
          bs.add('su.source %s %s %s %s %s %s' % (H(len(sel)), V(fail), V(rp), H(min_rep),
                                                  rounds if sel else '|'.join(['[]'] * fuel),
                                                  rec.take()),
                 impl, tag=tag, pred=(lambda f=failure: f), always=True)
        else:
          # --- TestBitString
          counter[0] = 0
          del created[:]
          failure = None
          try:
            ret = rts.TestBitString(0, 64, fail, None, prefix, 0)
            impl = 'ok %s %s' % (B(ret), ';'.join(fmt_ts(rts, t) for t in created) if created else '[]')
            if ret != any(t.Failed() for t in created):
              failure = 'TestBitString returned %r, failed sub-tests: %r' % (
                  ret, [t.Failed() for t in created])
            for t in created:
              failure = failure or rule_violation(rts, real_comb, t)
              if t.runs != 1:
                failure = failure or 'test run %d times' % t.runs
            for idx, t in enumerate(created):
              failure = failure or history_violation(rts, real_comb, t, scripts[sel[idx]][:1])
          except ValueError:
            impl = 'err ValueError'
          bb.add('su.bits %s %s %s %s' % (H(len(sel)), V(fail),
                                          ';'.join(fmt_outcome(scripts[i][0]) for i in sel) if sel else '[]',
                                          rec.take()),
                 impl, tag=('none-selected' if not sel else impl[:4].strip()),
                 pred=(lambda f=failure: f), always=True)
    finally:
      rts.TESTS, rts.TestStructure = saved_tests, saved_cls
    rep.absorb(bs, bs.run())
    rep.absorb(bb, bb.run())
  finally:
    rec.uninstall()
  if not quick and not rep.violations:
    # thorough tier: the search-only part (sentences 1-2 of C13) on one seed per generator
    search(rep, rng, 'quick')


# sentence 2 of C13: (generator, documented test prefix, log2 of the number of bits per round)
WEAK_PAIRS = [
    ('trunclcg32', 'FindBias', 16), ('trunclcg64', 'FindBias', 16), ('trunclcg128', 'FindBias', 16),
    ('lehmer128', 'FindBias', 16), ('lehmer128/16', 'FindBias', 16), ('java', 'FindBias', 16),
    ('mwc64', 'FindBias', 16), ('mwc128', 'FindBias', 16), ('mwc256', 'FindBias', 16),
    ('xorshift128+', 'LargeBinaryMatrixRank', 18), ('xorwow', 'LargeBinaryMatrixRank', 18),
    ('xorshift*', 'LargeBinaryMatrixRank', 23), ('xorshift128+', 'LinearComplexityScatter', 22),
]
GOOD_RNGS = ['shake128', 'pcg64', 'philox']


def weak_run(name, prefix, lg, seed):
  """sentence 2 on one (generator, seed): the real TestSource on rounds of 2**lg bits of the bundled generator
  `name` (round i seeded seed + i), restricted to the documented test `prefix`.  True = reported as failed."""
  from paranoid_crypto.lib.randomness_tests import random_test_suite as rts, rng as R
  g = R.GetRng(name)
  cnt = [0]

  def source(n):
    cnt[0] += 1
    return g.RandomBits(n, seed=seed + cnt[0])
  try:
    return rts.TestSource(source, 2**lg, test_prefix=prefix, log_level=0)
  except Exception as e:  # noqa
    return 'raised %r' % (e,)


def good_run(name, lg, seed, prefix=''):
  """sentence 1 on one (generator, seed): the real TestBitString on 2**lg bits.  False = not reported."""
  from paranoid_crypto.lib.randomness_tests import random_test_suite as rts, rng as R
  bits = R.GetRng(name).RandomBits(2**lg, seed=seed)
  try:
    return rts.TestBitString(bits, 2**lg, test_prefix=(prefix or None), log_level=0)
  except Exception as e:  # noqa
    return 'raised %r' % (e,)


def search(rep, rng, tier):
  """SEARCH ONLY (runs under `./check C13 --search`, ~2 min quick): sentences 1-2 of C13 have no
  theorem and no model.  For random seeds: every bundled weak generator must make the real
  TestSource, restricted to the test the documentation names, return True (sentence 2); 2^20 bits
  of a seeded cryptographic generator must not make TestBitString return True at the default
  1e-9 level (sentence 1).  A miss is a failing input of the property (a seed), nothing more can
  be concluded from a pass than "not refuted on these seeds"."""
  import time
  from paranoid_crypto.lib.randomness_tests import random_test_suite as rts, rng as R
  quick = tier == 'quick'
  t0 = time.time()
  runs = []
  for name, prefix, lg in WEAK_PAIRS:
    for _ in range(1 if quick else 5):
      seed = rng.getrandbits(48)
      ret = weak_run(name, prefix, lg, seed)
      runs.append((name, prefix, lg, seed, ret))
      if ret is not True:
        rep.violations.append(dict(
            op='su.weakgen', line='TestSource(%s seed=%d+round, n=2**%d, test_prefix=%r)' % (
                name, seed, lg, prefix),
            what='documented weak generator %s is not failed by %s: returned %r' % (name, prefix, ret),
            impl=repr(ret), model=None,
            info=dict(replay=dict(kind='weakgen', generator=name, seed=seed, lg=lg, prefix=prefix))))
  for name in (GOOD_RNGS[:1] if quick else GOOD_RNGS):
    seed = rng.getrandbits(48)
    ret = good_run(name, 20, seed)
    runs.append((name, 'ALL', 20, seed, ret))
    if ret is not False:
      rep.violations.append(dict(
          op='su.goodgen', line='TestBitString(%s seed=%d, n=2**20)' % (name, seed),
          what='cryptographic generator %s reported as failed at 1e-9: %r' % (name, ret),
          impl=repr(ret), model=None,
          info=dict(replay=dict(kind='goodgen', generator=name, seed=seed, lg=20, prefix=''))))
  rep.extra['sentences_1_2_search'] = dict(
      runs=len(runs), wall_s=round(time.time() - t0, 1),
      note='search only: seeds tried %r' % ([(r[0], r[1], r[3]) for r in runs],))


def replay_search_record(doc):
  """review-2 M8: a sentence-1/2 search miss has no driver line; its replay re-runs the REAL TestSource /
  TestBitString on the stored (generator, seed, size, prefix) and fails only if the miss reproduces.  Records
  written before the structured `info.replay` existed are parsed from their `line`."""
  import re
  import shims
  shims.install()
  rp = (doc.get('info') or {}).get('replay')
  if not rp:
    line = doc.get('line') or ''
    m = re.match(r"TestSource\((\S+) seed=(\d+)\+round, n=2\*\*(\d+), test_prefix='([^']*)'\)$", line)
    g = re.match(r"TestBitString\((\S+) seed=(\d+), n=2\*\*(\d+)\)$", line)
    if m:
      rp = dict(kind='weakgen', generator=m.group(1), seed=int(m.group(2)), lg=int(m.group(3)), prefix=m.group(4))
    elif g:
      rp = dict(kind='goodgen', generator=g.group(1), seed=int(g.group(2)), lg=int(g.group(3)), prefix='')
    else:
      print('replay: cannot parse the search record %r' % (line,))
      return 2
  if isinstance(rp.get('seed'), str):
    rp['seed'] = int(rp['seed'], 16)          # framework.jsonable writes integers beyond 2^53 in hex
  if rp['kind'] == 'weakgen':
    ret = weak_run(rp['generator'], rp['prefix'], rp['lg'], rp['seed'])
    print('replay: TestSource(%s seed=%d+round, n=2**%d, test_prefix=%r) -> %r' % (
        rp['generator'], rp['seed'], rp['lg'], rp['prefix'], ret))
    if ret is not True:
      print('VIOLATION property=C13 documented weak generator %s is not failed by %s' % (rp['generator'], rp['prefix']))
      return 1
    print('replay: not reproduced on the current tree (the weak generator is reported as failed)')
    return 0
  ret = good_run(rp['generator'], rp['lg'], rp['seed'], rp.get('prefix') or '')
  print('replay: TestBitString(%s seed=%d, n=2**%d) -> %r' % (rp['generator'], rp['seed'], rp['lg'], ret))
  if ret is not False:
    print('VIOLATION property=C13 cryptographic generator %s reported as failed at 1e-9' % rp['generator'])
    return 1
  print('replay: not reproduced on the current tree (the generator passes)')
  return 0


def replay(doc):
  if doc.get('op') in ('su.weakgen', 'su.goodgen'):
    return replay_search_record(doc)
  line = doc.get('line')
  if not line:
    print('replay file has no request line (obligation-broken record)')
    return 2
  model = fw.run_driver([line])[0]
  print('line :', fw.trunc(line, 2000))
  print('impl :', fw.trunc(doc.get('impl'), 2000))
  print('model:', fw.trunc(model, 2000))
  print('what :', doc.get('what'))
  return 1 if model != doc.get('impl') else 0
