"""C14 — linear complexity is the true shortest-LFSR length in every implementation.

Correspondence of FOUR implementations against the Lean model (Model/BM.lean), and of the two
C++ builds ALSO against their own word-level models (Model/BMCpp.lean):

  native    Python  berlekamp_massey.LinearComplexityNative        op bm.native
  wrapper   Python  berlekamp_massey.LinearComplexity (-> C++)      op bm.wrapper
  portable  C++     LfsrLengthStr, portable variant (no -D)         op bm.cpp + bm.cpp_portable
  clmul     C++     LfsrLengthStr, built with -mpclmul -msse2 -D__CLMUL__   op bm.cpp + bm.cpp_clmul
  (setup    C++     built with the flags setup.py passes; recorded which variant that is)

bm.cpp is the big-integer routine `bmLength` (what the C++ code is PROVED to compute,
Props/C14Cpp.lean); bm.cpp_portable / bm.cpp_clmul mirror berlekamp_massey.cc word by word
(uint64 vectors sb, sc, tb, tc, the shifts with carries, clmul as shift-and-xor, byte packing).
The model of the intrinsic (`bm.clmul x y`) is compared with the repo's own inline
`clmul(x, y, &hi, &lo)` — exported from a translation unit that #includes berlekamp_massey.cc
built with -D__CLMUL__ (shims.ClmulProbe), i.e. the real PCLMULQDQ instruction — and `pred`
checks that against a Python shift-and-xor reference.

plus LfsrCount / LfsrLogProbability (ops bm.count, bm.logprob).

`pred` evaluates the property itself on the implementation, never through the model:
the returned length must equal the length of the shortest LFSR computed
  * by brute force over all tap vectors            (length <= 12),
  * by GF(2) linear algebra (solvability of the LFSR equations)   (length <= 160),
  * by an independent textbook Berlekamp-Massey with explicit discrepancy (longer);
counts must equal the true counts over all sequences (n <= 14).
"""
import json
import os
import subprocess
import sys
import time

import framework as fw
from framework import H, Batch
import shims

META = dict(
    trusted_base=[
        'C++ variants are built from the working tree by harness/shims.py with g++ '
        '(portable: no flags; clmul: -mpclmul -msse2 -D__CLMUL__; setup: -mpclmul as setup.py) '
        'and called through ctypes on LfsrLengthStr (stands in for the pybind11 module)',
        'the C++ code is modelled word by word (Model/BMCpp.lean: portable and CLMUL variants, '
        'packing, entry points) and each build is compared with its own word-level model and with '
        'the big-integer routine on every input of this run (ASan/UBSan builds in the thorough tier)',
        '_mm_clmulepi64_si128(x, y, 0x00) / vmull_p64 = carry-less product of two 64-bit words as '
        'defined by BMCpp.clmul (shift-and-xor over the 64 bits of x): SPECIFICATION of the '
        'intrinsic, not derived; the instruction itself runs inside the clmul build',
        'C `int` arithmetic in berlekamp_massey.cc modelled with unbounded naturals: exact for '
        'n <= 2^30 (2 * lfsr_len cannot overflow); word-level models are run for n <= 2^15',
    ],
    assumptions=[
        'Model/BM.lean mirrors berlekamp_massey.py (LinearComplexityNative line by line; '
        'LinearComplexity = size check + to_bytes + C++ result modelled by the same loop); '
        'tie checked by this correspondence run',
        's >= 0 (a bit sequence); negative s is outside the model and only probed',
    ])

PY = '/venv/bin/python'
HERE = os.path.dirname(os.path.abspath(__file__))
HARNESS = os.path.dirname(HERE)


# ----------------------------------------------------------------------------
# independent reference computations (used by pred / search only)

def bits_of(s, length):
  return [(s >> i) & 1 for i in range(length)]


def generates(taps, bits):
  L = len(taps)
  for k in range(L, len(bits)):
    acc = 0
    for i in range(L):
      acc ^= taps[i] & bits[k - 1 - i]
    if acc != bits[k]:
      return False
  return True


def shortest_bruteforce(bits):
  """min L such that some tap vector c_1..c_L generates bits (all 2^L vectors tried)."""
  n = len(bits)
  for L in range(n + 1):
    for t in range(1 << L):
      if generates([(t >> i) & 1 for i in range(L)], bits):
        return L
  return n


def shortest_linalg(bits):
  """min L such that the linear system s_k = sum c_i s_{k-i} (k = L..n-1) is solvable;
  Gaussian elimination over GF(2) with int bitmasks (bit 0 = right-hand side, bit i = c_i)."""
  n = len(bits)
  for L in range(n + 1):
    piv = {}
    ok = True
    for k in range(L, n):
      row = bits[k]
      for i in range(1, L + 1):
        row |= bits[k - i] << i
      while row > 1:
        top = row.bit_length() - 1
        if top in piv:
          row ^= piv[top]
        else:
          piv[top] = row
          break
      if row == 1:       # 0 = 1: no tap vector of length L
        ok = False
        break
    if ok:
      return L
  return n


def textbook_bm(s, length):
  """Textbook Berlekamp-Massey with explicit discrepancy d = sum_{i=0..L} C_i s_{n-i};
  C, B are ints (bit i = coefficient i), rev holds s_n, s_{n-1}, ... in bits 0, 1, ..."""
  c, b = 1, 1
  L, x = 0, 1
  rev = 0
  for n in range(length):
    rev = (rev << 1) | ((s >> n) & 1)
    d = bin(c & rev).count('1') & 1
    if d:
      t = c
      c ^= b << x
      if 2 * L <= n:
        L = n + 1 - L
        b = t
        x = 1
      else:
        x += 1
    else:
      x += 1
  return L


def reference_length(s, length):
  s &= (1 << length) - 1
  if length <= 12:
    return shortest_bruteforce(bits_of(s, length)), 'brute force over all tap vectors'
  if length <= 160:
    return shortest_linalg(bits_of(s, length)), 'GF(2) linear algebra'
  return textbook_bm(s, length), 'independent textbook Berlekamp-Massey'


_TRUE_COUNTS = {}


def true_counts(n):
  """{m: number of n-bit sequences whose shortest LFSR has length m}, by enumeration."""
  if n not in _TRUE_COUNTS:
    cnt = {}
    for s in range(1 << n):
      bits = bits_of(s, n)
      L = shortest_bruteforce(bits) if n <= 8 else shortest_linalg(bits)
      cnt[L] = cnt.get(L, 0) + 1
    _TRUE_COUNTS[n] = cnt
  return _TRUE_COUNTS[n]


# ----------------------------------------------------------------------------
# implementations

class Impls:

  def __init__(self, clmul_len0_ok):
    from paranoid_crypto.lib.randomness_tests import berlekamp_massey as bm
    self.bm = bm
    self.libs = {v: shims.BmLib(v) for v in ('portable', 'clmul', 'setup')}
    self.clmul_len0_ok = clmul_len0_ok

  def native(self, s, length):
    return fw.call(H, self.bm.LinearComplexityNative, s, length)

  def wrapper(self, s, length):
    return fw.call(H, self.bm.LinearComplexity, s, length)

  def cpp(self, variant, ba, n):
    if variant == 'clmul' and n == 0 and len(ba) == 0 and not self.clmul_len0_ok:
      return None   # D8: would crash the process; pinned behaviour reported as known finding
    return H(self.libs[variant].LfsrLength(ba, n))


def lc_pred(get, s, length):
  """property predicate: implementation result == length of the shortest LFSR."""
  def pred():
    if length < 0 or s < 0:
      return None
    try:
      r = get()
    except Exception as e:  # noqa
      return 'raised %r on a well-formed sequence' % (e,) if s < (1 << length) else None
    want, how = reference_length(s, length)
    if r != want:
      return 'returned %r for length=%d s=%s; shortest LFSR has length %d (%s)' % (
          r, length, fw.trunc(hex(s), 80), want, how)
    return None
  return pred


class DedupBatch(Batch):
  """Several implementations answer the same request line: run the model once per line."""

  def run(self):
    uniq = {}
    for it in self.items:
      uniq.setdefault(it['line'], None)
    lines = list(uniq)
    t0 = time.time()
    out = fw.run_driver(lines)
    self.model_s = time.time() - t0
    ans = dict(zip(lines, out))
    div = []
    for it in self.items:
      it['model'] = ans[it['line']]
      if it['model'] != it['impl']:
        div.append(it)
    return div


def to_bytes(s, length):
  return s.to_bytes((length + 7) // 8, 'little')


# word-level models of the two C++ variants (Model/BMCpp.lean)
WORD_MODEL = {'portable': 'bm.cpp_portable', 'clmul': 'bm.cpp_clmul'}
WORD_MODEL_MAX = 1 << 15      # the list-of-words models are quadratic like the C++ code


def word_line(v, ba, n):
  return '%s %s %s' % (WORD_MODEL[v], ba.hex() or '[]', H(n))


def clmul_ref(x, y):
  r = 0
  for i in range(64):
    if (x >> i) & 1:
      r ^= y << i
  return r


def add_all(b, im, s, length, tag, variants=('portable', 'clmul')):
  """the four implementations on a well-formed (s, length): 0 <= s < 2^length."""
  hs, hl = H(s), H(length)
  info = dict(kind='lc', s=hex(s), length=length)
  b.add('bm.native %s %s' % (hs, hl), im.native(s, length), tag='native:' + tag,
        pred=lc_pred(lambda: im.bm.LinearComplexityNative(s, length), s, length),
        info=dict(info, impl='native'), nontrivial=length > 1)
  b.add('bm.wrapper %s %s' % (hs, hl), im.wrapper(s, length), tag='wrapper:' + tag,
        pred=lc_pred(lambda: im.bm.LinearComplexity(s, length), s, length),
        info=dict(info, impl='wrapper'), nontrivial=length > 1)
  ba = to_bytes(s, length)
  line = 'bm.cpp %s %s %s' % (H(len(ba)), hs, hl)
  for v in variants:
    r = im.cpp(v, ba, length)
    if r is None:
      continue
    pred = lc_pred(lambda v=v, ba=ba: im.libs[v].LfsrLength(ba, length), s, length)
    b.add(line, r, tag=v + ':' + tag, pred=pred, info=dict(info, impl=v), nontrivial=length > 1)
    if v in WORD_MODEL and length <= WORD_MODEL_MAX:
      # the same C++ answer against the word-level model of THIS variant
      b.add(word_line(v, ba, length), r, tag=v + '-words:' + tag, pred=pred,
            info=dict(info, impl=v), nontrivial=length > 1)


# ----------------------------------------------------------------------------
# generators

def lfsr_sequence(rng, L, length):
  """first `length` bits (as an int) of a random LFSR of length L with a random non-zero start."""
  if L == 0 or length == 0:
    return 0
  taps = rng.getrandbits(L) | (1 << (L - 1))      # bit i = c_{i+1}
  n0 = min(L, length)
  s = rng.getrandbits(n0) or 1
  # window: bit i = s_{k-1-i}
  win = 0
  if n0 == L:
    for i in range(L):
      win |= ((s >> (L - 1 - i)) & 1) << i
  mask = (1 << L) - 1
  for k in range(L, length):
    bit = (taps & win).bit_count() & 1
    s |= bit << k
    win = ((win << 1) | bit) & mask
  return s


def jump_sequence(rng, length):
  """z zeros, then random bits: L jumps to z+1 at step z, no length change is possible until
  step 2z+2; z is chosen so that this first possible change falls next to a 64-step block edge."""
  if length < 8:
    return rng.getrandbits(length) if length else 0
  z = 32 * rng.randrange(0, max(1, length // 64)) + rng.choice([28, 29, 30, 31, 0, 1])
  z = min(z, length - 1)
  return (rng.getrandbits(length) >> z << z | (1 << z)) & ((1 << length) - 1)


def families(rng, length):
  """(tag, s) with 0 <= s < 2^length."""
  mask = (1 << length) - 1
  out = [('zeros', 0), ('ones', mask), ('random', rng.getrandbits(length) if length else 0)]
  sp = 0
  for _ in range(rng.choice([1, 2, 3])):
    if length:
      sp |= 1 << rng.randrange(length)
  out.append(('sparse', sp))
  if length:
    out.append(('single-last', 1 << (length - 1)))
    out.append(('single-first', 1))
    p = rng.choice([1, 2, 3, 5, 7, 8, 31, 32, 33, 63, 64, 65])
    pat = rng.getrandbits(p) | 1
    per = 0
    for off in range(0, length, p):
      per |= pat << off
    out.append(('periodic', per & mask))
    z = rng.randrange(length + 1)
    out.append(('leading-zeros', (rng.getrandbits(length) >> z << z) & mask))
    out.append(('trailing-zeros', rng.getrandbits(length) >> z))
    L = rng.choice([1, 2, length // 4, length // 2, max(0, length // 2 - 1), min(length, 31),
                    min(length, 32), min(length, 33), min(length, 64)])
    out.append(('lfsr', lfsr_sequence(rng, L, length)))
    # an LFSR sequence with one flipped bit at / next to a 64-bit word boundary: the only
    # discrepancies of a whole 64-step block fall on its first or last steps (carry paths of the
    # CLMUL variant), with a length change (small L) or without one (L just above p/2)
    if length > 62:
      for _ in range(3):
        k = rng.randrange(1, length // 64 + 2)
        p = 64 * k + rng.choice([-2, -1, 0, 1, 62, 63])
        if not 0 < p < length:
          continue
        L = rng.choice([0, 1, 2, 3, p // 2 - 1, p // 2, p // 2 + 1, p // 2 + 2, p // 2 + 7])
        L = max(0, min(L, length))
        out.append(('lfsr-flip', lfsr_sequence(rng, L, length) ^ (1 << p)))
    if length >= 100:
      out.append(('zeros-jump', jump_sequence(rng, length)))
      out.append(('zeros-jump', jump_sequence(rng, length)))
    # a single 1 exactly at / next to a 64-bit word boundary: length change L -> n+1 there
    for pos in (63, 64, 65, 127, 128):
      if pos < length and rng.random() < 0.3:
        out.append(('single@%d' % pos, 1 << pos))
  return out


def boundary_lengths(rng, tier):
  ls = set(range(0, 21))
  for k in range(1, 18):
    ls.update((64 * k - 1, 64 * k, 64 * k + 1))
  ls.update((31, 32, 33, 95, 96, 97, 1099, 1100))
  if tier == 'thorough':
    ls.update(range(0, 1101))
  else:
    ls.update(rng.randrange(0, 1101) for _ in range(40))
  return sorted(ls)


# ----------------------------------------------------------------------------
# known findings

_PROBE = r'''
import sys
sys.path.insert(0, %r)
import shims
lib = shims.BmLib('clmul')
print('RESULT', lib.LfsrLength(b'', 0))
'''


def probe_clmul_len0():
  """LfsrLengthStr('', 0) on the CLMUL variant, in a subprocess (DESIGN D8: reads sb[0] of an
  empty vector).  Returns (ok, description)."""
  env = dict(os.environ)
  p = subprocess.run([PY, '-c', _PROBE % HARNESS], stdout=subprocess.PIPE,
                     stderr=subprocess.PIPE, text=True, timeout=300, env=env)
  if p.returncode != 0:
    return False, 'process died with return code %d' % p.returncode
  out = [l for l in p.stdout.split('\n') if l.startswith('RESULT')]
  if not out or out[0] != 'RESULT 0':
    return False, 'returned %r instead of 0' % (out[0] if out else p.stdout[:100])
  return True, 'returns 0'


def uses_pclmul(path):
  try:
    p = subprocess.run(['objdump', '-d', path], stdout=subprocess.PIPE, stderr=subprocess.PIPE,
                       text=True, timeout=120)
    return 'pclmul' in p.stdout
  except Exception:  # noqa
    return None


_STATE = {}


def _listed(fid):
  return any(f.get('id') == fid for f in fw.load_known_findings())


def _finding(rep, fid, text, line):
  """pinned defect: KNOWN-FINDING only while listed in known_findings.json, else a violation."""
  if _listed(fid):
    rep.known.append(text)
  else:
    rep.violations.append(dict(op='c14.defect', line=line, what=text, impl='', model='', info=None))


def known_findings(rep):
  ok, what = probe_clmul_len0()
  _STATE['clmul_len0_ok'] = ok
  if not ok:
    _finding(rep, 'D8',
             'CLMUL variant, length 0: LfsrLengthStr("", 0) built with -D__CLMUL__ %s (reads sb[0] '
             'of an empty vector, DESIGN D8); model and portable variant give 0' % what,
             'bm.cpp clmul [] 0')
  from paranoid_crypto.lib.randomness_tests import berlekamp_massey as bm
  c00 = bm.LfsrCount(0, 0)
  _STATE['count_variant'] = 'pinned' if c00 == 0 else 'repaired'
  if c00 == 0:
    _finding(rep, 'D17',
             'LfsrCount, n = 0: LfsrCount(0, 0) = 0 although exactly one sequence of length 0 '
             '(the empty one) has linear complexity 0 (guard `n <= 0`); every n >= 1 is exact',
             'bm.count 0 0')
  # which variant do setup.py's flags build?
  rep.extra['cxx_variants'] = {
      v: dict(so=os.path.basename(shims.build_bm(v)), uses_pclmulqdq=uses_pclmul(shims.build_bm(v)))
      for v in ('portable', 'clmul', 'setup')}
  rep.notes.append(
      "setup.py passes -mpclmul only; gcc then defines __PCLMUL__, not __CLMUL__, so the "
      "'setup' build is the portable variant (uses_pclmulqdq above) — a build-configuration "
      "fact, not a property violation; the harness forces each variant explicitly")


# ----------------------------------------------------------------------------
# correspondence

def correspondence(rep, rng, tier):
  if 'clmul_len0_ok' not in _STATE:
    known_findings(rep)
  im = Impls(_STATE['clmul_len0_ok'])
  thorough = tier == 'thorough'

  # --- 1. every sequence of length 0..14 (thorough 0..20), all four implementations
  top = 20 if thorough else 14
  for length in range(0, top + 1):
    total = 1 << length
    chunk = 1 << 15
    for lo in range(0, total, chunk):
      b = DedupBatch('bm.exhaustive')
      for s in range(lo, min(total, lo + chunk)):
        add_all(b, im, s, length, 'len%d' % length)
      rep.absorb(b, b.run(), max_samples=1 if length == 5 and lo == 0 else 0)

  # --- 2. lengths around every 64-bit word boundary x sequence families
  b = DedupBatch('bm.boundary')
  reps = 3 if thorough else 2
  for length in boundary_lengths(rng, tier):
    for _ in range(reps):
      for tag, s in families(rng, length):
        add_all(b, im, s, length, tag.split('@')[0], variants=('portable', 'clmul', 'setup'))
  rep.absorb(b, b.run())

  # --- 2b. many cheap structured multi-word cases (C++ carry paths: long stretches without
  #         length change, then a change next to a block edge)
  b = DedupBatch('bm.structured')
  for _ in range(60000 if thorough else 12000):
    length = rng.randrange(100, 1400)
    kind = rng.choice(['zeros-jump', 'zeros-jump', 'leading-zeros', 'lfsr-then-random', 'zero-gap'])
    if kind == 'zeros-jump':
      s = jump_sequence(rng, length)
    elif kind == 'leading-zeros':
      z = rng.randrange(length)
      s = (rng.getrandbits(length) >> z << z) & ((1 << length) - 1)
    elif kind == 'lfsr-then-random':
      L = rng.randrange(1, length // 2)
      cut = min(length, 2 * L + rng.choice([0, 1, 2, 30, 62, 63, 64, 65]))
      s = lfsr_sequence(rng, L, cut) | (rng.getrandbits(length - cut) << cut if length > cut else 0)
    else:
      z = rng.randrange(length)
      s = rng.getrandbits(length) & ~(((1 << rng.randrange(1, 200)) - 1) << z) & ((1 << length) - 1)
    add_all(b, im, s, length, kind)
  rep.absorb(b, b.run(), max_samples=1)

  # --- 3. sampled long lengths
  b = DedupBatch('bm.long')
  hi = 17 if thorough else 14
  longs = [1 << hi, (1 << hi) - 1, (1 << hi) - 64 + 1]
  longs += [rng.randrange(1101, 1 << hi) for _ in range(10 if thorough else 5)]
  longs += [64 * rng.randrange(18, (1 << hi) // 64) + d for d in (-1, 0, 1)]
  for length in longs:
    fams = families(rng, length)
    keep = [f for f in fams if f[0] in ('random', 'periodic', 'lfsr', 'lfsr-flip', 'sparse', 'leading-zeros', 'zeros-jump')]
    for tag, s in keep:
      add_all(b, im, s, length, tag)
  rep.absorb(b, b.run(), max_samples=1)

  # --- 4. arguments outside "s < 2^length, length >= 0": bits above `length`, negative and
  #        huge lengths, byte strings longer/shorter than needed
  b = DedupBatch('bm.edge')
  for length in list(range(0, 20)) + [63, 64, 65, 127, 128, 129, 200]:
    for _ in range(3):
      base = rng.getrandbits(length) if length else 0
      junk = rng.getrandbits(rng.choice([1, 3, 8, 64])) | 1
      for shift in (length, length + 1, 8 * ((length + 7) // 8), 8 * ((length + 7) // 8) - 1,
                    length + 70):
        if shift < length:
          continue
        s = base | (junk << shift)
        b.add('bm.native %s %s' % (H(s), H(length)), im.native(s, length), tag='native:highbits',
              pred=lc_pred(lambda s=s, length=length: im.bm.LinearComplexityNative(s, length),
                           s & ((1 << length) - 1), length),
              info=dict(kind='lc', impl='native', s=hex(s), length=length))
        r = im.wrapper(s, length)
        b.add('bm.wrapper %s %s' % (H(s), H(length)), r,
              tag='wrapper:highbits:' + ('overflow' if r.startswith('err') else 'ignored'),
              pred=(None if r.startswith('err') else
                    lc_pred(lambda s=s, length=length: im.bm.LinearComplexity(s, length),
                            s & ((1 << length) - 1), length)),
              info=dict(kind='lc', impl='wrapper', s=hex(s), length=length))
      # raw C++ entry point with byte strings of other sizes and out-of-range n
      for nbytes in {0, (length + 7) // 8, (length + 7) // 8 + 1, (length + 7) // 8 + 9,
                     max(0, (length + 7) // 8 - 1)}:
        s = rng.getrandbits(8 * nbytes) if nbytes else 0
        ba = s.to_bytes(nbytes, 'little')
        for n in (length, -1, -length - 1, 8 * nbytes, 8 * nbytes + 1, 8 * nbytes - 1):
          for v in ('portable', 'clmul'):
            r = im.cpp(v, ba, n)
            if r is None:
              continue
            inrange = 0 <= n <= 8 * nbytes
            pred = (lc_pred(lambda v=v, ba=ba, n=n: im.libs[v].LfsrLength(ba, n),
                            s & ((1 << n) - 1), n) if inrange else None)
            b.add('bm.cpp %s %s %s' % (H(nbytes), H(s), H(n)), r,
                  tag=v + (':bytes' if inrange else ':n-out-of-range'), pred=pred,
                  info=dict(kind='cpp', impl=v, s=hex(s), nbytes=nbytes, length=n))
            b.add(word_line(v, ba, n), r,
                  tag=v + ('-words:bytes' if inrange else '-words:n-out-of-range'), pred=pred,
                  info=dict(kind='cpp', impl=v, s=hex(s), nbytes=nbytes, length=n))
  for length in (-1, -2, -7, -8, -9, -64, -(1 << 40)):
    for s in (0, 1, 255, 256):
      b.add('bm.native %s %s' % (H(s), H(length)), im.native(s, length), tag='native:neg-length',
            info=dict(kind='lc', impl='native', s=hex(s), length=length), nontrivial=False)
      b.add('bm.wrapper %s %s' % (H(s), H(length)), im.wrapper(s, length),
            tag='wrapper:neg-length', info=dict(kind='lc', impl='wrapper', s=hex(s), length=length),
            nontrivial=False)
  for length in (1 << 34, (1 << 34) - 7, 1 << 40):   # size >= 2^31 -> ValueError (no allocation)
    b.add('bm.wrapper %s %s' % (H(0), H(length)), im.wrapper(0, length), tag='wrapper:huge-length',
          info=dict(kind='lc', impl='wrapper', s='0x0', length=length), nontrivial=False)
  if True:
    # 2^31 <= length: to_bytes succeeds (256 MiB), then the int conversion of pybind11/the shim fails
    b.add('bm.wrapper %s %s' % (H(0), H(1 << 31)), im.wrapper(0, 1 << 31), tag='wrapper:int-overflow',
          info=dict(kind='lc', impl='wrapper', s='0x0', length=1 << 31), nontrivial=False)
  rep.absorb(b, b.run())

  # --- 4b. wrapper glue (Props/C14Wrapper.lean): `s.to_bytes(size, "little")` against
  #         `BMCpp.toBytesLE`, and the real LinearComplexity against the wrapper executed over
  #         the WORD-LEVEL C++ model of either variant (`BMCpp.linearComplexityCpp`), errors included
  b = DedupBatch('bm.glue')

  def tb(size, x):
    try:
      ba = x.to_bytes(size, 'little')
    except OverflowError:
      return 'err OverflowError'
    return 'ok ' + (ba.hex() if ba else '[]')
  glue = []
  for length in list(range(0, 26)) + [31, 32, 33, 63, 64, 65, 71, 72, 73, 127, 128, 129, 191, 192, 193, 500, 1000]:
    size = (length + 7) // 8
    for _ in range(3 if tier == 'quick' else 8):
      base = rng.getrandbits(length) if length else 0
      glue.append((base, length, 'fits'))
      glue.append((base | (1 << (8 * size)) >> 1 if size else 0, length, 'top-bit'))     # highest bit of the last byte
      glue.append((base | (1 << (8 * size)), length, 'overflow'))                       # one bit too many
      glue.append(((1 << (8 * size)) - 1, length, 'all-ones'))
  for length in (-1, -3, -7, -8, -9):
    for x in (0, 1, 5):
      glue.append((x, length, 'neg-length'))
  for x, length, tag in glue:
    size = (length + 7) // 8
    if size >= 0:
      b.add('bm.to_bytes %s %s' % (H(size), H(x)), tb(size, x), tag='to_bytes:' + tag)
    r = im.wrapper(x, length)
    for v in ('portable', 'clmul'):
      b.add('bm.wrapper_cpp %s %s %s' % (v, H(x), H(length)), r,
            tag='wrapper_cpp:%s:%s:%s' % (v, tag, r.split()[0]),
            pred=(None if not r.startswith('ok') or length < 0 else
                  lc_pred(lambda x=x, length=length: im.bm.LinearComplexity(x, length),
                          x & ((1 << length) - 1), length)),
            info=dict(kind='lc', impl='wrapper', s=hex(x), length=length))
  rep.absorb(b, b.run())

  # negative s is outside the model (a bit sequence is a non-negative int): probe only
  probes = dict(native_neg_s_same_as_masked=0, native_neg_s_differs=[], wrapper_neg_s=set())
  for length in (0, 1, 5, 8, 64, 65, 130):
    for _ in range(5):
      s = -rng.getrandbits(length + 3) - 1
      a = im.native(s, length)
      m = im.native(s & ((1 << length) - 1), length)
      if a == m:
        probes['native_neg_s_same_as_masked'] += 1
      else:
        probes['native_neg_s_differs'].append([hex(s), length, a, m])
      probes['wrapper_neg_s'].add(im.wrapper(s, length))
  probes['wrapper_neg_s'] = sorted(probes['wrapper_neg_s'])
  rep.extra['unmodelled_probes'] = probes

  # --- 5. LfsrCount / LfsrLogProbability
  count_op = 'bm.count' if _STATE['count_variant'] == 'pinned' else 'bm.count_repaired'
  b = Batch(count_op)
  bl = Batch('bm.logprob')
  bm = im.bm
  grid = [(n, m) for n in range(-2, 41) for m in range(-2, n + 3)]
  grid += [(n, m) for n in (64, 100, 1000, 1001) for m in (0, 1, n // 2 - 1, n // 2, n // 2 + 1,
                                                           n - 1, n, n + 1)]
  for n, m in grid:
    def cpred(n=n, m=m):
      if not 0 <= n <= 14:
        return None
      want = true_counts(n).get(m, 0)
      got = bm.LfsrCount(n, m)
      if got != want:
        return 'LfsrCount(%d, %d) = %d but %d of the %d sequences of length %d have linear complexity %d' % (
            n, m, got, want, 1 << n, n, m)
      return None

    def lpred(n=n, m=m):
      if not (1 <= n <= 14 and 0 <= m <= n):
        return None
      want = true_counts(n).get(m, 0)
      try:
        e = bm.LfsrLogProbability(n, m)
      except Exception as ex:  # noqa
        return 'LfsrLogProbability(%d, %d) raised %r inside its domain' % (n, m, ex)
      if not (n + e >= 0 and want == 2 ** (n + e)):
        return 'LfsrLogProbability(%d, %d) = %d but the true probability is %d / 2^%d' % (
            n, m, e, want, n)
      return None
    tagc = ('outside' if (m < 0 or n <= 0 or m > n) else 'zero' if m == 0 else
            'low' if m <= n // 2 else 'high')
    b.add('%s %s %s' % (count_op, H(n), H(m)), H(bm.LfsrCount(n, m)), tag=tagc, pred=cpred,
          info=dict(kind='count', n=n, m=m), nontrivial=tagc != 'outside')
    bl.add('bm.logprob %s %s' % (H(n), H(m)), fw.call(H, bm.LfsrLogProbability, n, m), tag=tagc,
           pred=lpred, info=dict(kind='logprob', n=n, m=m), nontrivial=tagc != 'outside')
  rep.absorb(b, b.run())
  rep.absorb(bl, bl.run())

  # --- 5b. the model of the intrinsic against the repo's clmul() (real instruction)
  b = Batch('bm.clmul')
  try:
    probe = shims.ClmulProbe()
  except Exception as e:  # noqa  (no PCLMULQDQ / PMULL on this machine)
    probe = None
    rep.notes.append('clmul probe not built (%r): bm.clmul compared with the Python '
                     'shift-and-xor reference only' % (e,))
  for k in range(4000 if thorough else 1000):
    kind = k % 5
    if kind == 0:
      x, y = rng.getrandbits(64), rng.getrandbits(64)
    elif kind == 1:
      x, y = 1 << rng.randrange(64), rng.getrandbits(64)
    elif kind == 2:
      x, y = rng.getrandbits(64), 1 << rng.randrange(64)
    elif kind == 3:
      x, y = rng.choice([0, 1, 2 ** 63, 2 ** 64 - 1]), rng.choice([0, 1, 2 ** 63, 2 ** 64 - 1])
    else:
      x, y = rng.getrandbits(rng.randrange(1, 65)), rng.getrandbits(rng.randrange(1, 65))
    r = clmul_ref(x, y)
    hi, lo = probe.clmul(x, y) if probe else (r >> 64, r & (2 ** 64 - 1))

    def ipred(x=x, y=y, r=r, hi=hi, lo=lo):
      if (hi << 64) | lo != r:
        return 'clmul(%#x, %#x) = (%#x, %#x), carry-less product is %#x' % (x, y, hi, lo, r)
      return None
    b.add('bm.clmul %s %s' % (H(x), H(y)), '%s,%s' % (H(hi), H(lo)),
          tag=['random', 'x-monomial', 'y-monomial', 'extreme', 'short'][kind], pred=ipred,
          info=dict(kind='clmul', x=hex(x), y=hex(y)))
  rep.absorb(b, b.run())

  # --- 6. the Spec definitions themselves (textbook recursion, brute-force shortest LFSR) against
  #        the harness' independent references: validates that Spec/Lfsr.lean says what we mean
  b = Batch('bm.textbook')
  bs = Batch('bm.shortest')
  for length in range(0, 11 if thorough else 9):
    for s in range(1 << length):
      bits = bits_of(s, length)
      bs.add('bm.shortest %s %s' % (H(s), H(length)), H(shortest_bruteforce(bits)),
             tag='len%d' % length, nontrivial=length > 1)
      b.add('bm.textbook %s %s' % (H(s), H(length)), H(shortest_linalg(bits)),
            tag='exh', nontrivial=length > 1)
  for length in (13, 31, 32, 33, 63, 64, 65, 100, 129, 200):
    for tag, s in families(rng, length):
      b.add('bm.textbook %s %s' % (H(s), H(length)), H(shortest_linalg(bits_of(s, length))),
            tag=tag.split('@')[0])
  rep.absorb(b, b.run())
  rep.absorb(bs, bs.run())

  if thorough:
    sanitizer_run(rep, rng)


# ----------------------------------------------------------------------------
# thorough tier: both C++ variants under AddressSanitizer / UBSan, in a subprocess

_SAN = r'''
import ctypes, json, sys
sys.path.insert(0, %r)
import shims
cases = json.load(open(sys.argv[2]))
lib = ctypes.CDLL(shims.build_bm(sys.argv[1], sanitize=True))
lib.verif_lfsr_length.argtypes = [ctypes.c_char_p, ctypes.c_long, ctypes.c_int]
lib.verif_lfsr_length.restype = ctypes.c_int
out = []
for hx, n in cases:
  ba = bytes.fromhex(hx)
  out.append(lib.verif_lfsr_length(ba, len(ba), n))
json.dump(out, open(sys.argv[3], 'w'))
'''


def find_libasan():
  try:
    p = subprocess.run(['g++', '-print-file-name=libasan.so'], stdout=subprocess.PIPE, text=True)
    path = p.stdout.strip()
    return path if os.path.isabs(path) and os.path.exists(path) else None
  except Exception:  # noqa
    return None


def sanitizer_run(rep, rng):
  cases = []
  for length in list(range(1, 200)) + [255, 256, 257, 511, 512, 513, 1023, 1024, 1025, 4096, 4097]:
    for tag, s in families(rng, length):
      cases.append((to_bytes(s, length).hex(), length, s))
  cases.append(('00', 0, 0))
  cfile = os.path.join(fw.BUILD, 'san_cases_%d.json' % os.getpid())
  json.dump([[c[0], c[1]] for c in cases], open(cfile, 'w'))
  b = DedupBatch('bm.sanitized')
  asan = find_libasan()
  res = {}
  for v in ('portable', 'clmul'):
    ofile = os.path.join(fw.BUILD, 'san_out_%s_%d.json' % (v, os.getpid()))
    env = dict(os.environ)
    if asan:
      env['LD_PRELOAD'] = asan
    env['ASAN_OPTIONS'] = 'detect_leaks=0:abort_on_error=0:exitcode=77'
    env['UBSAN_OPTIONS'] = 'halt_on_error=1:exitcode=78:print_stacktrace=1'
    p = subprocess.run([PY, '-c', _SAN % HARNESS, v, cfile, ofile], stdout=subprocess.PIPE,
                       stderr=subprocess.PIPE, text=True, env=env, timeout=3000)
    res[v] = dict(returncode=p.returncode, stderr=fw.trunc(p.stderr[-1500:], 1500))
    if p.returncode != 0 or not os.path.exists(ofile):
      rep.broken.append('sanitizer run of C++ variant %s failed (rc=%s): %s' % (
          v, p.returncode, fw.trunc(p.stderr[-600:], 600)))
      continue
    out = json.load(open(ofile))
    os.remove(ofile)
    for (hx, n, s), r in zip(cases, out):
      b.add('bm.cpp %s %s %s' % (H(len(hx) // 2), H(s), H(n)), H(r), tag=v + ':asan',
            info=dict(kind='cpp', impl=v + '+asan', s=hex(s), nbytes=len(hx) // 2, length=n))
      b.add(word_line(v, bytes.fromhex(hx), n), H(r), tag=v + '-words:asan',
            info=dict(kind='cpp', impl=v + '+asan', s=hex(s), nbytes=len(hx) // 2, length=n))
  os.remove(cfile)
  rep.extra['sanitizer'] = res
  if b.items:
    rep.absorb(b, b.run())


# ----------------------------------------------------------------------------
# failing-input search on the implementations only (no model)

def search(rep, rng, tier):
  if 'clmul_len0_ok' not in _STATE:
    known_findings(rep)
  im = Impls(_STATE['clmul_len0_ok'])
  t_end = time.time() + (600 if tier == 'thorough' else 45)
  tried = 0
  lengths = boundary_lengths(rng, 'quick')
  while time.time() < t_end and not rep.violations:
    length = rng.choice(lengths)
    for tag, s in families(rng, length):
      want, how = reference_length(s, length)
      ba = to_bytes(s, length)
      got = {'native': im.bm.LinearComplexityNative(s, length),
             'wrapper': im.bm.LinearComplexity(s, length)}
      for v in ('portable', 'clmul'):
        if not (v == 'clmul' and length == 0 and not im.clmul_len0_ok):
          got[v] = im.libs[v].LfsrLength(ba, length)
      tried += 1
      for name, r in got.items():
        if r != want:
          rep.violations.append(dict(
              op='search', line='bm.native %s %s' % (H(s), H(length)),
              what='%s returned %d; shortest LFSR has length %d (%s)' % (name, r, want, how),
              impl=str(r), model='', info=dict(kind='lc', impl=name, s=hex(s), length=length)))
          break
  rep.extra['search_inputs'] = tried


# ----------------------------------------------------------------------------
# replay

def replay(d):
  info = d.get('info') or {}
  if 'clmul_len0_ok' not in _STATE:
    _STATE['clmul_len0_ok'] = probe_clmul_len0()[0]
  im = Impls(_STATE['clmul_len0_ok'])
  kind = info.get('kind')
  if kind in ('lc', 'cpp'):
    s = int(info['s'], 16)
    length = info['length']
    name = info['impl']
    if kind == 'cpp' or name in ('portable', 'clmul', 'setup'):
      nbytes = info.get('nbytes', (length + 7) // 8)
      ba = (s & ((1 << (8 * nbytes)) - 1)).to_bytes(nbytes, 'little')
      get = lambda: im.libs[name.split('+')[0]].LfsrLength(ba, length)
    elif name == 'native':
      get = lambda: im.bm.LinearComplexityNative(s, length)
    else:
      get = lambda: im.bm.LinearComplexity(s, length)
    what = lc_pred(get, s & ((1 << max(length, 0)) - 1), length)()
  elif kind == 'count':
    n, m = info['n'], info['m']
    got, want = im.bm.LfsrCount(n, m), true_counts(n).get(m, 0) if 0 <= n <= 14 else None
    what = None if want is None or got == want else 'LfsrCount(%d,%d)=%d, true count %d' % (n, m, got, want)
  elif kind == 'clmul':
    x, y = int(info['x'], 16), int(info['y'], 16)
    hi, lo = shims.ClmulProbe().clmul(x, y)
    what = (None if (hi << 64) | lo == clmul_ref(x, y) else
            'clmul(%#x, %#x) = (%#x, %#x), carry-less product is %#x' % (x, y, hi, lo, clmul_ref(x, y)))
  else:
    print('replay: nothing to re-run for', d.get('kind'), d.get('op'))
    return 2
  if what:
    print('VIOLATION property=C14 reproduced: %s' % what)
    return 1
  print('C14 replay: property holds on this input now')
  return 0
