"""C15 — bit-sequence primitives match their one-line definitions.

Correspondence of Model/BitSeq.lean with paranoid_crypto/lib/randomness_tests/util.py and
failing-input search (the definitions evaluated naively in Python on the implementation).

Every case is `(op, args)`; `impl_answer(op, args)` runs the real code and formats its result
exactly like Driver/BitSeq.lean, `pred_for(op, args)` evaluates the property (definition vs
implementation output) on that input.  `./check C15 --replay f` re-runs one recorded case.
"""
import ast
import inspect
import itertools
import multiprocessing
import os
import textwrap
import time
from concurrent.futures import ThreadPoolExecutor

import framework as fw
from framework import H, L, Batch

META = dict(
    trusted_base=[
        'gmpy2.popcount, int.to_bytes/from_bytes, bytes.translate, format(seq,"b"), array.array '
        '(modelled as arithmetic on Nat; tied by this correspondence run)',
        'forced-path variants of FrequencyCount / SplitSequence / BinaryMatrixRank are built from the '
        'CURRENT source by replacing the test of the path-selecting `if` with a constant (ast)',
    ],
    assumptions=[
        'Model/BitSeq.lean mirrors randomness_tests/util.py function by function; tie checked by this run '
        '(exhaustive for all strings of length <= 12 (thorough 16) x every parameter, sampled up to 2^16 bits)',
        'theorems speak about well-formed inputs (seq < 2^length, 0 < m <= length where the code demands it); '
        'inputs with high garbage bits are covered by the correspondence only',
    ])

KNOWN_CLASS = 'Bits with length == 0'
VARIANT = {'bits': 'repaired'}
NPROC = max(1, min(16, (os.cpu_count() or 2)))


def util():
  from paranoid_crypto.lib.randomness_tests import util as u
  return u


# ----------------------------------------------------------------------------
# the one-line definitions, evaluated naively

def bit(seq, i):
  return (seq >> i) & 1


def d_bitcount(s):
  return sum(bit(s, i) for i in range(s.bit_length()))


def d_reverse(seq, length):
  return sum(bit(seq, length - 1 - i) << i for i in range(length))


def d_bits(seq, length):
  return [1 if bit(seq, i) else -1 for i in range(length)]


def d_window(seq, length, m, i):
  """cyclic window: m bits starting at i."""
  return sum(bit(seq, (i + j) % length) << j for j in range(m))


def d_windows(seq, length, m, wrap):
  if wrap:
    return [d_window(seq, length, m, i) for i in range(length)]
  return [(seq >> i) % 2**m for i in range(length - m + 1)]


def d_freq(seq, length, m, wrap):
  res = [0] * 2**m
  for w in d_windows(seq, length, m, wrap):
    res[w] += 1
  return res


def d_split(seq, length, m):
  return [(seq >> (i * m)) % 2**m for i in range(length // m)]


def d_scatter(seq, m):
  n = seq.bit_length() // m + 1
  return [sum(bit(seq, i + m * t) << t for t in range(n)) for i in range(m)]


def d_runs(s, length):
  return len([k for k, _ in itertools.groupby(bit(s, i) for i in range(length))])


def d_longest(s):
  return max(len(x) for x in format(s, 'b').split('0')) if s else 0


def d_overlap(seq, m):
  return sum(all(bit(seq, i + j) for j in range(m)) for i in range(seq.bit_length()))


def d_rank(rows):
  """dimension of the GF(2) row span: greedy basis, lowest set bit as pivot (independent of the
  implementation, which pivots on the highest bit)."""
  basis = {}
  for r in rows:
    while r:
      low = r & -r
      if low in basis:
        r ^= basis[low]
      else:
        basis[low] = r
        break
  return len(basis)


def d_span_size(rows):
  span = {0}
  for r in rows:
    span |= {x ^ r for x in span}
  return len(span)


# ----------------------------------------------------------------------------
# formatting (must match Driver/BitSeq.lean)

def fmt_sparse(r):
  ent = [(i, v) for i, v in enumerate(r) if v]
  return '%x %s' % (len(r), ','.join('%x:%s' % (i, H(v)) for i, v in ent) if ent else '[]')


def fmt_pm(a):
  a = list(a)
  if all(x in (1, -1) for x in a):
    return '%x %s' % (len(a), ''.join('+' if x == 1 else '-' for x in a))
  return 'raw ' + L(a)


def call(fmt, f, *a, **kw):
  try:
    r = f(*a, **kw)
    if inspect.isgenerator(r):
      r = list(r)
  except Exception as e:  # noqa
    return 'err ' + type(e).__name__
  return 'ok ' + fmt(r)


# ----------------------------------------------------------------------------
# forced-path variants built from the current source, literal harvest

_FORCED = {}


def _path_if(fdef):
  for st in fdef.body:
    if isinstance(st, ast.If) and st.orelse:
      return st
  return None


def forced(name, value):
  """util.<name> with the test of its first top-level if/else replaced by `value`;
  None when the source no longer has that shape."""
  key = (name, value)
  if key not in _FORCED:
    fn = getattr(util(), name)
    try:
      tree = ast.parse(textwrap.dedent(inspect.getsource(fn)))
      st = _path_if(tree.body[0])
      if st is None:
        raise ValueError('no path-selecting if')
      st.test = ast.copy_location(ast.Constant(value), st.test)
      ast.fix_missing_locations(tree)
      ns = dict(fn.__globals__)
      exec(compile(tree, '<forced %s>' % name, 'exec'), ns)
      _FORCED[key] = ns[name]
    except Exception:  # noqa
      _FORCED[key] = None
  return _FORCED[key]


def literals(name, test_only=False):
  """integer literals in util.<name> (or only in its path-selecting test)."""
  try:
    tree = ast.parse(textwrap.dedent(inspect.getsource(getattr(util(), name))))
    node = tree.body[0]
    if test_only:
      node = _path_if(node)
      node = node.test if node is not None else ast.Pass()
    return sorted({n.value for n in ast.walk(node)
                   if isinstance(n, ast.Constant) and isinstance(n.value, int)
                   and not isinstance(n.value, bool)})
  except Exception:  # noqa
    return []


# ----------------------------------------------------------------------------
# implementation answers and property predicates per op

def wf(seq, length):
  return seq >= 0 and length >= 0 and seq.bit_length() <= length


def exh_parts(seq, length, pinned):
  u = util()
  parts = [H(u.BitCount(seq)), call(H, u.ReverseBits, seq, length)]
  parts.append(fmt_pm(u.Bits(seq, length)))
  parts += [H(u.Runs(seq, length)), H(u.LongestRunOfOnes(seq))]
  for m in range(length + 2):
    parts.append('/'.join([
        call(L, u.SubSequences, seq, length, m, True),
        call(L, u.SubSequences, seq, length, m, False),
        call(fmt_sparse, u.FrequencyCount, seq, length, m, True),
        call(fmt_sparse, u.FrequencyCount, seq, length, m, False),
        call(L, u.SplitSequence, seq, length, m),
        call(L, u.Scatter, seq, m),
        call(H, u.OverlappingRunsOfOnes, seq, m)]))
  return '|'.join(parts)


def exh_pred(seq, length, pinned):
  """all definitions for one (seq, length) and every parameter."""
  u = util()
  if u.BitCount(seq) != d_bitcount(seq):
    return 'BitCount(%x)' % seq
  if u.LongestRunOfOnes(seq) != d_longest(seq):
    return 'LongestRunOfOnes(%x)=%d, definition %d' % (seq, u.LongestRunOfOnes(seq), d_longest(seq))
  for m in range(1, length + 2):
    if u.OverlappingRunsOfOnes(seq, m) != d_overlap(seq, m):
      return 'OverlappingRunsOfOnes(%x,%d)' % (seq, m)
    r = u.Scatter(seq, m)
    if len(r) != m or any(r[i] != d_scatter(seq, m)[i] for i in range(m)):
      return 'Scatter(%x,%d)=%s' % (seq, m, r)
    if u.SplitSequence(seq, length, m) != d_split(seq, length, m):
      return 'SplitSequence(%x,%d,%d)' % (seq, length, m)
  if not wf(seq, length):
    return None
  if u.ReverseBits(seq, length) != d_reverse(seq, length):
    return 'ReverseBits(%x,%d)' % (seq, length)
  if list(u.Bits(seq, length)) != d_bits(seq, length):
    if not (length == 0 and pinned):
      return 'Bits(%x,%d)=%s' % (seq, length, list(u.Bits(seq, length)))
  if u.Runs(seq, length) != d_runs(seq, length):
    return 'Runs(%x,%d)=%d, definition %d' % (seq, length, u.Runs(seq, length), d_runs(seq, length))
  for m in range(0, length + 1):
    for wrap in (True, False):
      if m == 0 and not wrap:
        continue  # empty pattern without wrap-around: outside the domain (see report)
      if u.FrequencyCount(seq, length, m, wrap) != d_freq(seq, length, m, wrap):
        return 'FrequencyCount(%x,%d,%d,%s)=%s' % (seq, length, m, wrap,
                                                    u.FrequencyCount(seq, length, m, wrap))
      if m >= 1 and sorted(u.SubSequences(seq, length, m, wrap)) != sorted(
          d_windows(seq, length, m, wrap)):
        return 'SubSequences(%x,%d,%d,%s)' % (seq, length, m, wrap)
  return None


def exhpaths_parts(seq, length):
  slow = forced('FrequencyCount', False) or util().FrequencyCount
  fast = forced('FrequencyCount', True)
  sslow = forced('SplitSequence', False)
  parts = []
  for m in range(length + 2):
    p = [call(fmt_sparse, slow, seq, length, m, True), call(fmt_sparse, slow, seq, length, m, False)]
    if fast is not None:
      p += [call(fmt_sparse, fast, seq, length, m, True), call(fmt_sparse, fast, seq, length, m, False)]
    else:
      # source shape changed: the fast model must still equal the natural answer where defined
      for wrap in (True, False):
        p.append(call(fmt_sparse, util().FrequencyCount, seq, length, m, wrap)
                 if length >= m + 3 or m > length else 'err ValueError')
    p.append(call(L, sslow if sslow is not None else util().SplitSequence, seq, length, m))
    parts.append('/'.join(p))
  return '|'.join(parts)


def exhpaths_pred(seq, length):
  if not wf(seq, length):
    return None
  for name, val in (('FrequencyCount', False), ('FrequencyCount', True)):
    f = forced(name, val)
    if f is None:
      continue
    for m in range(0, length + 1):
      if val and length < m + 3:
        continue
      for wrap in (True, False):
        if m == 0 and not wrap:
          continue
        if f(seq, length, m, wrap) != d_freq(seq, length, m, wrap):
          return 'FrequencyCount[%s path](%x,%d,%d,%s)=%s' % (
              'fast' if val else 'slow', seq, length, m, wrap, f(seq, length, m, wrap))
  f = forced('SplitSequence', False)
  if f is not None:
    for m in range(1, length + 2):
      if f(seq, length, m) != d_split(seq, length, m):
        return 'SplitSequence[general path](%x,%d,%d)' % (seq, length, m)
  return None


def _cmp(name, got, want, args):
  if got != want:
    return '%s%s = %s, definition gives %s' % (name, fw.trunc(args, 200), fw.trunc(got, 200),
                                                fw.trunc(want, 200))
  return None


def _freq_impl(which):
  u = util()
  if which == 'slow':
    return forced('FrequencyCount', False) or u.FrequencyCount
  if which == 'fast':
    return forced('FrequencyCount', True) or u.FrequencyCount
  return u.FrequencyCount


def fc_use_fast(length, m):
  """the path FrequencyCount takes on the pinned tree (model mirrors this)."""
  return 50 * 2**m < length and m < 24


def impl_answer(op, a):
  u = util()
  if op == 'bs.exh':
    return exh_parts(a[0], a[1], a[2])
  if op == 'bs.exhpaths':
    return exhpaths_parts(a[0], a[1])
  if op == 'bs.bitcount':
    return H(u.BitCount(a[0]))
  if op == 'bs.reverse':
    return call(H, u.ReverseBits, a[0], a[1])
  if op == 'bs.revbyte':
    return H(u._REVERSE_BITS[a[0]])
  if op in ('bs.bits', 'bs.bits_pinned'):
    return fmt_pm(u.Bits(a[0], a[1]))
  if op == 'bs.subseq':
    return call(L, u.SubSequences, a[0], a[1], a[2], bool(a[3]))
  if op == 'bs.freq':
    # the path tag is the model's; the implementation only supplies the value
    return ('fast ' if fc_use_fast(a[1], a[2]) else 'slow ') + call(
        fmt_sparse, u.FrequencyCount, a[0], a[1], a[2], bool(a[3]))
  if op == 'bs.freq_slow':
    return call(fmt_sparse, _freq_impl('slow'), a[0], a[1], a[2], bool(a[3]))
  if op == 'bs.freq_fast':
    return call(fmt_sparse, _freq_impl('fast'), a[0], a[1], a[2], bool(a[3]))
  if op == 'bs.split':
    return call(L, u.SplitSequence, a[0], a[1], a[2])
  if op == 'bs.split_slow':
    return call(L, forced('SplitSequence', False) or u.SplitSequence, a[0], a[1], a[2])
  if op == 'bs.split_fast':
    return call(L, forced('SplitSequence', True) or u.SplitSequence, a[0], a[1], a[2])
  if op == 'bs.scatter':
    return call(L, u.Scatter, a[0], a[1])
  if op == 'bs.runs':
    return H(u.Runs(a[0], a[1]))
  if op == 'bs.longest':
    return H(u.LongestRunOfOnes(a[0]))
  if op == 'bs.overlap':
    return call(H, u.OverlappingRunsOfOnes, a[0], a[1])
  if op == 'bs.rank':
    return ('small ' if len(a[0]) < 50 else 'large ') + call(H, u.BinaryMatrixRank, list(a[0]))
  if op == 'bs.rank_small':
    return H(u._BinaryMatrixRankSmall(list(a[0])))
  if op == 'bs.rank_large':
    return call(H, u._BinaryMatrixRankLarge, list(a[0]))
  raise KeyError(op)


def pred_answer(op, a):
  """the property on the implementation for this input: None = holds / not applicable."""
  u = util()
  if op == 'bs.exh':
    return exh_pred(a[0], a[1], a[2])
  if op == 'bs.exhpaths':
    return exhpaths_pred(a[0], a[1])
  if op == 'bs.bitcount':
    return _cmp('BitCount', u.BitCount(a[0]), d_bitcount(a[0]), a)
  if op == 'bs.revbyte':
    return _cmp('_REVERSE_BITS', u._REVERSE_BITS[a[0]], d_reverse(a[0], 8), a)
  if op == 'bs.longest':
    return _cmp('LongestRunOfOnes', u.LongestRunOfOnes(a[0]), d_longest(a[0]), a)
  if op == 'bs.overlap':
    if a[1] < 1:
      return None
    return _cmp('OverlappingRunsOfOnes', u.OverlappingRunsOfOnes(a[0], a[1]), d_overlap(a[0], a[1]), a)
  if op == 'bs.scatter':
    if a[1] < 1:
      return None
    return _cmp('Scatter', u.Scatter(a[0], a[1]), d_scatter(a[0], a[1]), a)
  if op in ('bs.split', 'bs.split_slow', 'bs.split_fast'):
    if a[2] < 1 or (op == 'bs.split_fast' and a[2] % 8):
      return None
    f = {'bs.split': u.SplitSequence, 'bs.split_slow': forced('SplitSequence', False),
         'bs.split_fast': forced('SplitSequence', True)}[op] or u.SplitSequence
    return _cmp(op, f(a[0], a[1], a[2]), d_split(a[0], a[1], a[2]), a)
  if op in ('bs.rank', 'bs.rank_small', 'bs.rank_large'):
    rows = list(a[0])
    if any(r < 0 for r in rows):
      return None
    f = {'bs.rank': u.BinaryMatrixRank, 'bs.rank_small': u._BinaryMatrixRankSmall,
         'bs.rank_large': u._BinaryMatrixRankLarge}[op]
    got = f(rows)
    if d_rank(rows) <= 14:
      want = d_span_size(rows)
      return _cmp(op + ' 2^rank vs |span|', 2**got, want, (len(rows),))
    return _cmp(op, got, d_rank(rows), (len(rows),))
  # the rest is only specified for well-formed strings
  if not wf(a[0], a[1]):
    return None
  if op == 'bs.reverse':
    return _cmp('ReverseBits', u.ReverseBits(a[0], a[1]), d_reverse(a[0], a[1]), a)
  if op in ('bs.bits', 'bs.bits_pinned'):
    if op == 'bs.bits_pinned' and a[1] == 0:
      return None   # known finding class, reported separately
    return _cmp('Bits', list(u.Bits(a[0], a[1])), d_bits(a[0], a[1]), a)
  if op == 'bs.runs':
    return _cmp('Runs', u.Runs(a[0], a[1]), d_runs(a[0], a[1]), a)
  if op == 'bs.subseq':
    if not 1 <= a[2] <= a[1]:
      return None
    return _cmp('SubSequences (as multiset)', sorted(u.SubSequences(a[0], a[1], a[2], bool(a[3]))),
                sorted(d_windows(a[0], a[1], a[2], bool(a[3]))), a[1:])
  if op in ('bs.freq', 'bs.freq_slow', 'bs.freq_fast'):
    if a[2] > a[1] or (op == 'bs.freq_fast' and a[1] < a[2] + 3) or (a[2] == 0 and not a[3]):
      return None
    f = _freq_impl({'bs.freq': 'natural', 'bs.freq_slow': 'slow', 'bs.freq_fast': 'fast'}[op])
    return _cmp(op, fmt_sparse(f(a[0], a[1], a[2], bool(a[3]))),
                fmt_sparse(d_freq(a[0], a[1], a[2], bool(a[3]))), a[1:])
  return None


def fmt_arg(x):
  if isinstance(x, bool):
    return '1' if x else '0'
  if isinstance(x, (list, tuple)):
    return L(x)
  return H(x)


def _work(case):
  op, a = case[0], case[1]
  return impl_answer(op, a)


class Runner:
  """collects cases, evaluates the implementation (process pool) and the model (parallel driver
  processes), reports per op."""

  def __init__(self, rep):
    self.rep = rep
    self.cases = []

  def add(self, op, args, tag):
    self.cases.append((op, tuple(args), tag))

  def flush(self, name=None, parallel=True):
    cases, self.cases = self.cases, []
    if not cases:
      return
    if parallel and len(cases) >= 64 and NPROC > 1:
      ctx = multiprocessing.get_context('fork')
      with ctx.Pool(NPROC) as pool:
        answers = pool.map(_work, cases, chunksize=max(1, len(cases) // (NPROC * 8)))
    else:
      answers = [_work(c) for c in cases]
    by_op = {}
    for c, ans in zip(cases, answers):
      by_op.setdefault(name or c[0], []).append((c, ans))
    for opname, items in by_op.items():
      b = Batch(opname)
      for (op, a, tag), ans in items:
        b.add(op + ' ' + ' '.join(fmt_arg(x) for x in a), ans, tag=tag,
              pred=(lambda op=op, a=a: pred_answer(op, a)), info=dict(op=op, args=list(a)))
      self.rep.absorb(b, run_parallel(b))


def run_parallel(b):
  lines = [it['line'] for it in b.items]
  n = len(lines)
  k = NPROC if n >= 256 else 1
  # balance chunks by total request size
  chunks = [[] for _ in range(k)]
  for i in range(n):
    chunks[i % k].append(i)
  with ThreadPoolExecutor(k) as ex:
    outs = list(ex.map(lambda idx: fw.run_driver([lines[i] for i in idx]) if idx else [], chunks))
  div = []
  for idx, out in zip(chunks, outs):
    for i, m in zip(idx, out):
      it = b.items[i]
      it['model'] = m
      if m != it['impl']:
        div.append(it)
  return div


# ----------------------------------------------------------------------------
# generators

def rand_strings(rng, length):
  """structured strings of `length` bits: random, zero, all ones, sparse, dense, periodic,
  long runs, top bit set / clear."""
  if length == 0:
    return [0]
  full = (1 << length) - 1
  out = [rng.getrandbits(length), 0, full, rng.getrandbits(length) | (1 << (length - 1))]
  out.append(rng.getrandbits(length) & rng.getrandbits(length) & rng.getrandbits(length))
  out.append(full ^ (rng.getrandbits(length) & rng.getrandbits(length) & rng.getrandbits(length)))
  per = rng.randrange(1, 12)
  pat = rng.getrandbits(per) | 1
  out.append(int(('{:0%db}' % per).format(pat) * (length // per + 1), 2) & full)
  x = rng.getrandbits(length)
  for _ in range(3):
    r = rng.randrange(1, max(2, length // 2))
    p = rng.randrange(0, length - r + 1)
    x |= ((1 << r) - 1) << p
    z = rng.randrange(0, length)
    x &= ~(1 << z)
  out.append(x & full)
  return out


def pick(rng, xs, k):
  xs = list(xs)
  return xs if len(xs) <= k else rng.sample(xs, k)


def gen_exhaustive(run, rng, tier):
  n_max = 16 if tier == 'thorough' else 12
  pinned = VARIANT['bits'] == 'pinned'
  for length in range(n_max + 1):
    for seq in range(1 << length):
      run.add('bs.exh', (seq, length, pinned and length == 0), 'len%d' % length)
  # high garbage bits: every seq < 2^g with every declared length <= g (seq may be longer)
  g = 9 if tier == 'thorough' else 7
  for length in range(g + 1):
    for seq in range(1 << length, 1 << g):
      run.add('bs.exh', (seq, length, pinned and length == 0), 'garbage')
  run.flush()
  p_max = 13 if tier == 'thorough' else 10
  for length in range(p_max + 1):
    for seq in range(1 << length):
      run.add('bs.exhpaths', (seq, length), 'len%d' % length)
  for length in range(6):
    for seq in range(1 << length, 1 << 6):
      run.add('bs.exhpaths', (seq, length), 'garbage')
  run.flush()
  for j in range(256):
    run.add('bs.revbyte', (j,), 'table')
  run.flush()


def gen_freq(run, rng, tier):
  max_len = 2**18 if tier == 'thorough' else 2**16
  test_lits = [c for c in literals('FrequencyCount', test_only=True) if c >= 3]
  all_lits = literals('FrequencyCount')
  run.rep.extra['harvested_literals'] = dict(
      FrequencyCount_test=test_lits, FrequencyCount=all_lits,
      BinaryMatrixRank=literals('BinaryMatrixRank'), _BinaryMatrixRankLarge=literals('_BinaryMatrixRankLarge'))
  mults = sorted(set(test_lits + [50]))
  cases = []
  # both sides of `c * 2**m < length` at every residue of the length mod 8
  for c in mults:
    for m in range(0, 13):
      t = c * 2**m
      if t + 9 > max_len:
        break
      lens = list(range(max(m, t - 8), t + 10))
      if tier == 'quick' and m >= 6:
        lens = pick(rng, lens, 6) + [t, t + 1]
      for length in lens:
        side = 'above' if length > t else 'below'
        for seq in pick(rng, rand_strings(rng, length), 2 if m >= 6 else 3):
          cases.append((seq, length, m, 'thr%d*2^m:%s' % (c, side)))
  # `m < d`: m on both sides of each literal that may bound m (only reachable ones)
  for d in test_lits:
    for m in (d - 1, d, d + 1):
      if 0 <= m and 50 * 2**m + 9 <= max_len:
        for length in (50 * 2**m + 1 + rng.randrange(8), 50 * 2**m + 8 + rng.randrange(8)):
          cases.append((rng.getrandbits(length), length, m, 'mbound%d' % d))
  # random lengths at every residue mod 8, m small and m near length
  for res in range(8):
    for _ in range(6 if tier == 'quick' else 30):
      length = 8 * rng.randrange(0, min(max_len, 2**14) // 8) + res
      for m in {rng.randrange(0, 15), rng.randrange(0, 4), min(length, rng.randrange(8, 17))}:
        if m <= length:
          cases.append((rng.choice(rand_strings(rng, length)), length, m, 'random'))
    for length in (res, 8 + res, 16 + res, 24 + res, 64 + res):
      for m in (0, 1, length - 1, length, length + 1):
        if m >= 0 and m <= 17:
          cases.append((rng.getrandbits(length), length, m, 'short'))
  # up to 2^16 bits (thorough 2^18)
  for length in (max_len, max_len - 1, max_len - 5, max_len + 3):
    for m in (1, 2, 5, 9, 10, 11):
      cases.append((rng.getrandbits(length), length, m, 'long'))
  # counter saturation (seeded C15-4: a packed 16-bit tally table in the accelerated branch):
  # constant / periodic / almost constant strings long enough for ONE window value to occur more
  # than 2^16 times at the branch's stride, where random strings spread the tally thinly
  for length in (2**18 + 8 + rng.randrange(8), 2**19 + rng.randrange(16)):
    ones = (1 << length) - 1
    for seq in (0, ones, ones // 3, ones ^ (1 << rng.randrange(length)),
                1 << rng.randrange(length)):
      cases.append((seq, length, rng.choice((1, 2, 3)), 'saturate'))
  for seq, length, m, tag in cases:
    for wrap in (True, False):
      run.add('bs.freq', (seq, length, m, wrap),
              ('path-fast:' if fc_use_fast(length, m) else 'path-slow:') + tag)
      # each forced path on the same input (fast path needs length >= m + 3 to be defined)
      if length >= m + 3 and length <= 2**15:
        run.add('bs.freq_fast', (seq, length, m, wrap), tag)
      if length <= 2**15:
        run.add('bs.freq_slow', (seq, length, m, wrap), tag)
  # malformed: garbage bits in the last byte / beyond it, m > length
  for _ in range(40 if tier == 'quick' else 200):
    length = rng.randrange(0, 600)
    seq = rng.getrandbits(length + rng.randrange(1, 12))
    m = rng.randrange(0, 6)
    for op in ('bs.freq', 'bs.freq_slow', 'bs.freq_fast'):
      run.add(op, (seq, length, m, rng.random() < 0.5), 'garbage')
  run.flush()


def gen_subseq(run, rng, tier):
  for res in range(8):
    for length in [res, 8 + res, 16 + res, 64 + res, 8 * rng.randrange(4, 64) + res,
                   8 * rng.randrange(64, 512) + res]:
      for seq in pick(rng, rand_strings(rng, length), 3):
        for m in {0, 1, 2, 7, 8, 9, 16, 17, rng.randrange(1, 40), length - 1, length, length + 1}:
          if m >= 0 and (m <= 70 or m >= length - 1):
            for wrap in (True, False):
              run.add('bs.subseq', (seq, length, m, wrap), 'res%d' % res)
  for length in ([2**16, 2**16 - 3] if tier == 'quick' else [2**16, 2**16 + 1, 2**16 - 3, 2**17 + 5]):
    for m in (1, 9, 64):
      for wrap in (True, False):
        run.add('bs.subseq', (rng.getrandbits(length), length, m, wrap), 'long')
  for _ in range(30):
    length = rng.randrange(0, 100)
    run.add('bs.subseq', (rng.getrandbits(length + rng.randrange(1, 9)), length, rng.randrange(0, 5),
                          rng.random() < 0.5), 'malformed')
  run.flush()


def gen_split_scatter(run, rng, tier):
  lens = []
  for res in range(8):
    lens += [res, 8 + res, 64 + res, 8 * rng.randrange(10, 200) + res]
    if tier == 'thorough':
      lens += [8 * rng.randrange(200, 4000) + res]
  lens += [2**16, 2**16 - 1, 2**16 + 7]
  for length in lens:
    ms = range(0, 71) if length < 4000 else pick(rng, range(1, 71), 8) + [8, 64, 1]
    seqs = pick(rng, rand_strings(rng, length), 2)
    # also a value shorter than the declared length and one with high garbage bits
    seqs.append(rng.getrandbits(max(0, length - rng.randrange(0, 20))))
    seqs.append(rng.getrandbits(length + rng.randrange(1, 20)))
    for seq in seqs:
      for m in ms:
        run.add('bs.split', (seq, length, m), 'aligned' if m and m % 8 == 0 else 'general')
        if length < 4000:
          run.add('bs.split_slow', (seq, length, m), 'forced-general')
          if m % 8 == 0:
            run.add('bs.split_fast', (seq, length, m), 'forced-aligned')
    for seq in seqs[:2]:
      for m in ms:
        run.add('bs.scatter', (seq, m), 'short' if seq.bit_length() < m else 'long')
  for bl in range(0, 12):
    for m in range(0, 14):
      run.add('bs.scatter', (rng.getrandbits(bl) | ((1 << bl) >> 1), m), 'edge')
  run.flush()


def gen_runs(run, rng, tier):
  u = util()
  lens = [8 * rng.randrange(0, 300) + res for res in range(8) for _ in range(3)]
  lens += [1, 2, 3, 63, 64, 65, 2**16, 2**16 - 1, 2**16 + 1]
  for length in lens:
    for s in rand_strings(rng, length):
      run.add('bs.bitcount', (s,), 'bitcount')
      run.add('bs.reverse', (s, length), 'exact')
      run.add('bs.runs', (s, length), 'exact')
      if length <= 5000:
        run.add('bs.bits_pinned' if (length == 0 and VARIANT['bits'] == 'pinned') else 'bs.bits',
                (s, length), 'exact')
      run.add('bs.longest', (s,), 'structured')
      for m in {0, 1, 2, 3, rng.randrange(1, 71), rng.randrange(1, 71), d_longest(s) if length < 5000 else 4,
                (d_longest(s) if length < 5000 else 4) + 1}:
        run.add('bs.overlap', (s, m), 'structured')
    s = rng.getrandbits(length)
    for d in (-9, -8, -1, 1, 7, 8, 9, 17):
      l2 = length + d
      if l2 >= 0:
        tag = 'garbage' if s.bit_length() > l2 else 'short'
        run.add('bs.reverse', (s, l2), tag)
        run.add('bs.runs', (s, l2), tag)
        if l2 <= 5000:
          run.add('bs.bits_pinned' if (l2 == 0 and VARIANT['bits'] == 'pinned') else 'bs.bits', (s, l2), tag)
  # planted longest runs around every power of two (doubling / refinement boundaries)
  for k in range(0, 12 if tier == 'quick' else 15):
    for r in (2**k - 1, 2**k, 2**k + 1, 3 * 2**k // 2):
      if r == 0:
        continue
      for _ in range(2):
        n = r + rng.randrange(2, 200)
        x = rng.getrandbits(n) & rng.getrandbits(n)
        p = rng.randrange(0, n)
        x = (x | (((1 << r) - 1) << p)) & ~(1 << (p + r))
        if p:
          x &= ~(1 << (p - 1))
        run.add('bs.longest', (x,), 'planted')
        run.add('bs.longest', ((1 << r) - 1,), 'allones')
        for m in (r - 1, r, r + 1, r + 2):
          run.add('bs.overlap', (x, max(0, m)), 'planted')
  for s in range(0, 300):
    run.add('bs.bitcount', ((1 << s) - 1,), 'limb-boundary')
    run.add('bs.bitcount', (1 << s,), 'limb-boundary')
  run.flush()


def matrices(rng, rows, cols):
  """(tag, matrix) list for one shape."""
  out = [('zero', [0] * rows)]
  if cols == 0:
    return out
  out.append(('random', [rng.getrandbits(cols) for _ in range(rows)]))
  out.append(('identity', [(1 << (i % cols)) if i < cols else 0 for i in range(rows)]))
  out.append(('identity-rev', [(1 << (cols - 1 - i % cols)) for i in range(rows)]))
  for k in {1, 2, max(1, min(rows, cols) // 2), max(1, min(rows, cols) - 1)}:
    basis = [rng.getrandbits(cols) for _ in range(k)]
    m = []
    for _ in range(rows):
      x = 0
      for b_ in basis:
        if rng.random() < 0.5:
          x ^= b_
      m.append(x)
    out.append(('deficient', m))
  if rows:
    r = rng.getrandbits(cols)
    out.append(('duplicates', [r if rng.random() < 0.7 else rng.getrandbits(cols) for _ in range(rows)]))
    out.append(('one-column', [rng.getrandbits(1) << (cols - 1) for _ in range(rows)]))
    out.append(('lower-tri', [rng.getrandbits(min(i + 1, cols)) | (1 << min(i, cols - 1)) for i in range(rows)]))
  return out


def gen_rank(run, rng, tier):
  lits = set(literals('BinaryMatrixRank') + literals('_BinaryMatrixRankLarge')) | {50, 32, 256, 8192}
  counts = {0, 1, 2, 3, 4, 5, 7, 8, 9, 31, 32, 33, 49, 50, 51, 255, 256, 257}
  cap = 300
  for c in lits:
    for r in (c - 1, c, c + 1):
      if 0 <= r <= cap:
        counts.add(r)
  for rows in sorted(counts):
    shapes = {0, 1, 2, 5, 8, rows // 2, max(0, rows - 1), rows, rows + 1, rows + 13, 2 * rows + 1}
    if rows >= 200:
      shapes = pick(rng, sorted(shapes), 5 if tier == 'quick' else 11)
    for cols in sorted(shapes):
      for tag, m in matrices(rng, rows, cols):
        side = 'small' if rows < 50 else 'large'
        run.add('bs.rank', (m,), side + ':' + tag)
        run.add('bs.rank_small', (m,), 'forced-small:' + tag)
        run.add('bs.rank_large', (m,), 'forced-large:' + tag)
  # exhaustive tiny matrices: all r x c with r*c <= 12 bits
  for rows in range(0, 5):
    for cols in range(0, 4):
      if rows * cols <= (12 if tier == 'quick' else 15):
        for mt in itertools.product(range(1 << cols), repeat=rows):
          run.add('bs.rank_small', (list(mt),), 'tiny')
          run.add('bs.rank_large', (list(mt),), 'tiny')
  run.add('bs.rank', ([3, -1, 2],), 'negative-row')
  run.add('bs.rank', ([-5] * 60,), 'negative-row')
  run.flush()
  if tier == 'thorough':
    for rows in (8191, 8192, 8193):
      for cols, tag in ((64, 'wide-deficient'), (300, 'random')):
        m = [rng.getrandbits(cols) for _ in range(rows)]
        run.add('bs.rank', (m,), 'huge:' + tag)
        run.add('bs.rank_large', (m,), 'huge:' + tag)
      m = [(1 << (i % 1000)) | (rng.getrandbits(1000) if i % 3 == 0 else 0) for i in range(rows)]
      run.add('bs.rank_large', (m,), 'huge:structured')
    run.flush()


def known_findings(rep):
  """D15: util.Bits(0, 0) returns [-1] on the pinned tree (the model follows the repaired code)."""
  u = util()
  r = list(u.Bits(0, 0))
  if r == [-1]:
    VARIANT['bits'] = 'pinned'
    text = ('class="%s": util.Bits(0, 0) returns [-1] (one element) for the empty bit string, '
            'definition gives []; model follows fixes/D15-bits-empty.diff '
            '(Lean: Paranoid.C15.bits_pinned_fails)' % KNOWN_CLASS)
    if any(f.get('id') == 'D15' for f in fw.load_known_findings()):
      rep.known.append(text)
    else:
      rep.violations.append(dict(op='bs.bits', line='bs.bits 0 0', what=text, impl='[-1]',
                                 model='[]', info=None))
  elif r == []:
    VARIANT['bits'] = 'repaired'
  rep.extra['bits_variant'] = VARIANT['bits']


def correspondence(rep, rng, tier):
  run = Runner(rep)
  t0 = time.time()
  rep.extra['forced_paths_available'] = {
      n: forced(n, True) is not None for n in ('FrequencyCount', 'SplitSequence', 'BinaryMatrixRank')}
  timing = {}
  for name, g in (('exhaustive', gen_exhaustive), ('freq', gen_freq), ('subseq', gen_subseq),
                  ('split_scatter', gen_split_scatter), ('runs', gen_runs), ('rank', gen_rank)):
    t = time.time()
    g(run, rng, tier)
    timing[name] = round(time.time() - t, 1)
  rep.extra['timing_s'] = timing
  rep.extra['exhaustive_space'] = dict(
      all_strings_up_to_length=16 if tier == 'thorough' else 12,
      forced_paths_up_to_length=13 if tier == 'thorough' else 10,
      parameters='every m / block size / stream count / run length 0..length+1, wrap and no-wrap')


def search(rep, rng, tier):
  """failing-input search on the implementation only: the definitions against the real code,
  exhaustively for short strings and on the sampled generators, time-boxed."""
  box = 60 if tier == 'quick' else 600
  t0 = time.time()
  found = []
  pinned = VARIANT['bits'] == 'pinned'

  class Sink:
    def __init__(self):
      self.cases = []
      self.rep = rep
    def add(self, op, args, tag):
      self.cases.append((op, tuple(args), tag))
    def flush(self, *a, **k):
      pass
  sink = Sink()
  for length in range(11):
    for seq in range(1 << length):
      sink.add('bs.exh', (seq, length, pinned and length == 0), 'search')
      sink.add('bs.exhpaths', (seq, length), 'search')
  for g in (gen_freq, gen_subseq, gen_split_scatter, gen_runs, gen_rank):
    g(sink, rng, 'quick')
  n = 0
  for op, a, tag in sink.cases:
    if time.time() - t0 > box or len(found) >= 5:
      break
    n += 1
    try:
      what = pred_answer(op, a)
    except Exception as e:  # noqa
      what = 'predicate raised %r' % (e,)
    if what:
      found.append(dict(op=op, line=op + ' ' + ' '.join(fmt_arg(x) for x in a), what=what,
                        impl=fw.trunc(impl_answer(op, a)), model='(search: implementation only)',
                        info=dict(op=op, args=list(a))))
  rep.extra['search'] = dict(cases=n, found=len(found), wall_s=round(time.time() - t0, 1))
  rep.violations.extend(found)


def replay(doc):
  """./check C15 --replay file : re-evaluates one recorded case on implementation, definition and model."""
  import shims
  shims.install()
  info = doc.get('info') or {}
  if not info and doc.get('diverging_correspondence'):
    info = doc['diverging_correspondence'][0].get('info') or {}
  op, args = info.get('op'), info.get('args')
  if not op:
    print('replay file has no op/args')
    return 2

  def unhex(x):
    if isinstance(x, str):
      return int(x, 16)
    if isinstance(x, list):
      return [unhex(y) for y in x]
    return x
  a = tuple(unhex(x) for x in args)
  if op in ('bs.subseq', 'bs.freq', 'bs.freq_slow', 'bs.freq_fast'):
    a = a[:3] + (bool(a[3]),)
  line = op + ' ' + ' '.join(fmt_arg(x) for x in a)
  impl = impl_answer(op, a)
  model = fw.run_driver([line])[0]
  what = pred_answer(op, a)
  print('op      :', fw.trunc(line, 300))
  print('impl    :', fw.trunc(impl, 300))
  print('model   :', fw.trunc(model, 300))
  print('property:', what or 'holds on this input')
  if what:
    print('VIOLATION property=C15 (replayed)')
    return 1
  if impl != model:
    print('VIOLATION property=C15 (replayed) no-failing-input-found: model and implementation differ')
    return 1
  return 0
