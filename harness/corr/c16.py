"""C16 — verdict bookkeeping is faithful and monotone: correspondence + property predicates.

Part A  util.py on REAL protobufs (through the shim): GetTestResult, GetAttachedInfo,
        GetAttachedFactors, GetHighestSeverity on random (also hand-edited / inconsistent)
        TestInfo protobufs; random histories of SetTestResult / AttachInfo / AttachFactors.
Part B  `_CheckArtifacts` with arbitrary sub-lists / orders / repetitions of the active checks
        and the three entry points CheckAllRSA / CheckAllEC / CheckAllECDSASigs, on fresh,
        pre-annotated and already-checked (re-run) batches mixing weak and healthy artefacts.
        What each check DECIDES is the oracle: a spy records, per `Check` call, the arguments
        of the util calls made for every artefact (and, for CheckIssuerKey, of the inner
        `paranoid.CheckAllEC` on the issuer keys); the model gets those verdicts and must
        predict every resulting `test_info` and the return value.
        quick tier: the slow cryptanalytic primitives (ExtendedBatchDL, the HNP lattice
        solvers, Pollard bound) are replaced by planted-answer stubs in most scenarios —
        oracle substitution; one scenario per entry point runs the unmodified checks.

`pred` of every case evaluates the clauses of the property directly on the protobufs.
"""
import ast
import copy
import time

import framework as fw
from framework import H, B, Batch

META = dict(
    trusted_base=[
        'per-check verdicts (is the artefact weak, which factors / discrete log) are oracle '
        'inputs recorded by a spy on the util calls of each Check call; theorems quantify over '
        'every oracle answer',
        'harness canonicaliser: an attached value string is the factor set '
        '{int(h,16) for h in ast.literal_eval(v)} when that expression evaluates, else a raw string; '
        'every exception class of that expression is reported as ValueError',
        'skeleton flags needsCurve / unknownIfUnfactored / issuer in Generated/Consts.lean are read '
        'off the source of each Check method (harness/consts/checks.py) and validated by this run',
    ],
    assumptions=[
        'Model/Bookkeeping.lean mirrors util.py and Model/Checks.lean mirrors the Check skeletons, '
        '_CheckArtifacts and the entry points; tie checked by this correspondence run',
        'protobuf python runtime: message objects are truthy, repeated-field append copies',
        'checks that group a batch by curve visit every known-curve artefact exactly once',
    ])

VARIANT = 'pinned'


# ----------------------------------------------------------------------------
# encoding (must match Driver/Bookkeeping.lean)

def S(s):
  b = s.encode('utf-8')
  return b.hex() if b else '~'


def ints(xs):
  xs = list(xs)
  return '.'.join(H(x) for x in xs) if xs else '_'


def parse_value(v):
  """the factor set GetAttachedFactors would read, or None when it raises."""
  try:
    return sorted({int(h, 16) for h in ast.literal_eval(v)})
  except BaseException:  # noqa
    return None


def canon_value(v):
  p = parse_value(v)
  return ('f=' + ints(p)) if p is not None else ('r=' + S(v))


def lst(items):
  items = list(items)
  return ','.join(items) if items else '[]'


def fmt_entry(e):
  return '%s:%s:%s' % (S(e.test_name), B(e.result), H(e.severity))


def fmt_info(ti):
  return '%s/%s/%s/%s' % (
      B(ti.weak), S(ti.paranoid_lib_version),
      lst(fmt_entry(e) for e in ti.test_results),
      lst('%s:%s' % (S(a.info_name), canon_value(a.value)) for a in ti.attached_info))


def fmt_batch_infos(infos):
  infos = list(infos)
  return ';'.join(fmt_info(t) for t in infos) if infos else '[]'


# ----------------------------------------------------------------------------
# property clauses evaluated on protobufs

def snap(ti):
  return dict(weak=bool(ti.weak), version=ti.paranoid_lib_version,
              entries=[(e.test_name, bool(e.result), int(e.severity)) for e in ti.test_results],
              attached=[(a.info_name, a.value) for a in ti.attached_info])


def first_factors(s, name):
  for k, v in s['attached']:
    if k == name:
      return parse_value(v)
  return None


def mono_violation(before, after, overwritten=()):
  """monotonicity clauses of C16 between two snapshots of one test_info."""
  if before['weak'] and not after['weak']:
    return 'weak flag cleared'
  be, ae = before['entries'], after['entries']
  if len(ae) < len(be):
    return 'entries removed'
  for (n0, r0, s0), (n1, r1, s1) in zip(be, ae):
    if n0 != n1:
      return 'entry renamed/reordered %r -> %r' % (n0, n1)
    if r0 and not r1:
      return 'positive entry %r cleared' % n0
    if s1 < s0:
      return 'severity of %r lowered %d -> %d' % (n0, s0, s1)
  for n in {e[0] for e in ae}:
    c0 = sum(1 for e in be if e[0] == n)
    c1 = sum(1 for e in ae if e[0] == n)
    if c1 > max(1, c0):
      return 'entry %r duplicated (%d -> %d)' % (n, c0, c1)
  if before['version'] and after['version'] != before['version']:
    return 'recorded version changed'
  for k in {k for k, _ in before['attached']}:
    if k in overwritten:
      continue
    f0 = first_factors(before, k)
    if f0:
      f1 = first_factors(after, k)
      if f1 is None or not set(f0) <= set(f1):
        return 'recorded factor dropped from %r' % k
  return None


def consistent(s):
  return s['weak'] == any(r for _, r, _ in s['entries'])


# ----------------------------------------------------------------------------
# Part A: util.py

NAMES = ['CheckFermat', 'CheckGCD', 'CheckIssuerKey', 'A', 'B', '', 'x y', 'é:/', 'N_FACTORS']
INFO_NAMES = ['N_FACTORS', 'N-1_FACTORS', 'DISCRETE_LOG', '', 'K']
RAW_VALUES = ['', 'abc', '5', '{', "['zz']", 'fac29dac', "{'1f', '2'}", "'abc'", 'set()', '[]',
              "{'-5'}", "['0x10', ' 7 ']", '{1}', 'None', "{'ff'}"]


def rand_factors(rng):
  import gmpy2
  k = rng.choice([0, 1, 1, 2, 2, 3, 5])
  out = []
  for _ in range(k):
    c = rng.random()
    if c < 0.5:
      out.append(rng.randrange(0, 40))
    elif c < 0.8:
      out.append(rng.getrandbits(rng.choice([16, 64, 300])))
    elif c < 0.9:
      out.append(gmpy2.mpz(rng.getrandbits(70)))
    else:
      out.append(-rng.randrange(1, 20))
  if out and rng.random() < 0.2:
    out.append(out[0])
  return out


def rand_value(rng):
  if rng.random() < 0.55:
    return str({format(int(f), 'x') for f in rand_factors(rng)})
  return rng.choice(RAW_VALUES)


def rand_info(rng, pb, version, style=None):
  """a TestInfo protobuf: fresh / as left by an earlier run / hand-edited."""
  ti = pb.TestInfo()
  style = style or rng.choice(['fresh', 'earlier', 'earlier', 'edited', 'edited'])
  if style == 'fresh':
    return ti
  names = rng.sample(NAMES, rng.randrange(0, 5))
  if style == 'edited' and names and rng.random() < 0.5:
    names.append(rng.choice(names))        # duplicate names pre-existing
    rng.shuffle(names)
  for n in names:
    ti.test_results.add(test_name=n, result=rng.random() < 0.4,
                        severity=rng.choice([0, 1, 2, 3, 4, 4, 7 if style == 'edited' else 3]))
  if style == 'earlier':
    ti.weak = any(e.result for e in ti.test_results)
    ti.paranoid_lib_version = rng.choice(['0.9.0', version]) if names else ''
  else:
    ti.weak = rng.random() < 0.5
    ti.paranoid_lib_version = rng.choice(['', '0.9.0', version, ' '])
  inames = rng.sample(INFO_NAMES, rng.randrange(0, 4))
  if style == 'edited' and inames and rng.random() < 0.4:
    inames.append(rng.choice(inames))
  for n in inames:
    ti.attached_info.add(info_name=n, value=rand_value(rng))
  return ti


def part_a(rep, rng, tier):
  from paranoid_crypto import paranoid_pb2 as pb, version
  from paranoid_crypto.lib import util
  ver = version.__version__
  n_get = 600 if tier == 'quick' else 4000
  n_ops = 1500 if tier == 'quick' else 12000

  # --- getters
  b = Batch('bk.get')
  for _ in range(n_get):
    ti = rand_info(rng, pb, ver)
    name = rng.choice(NAMES + INFO_NAMES)
    e = util.GetTestResult(ti, name)
    a = util.GetAttachedInfo(ti, name)
    try:
      f = util.GetAttachedFactors(ti, name)
      fs = 'ok ' + ('-' if f is None else ints(sorted(f)))
    except Exception:  # noqa
      fs = 'err ValueError'
    h = util.GetHighestSeverity(ti)
    impl = '%s %s %s %s' % ('-' if e is None else fmt_entry(e),
                            '-' if a is None else canon_value(a.value), fs,
                            '-' if h is None else H(h))

    def pred(ti=ti, name=name, e=e, h=h):
      s = snap(ti)
      exp = next((x for x in s['entries'] if x[0] == name), None)
      got = None if e is None else (e.test_name, bool(e.result), int(e.severity))
      if exp != got:
        return 'GetTestResult(%r) returned %r, first entry of that name is %r' % (name, got, exp)
      failed = [sv for _, r, sv in s['entries'] if r]
      if (max(failed) if failed else None) != h:
        return 'GetHighestSeverity returned %r, failed severities %r' % (h, failed)
      return None
    b.add('bk.get %s %s' % (fmt_info(ti), S(name)), impl,
          tag=('entry' if e is not None else 'noentry') + ('/attached' if a is not None else '') +
          ('/raises' if fs.startswith('err') else ''), pred=pred)
  rep.absorb(b, b.run())

  # --- histories
  b = Batch('bk.ops')
  for _ in range(n_ops):
    ti = rand_info(rng, pb, ver)
    before = snap(ti)
    line0 = fmt_info(ti)
    k = rng.choice([1, 1, 2, 3, 5, 8, 13])
    ops, errs, overwritten, tags = [], [], set(), set()
    set_seen = False
    focus = rng.choice(INFO_NAMES)
    for _ in range(k):
      c = rng.random()
      if c < 0.5:
        name = rng.choice(NAMES)
        tr = pb.TestResultsEntry(test_name=name, result=rng.random() < 0.4,
                                 severity=rng.choice([0, 1, 2, 3, 4]))
        ops.append('s:' + fmt_entry(tr))
        util.SetTestResult(ti, tr)
        errs.append(False)
        set_seen = True
        tags.add('set')
      elif c < 0.65:
        name, v = rng.choice(INFO_NAMES), rand_value(rng)
        ops.append('i:%s:%s' % (S(name), canon_value(v)))
        util.AttachInfo(ti, name, v)
        overwritten.add(name)
        errs.append(False)
        tags.add('info')
      else:
        name, fs = rng.choice([focus, focus, rng.choice(INFO_NAMES)]), rand_factors(rng)
        ops.append('f:%s:%s' % (S(name), ints(fs)))
        try:
          util.AttachFactors(ti, name, fs)
          errs.append(False)
          tags.add('factors')
        except Exception:  # noqa
          errs.append(True)
          tags.add('factors-raise')
    after = snap(ti)
    impl = '%s %s.%s' % (fmt_info(ti), ''.join(B(e) for e in errs),
                         'ValueError' if any(errs) else 'same')

    def pred(before=before, after=after, overwritten=frozenset(overwritten), set_seen=set_seen):
      m = mono_violation(before, after, overwritten)
      if m:
        return m
      if not before['version'] and set_seen and after['version'] != ver:
        return 'library version not recorded'
      if consistent(before) and not consistent(after):
        return 'weak flag no longer equals "some entry positive"'
      return None
    b.add('bk.ops %s %s %s' % (S(ver), line0, ';'.join(ops)), impl,
          tag='+'.join(sorted(tags)), pred=pred)
  rep.absorb(b, b.run())


# ----------------------------------------------------------------------------
# Part B: checks, _CheckArtifacts, entry points

class Spy:
  """records the util calls of every Check call, per artefact; no change under /repo."""

  def __init__(self):
    from paranoid_crypto.lib import util, paranoid
    self.util, self.paranoid = util, paranoid
    self.ctx = []          # stack of check names being run
    self.frames = []       # stack of [(test_info, key)] lookups
    self.calls = []        # top-level Check calls: dict(name, log=[], inner=None)
    self.nested = 0
    self.installed = False

  def target(self, ti):
    for frame in reversed(self.frames):
      for obj, key in frame:
        if obj is ti:
          return key
    return None

  def install(self):
    util, paranoid = self.util, self.paranoid
    self.real = dict(set=util.SetTestResult, af=util.AttachFactors, ai=util.AttachInfo,
                     allec=paranoid.CheckAllEC)
    spy = self

    def rec(kind, ti, payload):
      if spy.nested == 0 and spy.ctx:
        spy.ctx[-1]['log'].append((spy.target(ti), kind, payload))

    def set_(ti, tr):
      rec('set', ti, (tr.test_name, bool(tr.result), int(tr.severity)))
      return spy.real['set'](ti, tr)

    def ai(ti, name, value):
      rec('info', ti, (name, value))
      return spy.real['ai'](ti, name, value)

    def af(ti, name, factors):
      factors = list(factors)
      rec('factors', ti, (name, [int(f) for f in factors]))
      spy.nested += 1
      try:
        return spy.real['af'](ti, name, factors)
      finally:
        spy.nested -= 1

    def allec(keys, log_level=0):
      if not spy.ctx:
        return spy.real['allec'](keys, log_level)
      outer = spy.ctx[-1]
      outer['inner'] = dict(nkeys=len(keys), calls=[],
                            keys=[(int(k.ec_info.curve_type), k.ec_info.x, k.ec_info.y)
                                  for k in keys])
      spy.frames.append([(k.test_info, ('k', i)) for i, k in enumerate(keys)])
      spy.inner_sink = outer['inner']['calls']
      try:
        return spy.real['allec'](keys, log_level)
      finally:
        spy.inner_sink = None
        spy.frames.pop()

    util.SetTestResult, util.AttachInfo, util.AttachFactors = set_, ai, af
    paranoid.CheckAllEC = allec
    self.inner_sink = None
    self.wrapped = []
    for reg in (paranoid.GetRSAAllChecks(), paranoid.GetECAllChecks(),
                paranoid.GetECDSAAllChecks()):
      for name, chk in reg.items():
        if any(chk is c for c, _ in self.wrapped):
          continue
        orig = chk.Check

        def wrapper(artifacts, _orig=orig, _name=name):
          call = dict(name=_name, log=[], inner=None)
          (spy.inner_sink if (spy.ctx and spy.inner_sink is not None) else spy.calls).append(call)
          spy.ctx.append(call)
          try:
            return _orig(artifacts)
          finally:
            spy.ctx.pop()
        chk.Check = wrapper
        self.wrapped.append((chk, orig))
    self.installed = True

  def uninstall(self):
    if not self.installed:
      return
    util, paranoid = self.util, self.paranoid
    util.SetTestResult, util.AttachFactors, util.AttachInfo = (
        self.real['set'], self.real['af'], self.real['ai'])
    paranoid.CheckAllEC = self.real['allec']
    for chk, _ in self.wrapped:
      try:
        del chk.Check
      except AttributeError:
        pass
    self.installed = False


def verdict_str(log, key):
  pos, fac, info = False, '-', '-'
  for tgt, kind, payload in log:
    if tgt != key:
      continue
    if kind == 'set':
      pos = payload[1]
    elif kind == 'factors':
      # every Check attaches only inside its "weak" branch (before SetTestResult)
      pos = True
      fac = '%s:%s' % (S(payload[0]), ints(payload[1]))
    elif kind == 'info':
      pos = True
      info = '%s:%s' % (S(payload[0]), canon_value(payload[1]))
  return '%s^%s^%s' % (B(pos), fac, info)


def oracle_str(call, n_arts, ec_names):
  vs = lst(verdict_str(call['log'], ('a', i)) for i in range(n_arts))
  inner = '[]'
  if call['inner'] is not None:
    rows = []
    by_name = {c['name']: c for c in call['inner']['calls']}
    for nm in ec_names:
      c = by_name.get(nm)
      rows.append(lst(verdict_str(c['log'] if c else [], ('k', k))
                      for k in range(call['inner']['nkeys'])))
    inner = '|'.join(rows) if rows else '[]'
  return vs + '#' + inner


class World:
  """everything Part B needs from /repo, with stubs for the slow primitives."""

  def __init__(self, rng, tier):
    from paranoid_crypto import paranoid_pb2 as pb, version
    from paranoid_crypto.lib import (paranoid, util, ec_util, rsa_util, rsa_single_checks,
                                     hidden_number_problem as hnp)
    from consts import checks as cc
    self.pb, self.ver, self.paranoid, self.util = pb, version.__version__, paranoid, util
    self.ec_util, self.rsa_util, self.hnp, self.rsc = ec_util, rsa_util, hnp, rsa_single_checks
    self.rng, self.tier = rng, tier
    self.reg = dict(rsa=paranoid.GetRSAAllChecks(), ec=paranoid.GetECAllChecks(),
                    ecdsa=paranoid.GetECDSAAllChecks())
    self.flags = {}
    for r in self.reg.values():
      for n, c in r.items():
        self.flags[n] = cc._flags(c)
    self.ec_names = list(self.reg['ec'].keys())
    self.planted = {}       # (x, y) -> private key, for the stubs
    self.lhw_suspects = set()
    self.stubbed = False
    # constructor parameter of the aggregate EC check: the default max_diff = 2**24 builds a
    # 2**24-entry point table per curve (~100 s); the bookkeeping does not depend on it
    self.saved_max_diff = self.reg['ec']['CheckECKeySmallDifference']._max_diff
    self.reg['ec']['CheckECKeySmallDifference']._max_diff = 2**13 if tier == 'quick' else 2**18

  def restore(self):
    self.reg['ec']['CheckECKeySmallDifference']._max_diff = self.saved_max_diff

  # --- oracle substitution
  def stubs_on(self):
    if self.stubbed:
      return
    w = self
    self.saved = dict(edl=self.ec_util.EcCurve.ExtendedBatchDL,
                      hnp=self.hnp.HiddenNumberProblem,
                      hnpc=self.hnp.HiddenNumberProblemForCurve,
                      lhw=self.rsa_util.CheckLowHammingWeight,
                      pm1=self.reg['rsa']['CheckPollardpm1']._m)

    def edl(curve, points):
      return [w.planted.get((int(p[0]), int(p[1]))) for p in points]

    def hnp_(a, b, *rest, **kw):
      # planted answer: every planted private key is a candidate (the check itself verifies
      # candidates against the issuer keys)
      return set(w.planted.values()) if len(a) >= 2 else set()

    def lhw(n, *a, **kw):
      if int(n) in w.lhw_suspects:
        return True, []
      # the real search with a small budget (its defaults cost up to seconds per modulus)
      return w.saved['lhw'](n, 300, 3000)

    self.ec_util.EcCurve.ExtendedBatchDL = edl
    self.hnp.HiddenNumberProblem = hnp_
    self.hnp.HiddenNumberProblemForCurve = hnp_
    self.rsa_util.CheckLowHammingWeight = lhw
    import gmpy2
    self.reg['rsa']['CheckPollardpm1']._m = gmpy2.mpz(
        self.rsc.CheckPollardpm1(bound=2**10)._m)
    self.stubbed = True

  def stubs_off(self):
    if not self.stubbed:
      return
    self.ec_util.EcCurve.ExtendedBatchDL = self.saved['edl']
    self.hnp.HiddenNumberProblem = self.saved['hnp']
    self.hnp.HiddenNumberProblemForCurve = self.saved['hnpc']
    self.rsa_util.CheckLowHammingWeight = self.saved['lhw']
    self.reg['rsa']['CheckPollardpm1']._m = self.saved['pm1']
    self.stubbed = False

  # --- artefacts
  def static(self, kind, a):
    if kind == 'rsa':
      return 0, 0, 0
    info = a.ec_info if kind == 'ec' else a.issuer_key_info
    return (int(info.curve_type), self.util.Bytes2Int(info.x), self.util.Bytes2Int(info.y))

  def fmt_arts(self, kind, arts):
    if not arts:
      return '[]'
    return ';'.join('%s@%s@%s@%s' % ((fmt_info(a.test_info),) +
                                     tuple(H(v) for v in self.static(kind, a))) for a in arts)

  def rsa_pool(self):
    import paranoid_crypto.lib.paranoid_rsa_test as rt
    import gen_rsa
    rng, pb, util = self.rng, self.pb, self.util
    pool = []

    def key(n, e=65537, tag=''):
      k = pb.RSAKey()
      k.rsa_info.n = util.Int2Bytes(int(n))
      k.rsa_info.e = util.Int2Bytes(int(e))
      return (tag, k)
    for k in rt.good_rsa_keys[:3]:
      pool.append(('healthy2048', copy.deepcopy(k)))
    for nm in ('bad_rsa_fermat', 'bad_rsa_gcd1', 'bad_rsa_gcd2', 'bad_rsa_low_hamming_weight',
               'bad_rsa_size_exp', 'bad_rsa_continued_fractions', 'bad_rsa_bit_pattern1',
               'bad_rsa_shared_subprime1', 'bad_rsa_shared_subprime2', 'bad_rsa_unseeded1',
               'bad_rsa_debian_pprng', 'bad_rsa_keypair1', 'bad_rsa_pq_diff_nist',
               'bad_rsa_roca_variant', 'bad_rsa_high_and_low_bits_equal'):
      if hasattr(rt, nm):
        pool.append((nm[8:], copy.deepcopy(getattr(rt, nm))))
    for k in getattr(rt, 'bad_rsa_keys_roca', [])[:1]:
      pool.append(('roca', copy.deepcopy(k)))
    # small generated keys (all flagged by CheckSizes; other verdicts vary)
    p, q = gen_rsa.semiprime(rng, 512)
    pool.append(key(p * q, tag='small-healthy'))
    r = gen_rsa.rprime(rng, 256)
    pool.append(key(p * r, tag='small-shared'))
    pool.append(key(q * gen_rsa.rprime(rng, 256), e=3, tag='small-e3'))
    p2, q2 = gen_rsa.fermat_exact(rng, 512, 3)
    pool.append(key(p2 * q2, tag='small-fermat'))
    ps = gen_rsa.smooth_prime(rng, 256, 9)
    pool.append(key(ps * gen_rsa.rprime(rng, 256), tag='small-smooth'))
    lp, lq = gen_rsa.low_weight_prime(rng, 256, 5), gen_rsa.low_weight_prime(rng, 256, 5)
    pool.append(key(lp * lq, tag='small-lowweight'))
    s1, s2 = gen_rsa.semiprime(rng, 512)
    self.lhw_suspects.add(s1 * s2)
    pool.append(key(s1 * s2, tag='lhw-suspect'))
    return pool

  def ec_point(self, curve_id, d):
    c = self.ec_util.CURVE_FACTORY[curve_id]
    return c.Multiply(c.g, d)

  def ec_info(self, info, curve_id, x, y):
    info.curve_type = curve_id
    info.x = self.util.Int2Bytes(int(x))
    info.y = self.util.Int2Bytes(int(y))

  def ec_pool(self, curves=None):
    pb, rng = self.pb, self.rng
    C = pb.CurveType
    curves = curves or [C.CURVE_SECP256R1, C.CURVE_SECP256K1, C.CURVE_SECP384R1]
    pool = []   # (tag, curve, x, y)
    for cid in curves:
      n = self.ec_util.CURVE_FACTORY[cid].n
      for _ in range(2):
        d = rng.randrange(2**200, n)
        x, y = self.ec_point(cid, d)
        pool.append(('healthy', cid, x, y))
      d = rng.randrange(2, 2**32)
      x, y = self.ec_point(cid, d)
      self.planted[(int(x), int(y))] = d
      pool.append(('smallkey', cid, x, y))
      d0 = rng.randrange(2**200, n - 2**20)
      xa, ya = self.ec_point(cid, d0)
      xb, yb = self.ec_point(cid, d0 + rng.randrange(1, 2**12))
      pool.append(('diffA', cid, xa, ya))
      pool.append(('diffB', cid, xb, yb))
      pool.append(('invalid', cid, x, (int(y) + 1)))
    c0 = curves[0]
    hx, hy = pool[0][2], pool[0][3]
    # weak curve (secp192r1), also with a planted small key: two failed checks of different severity
    d = rng.randrange(2, 2**32)
    x, y = self.ec_point(C.CURVE_SECP192R1, d)
    self.planted[(int(x), int(y))] = d
    pool.append(('weakcurve+smallkey', C.CURVE_SECP192R1, x, y))
    x, y = self.ec_point(C.CURVE_SECP192R1, rng.randrange(2**100, 2**190))
    pool.append(('weakcurve', C.CURVE_SECP192R1, x, y))
    # unknown curves: id 0, a `None` entry of CURVE_FACTORY, an id outside the enum
    pool.append(('unknown0', C.CURVE_UNKNOWN, hx, hy))
    pool.append(('unknownNone', C.CURVE_SECT163K1, rng.getrandbits(160), rng.getrandbits(160)))
    pool.append(('unknown99', 99, 5, 7))
    # same coordinates as a healthy key, other curve (not on that curve)
    other = [c for c in curves if c != c0]
    pool.append(('samepoint-othercurve', other[0] if other else C.CURVE_SECP224R1, hx, hy))
    pool.append(('dup-healthy', c0, hx, hy))
    return pool

  def ec_key(self, item):
    k = self.pb.ECKey()
    self.ec_info(k.ec_info, item[1], item[2], item[3])
    return k

  def sig_pool(self, real=False):
    import paranoid_crypto.lib.paranoid_ecdsa_test as st
    pb, rng = self.pb, self.rng
    pool = []
    names = [n for n in dir(st) if n.startswith(('good_ecdsa_', 'bad_ecdsa_'))
             and isinstance(getattr(st, n), pb.ECDSASignature)]
    for n in names:
      s = getattr(st, n)
      if real and s.issuer_key_info.curve_type != pb.CurveType.CURVE_SECP256R1:
        continue
      pool.append((n, copy.deepcopy(s)))
    if real:
      return pool
    base = [p for p in pool if p[0].startswith('good_ecdsa_secp256r1')][0][1]
    for item in self.ec_pool():
      s = pb.ECDSASignature()
      s.ecdsa_sig_info.CopyFrom(base.ecdsa_sig_info)
      s.ecdsa_sig_info.r = self.util.Int2Bytes(rng.getrandbits(190) + 1)
      s.ecdsa_sig_info.s = self.util.Int2Bytes(rng.getrandbits(190) + 1)
      self.ec_info(s.issuer_key_info, item[1], item[2], item[3])
      pool.append(('issuer-' + item[0], s))
      if rng.random() < 0.5:      # a second signature by the same issuer
        s2 = copy.deepcopy(s)
        s2.ecdsa_sig_info.r = self.util.Int2Bytes(rng.getrandbits(190) + 1)
        pool.append(('issuer2-' + item[0], s2))
    return pool

  def preannotate(self, kind, arts):
    """earlier-run / hand-edited annotations on some artefacts of a batch."""
    rng, pb = self.rng, self.pb
    names = list(self.reg[kind].keys())
    for a in arts:
      c = rng.random()
      ti = a.test_info
      if c < 0.45:
        continue
      if c < 0.8:          # as an earlier library run (older version, maybe other checks) left it
        for n in rng.sample(names, rng.randrange(1, min(6, len(names)) + 1)):
          ti.test_results.add(test_name=n, result=rng.random() < 0.3,
                              severity=rng.choice([0, 2, 3, 4]))
        ti.weak = any(e.result for e in ti.test_results)
        ti.paranoid_lib_version = rng.choice(['0.9.0', self.ver])
        if kind == 'rsa' and rng.random() < 0.5:
          self.util.AttachFactors(ti, 'N_FACTORS', [rng.randrange(3, 999)])
      else:                # hand-edited
        for n in rng.sample(names + ['Other'], 2) + ([names[0]] if rng.random() < 0.4 else []):
          ti.test_results.add(test_name=n, result=rng.random() < 0.5,
                              severity=rng.choice([0, 1, 4, 7]))
        ti.weak = rng.random() < 0.5
        ti.paranoid_lib_version = rng.choice(['', ' ', '0.9.0'])
        if rng.random() < 0.6:
          ti.attached_info.add(info_name=rng.choice(['N_FACTORS', 'N-1_FACTORS', 'DISCRETE_LOG']),
                               value=rng.choice(RAW_VALUES))


PARSE_EXC = (ValueError, SyntaxError, TypeError, MemoryError, RecursionError)


def entry_pred(w, kind, names_run, before, after, ret, arts, whole_registry, calls=()):
  """the clauses of C16 on the protobufs after one `_CheckArtifacts` / entry-point call."""
  for i, (b0, a1) in enumerate(zip(before, after)):
    # an attached entry a check (re)writes with a plain AttachInfo (DISCRETE_LOG*) is not a factor
    # record, whatever a hand-edited earlier value of it parses to (as in Part A and in
    # C16.checkArtifacts_factors_grow)
    overwritten = {p[0] for c in calls for tgt, k, p in c['log'] if tgt == ('a', i) and k == 'info'}
    m = mono_violation(b0, a1, overwritten)
    if m:
      return 'artefact %d: %s' % (i, m)
    if consistent(b0) and not consistent(a1):
      return 'artefact %d: weak flag differs from "some entry positive"' % i
  if ret and not any(a['weak'] for a in after):
    return 'returned True but no artefact is weak'
  fresh = all(not b0['entries'] and not b0['weak'] and not b0['version'] and not b0['attached']
              for b0 in before)
  if not fresh:
    return None
  if ret != any(a['weak'] for a in after):
    return 'return value %r but weak flags %r' % (ret, [a['weak'] for a in after])
  for i, a1 in enumerate(after):
    cid = w.static(kind, arts[i])[0]
    curve_known = w.ec_util.CURVE_FACTORY.get(cid) is not None
    exp = [n for n in names_run if curve_known or not w.flags[n][0]]
    got = [e[0] for e in a1['entries']]
    if sorted(got) != sorted(set(exp)):
      return 'artefact %d: entries %r, applicable checks %r' % (i, got, sorted(set(exp)))
    if got and a1['version'] != w.ver:
      return 'artefact %d: version %r not recorded' % (i, a1['version'])
    if a1['weak'] != any(r for _, r, _ in a1['entries']):
      return 'artefact %d: weak flag %r, entries %r' % (i, a1['weak'], a1['entries'])
    for (n, r, sv) in a1['entries']:
      chk = w.reg[kind][n]
      nc, unk, iss = w.flags[n]
      if iss:
        continue
      if unk and r and first_factors(a1, 'N_FACTORS') is None:
        if sv != 0:
          return 'artefact %d: %s unfactored but severity %d' % (i, n, sv)
      elif sv != int(chk.severity):
        return 'artefact %d: %s carries severity %d, documented %d' % (i, n, sv, chk.severity)
  return None


def merge_pred(w, kind, calls, before, after, arts):
  """pre-annotated clause of C16 (Props/C16Merge.lean) on the implementation: every check of the
  call makes exactly one SetTestResult per artefact it applies to (none otherwise), and the
  test_info afterwards is the documented merge of what the artefact carried before with those
  test_results: first entry of the name gets result OR-ed / severity max-ed, later duplicates and
  every other entry untouched, missing names appended in call order; weak = old weak OR some new
  positive; version kept if non-empty else the library version iff something was written."""
  for i, (b0, a1) in enumerate(zip(before, after)):
    cid = w.static(kind, arts[i])[0]
    curve_known = w.ec_util.CURVE_FACTORY.get(cid) is not None
    entries = [list(e) for e in b0['entries']]
    new = []
    for c in calls:
      sets = [p for tgt, k, p in c['log'] if tgt == ('a', i) and k == 'set']
      nc, unk, iss = w.flags[c['name']]
      exp_n = 1 if (iss or curve_known or not nc) else 0
      if len(sets) != exp_n:
        return 'artefact %d: %s made %d SetTestResult calls, applicable=%r' % (
            i, c['name'], len(sets), bool(exp_n))
      for (nm, res, sv) in sets:
        if nm != w.reg[kind][c['name']].check_name:
          return 'artefact %d: %s wrote an entry named %r' % (i, c['name'], nm)
        new.append((nm, res, sv))
        old = next((e for e in entries if e[0] == nm), None)
        if old is None:
          entries.append([nm, res, sv])
        else:
          old[1] = old[1] or res
          old[2] = max(old[2], sv)
    if [tuple(e) for e in entries] != list(a1['entries']):
      return 'artefact %d: entries %r, documented merge of %r with %r gives %r' % (
          i, a1['entries'], b0['entries'], new, [tuple(e) for e in entries])
    if a1['weak'] != (b0['weak'] or any(r for _, r, _ in new)):
      return 'artefact %d: weak %r, was %r, new results %r' % (i, a1['weak'], b0['weak'], new)
    if a1['version'] != (b0['version'] or (w.ver if new else '')):
      return 'artefact %d: version %r, was %r' % (i, a1['version'], b0['version'])
  return None


def issuer_pred(w, arts, before, after):
  """a signature's CheckIssuerKey entry equals the verdict of the EC checks on its issuer key
  (the EC checks are run on fresh ECKey protobufs of the distinct issuer keys of the batch),
  merged with the entry it carried before. On the pinned tree (known finding) signatures whose
  coordinates occur with two curve ids in the batch are left out."""
  pb = w.pb
  keys, index = [], {}
  sts = [w.static('ecdsa', a) for a in arts]
  for a, st in zip(arts, sts):
    if st not in index:
      index[st] = len(keys)
      keys.append(pb.ECKey(ec_info=a.issuer_key_info))
  try:
    w.paranoid.CheckAllEC(keys)
  except Exception as e:  # noqa
    return None
  for i, a in enumerate(arts):
    if VARIANT == 'pinned' and any(s2[1:] == sts[i][1:] and s2[0] != sts[i][0] for s2 in sts):
      continue
    k = keys[index[sts[i]]]
    ent = [e for e in after[i]['entries'] if e[0] == 'CheckIssuerKey']
    old = [e for e in before[i]['entries'] if e[0] == 'CheckIssuerKey']
    if len(ent) != 1 or len(old) > 1:
      continue
    hs = w.util.GetHighestSeverity(k.test_info)
    exp = (bool(k.test_info.weak), int(hs) if k.test_info.weak else 0)
    if old:
      exp = (exp[0] or old[0][1], max(exp[1], old[0][2]))
    if (ent[0][1], ent[0][2]) != exp:
      return ('signature %d: CheckIssuerKey entry (result,severity)=%r but the EC checks on its '
              'issuer key give %r (weak, highest severity of its failed checks%s)' % (
                  i, (ent[0][1], ent[0][2]), exp, ', merged with the old entry' if old else ''))
  return None


def run_call(w, spy, b, kind, arts, names, tag, entry_point=False):
  """one `_CheckArtifacts(arts, names)` (or entry point) call on real protobufs -> one line."""
  paranoid = w.paranoid
  before = [snap(a.test_info) for a in arts]
  arts_line = w.fmt_arts(kind, arts)
  spy.calls = []
  spy.frames = [[(a.test_info, ('a', i)) for i, a in enumerate(arts)]]
  exc = None
  try:
    if entry_point:
      fn = dict(rsa=paranoid.CheckAllRSA, ec=paranoid.CheckAllEC,
                ecdsa=paranoid.CheckAllECDSASigs)[kind]
      ret = fn(arts)
    else:
      ret = paranoid._CheckArtifacts(arts, [(n, w.reg[kind][n]) for n in names], 0)
  except PARSE_EXC as e:
    exc = e
    ret = None
  spy.frames = []
  calls = list(spy.calls)   # (issuer_pred below runs CheckAllEC again: keep this call's log)
  after = [snap(a.test_info) for a in arts]
  if exc is not None:
    # only an exception of the read-back expression of GetAttachedFactors is in the model;
    # anything else comes from inside an oracle (e.g. BatchGCD([]), D1) and is C18's business
    import traceback
    tb = ''.join(traceback.format_tb(exc.__traceback__))
    if 'GetAttachedFactors' not in tb:
      return 'oracle-exception'
    impl = 'err ValueError'
    # the oracle of the aborted call: verdicts recorded so far, negative for the rest
    while len(calls) < len(names):
      calls.append(dict(name=names[len(calls)], log=[], inner=None))
  else:
    impl = 'ok %s %s' % (fmt_batch_infos(a.test_info for a in arts), B(ret))
  if len(calls) != len(names) or [c['name'] for c in calls] != list(names):
    impl = impl + ' !calls=' + ','.join(c['name'] for c in calls)
  orc = []
  for c in calls:
    o = oracle_str(c, len(arts), w.ec_names)
    if w.flags[c['name']][2] and c['inner'] is None:
      # issuer check aborted before / never reached its inner run
      o = o.split('#')[0] + '#' + '|'.join(['[]'] * len(w.ec_names))
    orc.append(o)
  if entry_point:
    line = 'bk.checkall %s %s %s %s' % (VARIANT, kind, arts_line, ';'.join(orc) if orc else '[]')
  else:
    steps = []
    for c, o in zip(calls, orc):
      chk = w.reg[kind][c['name']]
      nc, unk, iss = w.flags[c['name']]
      steps.append('%s:%s:%s:%s:%s#%s' % (S(chk.check_name), H(chk.severity), B(nc), B(unk),
                                          B(iss), o))
    line = 'bk.run %s %s %s %s' % (VARIANT, S(w.ver), arts_line, ';'.join(steps) if steps else '[]')
  # property clauses, evaluated now (stubs and protobuf state as during the call)
  failure = None
  if exc is None:
    failure = entry_pred(w, kind, list(names), before, after, bool(ret), arts,
                         whole_registry=entry_point, calls=calls)
    if failure is None and kind == 'ecdsa' and list(names).count('CheckIssuerKey') == 1:
      failure = issuer_pred(w, arts, before, after)
    if failure is None and len({id(a) for a in arts}) == len(arts):
      failure = merge_pred(w, kind, calls, before, after, arts)
  b.add(line, impl, tag=tag + ('/raises' if exc is not None else ''),
        pred=(lambda f=failure: f), always=True)
  return None


def part_b(rep, rng, tier):
  w = World(rng, tier)
  spy = Spy()
  b = Batch('bk.run')
  be = Batch('bk.checkall')
  skipped = {}
  quick = tier == 'quick'
  t0 = time.time()

  def pick(pool, k):
    items = rng.sample(pool, min(k, len(pool)))
    return items

  def clone(kind, items):
    if kind == 'ec':
      return [w.ec_key(it) for it in items]
    return [copy.deepcopy(it[1]) for it in items]

  def scenario(kind, items, plan, annotate, tag, prepare=None):
    """plan: list of calls; each call is 'ALL' (entry point) or a list of check names."""
    arts = clone(kind, items)
    if annotate:
      w.preannotate(kind, arts)
    if prepare:
      prepare(arts)
    for step in plan:
      ep = step == 'ALL'
      names = list(w.reg[kind].keys()) if ep else step
      r = run_call(w, spy, be if ep else b, kind, arts, names,
                   '%s:%s%s' % (kind, tag, ':annotated' if annotate else ''), entry_point=ep)
      if r:
        skipped[r] = skipped.get(r, 0) + 1

  def random_plan(kind, n_calls):
    names = list(w.reg[kind].keys())
    plan = []
    for _ in range(n_calls):
      c = rng.random()
      if c < 0.3:
        plan.append('ALL')
      elif c < 0.6:
        sub = rng.sample(names, rng.randrange(1, len(names) + 1))   # subset, random order
        plan.append(sub)
      elif c < 0.8:
        sub = [rng.choice(names) for _ in range(rng.randrange(1, 6))]   # with repetitions
        plan.append(sub)
      else:
        plan.append([])
    return plan

  spy.install()
  try:
    rsa_pool = w.rsa_pool()
    ec_pool = w.ec_pool()
    sig_pool = w.sig_pool()
    # ---- stubbed primitives: many scenarios
    w.stubs_on()
    n_sc = dict(rsa=10, ec=30, ecdsa=30) if quick else dict(rsa=60, ec=150, ecdsa=150)
    for kind, pool in (('rsa', rsa_pool), ('ec', ec_pool), ('ecdsa', sig_pool)):
      # whole entry point on a fresh mixed batch, then re-run on the same protobufs
      scenario(kind, pick(pool, 6 if kind != 'rsa' else 5), ['ALL', 'ALL'], False, 'fresh+rerun')
      scenario(kind, pool if kind != 'rsa' else pick(pool, 8), ['ALL'], False, 'fresh-big')
      if kind != 'rsa':
        scenario(kind, [], ['ALL', []], False, 'empty-batch')
      for _ in range(n_sc[kind]):
        k = rng.choice([1, 2, 3, 4, 6])
        items = pick(pool, k)
        if rng.random() < 0.3 and items:
          items.append(items[0])                      # duplicate artefact in the batch
        scenario(kind, items, random_plan(kind, rng.choice([1, 2, 3])), rng.random() < 0.5,
                 'random')
    # PRE-ANNOTATED artefacts through the REAL entry points, one class of stale annotation each
    # (Props/C16Merge.lean): stale positive / stale negative entries of registered checks,
    # foreign names, duplicate names, a stale weak flag without entry, stale / blank versions
    def stale(kind, cls):
      names = list(w.reg[kind].keys())

      def prep(arts):
        for a in arts:
          ti = a.test_info
          pick_n = rng.sample(names, min(3, len(names)))
          if cls in ('stale-pos', 'mixed'):
            for n in pick_n[:2]:
              ti.test_results.add(test_name=n, result=True, severity=rng.choice([0, 1, 4, 7]))
            ti.weak = True
            ti.paranoid_lib_version = '0.9.0'
          if cls in ('stale-neg', 'mixed'):
            for n in pick_n[2:] if cls == 'mixed' else pick_n[:2]:
              ti.test_results.add(test_name=n, result=False, severity=rng.choice([0, 1, 4, 7]))
            ti.paranoid_lib_version = ti.paranoid_lib_version or self_ver
          if cls in ('foreign', 'mixed'):
            ti.test_results.add(test_name='CheckOfAnotherRelease', result=rng.random() < 0.5,
                                severity=3)
            ti.test_results.add(test_name='', result=False, severity=0)
            if cls == 'foreign':
              ti.weak = any(e.result for e in ti.test_results)
          if cls in ('dup', 'mixed'):
            n = rng.choice(names)
            ti.test_results.add(test_name=n, result=False, severity=1)
            ti.test_results.add(test_name=n, result=True, severity=2)
            ti.test_results.add(test_name='Other', result=False, severity=0)
            ti.test_results.add(test_name='Other', result=False, severity=0)
          if cls == 'weak-only':
            ti.weak = True
            ti.paranoid_lib_version = ' '
          if cls == 'mixed':
            rows = list(ti.test_results)
            rng.shuffle(rows)
            del ti.test_results[:]
            ti.test_results.extend(rows)
      return prep
    self_ver = w.ver
    for kind, pool in (('rsa', rsa_pool), ('ec', ec_pool), ('ecdsa', sig_pool)):
      for cls in ('stale-pos', 'stale-neg', 'foreign', 'dup', 'weak-only', 'mixed'):
        for rep_i in range(1 if quick else 4):
          scenario(kind, pick(pool, 4), ['ALL', 'ALL'], False, 'pre:' + cls,
                   prepare=stale(kind, cls))
    # CheckLowHammingWeight "suspected, not factored" (severity override) next to a factored key
    lhw = [p for p in rsa_pool if p[0] in ('lhw-suspect', 'small-lowweight', 'small-healthy')]
    scenario('rsa', lhw, ['ALL', ['CheckLowHammingWeight'], 'ALL'], False, 'lhw-unfactored')
    scenario('rsa', lhw, [['CheckLowHammingWeight', 'CheckFermat', 'CheckLowHammingWeight']], True,
             'lhw-unfactored')
    # an unparsable pre-existing N_FACTORS value on a key that gets factored: AttachFactors
    # raises inside the Check and the entry point aborts
    fac = [p for p in rsa_pool if p[0] in ('small-healthy', 'small-fermat', 'small-shared')]

    def garbage(arts):
      for a in arts:
        a.test_info.attached_info.add(info_name='N_FACTORS', value=rng.choice(['garbage', '', '{']))
    scenario('rsa', fac, ['ALL'], False, 'unparsable-factors', prepare=garbage)
    scenario('rsa', fac, [['CheckSizes', 'CheckGCD', 'CheckFermat']], False, 'unparsable-factors',
             prepare=garbage)
    # signatures sharing / not sharing issuer keys, same point on two curves (both orders)
    sp = [s for s in sig_pool if s[0] in ('issuer-healthy', 'issuer-samepoint-othercurve',
                                           'issuer-dup-healthy', 'issuer-unknown0',
                                           'issuer-weakcurve+smallkey')]
    for _ in range(8 if quick else 40):
      items = list(sp)
      rng.shuffle(items)
      scenario('ecdsa', items[:rng.randrange(2, len(items) + 1)], [['CheckIssuerKey'], 'ALL'],
               False, 'issuer-sharing')
    w.stubs_off()
    rep.extra['part_b_stubbed_wall_s'] = round(time.time() - t0, 1)
    # ---- unmodified checks
    C = w.pb.CurveType
    real_rsa = [p for p in rsa_pool if p[0] in ('healthy2048', 'fermat', 'gcd1', 'gcd2',
                                                 'low_hamming_weight', 'small-e3')][:7]
    scenario('rsa', real_rsa, ['ALL', 'ALL'], False, 'real')
    real_ec = [p for p in ec_pool if p[1] in (C.CURVE_SECP256R1, C.CURVE_UNKNOWN, 99)]
    scenario('ec', real_ec if quick else ec_pool, ['ALL', 'ALL'], False, 'real')
    real_sigs = w.sig_pool(real=True)
    scenario('ecdsa', real_sigs[:6] if quick else real_sigs, ['ALL'], False, 'real')
    if not quick:
      scenario('rsa', rsa_pool, ['ALL', 'ALL'], True, 'real')
      import paranoid_crypto.lib.paranoid_ecdsa_test as st
      allsigs = [(n, getattr(st, n)) for n in dir(st)
                 if isinstance(getattr(st, n), w.pb.ECDSASignature)]
      scenario('ecdsa', allsigs, ['ALL', 'ALL'], False, 'real')
  finally:
    w.stubs_off()
    w.restore()
    spy.uninstall()
  rep.absorb(b, b.run())
  rep.absorb(be, be.run())
  if skipped:
    rep.notes.append('scenarios skipped (exception raised inside an oracle, outside this model): %r'
                     % skipped)
  rep.extra['part_b_wall_s'] = round(time.time() - t0, 1)


# ----------------------------------------------------------------------------

def detect_variant():
  """which CheckIssuerKey does the implementation have: de-duplication by (x,y) only (pinned)
  or by (curve_type,x,y) (repaired)?  Probe: a valid secp256r1 key and the same coordinates
  labelled secp256k1 in one batch."""
  from paranoid_crypto import paranoid_pb2 as pb
  from paranoid_crypto.lib import paranoid, ec_util, util
  import paranoid_crypto.lib.paranoid_ecdsa_test as st
  saved = ec_util.EcCurve.ExtendedBatchDL
  ec_util.EcCurve.ExtendedBatchDL = lambda self, pts: [None] * len(pts)
  try:
    a = copy.deepcopy(st.good_ecdsa_secp256r1)
    a.ClearField('test_info')
    bsig = copy.deepcopy(a)
    bsig.issuer_key_info.curve_type = pb.CurveType.CURVE_SECP256K1
    chk = paranoid.GetECDSAAllChecks()['CheckIssuerKey']
    type(chk).Check(chk, [a, bsig])
    ra = util.GetTestResult(a.test_info, 'CheckIssuerKey').result
    rb = util.GetTestResult(bsig.test_info, 'CheckIssuerKey').result
    solo = pb.ECKey(ec_info=bsig.issuer_key_info)
    paranoid.CheckAllEC([solo])
    return ('repaired' if (not ra and rb) else 'pinned'), dict(
        batch='[sig A: issuer key (x,y) on CURVE_SECP256R1 (valid); sig B: same (x,y), '
              'curve_type CURVE_SECP256K1 (not on that curve)]',
        x=a.issuer_key_info.x.hex(), y=a.issuer_key_info.y.hex(),
        issuer_entry_A=bool(ra), issuer_entry_B=bool(rb),
        CheckAllEC_on_key_B_alone_weak=bool(solo.test_info.weak))
  finally:
    ec_util.EcCurve.ExtendedBatchDL = saved


def known_findings(rep):
  global VARIANT
  VARIANT, info = detect_variant()
  rep.extra['issuer_key_variant'] = VARIANT
  rep.extra['issuer_key_probe'] = info
  if VARIANT == 'pinned':
    (rep.known.append if any(f.get('id') == 'D18' for f in fw.load_known_findings()) else
     (lambda t: rep.violations.append(dict(op='bk.issuer', line='issuer-key dedup probe', what=t,
                                           impl='pinned', model='repaired', info=info))))(
        'CheckIssuerKey de-duplicates issuer keys by (x,y) ignoring curve_type: in the batch '
        '[A=(x,y) on secp256r1, B=(x,y) labelled secp256k1] signature B gets the issuer-key '
        'verdict of A (not weak) although CheckAllEC flags key B (invalid); in the order [B,A] '
        'the healthy A is flagged. Lean: Paranoid.C16.issuer_verdict_pinned_fails; '
        'repair: fixes/D18-issuer-key-dedup-curve.diff (model Variant.repaired)')


def correspondence(rep, rng, tier):
  if 'issuer_key_variant' not in rep.extra:
    known_findings(rep)
  # registry regenerated into Generated/Consts.lean == registry of the running implementation
  from paranoid_crypto import version
  from paranoid_crypto.lib import paranoid, ec_util
  from consts import checks as cc
  b = Batch('bk.registry')
  for which, reg in (('rsa', paranoid.GetRSAAllChecks()), ('ec', paranoid.GetECAllChecks()),
                     ('ecdsa', paranoid.GetECDSAAllChecks())):
    specs = lst('%s:%s:%s:%s:%s' % ((S(c.check_name), H(c.severity)) + tuple(B(f) for f in cc._flags(c)))
                for c in reg.values())
    b.add('bk.registry ' + which,
          '%s %s %s' % (specs, S(version.__version__),
                        fw.L(int(k) for k, v in ec_util.CURVE_FACTORY.items() if v is not None)),
          tag=which)
  rep.absorb(b, b.run())
  part_a(rep, rng, tier)
  part_b(rep, rng, tier)


def search(rep, rng, tier):
  pass


def replay(doc):
  """./check C16 --replay file: re-run the recorded request line on the model and show the
  recorded implementation answer next to it."""
  line = doc.get('line')
  if not line:
    print('replay file has no request line (obligation-broken record)')
    return 2
  model = fw.run_driver([line])[0]
  print('line :', fw.trunc(line, 2000))
  print('impl :', fw.trunc(doc.get('impl'), 2000))
  print('model:', fw.trunc(model, 2000))
  print('what :', doc.get('what'))
  return 1 if model != doc.get('impl') else 0


# ---- end-to-end entry points: the verdict oracle of the bookkeeping model is instantiated by the
# per-check models (Model/RsaAll.lean, Model/EcAll.lean; theorems Props/C16RsaAll, Props/C16EcAll)
_base_correspondence = correspondence


def correspondence(rep, rng, tier):
  _base_correspondence(rep, rng, tier)
  import corr.rsaall as rsaall
  import corr.ecall as ecall
  rsaall.correspondence(rep, rng, tier)
  ecall.correspondence(rep, rng, tier)
