"""C17 — a verdict does not depend on batch neighbours, order or earlier calls.
Every real single check is run on an artefact alone (fresh protobuf), inside random batches at
random positions, and after unrelated calls in the same process (the singleton check objects of
paranoid.Get*Checks() are used, so caches and tables carry over); the entry and the recorded
evidence must coincide. Joint checks: permutation / healthy-addition / re-batching invariance of
CheckGCD and CheckGCDN1 against the model (rsa.checkgcd ops)."""
import gmpy2
import framework as fw
from framework import H, L, M, O, B, Batch, call
import artifacts as art
import gen_rsa

META = dict(
    trusted_base=['independence of the REAL single checks is established by differential runs '
                  '(alone vs batch vs position vs after other calls), not by proof of the Python code'],
    assumptions=['model: single checks are runCheck with a per-artefact verdict (Props/C17 '
                 'single_check_alone_eq_batch); joint checks: C03 perm_equivariant / coprime_key_irrelevant'])


def sig_of(ti, name):
  e = art.entry(ti, name)
  infos = sorted((a.info_name, a.value if 'FACTORS' not in a.info_name else str(sorted(art.factors(ti, a.info_name))))
                 for a in ti.attached_info)
  return (None if e is None else (bool(e.result), int(e.severity)), tuple(infos), bool(ti.weak))


def rsa_pool(rng):
  pool = []
  p, q = gen_rsa.semiprime(rng, 512)
  pool.append(('healthy512', p * q))
  p, q = gen_rsa.semiprime(rng, 1024)
  pool.append(('healthy1024', p * q))
  p, q = gen_rsa.fermat_exact(rng, 512, 50)
  pool.append(('fermat', p * q))
  pp = gen_rsa.pattern_prime(rng, 256, 16, lowbits=16)
  pool.append(('pattern', pp * gen_rsa.rprime(rng, 256)))
  pq = gen_rsa.high_low_equal(rng, 512, 70, 70)
  if pq:
    pool.append(('hlbe', pq[0] * pq[1]))
  sp, q, _ = gen_rsa.shared_smooth(rng, 512, gbits=64, smooth_bits=10)
  pool.append(('smooth', sp * q))
  pool.append(('lowweight', gen_rsa.low_weight_prime(rng, 256, 4) * gen_rsa.low_weight_prime(rng, 256, 4)))
  pool.extend(gen_rsa.degenerate(rng, 256)[:4])
  # keys that are only factored with a LARGE pattern size, to be checked after shorter keys
  pool.append(('pattern63@1024', gen_rsa.pattern_prime(rng, 512, 63, lowbits=16) * gen_rsa.rprime(rng, 512)))
  # state of the singleton CheckUnseededRand object: an off-size modulus (2046 bits) checked before
  # a 2048-bit key whose prime is next to a listed unseeded-PRNG output (same size in BYTES)
  from paranoid_crypto.lib.data import default_storage as _ds
  for psz in (512, 1024):
    lst = sorted(_ds.DefaultStorage().GetUnseededRands(psz))
    if lst:
      x_ = lst[rng.randrange(len(lst))] | (1 << (psz - 1))
      pu = int(gmpy2.next_prime(x_))
      qu = gen_rsa.rprime(rng, psz)
      if pu.bit_length() == psz and ((pu * qu).bit_length() + 1) // 2 == psz:
        while True:
          a_, b_ = gen_rsa.rprime(rng, psz - 1), gen_rsa.rprime(rng, psz - 1)
          if (a_ * b_).bit_length() == 2 * psz - 2:
            break
        pool.append(('UNSEEDED-ONLY offsize%d' % (2 * psz - 2), a_ * b_))
        pool.append(('UNSEEDED-ONLY unseeded@%d' % (2 * psz), pu * qu))
  pool.append(('pattern127@2048', gen_rsa.pattern_prime(rng, 1024, 127, lowbits=16) * gen_rsa.rprime(rng, 1024)))
  # only found with the 255-bit denominator (too large for d0 = 1): lattice checks only
  from paranoid_crypto.lib import rsa_util as _ru
  q_ = gen_rsa.rprime(rng, 1536)
  for _ in range(6):       # keep a member that the real CheckFraction finds ONLY with d = 2^255 - 1
    n_ = gen_rsa.pattern_prime(rng, 1536, 255, lowbits=rng.choice([0, 4, 8])) * q_
    if _ru.CheckFraction(gmpy2.mpz(n_), 2**255 - 1) and not any(
        _ru.CheckFraction(gmpy2.mpz(n_), 2**ps_ - 1) for ps_ in (1, 15, 31, 63, 127, 8, 16, 32, 64, 128)):
      pool.append(('LATTICE-ONLY pattern255@3072', n_))
      break
  return pool


def correspondence(rep, rng, tier):
  from paranoid_crypto.lib import paranoid, rsa_util, util
  from paranoid_crypto import paranoid_pb2 as pb
  pool = rsa_pool(rng)
  checks = paranoid.GetRSASingleChecks()
  compared = 0
  mism = 0
  full_pool = pool
  for cname, chk in checks.items():
    pool = [t for t in full_pool
            if (not t[0].startswith('LATTICE-ONLY') or cname in ('CheckBitPatterns', 'CheckPermutedBitPatterns', 'CheckSizes'))
            and (not t[0].startswith('UNSEEDED-ONLY') or cname in ('CheckUnseededRand', 'CheckSizes'))]
    if cname == 'CheckLowHammingWeight':
      real = rsa_util.CheckLowHammingWeight
      rsa_util.CheckLowHammingWeight = lambda n, real=real: real(n, 2500, 3000)
    try:
      alone = {}
      import time as _t
      t0 = _t.time()
      probe = type(chk)()                      # reference verdicts come from FRESH check objects
      per_key_fresh = (_t.time() - t0) < 0.3    # (one per key unless the constructor is slow)
      for tag, n in pool:
        k = art.rsa_key(n, rng.choice([65537, 3]))
        (type(chk)() if per_key_fresh else probe).Check([k])
        alone[n] = sig_of(k.test_info, cname)
      # batches: random subsets in random order; then again after the unrelated calls above
      for round_ in range(3 if tier == 'quick' else 8):
        sub = rng.sample(pool, rng.randrange(2, len(pool) + 1))
        rng.shuffle(sub)
        if round_ == 0:
          sub = sorted(pool, key=lambda t: t[1].bit_length())        # shortest first
        elif round_ == 1:
          sub = sorted(pool, key=lambda t: -t[1].bit_length())       # longest first
        keys = [art.rsa_key(n) for _, n in sub]
        chk.Check(keys)
        for (tag, n), k in zip(sub, keys):
          s = sig_of(k.test_info, cname)
          # exponent differs between the alone run and the batch run only for CheckExponents
          if cname == 'CheckExponents':
            continue
          compared += 1
          if s != alone[n]:
            mism += 1
            rep.violations.append(dict(
                op=cname, line='%s n=%s alone-vs-batch' % (cname, H(n)),
                what='%s: verdict of key %s (n=%x) differs alone %r vs in batch %r (batch of %d, round %d)'
                     % (cname, tag, n, alone[n], s, len(sub), round_), impl=str(s), model=str(alone[n]), info=None))
    finally:
      if cname == 'CheckLowHammingWeight':
        rsa_util.CheckLowHammingWeight = real
  rep.extra['single_check_comparisons'] = compared
  rep.extra['single_checks'] = sorted(checks)

  # model lines for the alone verdicts (ties the per-key functions to the checks once more)
  b = Batch('chk.fermat')
  for tag, n in pool:
    if tag.startswith('LATTICE-ONLY') or tag.startswith('UNSEEDED-ONLY'):
      continue
    b.add('chk.fermat %s %s' % (H(n), H(100000)), art.fmt_verdict(checks['CheckFermat'], n), tag=tag,
          canon=art.sort_model_verdict)
  rep.absorb(b, b.run())

  # ---- joint checks: permutations, healthy additions, re-batching (model: rsa.checkgcd)
  from paranoid_crypto.lib import rsa_aggregate_checks as ra
  b = Batch('rsa.checkgcd')
  for pbits in (48, 128):
    p1, p2, p3, p4, p5, p6, p7 = (gen_rsa.rprime(rng, pbits) for _ in range(7))
    base = [p1 * p2, p1 * p3, p4 * p5, p4 * p5, p2 * p6]
    healthy = p6 * 0 + gen_rsa.rprime(rng, pbits) * gen_rsa.rprime(rng, pbits)
    per_n = {}
    for variant in range(6 if tier == 'quick' else 24):
      ns = list(base)
      rng.shuffle(ns)
      if variant % 2:
        ns.insert(rng.randrange(len(ns) + 1), healthy)
      keys = [art.rsa_key(n) for n in ns]
      ret = ra.CheckGCD().Check(keys)
      per = ';'.join('%s:%s' % (B(art.entry(k.test_info, 'CheckGCD').result), L(art.factors(k.test_info)))
                     for k in keys)
      b.add('rsa.checkgcd %s' % L(ns), 'ok %s %s' % (B(ret), per), tag='perm' if not variant % 2 else 'perm+healthy')
      for n, k in zip(ns, keys):
        s = (bool(art.entry(k.test_info, 'CheckGCD').result),)
        if n in per_n and per_n[n] != s:
          rep.violations.append(dict(op='CheckGCD', line='rsa.checkgcd %s' % L(ns),
                                     what='CheckGCD verdict of n=%x changed with batch order / healthy neighbour' % n,
                                     impl=str(s), model=str(per_n[n]), info=None))
        per_n[n] = s
  rep.absorb(b, b.run())
  rep.evaluations += compared

  # ---- EC keys: cached table histories, checks through protobuf keys (model: Model/Bsgs.lean)
  import corr.c10 as c10
  c10.correspondence(rep, rng, tier)
  # ---- ECDSA signature checks: batches, orders, repeated calls, recorded + adversarial solver answers
  import corr.c02s as c02s
  c02s.correspondence_sigs(rep, rng, tier)
