"""C17 — a verdict does not depend on batch neighbours, order or earlier calls.
Every real single check is run on an artefact alone (fresh protobuf), inside random batches at
random positions, and after unrelated calls in the same process (the singleton check objects of
paranoid.Get*Checks() are used, so caches and tables carry over); the entry and the recorded
evidence must coincide. Joint checks: permutation / healthy-addition / re-batching invariance of
CheckGCD and CheckGCDN1 against the model (rsa.checkgcd ops)."""
import gmpy2
import framework as fw
from framework import H, L, M, O, B, Batch, call
import artifacts as art
import gen_rsa

META = dict(
    trusted_base=['independence of the REAL single checks is established by differential runs '
                  '(alone vs batch vs position vs after other calls), not by proof of the Python code'],
    assumptions=['model: single checks are runCheck with a per-artefact verdict (Props/C17 '
                 'single_check_alone_eq_batch); joint checks: C03 perm_equivariant / coprime_key_irrelevant'])


def sig_of(ti, name):
  e = art.entry(ti, name)
  infos = sorted((a.info_name, a.value if 'FACTORS' not in a.info_name else str(sorted(art.factors(ti, a.info_name))))
                 for a in ti.attached_info)
  return (None if e is None else (bool(e.result), int(e.severity)), tuple(infos), bool(ti.weak))


def rsa_pool(rng):
  pool = []
  p, q = gen_rsa.semiprime(rng, 512)
  pool.append(('healthy512', p * q))
  p, q = gen_rsa.semiprime(rng, 1024)
  pool.append(('healthy1024', p * q))
  p, q = gen_rsa.fermat_exact(rng, 512, 50)
  pool.append(('fermat', p * q))
  pp = gen_rsa.pattern_prime(rng, 256, 16, lowbits=16)
  pool.append(('pattern', pp * gen_rsa.rprime(rng, 256)))
  pq = gen_rsa.high_low_equal(rng, 512, 70, 70)
  if pq:
    pool.append(('hlbe', pq[0] * pq[1]))
  sp, q, _ = gen_rsa.shared_smooth(rng, 512, gbits=64, smooth_bits=10)
  pool.append(('smooth', sp * q))
  pool.append(('lowweight', gen_rsa.low_weight_prime(rng, 256, 4) * gen_rsa.low_weight_prime(rng, 256, 4)))
  pool.extend(gen_rsa.degenerate(rng, 256)[:4])
  # keys that are only factored with a LARGE pattern size, to be checked after shorter keys
  pool.append(('pattern63@1024', gen_rsa.pattern_prime(rng, 512, 63, lowbits=16) * gen_rsa.rprime(rng, 512)))
  # state of the singleton CheckUnseededRand object: an off-size modulus (2046 bits) checked before
  # a 2048-bit key whose prime is next to a listed unseeded-PRNG output (same size in BYTES)
  from paranoid_crypto.lib.data import default_storage as _ds
  for psz in (512, 1024):
    lst = sorted(_ds.DefaultStorage().GetUnseededRands(psz))
    if lst:
      x_ = lst[rng.randrange(len(lst))] | (1 << (psz - 1))
      pu = int(gmpy2.next_prime(x_))
      qu = gen_rsa.rprime(rng, psz)
      if pu.bit_length() == psz and ((pu * qu).bit_length() + 1) // 2 == psz:
        while True:
          a_, b_ = gen_rsa.rprime(rng, psz - 1), gen_rsa.rprime(rng, psz - 1)
          if (a_ * b_).bit_length() == 2 * psz - 2:
            break
        pool.append(('UNSEEDED-ONLY offsize%d' % (2 * psz - 2), a_ * b_))
        pool.append(('UNSEEDED-ONLY unseeded@%d' % (2 * psz), pu * qu))
  pool.append(('pattern127@2048', gen_rsa.pattern_prime(rng, 1024, 127, lowbits=16) * gen_rsa.rprime(rng, 1024)))
  # only found with the 255-bit denominator (too large for d0 = 1): lattice checks only
  from paranoid_crypto.lib import rsa_util as _ru
  q_ = gen_rsa.rprime(rng, 1536)
  for _ in range(6):       # keep a member that the real CheckFraction finds ONLY with d = 2^255 - 1
    n_ = gen_rsa.pattern_prime(rng, 1536, 255, lowbits=rng.choice([0, 4, 8])) * q_
    if _ru.CheckFraction(gmpy2.mpz(n_), 2**255 - 1) and not any(
        _ru.CheckFraction(gmpy2.mpz(n_), 2**ps_ - 1) for ps_ in (1, 15, 31, 63, 127, 8, 16, 32, 64, 128)):
      pool.append(('LATTICE-ONLY pattern255@3072', n_))
      break
  return pool


def ec_locality(rep, rng, tier):
  """Implementation-side evidence for Props/C17Ec.lean.
  (1) CheckValidECKey / CheckWeakCurve: a key alone vs the same key in shuffled batches - entries must coincide
      (checkAllEC_individual_entries_local).
  (2) CheckECKeySmallDifference(max_diff=2**10), fresh check object per call, same curve objects: the
      BOOLEAN verdict of a key must not change under permutation of the batch and under insertion of
      unrelated random keys (smallDiff_flags_perm / smallDiff_add_healthy); the table of the curve object is
      brought to size 2**10 first so that every call of the comparison sees the same cached table.  How often the
      attached DISCRETE_LOG_DIFF string of a key changes with the order is COUNTED, not judged
      (smallDiff_evidence_depends_on_order: the last hit in scan order is kept).
  (3) CheckWeakECPrivateKey (review-2 L1: it used to be excluded WHOLESALE because of D22): `weak_key_locality`
      below compares alone vs batch vs position vs cached table for the keys on which the verdict IS an invariant
      (weakKey_guaranteed_any_context, weakKey_sound_any_batch); only the zone that D22 describes is left out."""
  from paranoid_crypto.lib import ec_util, util, ec_single_checks, ec_aggregate_checks
  from paranoid_crypto import paranoid_pb2 as pb

  def mk(cid, pt):
    k = pb.ECKey()
    k.ec_info.curve_type = cid
    k.ec_info.x = util.Int2Bytes(int(pt[0]))
    k.ec_info.y = util.Int2Bytes(int(pt[1]))
    return k

  cids = [pb.CurveType.CURVE_SECP256R1, pb.CurveType.CURVE_SECP192R1, pb.CurveType.CURVE_SECP256K1]
  pts = []
  for cid in cids:
    c = ec_util.CURVE_FACTORY[cid]
    for _ in range(3):
      pts.append((cid, c.Multiply(c.g, rng.randrange(1, int(c.n)))))
    P = c.Multiply(c.g, rng.randrange(1, int(c.n)))
    pts.append((cid, (P[0], (int(P[1]) + 1) % int(c.mod))))          # off the curve
  pts.append((0, (1, 2)))                                              # unknown curve id
  pts.append((7, (5, 7)))                                              # binary-field id (None entry)
  compared = 0
  for name, cls in (('CheckValidECKey', ec_single_checks.CheckValidECKey),
                    ('CheckWeakCurve', ec_single_checks.CheckWeakCurve)):
    alone = []
    for cid, pt in pts:
      k = mk(cid, pt)
      cls().Check([k])
      alone.append(sig_of(k.test_info, name))
    for _ in range(3 if tier == 'quick' else 10):
      order = list(range(len(pts)))
      rng.shuffle(order)
      keys = [mk(*pts[i]) for i in order]
      cls().Check(keys)
      for i, k in zip(order, keys):
        compared += 1
        s = sig_of(k.test_info, name)
        if s != alone[i]:
          rep.violations.append(dict(op=name, line='%s alone-vs-batch curve=%d' % (name, pts[i][0]),
                                     what='%s: verdict of key %r differs alone %r vs in batch %r' % (name, pts[i], alone[i], s),
                                     impl=str(s), model=str(alone[i]), info=None))
  # (2) joint check
  md = 2 ** 10
  evidence_changes = 0
  for cid in cids[:2]:
    c = ec_util.CURVE_FACTORY[cid]
    saved = (c._table, c._table_size)       # the comparison runs from a fresh curve object; restored below
    c._table, c._table_size = {}, 0
    base = rng.randrange(2 ** 64, int(c.n) - 2 ** 64)
    ds = [base, base + 1, base + 7, base + md - 1, base + md + 5, base + 3 * md, base + 3 * md,
          rng.randrange(1, int(c.n))]
    grp = [(cid, c.Multiply(c.g, d)) for d in ds]
    healthy = [(cid, c.Multiply(c.g, rng.randrange(1, int(c.n)))) for _ in range(2)] + [(0, (1, 2))]
    ref = {}
    refinfo = {}
    for variant in range(6 if tier == 'quick' else 24):
      batch = list(grp)
      if variant:
        rng.shuffle(batch)
      if variant % 2:
        for h in healthy:
          batch.insert(rng.randrange(len(batch) + 1), h)
      keys = [mk(*t) for t in batch]
      ec_aggregate_checks.CheckECKeySmallDifference(max_diff=md).Check(keys)
      for t, k in zip(batch, keys):
        if t in healthy:
          continue
        e = art.entry(k.test_info, 'CheckECKeySmallDifference')
        flag = None if e is None else bool(e.result)
        inf = util.GetAttachedInfo(k.test_info, 'DISCRETE_LOG_DIFF')
        inf = None if inf is None else inf.value
        key = (t[0], int(t[1][0]), int(t[1][1]))
        compared += 1
        if key in ref and ref[key] != flag:
          rep.violations.append(dict(op='CheckECKeySmallDifference', line='smalldiff perm/healthy curve=%d' % cid,
                                     what='CheckECKeySmallDifference: boolean verdict of a key changed with batch order / '
                                          'healthy neighbours (%r vs %r), private keys %r' % (ref[key], flag, ds),
                                     impl=str(flag), model=str(ref[key]), info=None))
        if key in refinfo and refinfo[key] != inf:
          evidence_changes += 1
        ref[key] = flag
        refinfo.setdefault(key, inf)
    c._table, c._table_size = saved
  compared += weak_key_locality(rep, rng, tier)
  rep.extra['ec_locality_comparisons'] = compared
  rep.extra['smalldiff_evidence_changed_with_order'] = evidence_changes
  rep.evaluations += compared


def weak_key_locality(rep, rng, tier):
  """CheckWeakECPrivateKey alone vs in batches (review-2 L1), on the real check with fresh protobufs and the real
  curve objects (their `_table` saved, reset to the fresh state first, restored afterwards).  Keys d*G with
    * 'family'  d = i * m, 1 <= i < BOUND, m one of ExtendedBatchDL's multipliers (2^(8j); 1 + 2^32 + ... + 2^(32(r-1))):
                the documented families - must be flagged in EVERY context with DISCRETE_LOG = d (mod n)
                (Props/C17Ec weakKey_guaranteed_any_context);
    * 'healthy' d uniform in [n/256, n): must be flagged in NO context;
    * 'far'     d = i * m with i odd in [2^6 * BOUND, 2^12 * BOUND) (structured, but 64 bounds beyond the documented
                range, far beyond every table this function builds): must be flagged in NO context.
  Contexts: alone from a fresh table; alone after the batches (cached, larger table); the whole pool in three orders;
  random sub-batches with unknown-curve / off-curve / other-curve neighbours.  The result entry (result, severity),
  the weak flag and the attached DISCRETE_LOG must coincide in all contexts (string equality for 'healthy' / 'far';
  for 'family' keys equality modulo n with d - the integer printed is `dlog * multiplier` of the LAST matching form
  and may differ by a multiple of n between contexts: counted in extra.weakkey_log_representation_changes).
  LEFT OUT, and only this (known finding D22): i in [BOUND, 2^6 * BOUND) and the negatives -v, v below the cached
  table range - there the verdict depends on the batch size and the cached table (logs up to about
  BOUND + 2*table_size + table range are found by luck).
  quick tier: BOUND = 2^16 (EcCurve.BatchDL wrapped so that the literal 2**32 of ExtendedBatchDL becomes 2^16, as
  in corr/ecall.py), secp256r1 and secp256k1.  thorough tier: additionally the literal 2^32 on secp256r1."""
  from paranoid_crypto.lib import ec_util, util, ec_single_checks
  from paranoid_crypto import paranoid_pb2 as pb
  import corr.c10 as c10
  name = 'CheckWeakECPrivateKey'

  def mk(cid, pt):
    k = pb.ECKey()
    k.ec_info.curve_type = cid
    k.ec_info.x = util.Int2Bytes(int(pt[0]))
    k.ec_info.y = util.Int2Bytes(int(pt[1]))
    return k

  def verdict(k):
    e = art.entry(k.test_info, name)
    a = util.GetAttachedInfo(k.test_info, 'DISCRETE_LOG')
    others = sorted(x.info_name for x in k.test_info.attached_info if x.info_name != 'DISCRETE_LOG')
    return (None if e is None else (bool(e.result), int(e.severity)), None if a is None else a.value,
            bool(k.test_info.weak), tuple(others))

  compared = 0
  rep_changes = 0
  E = ec_util.EcCurve
  real_dl = E.BatchDL
  runs = [(2 ** 16, [pb.CurveType.CURVE_SECP256R1, pb.CurveType.CURVE_SECP256K1])]
  if tier != 'quick':
    runs.append((2 ** 32, [pb.CurveType.CURVE_SECP256R1]))
  for bound, cids in runs:
    if bound != 2 ** 32:
      E.BatchDL = lambda curve, points, n_, bound=bound: real_dl(curve, points, bound if n_ == 2 ** 32 else n_)
    saved = {cid: (ec_util.CURVE_FACTORY[cid]._table, ec_util.CURVE_FACTORY[cid]._table_size) for cid in cids}
    try:
      for cid in cids:
        c = ec_util.CURVE_FACTORY[cid]
        n = int(c.n)
        ms = c10.multipliers(n)
        small = bound == 2 ** 32          # literal bound: every context costs seconds
        pool = []                         # (kind, d, point)
        fam_ms = [ms[0], ms[1], ms[len(ms) // 3], [m for m in ms if m & (m - 1) == 0][-1],
                  [m for m in ms if m & (m - 1)][0], ms[-1]]
        for m in (fam_ms[:1] + fam_ms[-2:] if small else fam_ms):
          for i in ([rng.randrange(1, bound)] if small else [1, bound - 1, rng.randrange(1, bound)]):
            pool.append(('family', i * m % n, None))
        for _ in range(1 if small else 3):
          pool.append(('healthy', rng.randrange(n >> 8, n), None))
        for m in ([ms[0]] if small else [ms[0], fam_ms[3], ms[-1]]):
          pool.append(('far', (rng.randrange(bound << 6, bound << 12) | 1) * m % n, None))
        pool = [(kind, d, c.Multiply(c.g, d)) for kind, d, _ in pool]
        other = pb.CurveType.CURVE_SECP192R1
        co = ec_util.CURVE_FACTORY[other]
        Q = co.Multiply(co.g, rng.randrange(1, int(co.n)))
        noise = [(0, (1, 2)), (cid, (pool[0][2][0], (int(pool[0][2][1]) + 1) % int(c.mod))), (other, Q)]
        contexts = {}                     # pool index -> [(context name, verdict)]

        def run(batch, ctx):
          keys = [mk(cid if isinstance(t, int) else t[0], pool[t][2] if isinstance(t, int) else t[1]) for t in batch]
          ec_single_checks.CheckWeakECPrivateKey().Check(keys)
          for t, k in zip(batch, keys):
            if isinstance(t, int):
              contexts.setdefault(t, []).append((ctx, verdict(k)))
        c._table, c._table_size = {}, 0
        alone_first = list(range(len(pool))) if not small else [0, len(pool) - 1]
        for t in alone_first:
          if not small:
            c._table, c._table_size = {}, 0          # every alone run from a FRESH table
          run([t], 'alone/fresh' if (not small or t == 0) else 'alone/cached-own')
        c._table, c._table_size = {}, 0
        idx = list(range(len(pool)))
        run(idx, 'all/fresh')
        if not small:
          run(idx[::-1], 'all/reversed')
          for r_ in range(3 if tier == 'quick' else 8):
            sub = rng.sample(idx, rng.randrange(2, len(idx)))
            batch = sub + [rng.choice(noise) for _ in range(rng.randrange(0, 4))]
            rng.shuffle(batch)
            if r_ % 2:
              c._table, c._table_size = {}, 0
            run(batch, 'sub-batch%s' % ('/fresh' if r_ % 2 else '/cached'))
        for t in (idx if not small else idx[:2] + idx[-1:]):
          run([t], 'alone/after-batches')
        for t, seen in contexts.items():
          kind, d, P = pool[t]
          for ctx, v in seen:
            compared += 1
            bad = None
            if kind == 'family':
              if v[0] is None or not v[0][0] or v[1] is None or not v[2]:
                bad = 'a key of the documented families (d = %x) is not flagged' % d
              elif (int(v[1], 16) - d) % n:
                bad = 'DISCRETE_LOG %s is not congruent to the private key %x' % (v[1], d)
              elif v[0] != seen[0][1][0] or v[3] != seen[0][1][3]:
                bad = 'result entry differs from the first context %r' % (seen[0],)
              elif v[1] != seen[0][1][1]:
                rep_changes += 1
            elif v != seen[0][1] or (v[0] is not None and v[0][0]) or v[1] is not None:
              bad = ('a %s key (d = %x) is flagged / its entry differs from the first context %r' % (kind, d, seen[0]))
            if bad:
              rep.violations.append(dict(
                  op=name, line='%s alone-vs-batch curve=%d bound=2^%d %s d=%s' % (name, cid, bound.bit_length() - 1, kind, H(d)),
                  what='%s (BatchDL bound 2^%d, %s): %s; context %s -> %r' % (name, bound.bit_length() - 1, c.name, bad, ctx, v),
                  impl=str(v), model=str(seen[0][1]),
                  info=dict(curve=cid, bound=bound, kind=kind, d=hex(d), contexts=[(a, list(b)) for a, b in seen])))
              break
        rep.tags['c17.weakkey:%s:bound=2^%d' % (c.name, bound.bit_length() - 1)] = sum(len(v) for v in contexts.values())
    finally:
      E.BatchDL = real_dl
      for cid, (tb, sz) in saved.items():
        ec_util.CURVE_FACTORY[cid]._table, ec_util.CURVE_FACTORY[cid]._table_size = tb, sz
  rep.extra['weakkey_locality_comparisons'] = compared
  rep.extra['weakkey_log_representation_changes'] = rep_changes
  return compared


def correspondence(rep, rng, tier):
  from paranoid_crypto.lib import paranoid, rsa_util, util
  from paranoid_crypto import paranoid_pb2 as pb
  pool = rsa_pool(rng)
  checks = paranoid.GetRSASingleChecks()
  compared = 0
  mism = 0
  full_pool = pool
  for cname, chk in checks.items():
    pool = [t for t in full_pool
            if (not t[0].startswith('LATTICE-ONLY') or cname in ('CheckBitPatterns', 'CheckPermutedBitPatterns', 'CheckSizes'))
            and (not t[0].startswith('UNSEEDED-ONLY') or cname in ('CheckUnseededRand', 'CheckSizes'))]
    if cname == 'CheckLowHammingWeight':
      real = rsa_util.CheckLowHammingWeight
      rsa_util.CheckLowHammingWeight = lambda n, real=real: real(n, 2500, 3000)
    try:
      alone = {}
      import time as _t
      t0 = _t.time()
      probe = type(chk)()                      # reference verdicts come from FRESH check objects
      per_key_fresh = (_t.time() - t0) < 0.3    # (one per key unless the constructor is slow)
      for tag, n in pool:
        k = art.rsa_key(n, rng.choice([65537, 3]))
        (type(chk)() if per_key_fresh else probe).Check([k])
        alone[n] = sig_of(k.test_info, cname)
      # batches: random subsets in random order; then again after the unrelated calls above
      for round_ in range(3 if tier == 'quick' else 8):
        sub = rng.sample(pool, rng.randrange(2, len(pool) + 1))
        rng.shuffle(sub)
        if round_ == 0:
          sub = sorted(pool, key=lambda t: t[1].bit_length())        # shortest first
        elif round_ == 1:
          sub = sorted(pool, key=lambda t: -t[1].bit_length())       # longest first
        keys = [art.rsa_key(n) for _, n in sub]
        chk.Check(keys)
        for (tag, n), k in zip(sub, keys):
          s = sig_of(k.test_info, cname)
          # exponent differs between the alone run and the batch run only for CheckExponents
          if cname == 'CheckExponents':
            continue
          compared += 1
          if s != alone[n]:
            mism += 1
            rep.violations.append(dict(
                op=cname, line='%s n=%s alone-vs-batch' % (cname, H(n)),
                what='%s: verdict of key %s (n=%x) differs alone %r vs in batch %r (batch of %d, round %d)'
                     % (cname, tag, n, alone[n], s, len(sub), round_), impl=str(s), model=str(alone[n]), info=None))
    finally:
      if cname == 'CheckLowHammingWeight':
        rsa_util.CheckLowHammingWeight = real
  rep.extra['single_check_comparisons'] = compared
  rep.extra['single_checks'] = sorted(checks)

  # model lines for the alone verdicts (ties the per-key functions to the checks once more)
  b = Batch('chk.fermat')
  for tag, n in pool:
    if tag.startswith('LATTICE-ONLY') or tag.startswith('UNSEEDED-ONLY'):
      continue
    b.add('chk.fermat %s %s' % (H(n), H(100000)), art.fmt_verdict(checks['CheckFermat'], n), tag=tag,
          canon=art.sort_model_verdict)
  rep.absorb(b, b.run())

  # ---- joint checks: permutations, healthy additions, re-batching (model: rsa.checkgcd)
  from paranoid_crypto.lib import rsa_aggregate_checks as ra
  b = Batch('rsa.checkgcd')
  for pbits in (48, 128):
    p1, p2, p3, p4, p5, p6, p7 = (gen_rsa.rprime(rng, pbits) for _ in range(7))
    base = [p1 * p2, p1 * p3, p4 * p5, p4 * p5, p2 * p6]
    healthy = p6 * 0 + gen_rsa.rprime(rng, pbits) * gen_rsa.rprime(rng, pbits)
    per_n = {}
    for variant in range(6 if tier == 'quick' else 24):
      ns = list(base)
      rng.shuffle(ns)
      if variant % 2:
        ns.insert(rng.randrange(len(ns) + 1), healthy)
      keys = [art.rsa_key(n) for n in ns]
      ret = ra.CheckGCD().Check(keys)
      per = ';'.join('%s:%s' % (B(art.entry(k.test_info, 'CheckGCD').result), L(art.factors(k.test_info)))
                     for k in keys)
      b.add('rsa.checkgcd %s' % L(ns), 'ok %s %s' % (B(ret), per), tag='perm' if not variant % 2 else 'perm+healthy')
      for n, k in zip(ns, keys):
        s = (bool(art.entry(k.test_info, 'CheckGCD').result),)
        if n in per_n and per_n[n] != s:
          rep.violations.append(dict(op='CheckGCD', line='rsa.checkgcd %s' % L(ns),
                                     what='CheckGCD verdict of n=%x changed with batch order / healthy neighbour' % n,
                                     impl=str(s), model=str(per_n[n]), info=None))
        per_n[n] = s
  rep.absorb(b, b.run())
  rep.evaluations += compared

  # ---- EC key checks: locality of the verdicts on the implementation (Props/C17Ec.lean)
  ec_locality(rep, rng, tier)

  # ---- EC keys: cached table histories, checks through protobuf keys (model: Model/Bsgs.lean)
  import corr.c10 as c10
  c10.correspondence(rep, rng, tier)
  # ---- ECDSA signature checks: batches, orders, repeated calls, recorded + adversarial solver answers
  import corr.c02s as c02s
  c02s.correspondence_sigs(rep, rng, tier)

# ----------------------------------------------------------------------------
# known finding D22: CheckWeakECPrivateKey (registered as a single check) is not key-local

D22_WHAT = ('CheckWeakECPrivateKey: the key d*G with d = 2^32 + 2000000 on secp256r1 is not flagged alone (fresh table) '
            'but is flagged, with DISCRETE_LOG 1001e8480, at position 4 of a batch of 9 keys: the table size '
            'int(sqrt(2^32 * 36 * len(keys))), hence the range of logs found beyond the documented 2^32, grows with the batch')


def d22_probe():
  """the replay of D22 on the real code, from a fresh _table of the secp256r1 curve object
  (saved and restored): verdict alone, verdict inside a batch of nine."""
  import random as _random
  from paranoid_crypto.lib import ec_util, util, ec_single_checks
  from paranoid_crypto import paranoid_pb2 as pb
  cid = pb.CurveType.CURVE_SECP256R1
  c = ec_util.CURVE_FACTORY[cid]

  def mk(d):
    P = c.Multiply(c.g, d)
    k = pb.ECKey()
    k.ec_info.curve_type = cid
    k.ec_info.x, k.ec_info.y = util.Int2Bytes(int(P[0])), util.Int2Bytes(int(P[1]))
    return k

  def verdict(k):
    tr = util.GetTestResult(k.test_info, 'CheckWeakECPrivateKey')
    e = util.GetAttachedInfo(k.test_info, 'DISCRETE_LOG')
    return (bool(tr.result), e.value if e is not None else None)
  r = _random.Random(7)
  d = 2**32 + 2000000
  saved = (c._table, c._table_size)
  try:
    c._table, c._table_size = {}, 0
    k = mk(d)
    ec_single_checks.CheckWeakECPrivateKey().Check([k])
    alone = verdict(k)
    c._table, c._table_size = {}, 0
    batch = [mk(r.randrange(1, int(c.n))) for _ in range(4)] + [mk(d)] + [mk(r.randrange(1, int(c.n))) for _ in range(4)]
    ec_single_checks.CheckWeakECPrivateKey().Check(batch)
    inbatch = verdict(batch[4])
    others = [verdict(b)[0] for i, b in enumerate(batch) if i != 4]
  finally:
    c._table, c._table_size = saved
  return alone, inbatch, others


def known_findings(rep):
  listed = any(f.get('id') == 'D22' for f in fw.load_known_findings())
  alone, inbatch, others = d22_probe()
  rep.extra['d22_probe'] = dict(alone=alone, in_batch_of_9=inbatch, listed=listed)
  if any(others):
    rep.violations.append(dict(op='CheckWeakECPrivateKey', line='D22 probe', info=None, impl=str(others), model='all False',
                               what='CheckWeakECPrivateKey flags random secp256r1 keys of the D22 probe batch: %r' % (others,)))
  if alone == inbatch:
    if listed:
      rep.notes.append('listed finding D22 no longer reproduces on its replay input (alone %r, in batch %r)' % (alone, inbatch))
    return
  if listed and alone == (False, None) and inbatch == (True, '1001e8480'):
    rep.known.append('D22 ' + D22_WHAT)
    return
  rep.violations.append(dict(
      op='CheckWeakECPrivateKey', line='CheckWeakECPrivateKey secp256r1 d=2^32+2000000 alone-vs-batch-of-9', info=dict(replay='d22_probe'),
      impl='alone %r / in batch %r' % (alone, inbatch), model='same verdict',
      what='CheckWeakECPrivateKey: verdict of the key (2^32+2000000)*G differs alone %r vs inside a batch of 9 keys %r%s'
           % (alone, inbatch, '' if listed else ' (D22, not listed in known_findings.json)')))
