"""C18 — checks are total on well-formed batches. Degenerate but well-formed batches are pushed
through every real check and entry point; any exception is a violation (replay = the batch).
Model lines: the per-key RSA verdict ops (`chk.*`), which are proved never to raise."""
import gmpy2
import framework as fw
from framework import H, L, M, O, B, Batch, call
import artifacts as art
import gen_rsa
from corr.c01 import cbrt_oracle

META = dict(
    trusted_base=['exceptions raised inside oracles (fpylll, scipy) are outside the model'],
    assumptions=['proved: RSA per-key verdicts, BatchGCD/CheckGCD(N1), bookkeeping and EC Add/Double never raise '
                 '(Props/C18, C03, C16, C11); EC checks / CheckAllEC on ANY coordinates and cached tables, CheckAllECDSASigs with ANY '
                 'issuer keys, nonce checks composed with the solver models for r, s in [1, n-1] (Props/C18Ec; oracles: lll.reduce '
                 'output, float sqrt values, set orders); degenerate coordinates / invalid issuer keys also compared with the composed '
                 'models line by line (corr/c18ec.py, quick tier: BatchDL bound 2**16, max_diff 2**10)'])


def raises(f, *a, limit=900):
  import signal

  def _alarm(*_):
    raise TimeoutError('no return within %d s' % limit)
  old_h = signal.signal(signal.SIGALRM, _alarm)
  signal.setitimer(signal.ITIMER_REAL, limit)
  try:
    r = f(*a)
  except Exception as e:  # noqa
    return '%s: %s' % (type(e).__name__, str(e)[:120])
  finally:
    signal.setitimer(signal.ITIMER_REAL, 0)
    signal.signal(signal.SIGALRM, old_h)
  if not isinstance(r, bool):
    return 'returned %r instead of a bool' % (r,)
  return None


def rsa_batches(rng, tier):
  out = [('empty', [])]
  deg = []
  for bits in (64, 65, 127, 128, 255, 512):
    deg.extend(n for _, n in gen_rsa.degenerate(rng, bits) if n.bit_length() >= 64)
  deg += [2**63, 2**63 + 1, 2**64 - 1, 2**64, (2**64 + 13) ** 2, 2**200, 3 * 2**100]
  out.append(('single-degenerate', None))
  for n in deg:
    out.append(('one', [n]))
  # D21: moduli of odd size whose 64 leading bits are a key of the shipped keypair table
  from paranoid_crypto.lib.data import default_storage as _ds
  tk = sorted(dict(_ds.DefaultStorage().GetKeypairData().table))
  for sh in (1, 65, 449, 6, 198, 446):     # odd sizes, and even sizes whose primes would have >= 3 forced zero bits
    out.append(('keypair-prefix-odd-size', [(rng.choice(tk) << sh) | rng.getrandbits(sh) | 1]))
  out.append(('duplicates', [deg[0], deg[0]]))
  out.append(('all-degenerate', deg[:24]))
  p, q = gen_rsa.semiprime(rng, 256)
  out.append(('nested', [p * q, p * q * gen_rsa.rprime(rng, 64), p]))
  return [(t, b) for t, b in out if b is not None]


def correspondence(rep, rng, tier):
  from paranoid_crypto import paranoid_pb2 as pb
  from paranoid_crypto.lib import (paranoid, util, ec_util, rsa_util, ec_single_checks as es,
                                   ec_aggregate_checks as ea, ecdsa_sig_checks as sc)
  thorough = tier == 'thorough'
  tried = dict(rsa=0, ec=0, ecdsa=0)
  real_lhw = rsa_util.CheckLowHammingWeight
  rsa_util.CheckLowHammingWeight = lambda n: real_lhw(n, 2500, 3000 if not thorough else 10**6)
  try:
    b = Batch('chk.cf')
    bh = Batch('chk.hlbe')
    bs = Batch('chk.sud')
    for tag, ns in rsa_batches(rng, tier):
      for e in ((65537,) if tag.startswith('keypair-prefix') else (65537, 3, 1, 2**40 + 1)):
        keys = [art.rsa_key(n, e) for n in ns]
        err = raises(paranoid.CheckAllRSA, keys, limit=60 if tag.startswith('keypair-prefix') else 900)
        tried['rsa'] += 1
        if err:
          rep.violations.append(dict(op='CheckAllRSA', line='CheckAllRSA %s e=%d' % (L(ns), e),
                                     what='CheckAllRSA raised on a well-formed batch (%s): %s' % (tag, err),
                                     impl=err, model='bool', info=None))
        if e != 65537:
          continue
        for n, k in zip(ns, keys):
          for bt, op, name in ((b, 'chk.cf %s %s' % (H(n), H(2**48)), 'CheckContinuedFractions'),
                               (bh, 'chk.hlbe %s 3' % H(n), 'CheckHighAndLowBitsEqual'),
                               (bs, 'chk.sud %s %s' % (H(n), H(cbrt_oracle(n))), 'CheckSmallUpperDifferences')):
            ent = art.entry(k.test_info, name)
            if ent is None:
              continue
            fs = art.factors(k.test_info) if ent.result else []
            # factors attached by other checks share the N_FACTORS set: compare the verdict bit only
            bt.add(op, 'ok %s' % B(ent.result), tag=tag,
                   canon=lambda m: ' '.join(m.split(' ')[:2]))
    for bt in (b, bh, bs):
      rep.absorb(bt, bt.run())
  finally:
    rsa_util.CheckLowHammingWeight = real_lhw

  # ---------------- EC keys: every curve id (known, None, outside the enum), odd coordinates
  def eckey(cid, x, y):
    k = pb.ECKey()
    k.ec_info.curve_type = cid
    k.ec_info.x = util.Int2Bytes(x)
    k.ec_info.y = util.Int2Bytes(y)
    return k
  cids = sorted(ec_util.CURVE_FACTORY.keys()) + [0]
  ec_checks = [es.CheckValidECKey(), es.CheckWeakCurve(), ea.CheckECKeySmallDifference(max_diff=2**8),
               es.CheckWeakECPrivateKey()]
  for cid in cids:
    c = ec_util.CURVE_FACTORY.get(cid)
    if c is not None:
      p = int(c.mod)
      gx, gy = int(c.g[0]), int(c.g[1])
      P2 = c.Multiply(c.g, 2)
      pts = [(gx, gy), (gx, gy), (gx + p, gy), (gx, p - gy), (0, 0), (p, p), (gx, 0), (5, 0), (5, 0),
             (2**600 + 1, 3), (int(P2[0]), int(P2[1])), (1, p)]
    else:
      pts = [(1, 2), (0, 0), (2**300, 5)]
    batches = [[], [pts[0]], pts[:2], pts]
    if c is not None:
      batches += [[(5, 7)], [(p, 1)], [(0, 0), (0, 0)]]     # only invalid points on a supported curve
    slow_ok = thorough or cid in (cids[0], cids[1], cids[5], 0)
    for bt_ in batches:
      for chk in ec_checks:
        if chk.check_name == 'CheckWeakECPrivateKey' and not (slow_ok and len(bt_) <= 2):
          continue
        keys = [eckey(cid, x, y) for x, y in bt_]
        err = raises(chk.Check, keys)
        tried['ec'] += 1
        if err:
          rep.violations.append(dict(op=chk.check_name, line='%s curve=%d points=%s' % (chk.check_name, cid, bt_),
                                     what='%s raised on well-formed EC keys (curve id %d): %s' % (chk.check_name, cid, err),
                                     impl=err, model='bool', info=None))
  # mixed curves in one batch
  mixed = []
  for cid in cids:
    c = ec_util.CURVE_FACTORY.get(cid)
    mixed.append(eckey(cid, int(c.g[0]) if c else 7, int(c.g[1]) if c else 9))
  for chk in ec_checks:
    err = raises(chk.Check, [pb.ECKey.FromString(k.SerializeToString()) for k in mixed])
    tried['ec'] += 1
    if err:
      rep.violations.append(dict(op=chk.check_name, line='%s mixed-curve batch' % chk.check_name,
                                 what='%s raised on a mixed-curve batch: %s' % (chk.check_name, err),
                                 impl=err, model='bool', info=None))

  # ---------------- ECDSA signatures: r, s in [1, n-1], any hash length, any issuer key
  def sig(cid, r, s, h, x, y):
    g = pb.ECDSASignature()
    g.ecdsa_sig_info.r = util.Int2Bytes(r)
    g.ecdsa_sig_info.s = util.Int2Bytes(s)
    g.ecdsa_sig_info.message_hash = h
    g.issuer_key_info.curve_type = cid
    g.issuer_key_info.x = util.Int2Bytes(x)
    g.issuer_key_info.y = util.Int2Bytes(y)
    return g
  sig_checks = [sc.CheckNonceMSB(), sc.CheckNonceCommonPrefix(), sc.CheckNonceCommonPostfix(),
                sc.CheckNonceGeneralized(), sc.CheckCr50U2f(), sc.CheckLCGNonceJavaUtilRandom()]
  if thorough:
    sig_checks += [sc.CheckLCGNonceGMP(), sc.CheckIssuerKey()]
  for cid in cids:
    c = ec_util.CURVE_FACTORY.get(cid)
    n = int(c.n) if c else 2**200 + 1
    gx, gy = (int(c.g[0]), int(c.g[1])) if c else (3, 4)
    batches = [
        [],
        [sig(cid, 1, 1, b'', gx, gy)],
        [sig(cid, n - 1, n - 1, b'\xff' * 64, gx, gy), sig(cid, 1, n - 1, b'\x00' * 20, gx, gy)],
        [sig(cid, rng.randrange(1, n), rng.randrange(1, n), bytes(rng.getrandbits(8) for _ in range(rng.choice([0, 1, 20, 32, 48, 64]))),
             *(rng.choice([(gx, gy), (0, 0), (gx + 1, gy), (2**521, 1)]))) for _ in range(5)],
        [sig(cid, 5, 7, b'abc', gx, gy)] * 3,
    ]
    if c is not None and (cid == cids[1] or (thorough and cid == cids[2])):
      # window boundaries of the nonce checks: 24, 25, 48 DISTINCT signatures of one issuer
      for cnt in ((24, 25, 48) if thorough else (24, 48)):
        batches.append([sig(cid, rng.randrange(1, n), rng.randrange(1, n),
                            bytes(rng.getrandbits(8) for _ in range(32)), gx, gy) for _ in range(cnt)])
    for bt_ in batches:
      for chk in sig_checks:
        if not thorough and chk.check_name.startswith('CheckLCG') and (len(bt_) > 5 or cid not in (cids[1], 0)):
          continue          # the LCG checks run 120-dimensional LLLs: small batches, two ids
        sigs = [pb.ECDSASignature.FromString(x.SerializeToString()) for x in bt_]
        err = raises(chk.Check, sigs)
        tried['ecdsa'] += 1
        if err:
          rep.violations.append(dict(op=chk.check_name, line='%s curve=%d batch of %d' % (chk.check_name, cid, len(bt_)),
                                     what='%s raised on well-formed signatures (curve id %d): %s' % (chk.check_name, cid, err),
                                     impl=err, model='bool', info=dict(batch=[x.SerializeToString().hex() for x in bt_])))
  rep.extra['batches_pushed'] = tried
  rep.evaluations += sum(tried.values())
  # ---- model correspondence of the ECDSA check layer incl. malformed r/s (which inputs raise)
  import corr.c02s as c02s
  c02s.correspondence_sigs(rep, rng, tier)
  # ---- degenerate coordinates / invalid issuer keys through the entry points AND the composed models
  import corr.c18ec as c18ec
  c18ec.correspondence_ec(rep, rng, tier)
