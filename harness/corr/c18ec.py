"""C18, EC / ECDSA half: DEGENERATE COORDINATES and INVALID ISSUER KEYS through the real entry points
and the composed models (Props/C18Ec.lean proves that the models return on exactly these inputs).

Classes fed (`ec.mul`: all nine named curves on every run; entry points: secp256r1 `a = -3`, secp256k1 `a = 0`
and one of the seven other named curves, chosen by the seed - in the quick tier with a reduced set of batches), alone and in batches mixing them with valid / structured keys, duplicates,
the other curve and unknown curve ids; fresh and cached `_table`:
  coordinates 0, p, p+x, 2p-y, 2^600, 2^4000; the point (0,0); (x, p) / (x, 2p) incl. the x with
  3x^2 + a == 0 (mod p) (`Multiply(., 2)` raises ValueError there: op `ec.mul`); off-curve points; a key
  equal to another key up to reduction mod p (x+p, y+p, both); P and -P (reduced and unreduced).
  * `ec.mul`          EcCurve.Multiply on these points with the scalars 0, 1, 2, 3, 4, -2, n, the
                      ExtendedBatchDL inverses (first, last)           model: Ec.multiply
  * `ecall.checkec`   paranoid.CheckAllEC (all four registered checks)  model: EcAll.checkAllECFull
  * `ecall.checksigs` paranoid.CheckAllECDSASigs with such points as ISSUER keys (r, s in [1, n-1],
                      hash lengths 0 / 1 / 20 / 32 / 64)               model: EcAll.checkAllECDSASigsFull
An exception of the real code on any of these inputs is a C18 violation (pred); a model answer that
differs from the real one is a divergence.  Quick-tier parameters as in corr/ecall.py (BatchDL bound
2**16, max_diff 2**10)."""
import time

import gmpy2

import framework as fw
from framework import H, Batch, call
from corr import c02s, c10, c11, ecall


def sqrt_mod(a, p):
  a %= p
  if a == 0:
    return 0
  if gmpy2.legendre(a, p) != 1:
    return None
  if p % 4 == 3:
    return int(pow(a, (p + 1) // 4, p))
  q, s = p - 1, 0
  while q % 2 == 0:
    q //= 2
    s += 1
  z = 2
  while gmpy2.legendre(z, p) != -1:
    z += 1
  m, c, t, r = s, pow(z, q, p), pow(a, q, p), pow(a, (q + 1) // 2, p)
  while t != 1:
    i, t2 = 0, t
    while t2 != 1:
      t2 = t2 * t2 % p
      i += 1
    b = pow(c, 1 << (m - i - 1), p)
    m, c, t, r = i, b * b % p, t * b * b % p, r * b % p
  return int(r)


def degenerate(env, cid, rng):
  """name -> (x, y): every class of the module docstring on curve `cid`; 'P' is a valid key."""
  c = env.curves[cid]
  p, a = int(c.mod), int(c.a)
  gx, gy = int(c.g[0]), int(c.g[1])
  d = ecall.healthy_d(env, rng, cid)
  px, py = env.mul(cid, d)
  out = {
      'P': (px, py), 'P:x+p': (px + p, py), 'P:y+p': (px, py + p), 'P:x+3p,y+2p': (px + 3 * p, py + 2 * p),
      '-P': (px, p - py), '-P:2p-y': (px, 2 * p - py),
      '(0,0)': (0, 0), '(0,p)': (0, p), '(p,0)': (p, 0), '(p,p)': (p, p), '(1,p)': (1, p), '(p-1,p)': (p - 1, p),
      '(1,2p)': (1, 2 * p), '(gx,0)': (gx, 0), '(gx,p)': (gx, p), '(5,7)': (5, 7), 'P:y+1': (px, (py + 1) % p),
      'P:x+1': ((px + 1) % p, py), 'swap': (py, px), '2^600': (2**600, 2**600 + 1), '(2^600,0)': (2**600, 0),
      '2^4000': (2**4000 + 5, 2**3999 + 1), '(p+5,p+7)': (p + 5, p + 7), '(p-1,p-1)': (p - 1, p - 1),
  }
  x0 = sqrt_mod(-a * pow(3, -1, p), p)
  if x0 is not None:
    out['(x0,p)'] = (x0, p)
    out['(x0+p,3p)'] = (x0 + p, 3 * p)
    out['(x0,0)'] = (x0, 0)
  return out


# classes whose branch behaviour duplicates another class: thorough tier only (time budget)
QUICK_SKIP = ('P:x+1', 'swap', '(p-1,p-1)', '(p+5,p+7)', '(2^600,0)', '(gx,0)', '(p-1,p)', '(1,2p)', '(x0,0)')


def ext_inverses(c):
  n = int(c.n)
  return [int(gmpy2.invert(m, n)) for m in c10.multipliers(n)]


def no_exception(rep, b, what):
  """C18 on the implementation: every batch of this module is well-formed, so an exception of the real
  entry point is a violation whatever the model says."""
  for it in b.items:
    if it['impl'].startswith('err '):
      rep.violations.append(dict(op=b.name, line=it['line'], impl=it['impl'], model='bool', info=it.get('info'),
                                 what='%s raised %s on a well-formed batch (%s)' % (what, it['impl'][4:], it['tag'])))


def parse_attached(art):
  """attached infos of one artefact of an `ok …` answer of ecall.checkec (corr/c16.fmt_info)."""
  attached = art.split('/')[3]
  out = {}
  if attached != '[]':
    for kv in attached.split(','):
      k, v = kv.split(':', 1)
      typ, val = v.split('=', 1)
      out[bytes.fromhex(k).decode()] = bytes.fromhex(val).decode() if typ == 'r' else val
  return out


def neighbours_pred(env, it, cid, sd, d0, delta, n):
  """keys 1 (structured private key sd), 3 and 6 (private keys d0, d0 + delta) of the batch are valid;
  all other keys of the group are degenerate. C10: key 1 is flagged with its key, keys 3 and 6 are both
  flagged; C02: the recorded relations name each other with the difference +-delta."""
  impl = it['impl']
  if not impl.startswith('ok '):
    return 'entry point raised: %s' % impl
  arts = [parse_attached(a) for a in impl[3:].split(' ')[0].split(';')]
  dl = arts[1].get(ecall.DLOG)
  if dl is None:
    return 'C10: structured key %x among degenerate neighbours not flagged' % sd
  if (int(dl, 16) - sd) % n:
    return 'C10/C02: structured key recorded %s, private key %x' % (dl, sd)
  P3, P6 = env.mul(cid, d0), env.mul(cid, (d0 + delta) % n)
  for i, other, k in ((3, P6, -delta), (6, P3, delta)):
    rel = arts[i].get(ecall.DLOGDIFF)
    if rel is None:
      return 'C10: key %d of a close pair (difference %d) among degenerate neighbours not flagged' % (i, delta)
    r = ecall.parse_rel(rel)
    if r is None or (r[0], r[1]) != other or r[2] != k:
      return 'C02: key %d records %r, expected the other key of the pair and %d' % (i, rel, k)
  return None


def mul_raises_expected(c, P, k):
  """Props/C18Ec multiply_raises_iff, evaluated independently: k = 2, y != 0, p | y, 3x^2 + a = 0 (mod p)."""
  p, a = int(c.mod), int(c.a)
  x, y = P
  return k == 2 and y != 0 and y % p == 0 and (3 * x * x + a) % p == 0


# ----------------------------------------------------------------------------

def part_mul(env, rep, rng, cids):
  b = Batch('ec.mul')
  for cid in cids:
    c = env.curves[cid]
    ctx = c11.Ctx(env.ec_util, c.name, c.a, c.b, c.mod, c.g[0], c.g[1], c.n, c.h, curve=c)
    ctx.let(b)
    invs = ext_inverses(c)
    ks = [0, 1, 2, 3, 4, 6, -2, -1, int(c.n), invs[1], invs[-1]]
    for name, P in degenerate(env, cid, rng).items():
      Pm = c11.to_py(P)
      for k in ks:
        ans = call(c11.fpt, c.Multiply, Pm, k)
        exp = mul_raises_expected(c, P, k)
        if ans.startswith('err') != exp or (exp and ans != 'err ValueError'):
          rep.violations.append(dict(op='ec.mul', line='Multiply(%s, %d) on %s' % (P, k, c.name), impl=ans,
                                     model='raises ValueError' if exp else 'returns', info=None,
                                     what='Multiply raises exactly for k=2, p|y, y!=0, 3x^2+a=0 (multiply_raises_iff): '
                                          'real code answered %s' % ans))
        b.add('ec.mul %s %s %s' % (ctx.C, c11.fpt(P), H(k)), ans,
              tag='%s|k=%s|%s' % (name if len(name) < 14 else 'huge', 2 if k == 2 else 'other',
                                  'raises' if ans.startswith('err') else 'ok'))
    # the checks never multiply a key by 2
    if 2 in invs:
      rep.violations.append(dict(op='ExtendedBatchDL', line='inverses of %s' % c.name,
                                 what='2 is an ExtendedBatchDL multiplier inverse on %s' % c.name,
                                 impl='2 in inverses', model='ext_inverse_ne_two', info=None))
  rep.absorb(b, b.run())


def part_keys(env, rep, rng, tier, cids, lite=()):
  """`lite`: further curve ids that get every degenerate class ALONE and in one all-classes batch only (quick tier:
  one of the seven other named curves per run, chosen by the seed - review-2 L8: ids 3, 5, 18, 19 never got
  degenerate keys)."""
  quick = tier == 'quick'
  b = Batch('ecall.checkec')
  cap, md = 2**16, 2**10
  env.set_params(cap, md)

  def run(items, tag, **kw):
    ecall.run_ec(env, b, items, tag, **kw)

  pts = {cid: degenerate(env, cid, rng) for cid in cids}
  for cid in cids:
    d = pts[cid]
    valid = [(cid,) + env.mul(cid, ecall.healthy_d(env, rng, cid)) for _ in range(2)]
    sd, _ = ecall.structured_d(env, rng, cid, cap)
    struct = (cid,) + env.mul(cid, sd)
    names = list(d)
    for i, nm in enumerate(names):
      if nm == 'P' or (quick and nm in QUICK_SKIP):
        continue
      # alone (fresh table) / between valid keys, its valid twin and a structured key (cached table)
      if quick and i % 2:
        run([(cid,) + d[nm]], 'alone')
      else:
        run([(cid,) + d[nm]], 'alone')
        run([valid[0], (cid,) + d[nm], (cid,) + d['P'], struct, (cid,) + d[nm]], 'mixed-with-valid',
            keep_state=(i % 3 == 0))
      b.tags['class:' + (nm if len(nm) < 14 else 'huge')] = b.tags.get('class:' + nm, 0) + 1
    run([(cid,) + d[nm] for nm in names], 'all-classes-one-curve')
    run([(cid,) + d[nm] for nm in names if nm != 'P'], 'only-degenerate', keep_state=True, rerun=True)
    # keys equal up to reduction mod p, and P / -P in unreduced form: the difference check's duplicate
    # branch (`x is None`) and the sign test of BatchDL
    run([(cid,) + d['P'], (cid,) + d['P:x+p'], (cid,) + d['P:y+p'], (cid,) + d['P:x+3p,y+2p']], 'equal-mod-p')
    run([(cid,) + d['P'], (cid,) + d['-P:2p-y'], (cid,) + d['-P']], 'P-and-minus-P-unreduced')
    # a small / structured key in unreduced form (found by the weak-key search, recorded, printed)
    sx, sy = env.mul(cid, 77 << 8)
    p = int(env.curves[cid].mod)
    run([(cid, sx + p, sy), (cid, sx, sy + 2 * p), (cid,) + env.mul(cid, (77 << 8) + 5)], 'structured-unreduced')
  for cid in lite:
    d = degenerate(env, cid, rng)
    for nm in d:
      if nm == 'P' or nm in QUICK_SKIP:
        continue
      run([(cid,) + d[nm]], 'alone')
      b.tags['class:' + (nm if len(nm) < 14 else 'huge')] = b.tags.get('class:' + nm, 0) + 1
    run([(cid,) + d[nm] for nm in d], 'all-classes-one-curve')
    b.tags['lite-curve:%d' % cid] = 1
  # C10 / C02 on VALID keys whose neighbours in the batch are degenerate (per-point independence of the
  # searches: the theorems C10.checkWeakECPrivateKey_spec / checkECKeySmallDifference_spec assume that
  # ALL keys of the group are on the curve; here that is searched on the implementation)
  for cid in cids:
    d = pts[cid]
    n = int(env.curves[cid].n)
    sd, _ = ecall.structured_d(env, rng, cid, cap)
    d0 = ecall.healthy_d(env, rng, cid)
    delta = rng.randrange(1, md)
    bad = [(cid,) + d[nm] for nm in ('(1,p)', '(0,0)', '(5,7)', 'P:y+1', '2^600', '(p,p)')]
    items = [bad[0], (cid,) + env.mul(cid, sd), bad[1], (cid,) + env.mul(cid, d0), bad[2], bad[3],
             (cid,) + env.mul(cid, (d0 + delta) % n), bad[4], bad[5]]
    n_before = len(b.items)
    run(items, 'valid-among-degenerate')
    it = b.items[n_before]
    it['pred'] = (lambda it=it, orig=it['pred'], cid=cid, sd=sd, d0=d0, delta=delta, n=n:
                  (orig() if orig else None) or neighbours_pred(env, it, cid, sd, d0, delta, n))
    it['always'] = True
  # both curves, unknown and binary-field ids in one batch
  mix = []
  for cid in cids:
    for nm in ('(1,p)', '(0,0)', 'P', 'P:x+p', '2^600', '(p,p)'):
      mix.append((cid,) + pts[cid][nm])
  mix += [(0, 1, 2), (99, 0, 0), (7, 2**300, 5)]
  rng.shuffle(mix)
  run(mix, 'all-curves-mixed')
  run(mix[:7], 'all-curves-mixed', keep_state=True)
  if not quick:
    env.set_params(None, None)           # the literal 2**32 and the registered max_diff = 2**24
    env.reset_tables()
    cid = cids[0]
    run([(cid,) + pts[cid]['(1,p)'], (cid,) + pts[cid]['P'], (cid,) + pts[cid]['(0,0)'],
         (cid,) + pts[cid]['P:x+p'], (cids[1],) + pts[cids[1]]['(p,p)']], 'real-parameters')
  no_exception(rep, b, 'paranoid.CheckAllEC')
  t0 = time.time()
  rep.absorb(b, b.run())
  rep.extra.setdefault('c18ec', {})['keys_model_wall_s'] = round(time.time() - t0, 1)


def part_sigs(env, rep, rng, tier, cids):
  quick = tier == 'quick'
  b = Batch('ecall.checksigs')
  cap, md = 2**16, 2**10
  env.set_params(cap, md)
  env.oracle_raised = []
  w = env.w
  pol = ecall.make_policy(env, False)
  for cid in cids:
    d = degenerate(env, cid, rng)
    iss = w.issuer(cid, ecall.healthy_d(env, rng, cid))
    classes = ['(1,p)', '(0,0)', '(p,p)', 'P:x+p', '2^600', '(5,7)', '(x0,p)' if '(x0,p)' in d else '(gx,p)',
               '-P:2p-y', '2^4000', '(p,0)']
    if quick:
      classes = classes[:6] if cid == cids[0] else classes[4:]
    for i, nm in enumerate(classes):
      x, y = d[nm]
      hl = [0, 1, 20, 32, 64][i % 5]
      # three signatures of the invalid issuer (biased nonces of a REAL key for every second class),
      # two of a valid issuer, one on an unknown curve
      sg = (w.sign_many(iss, 'msb', 3, hlen=hl or 32) if i % 2 else w.fake(iss, 3, hlen=hl))
      for sp in sg:
        sp['kx'], sp['ky'] = c02s.to_bytes_min(x), c02s.to_bytes_min(y)
      other = w.sign_many(iss, 'healthy', 2, hlen=32)
      unk = w.fake(iss, 1, hlen=hl)
      unk[0]['cid'] = rng.choice([0, 9, 99])
      specs = sg + other + unk
      rng.shuffle(specs)
      ecall.run_sigs(env, b, specs, pol, 'invalid-issuer', cold=(i % 2 == 0), keep_tables=(i % 3 == 2))
      b.tags['issuer-class:' + (nm if len(nm) < 14 else 'huge')] = 1
    # ONLY invalid issuers, two of them equal up to reduction
    a1 = w.fake(iss, 2, hlen=32)
    a2 = w.fake(iss, 2, hlen=32)
    for sp in a1:
      sp['kx'], sp['ky'] = c02s.to_bytes_min(d['P:x+p'][0]), c02s.to_bytes_min(d['P:x+p'][1])
    for sp in a2:
      sp['kx'], sp['ky'] = c02s.to_bytes_min(d['P:y+p'][0]), c02s.to_bytes_min(d['P:y+p'][1])
    ecall.run_sigs(env, b, a1 + a2, pol, 'issuers-equal-mod-p')
  no_exception(rep, b, 'paranoid.CheckAllECDSASigs')
  t0 = time.time()
  rep.absorb(b, b.run())
  rep.extra.setdefault('c18ec', {})['sigs_model_wall_s'] = round(time.time() - t0, 1)
  ecall.flush_solver_raises(env, rep, 'c18ec')


def correspondence_ec(rep, rng, tier):
  t0 = time.time()
  env = ecall.Env(rng, tier)
  # review-2 L8: every named curve gets the degenerate points through Multiply on every run; the entry point
  # gets them on secp256r1, secp256k1 and one more named curve per run (quick: reduced set of batches)
  named = [int(cid) for cid, c in env.factory if c is not None]
  extra = rng.choice([cid for cid in named if cid not in (2, 6)])
  cids = [2, 6] if tier == 'quick' else [2, 6, extra]
  try:
    part_mul(env, rep, rng, named)
    t1 = time.time()
    part_keys(env, rep, rng, tier, cids, lite=[extra] if tier == 'quick' else [])
    t2 = time.time()
    part_sigs(env, rep, rng, tier, cids)
    rep.extra.setdefault('c18ec', {}).update(
        curves=cids, lite_curve=extra if tier == 'quick' else None, mul_curves=named, mul_wall_s=round(t1 - t0, 1), keys_wall_s=round(t2 - t1, 1),
        sigs_wall_s=round(time.time() - t2, 1), quick_parameters=dict(bound=2**16, max_diff=2**10))
  finally:
    env.restore()
