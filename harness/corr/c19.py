"""C19 — number-theory, lattice and linear-algebra helpers return only true solutions:
correspondence + failing-input search.

Part 1 (this file): paranoid_crypto/lib/ntheory_util.py (Inverse2exp, InverseSqrt2exp, Sqrt2exp,
ContinuedFraction, DivmodRounded, Sieve) against Model/NTheory.lean.
Part 2: corr/c19_linalg.py (linalg_util.py), part 3: corr/c19_misc.py (lattice_suite.PseudoAverage
/ Bias, util.UniformSumCdf / CombinedPValue, small_roots final guards).

`pred` of every case evaluates the defining equation directly on the implementation's output
(never through the model)."""
import importlib
from fractions import Fraction
import math

import gmpy2
import framework as fw
from framework import H, L, O, Batch, call

META = dict(
    trusted_base=[
        'gmpy2.f_mod_2exp / isqrt, CPython divmod (floor semantics) — modelled by fMod2exp, Nat.sqrt, Int.fdiv/fmod',
        'Mathlib Nat.Prime, Nat.ModEq, Nat.gcd as specification vocabulary',
    ],
    assumptions=[
        'ntheory_util functions are modelled for n >= 0 (k >= 0; k < 0 only for Sqrt2exp) and a, b >= 0 for '
        'ContinuedFraction: the ranges every caller in /repo uses; negative arguments are not modelled',
        'model functions in Model/NTheory.lean mirror ntheory_util.py; tie checked by this correspondence run',
    ])

SUBMODULES = ['c19_linalg', 'c19_misc']



def _known_or_violation(rep, fid, text):
  """pinned defect: KNOWN-FINDING only while its id is listed in known_findings.json."""
  import framework as _fw
  if any(f.get('id') == fid for f in _fw.load_known_findings()):
    rep.known.append(text)
  else:
    rep.violations.append(dict(op='c19.defect', line=fid, what=text, impl='pinned', model='repaired', info=None))


def _subs():
  out = []
  for name in SUBMODULES:
    try:
      out.append(importlib.import_module('corr.' + name))
    except ImportError:
      pass
  return out


for _m in _subs():
  META['trusted_base'] += [x for x in getattr(_m, 'META', {}).get('trusted_base', [])
                           if x not in META['trusted_base']]
  META['assumptions'] += [x for x in getattr(_m, 'META', {}).get('assumptions', [])
                          if x not in META['assumptions']]


# ----------------------------------------------------------------------------
# property predicates on the implementation

def _mz(rng, x):
  """the callers pass gmpy2.mpz as well as int: exercise both."""
  return gmpy2.mpz(x) if rng.random() < 0.5 else int(x)


def pred_inverse(nt, n, k):
  def pred():
    a = nt.Inverse2exp(n, k)
    if n % 2 == 0:
      return None if a is None else 'Inverse2exp(%x,%d) = %r for even n' % (n, k, a)
    if a is None:
      return 'Inverse2exp(%x,%d) = None for odd n' % (n, k)
    if (int(a) * n - 1) % 2**k != 0:
      return 'Inverse2exp(%x,%d) = %x but a*n %% 2^k != 1' % (n, k, int(a))
    return None
  return pred


def _has_invsqrt(n, k):
  """is there a with a*a*n % 2^k == 1 (literal docstring equation)?"""
  if k == 0:
    return False
  if k >= 3:
    return n % 8 == 1
  return any(a * a * n % 2**k == 1 for a in range(2**k))


def pred_invsqrt(nt, n, k):
  def pred():
    a = nt.InverseSqrt2exp(n, k)
    if a is None:
      if k <= 12:
        sols = [x for x in range(2**k) if x * x * n % 2**k == 1]
        return 'InverseSqrt2exp(%x,%d) = None but %x is a solution' % (n, k, sols[0]) if sols else None
      return 'InverseSqrt2exp(%x,%d) = None but n %% 8 == 1' % (n, k) if _has_invsqrt(n, k) else None
    if int(a) * int(a) * n % 2**k != 1:
      return 'InverseSqrt2exp(%x,%d) = %x but a*a*n %% 2^k != 1' % (n, k, int(a))
    return None
  return pred


def pred_sqrt(nt, n, k):
  def pred():
    try:
      rs = nt.Sqrt2exp(n, k)
    except ValueError:
      return None if (n % 2 == 0 or k < 0) else 'Sqrt2exp(%x,%d) raised ValueError for odd n' % (n, k)
    except Exception as e:  # noqa
      return 'Sqrt2exp(%x,%d) raised %r' % (n, k, e)
    if n % 2 == 0 or k < 0:
      return 'Sqrt2exp(%x,%d) did not raise' % (n, k)
    rs = [int(x) for x in rs]
    m = 2**k
    for x in rs:
      if not 0 <= x < m or (x * x - n) % m != 0:
        return 'Sqrt2exp(%x,%d) returns %x which is not a reduced square root' % (n, k, x)
    if len(set(rs)) != len(rs):
      return 'Sqrt2exp(%x,%d) returns a repeated root' % (n, k)
    if k <= 12:
      want = sorted(x for x in range(m) if (x * x - n) % m == 0)
      if sorted(rs) != want:
        return 'Sqrt2exp(%x,%d) = %s but the roots are %s' % (n, k, rs, want)
    else:
      want = 4 if n % 8 == 1 else 0
      if len(rs) != want:
        return 'Sqrt2exp(%x,%d) returns %d roots, expected %d' % (n, k, len(rs), want)
    return None
  return pred


def pred_cf(nt, a, b):
  def pred():
    res = [(int(q), int(r), int(t)) for q, r, t in nt.ContinuedFraction(a, b)]
    x, y = a, b
    h1, h2, k1, k2 = 1, 0, 0, 1
    i = 0
    while y:
      q = x // y
      x, y = y, x - q * y
      h1, h2 = h1 * q + h2, h1
      k1, k2 = k1 * q + k2, k1
      if i >= len(res) or res[i] != (q, h1, k1):
        return 'ContinuedFraction(%x,%x)[%d] is not the Euclid quotient / convergent' % (a, b, i)
      i += 1
    if i != len(res):
      return 'ContinuedFraction(%x,%x) has %d entries, Euclid takes %d steps' % (a, b, len(res), i)
    if res:
      _, r, t = res[-1]
      if t == 0 or Fraction(r, t) != Fraction(a, b) or math.gcd(r, t) != 1:
        return 'last convergent of ContinuedFraction(%x,%x) is not a/b in lowest terms' % (a, b)
    return None
  return pred


def pred_dmr(nt, a, b):
  def pred():
    try:
      q, r = nt.DivmodRounded(a, b)
    except ZeroDivisionError:
      return None if b == 0 else 'DivmodRounded(%d,%d) raised ZeroDivisionError' % (a, b)
    q, r = int(q), int(r)
    if q * b + r != a:
      return 'DivmodRounded(%d,%d) = (%d,%d): q*b + r != a' % (a, b, q, r)
    if 2 * abs(r) > abs(b):
      return 'DivmodRounded(%d,%d) = (%d,%d): q is not a nearest integer to a/b' % (a, b, q, r)
    # exact tie rule of the docstring ("ties are rounded towards +infinity"), both signs of b:
    # -b <= 2r < b for b > 0, b < 2r <= -b for b < 0, i.e. q = floor(a/b + 1/2)
    # (theorems C19Shipped.divmodRounded_range_pos/_range_neg/_half_up)
    if (b > 0 and not -b <= 2 * r < b) or (b < 0 and not b < 2 * r <= -b):
      return 'DivmodRounded(%d,%d) = (%d,%d): tie not rounded towards +infinity' % (a, b, q, r)
    if q != (2 * a + b) // (2 * b):
      return 'DivmodRounded(%d,%d) = (%d,%d): q != floor(a/b + 1/2)' % (a, b, q, r)
    return None
  return pred


def pred_sieve(nt, n):
  def pred():
    got = [int(x) for x in nt.Sieve(n)]
    want = [i for i in range(2, n) if all(i % d for d in range(2, math.isqrt(i) + 1))] if n <= 5000 \
        else [i for i in range(2, n) if gmpy2.is_prime(i)]
    return None if got == want else 'Sieve(%d) is not the list of primes below n' % n
  return pred


# ----------------------------------------------------------------------------

def dmr_variant(nt):
  """which DivmodRounded does the implementation match? ('pinned' | 'repaired' | 'neither')."""
  probes = [(1, 3), (4, 3), (2, -3), (7, 5), (-1, 3)]
  got = [tuple(map(int, nt.DivmodRounded(a, b))) for a, b in probes]
  pinned = [(1, -2), (2, -2), (-1, -1), (2, -3), (0, -1)]
  repaired = [(0, 1), (1, 1), (-1, -1), (1, 2), (0, -1)]
  return 'pinned' if got == pinned else 'repaired' if got == repaired else 'neither'


def known_findings(rep):
  from paranoid_crypto.lib import ntheory_util as nt
  if dmr_variant(nt) == 'pinned':
    bad = sum(1 for a in range(-60, 61) for b in range(1, 61)
              if pred_dmr(nt, a, b)() is not None)
    _known_or_violation(rep, 'D16', 
        'D16 DivmodRounded: for odd b > 0 the remainder range is [-(b+1)/2, (b-1)/2), e.g. '
        'DivmodRounded(1, 3) = (1, -2) although round(1/3) = 0 (%d of 7260 pairs |a| <= 60, 1 <= b <= 60 '
        'are not nearest); every caller passes a power of two >= 2, for which the result is exact '
        '(theorem divmodRounded_pow2); model variant pinned; repair in fixes/D16-divmod-rounded.diff' % bad)
  for m in _subs():
    if hasattr(m, 'known_findings'):
      m.known_findings(rep)


def correspondence(rep, rng, tier):
  from paranoid_crypto.lib import ntheory_util as nt
  thorough = tier == 'thorough'

  # --- 2-adic routines: exhaustive n < 4096, k <= 12 ---------------------------------------
  bi = Batch('nt.inverse2exp')
  bs = Batch('nt.inversesqrt2exp')
  bq = Batch('nt.sqrt2exp')
  for k in range(13):
    for n in range(4096):
      a = nt.Inverse2exp(n, k)
      bi.add('nt.inverse2exp %x %x' % (n, k), O(a),
             tag='even' if n % 2 == 0 else ('k<=2' if k <= 2 else 'loop'),
             pred=pred_inverse(nt, n, k), nontrivial=n % 2 == 1)
      a = nt.InverseSqrt2exp(n, k)
      bs.add('nt.inversesqrt2exp %x %x' % (n, k), O(a),
             tag=('k<3:' + ('none' if a is None else 'found')) if k < 3 else
             ('n%8!=1' if a is None else 'loop'), pred=pred_invsqrt(nt, n, k))
      r = call(L, nt.Sqrt2exp, n, k)
      bq.add('nt.sqrt2exp %x %x' % (n, k), r,
             tag='even' if n % 2 == 0 else ('k<3' if k < 3 else ('none' if r == 'ok []' else 'four')),
             pred=pred_sqrt(nt, n, k), nontrivial=n % 2 == 1)
  # --- random 1..4096-bit n, k up to 2050, boundaries of the doubling schedule ---------------
  ks = [0, 1, 2, 3, 4, 5, 6, 7, 8, 9, 10, 11, 13, 16, 17, 31, 32, 33, 63, 64, 65, 66, 127, 128, 129,
        130, 255, 256, 257, 258, 511, 512, 513, 514, 1023, 1024, 1025, 1026, 2047, 2048, 2049, 2050]
  nbits = [1, 2, 3, 4, 8, 16, 31, 32, 33, 64, 127, 128, 255, 256, 512, 1023, 1024, 2048, 4095, 4096]
  reps = 6 if thorough else 2
  for bits in nbits:
    for _ in range(reps):
      base = rng.getrandbits(bits) | (1 << (bits - 1))
      for n in {base | 1, base & ~1, (base & ~7) | 1, (base & ~7) | 5, (base & ~7) | 3}:
        for k in (ks if thorough else rng.sample(ks, 12) + [2050]):
          nn = _mz(rng, n)
          a = nt.Inverse2exp(nn, k)
          bi.add('nt.inverse2exp %x %x' % (n, k), O(a),
                 tag='big:' + ('even' if n % 2 == 0 else ('k<=2' if k <= 2 else 'loop')),
                 pred=pred_inverse(nt, n, k))
          a = nt.InverseSqrt2exp(nn, k)
          bs.add('nt.inversesqrt2exp %x %x' % (n, k), O(a),
                 tag='big:' + (('k<3:' + ('none' if a is None else 'found')) if k < 3 else
                               ('n%8!=1' if a is None else 'loop')), pred=pred_invsqrt(nt, n, k))
          r = call(L, nt.Sqrt2exp, nn, k)
          bq.add('nt.sqrt2exp %x %x' % (n, k), r,
                 tag='big:' + ('even' if n % 2 == 0 else ('k<3' if k < 3 else
                                                           ('none' if r == 'ok []' else 'four'))),
                 pred=pred_sqrt(nt, n, k))
  for n in (1, 2, 7, 17, 2**64 + 1):
    for k in (-1, -2, -64):
      bq.add('nt.sqrt2exp %x %s' % (n, H(k)), call(L, nt.Sqrt2exp, n, k), tag='k<0',
             pred=pred_sqrt(nt, n, k))
  rep.absorb(bi, bi.run())
  rep.absorb(bs, bs.run())
  rep.absorb(bq, bq.run())

  # --- ContinuedFraction ------------------------------------------------------------------
  b = Batch('nt.cf')

  def fmt_cf(res):
    return ';'.join('%s,%s,%s' % (H(q), H(r), H(t)) for q, r, t in res) if res else '[]'

  def add_cf(x, y, tag):
    b.add('nt.cf %x %x' % (x, y), fmt_cf(nt.ContinuedFraction(_mz(rng, x), _mz(rng, y))), tag=tag,
          pred=pred_cf(nt, x, y), nontrivial=y != 0)

  for x in range(0, 40):
    for y in range(0, 40):
      add_cf(x, y, 'b=0' if y == 0 else 'a=0' if x == 0 else 'equal' if x == y else
             'a<b' if x < y else 'small')
  fib = [1, 1]
  while fib[-1].bit_length() <= 4200:
    fib.append(fib[-1] + fib[-2])
  for i in list(range(1, 30)) + [90, 91, 92, 93, 184, 185, 186, 1000, 2953]:
    add_cf(fib[i + 1], fib[i], 'fib')            # worst case for the number of steps
    add_cf(fib[i], fib[i + 1], 'fib:a<b')
    add_cf(fib[i + 1] + 1, fib[i], 'fib+1')
  add_cf(fib[-1], fib[-2], 'fib')                # > 4200 bits, ~6000 steps, 6 MB answer
  if thorough:
    add_cf(fib[-2], fib[-1], 'fib:a<b')
    add_cf(fib[-1] + 1, fib[-2], 'fib+1')
  for bits in (1, 2, 8, 31, 32, 33, 64, 128, 256, 512, 1024, 2048, 4096):
    for _ in range(8 if thorough else 3):
      x = rng.getrandbits(bits)
      y = rng.getrandbits(rng.choice([bits, max(1, bits // 2), bits + 3]))
      add_cf(x, y, 'random')
      add_cf(x, 2**bits, 'pow2')                 # CheckContinuedFraction's call shape
      add_cf(2**bits, x, 'pow2:num')
      g = rng.getrandbits(max(1, bits // 3)) + 1
      add_cf(x * g, (y + 1) * g, 'common-factor')
      add_cf(x, x, 'equal')
      add_cf(x, 0, 'b=0')
      add_cf(0, x, 'a=0')
      add_cf(x * (y + 1), y + 1, 'divides')
  rep.absorb(b, b.run())

  # --- DivmodRounded ----------------------------------------------------------------------
  variant = dmr_variant(nt)
  rep.extra['divmodrounded_variant'] = variant
  op = 'nt.divmodrounded_r' if variant == 'repaired' else 'nt.divmodrounded'
  b = Batch(op)

  def fmt_qr(qr):
    return '%s,%s' % (H(qr[0]), H(qr[1]))

  def add_dmr(x, y, tag=None):
    t = tag or ('b=0' if y == 0 else ('even' if y % 2 == 0 else 'odd') + ('+' if y > 0 else '-'))
    b.add('%s %s %s' % (op, H(x), H(y)), call(fmt_qr, nt.DivmodRounded, x, y), tag=t,
          pred=pred_dmr(nt, x, y), nontrivial=y != 0, always=True)

  for x in range(-60, 61):
    for y in range(-60, 61):
      add_dmr(x, y)
  for bits in (8, 32, 64, 65, 256, 1024, 4096):
    for _ in range(20 if thorough else 6):
      x = rng.getrandbits(bits) * rng.choice([1, -1])
      y = (rng.getrandbits(rng.choice([bits, bits // 2, 3])) + 1) * rng.choice([1, -1])
      add_dmr(_mz(rng, x), _mz(rng, y), 'big')
      j = rng.randrange(0, bits)
      add_dmr(x, 2**j, 'pow2')                   # the callers' case
      add_dmr(x * 2**j + 2**j // 2, 2**j, 'pow2:tie')
      add_dmr(x * y, y, 'big:exact')
      add_dmr(x, 0, 'b=0')
  rep.absorb(b, b.run())

  # --- Sieve ------------------------------------------------------------------------------
  b = Batch('nt.sieve')
  big = [1000, 1023, 1024, 1025, 4096, 65535, 65536, 65537, 10**5] + ([2**20, 2**20 + 7, 3 * 10**6] if thorough else [2**18 + 1])
  for n in list(range(0, 301)) + [k * k + d for k in range(17, 40) for d in (-1, 0, 1)] + big:
    b.add('nt.sieve %x' % n, L(nt.Sieve(n)), tag='n<4' if n < 4 else 'small' if n <= 300 else
          'square+-1' if n < 2000 else 'large', pred=pred_sieve(nt, n), nontrivial=n > 2)
  rep.absorb(b, b.run())

  for m in _subs():
    m.correspondence(rep, rng, tier)


def search(rep, rng, tier):
  """Failing-input search on the implementation only (no model): the defining equations of
  the 2-adic routines, ContinuedFraction, DivmodRounded (nearest for even/negative b) and Sieve
  on fresh random inputs."""
  from paranoid_crypto.lib import ntheory_util as nt
  variant = dmr_variant(nt)
  n_checked = 0

  def fail(what, line):
    rep.violations.append(dict(op='search', line=line, what=what, impl='', model='', info=None))

  for _ in range(3000 if tier == 'quick' else 30000):
    bits = rng.choice([3, 8, 13, 32, 64, 256, 1024])
    n = rng.getrandbits(bits)
    k = rng.choice([rng.randrange(0, 14), rng.randrange(0, 300)])
    for p, line in ((pred_inverse(nt, n, k), 'nt.inverse2exp %x %x' % (n, k)),
                    (pred_invsqrt(nt, n, k), 'nt.inversesqrt2exp %x %x' % (n, k)),
                    (pred_sqrt(nt, n, k), 'nt.sqrt2exp %x %x' % (n, k))):
      w = p()
      n_checked += 1
      if w:
        fail(w, line)
    a, b = rng.getrandbits(bits), rng.getrandbits(bits)
    w = pred_cf(nt, a, b)()
    if w:
      fail(w, 'nt.cf %x %x' % (a, b))
    bb = b * rng.choice([1, -1])
    if bb != 0 and (variant == 'repaired' or bb % 2 == 0 or bb < 0):
      w = pred_dmr(nt, a, bb)()
      if w:
        fail(w, 'nt.divmodrounded %s %s' % (H(a), H(bb)))
    if rep.violations:
      break
  for n in range(0, 400):
    w = pred_sieve(nt, n)()
    if w:
      fail(w, 'nt.sieve %x' % n)
  rep.extra['search_evaluations'] = n_checked
  for m in _subs():
    if hasattr(m, 'search'):
      m.search(rep, rng, tier)


def replay(doc):
  """./check C19 --replay file: re-runs the recorded request line on model and implementation."""
  import shims
  shims.install()
  if doc.get('op') == 'sr.planted_root':
    from corr import c19_misc
    return c19_misc.replay_planted_root(doc)
  line = doc.get('line') or (doc.get('diverging_correspondence') or [{}])[0].get('line')
  print('replay line:', line)
  if not line:
    return 2
  print('model     :', fw.run_driver([line])[0])
  print('recorded  : impl=%s what=%s' % (doc.get('impl'), doc.get('what')))
  return 0
