"""C19 (linear algebra part) — `linalg_util.echelon_form / upper_triangular_solve / solve_right`.

Correspondence of Model/LinAlg.lean with the implementation, and the property predicates
("a returned vector solves the system", "None iff a zero on the diagonal").

Defect D7.  The Lean theorems are about the model variant `repaired`, i.e. the behaviour of
fixes/D7-solve-right.diff.  For every generated input three things are run:

  real   = the function of the tree under test (fw.REPO, `/repo` or `VERIF_REPO`),
  fixed  = the same module with fixes/D7-solve-right.diff applied IN MEMORY to its source text
           (nothing is written to the tree; when the diff is already applied `fixed is real`),
  model  = the Lean model, variant `repaired` (and `pinned`, see below).

The request `… repaired <input>` is always compared with the answer of `fixed`.  When
`real != fixed` on an input, the input is counted for the single KNOWN-FINDING line and a second
request `… pinned <input>` is compared with the answer of `real`: so a tree that differs from the
fixed code in any way other than the pinned zero-pivot move still produces a divergence.
"""
import os
import re
import types
from fractions import Fraction

import framework as fw
from framework import H, L, M, B, Batch

META = dict(
    trusted_base=[
        'fixes/D7-solve-right.diff applied in memory to linalg_util.py (harness/corr/c19_linalg.py '
        'apply_unified_diff) stands for the repaired tree when the check runs on the pinned tree',
        'gmpy2.mpq normalisation (compared as num/den strings with the model\'s PyQ)',
    ],
    assumptions=[
        'Model/LinAlg.lean mirrors linalg_util.py with fixes/D7-solve-right.diff applied (variant '
        '`repaired`) and as pinned (variant `pinned`); tie checked by this correspondence run',
        'rows of `a` are distinct list objects (no aliasing between rows, or between a and b)',
        'solve_right soundness is proved under the hypothesis that every `//=` of echelon_form is '
        'an exact division (ghost flag `exact` of the model, compared with an instrumented copy '
        'of the implementation: op la.exact); exactness itself (Bareiss/Sylvester) is not proved',
    ])

DIFF = os.path.join(fw.VERIF, 'fixes', 'D7-solve-right.diff')
REL = os.path.join('paranoid_crypto', 'lib', 'linalg_util.py')


# ----------------------------------------------------------------------------
# in-memory patched / instrumented copies of the module under test


def _known_or_violation(rep, fid, text):
  """pinned defect: KNOWN-FINDING only while its id is listed in known_findings.json."""
  import framework as _fw
  if any(f.get('id') == fid for f in _fw.load_known_findings()):
    rep.known.append(text)
  else:
    rep.violations.append(dict(op='c19.defect', line=fid, what=text, impl='pinned', model='repaired', info=None))


def parse_hunks(diff_text):
  """[(old_lines, new_lines)] of a unified diff (single file)."""
  hunks, cur = [], None
  for line in diff_text.split('\n'):
    if line.startswith('@@'):
      cur = ([], [])
      hunks.append(cur)
    elif cur is None or line.startswith('\\'):
      continue
    elif line.startswith('+'):
      cur[1].append(line[1:])
    elif line.startswith('-'):
      cur[0].append(line[1:])
    elif line.startswith(' ') or line == '':
      cur[0].append(line[1:])
      cur[1].append(line[1:])
  for old, new in hunks:   # trailing '' produced by the final newline of the file
    while old and new and old[-1] == '' and new[-1] == '':
      old.pop()
      new.pop()
  return hunks


def apply_unified_diff(src, diff_text):
  """Returns (patched_source, status) with status in {'applied', 'already', 'failed'}."""
  status = 'already'
  for old, new in parse_hunks(diff_text):
    o, n = '\n'.join(old), '\n'.join(new)
    if src.count(o) == 1:
      src = src.replace(o, n)
      status = 'applied'
    elif src.count(n) == 1:
      continue
    else:
      return src, 'failed'
  return src, status


def module_from_source(name, src):
  mod = types.ModuleType(name)
  exec(compile(src, name + '.py', 'exec'), mod.__dict__)
  return mod


def instrument_exact(src):
  """Copy of the module in which every `x //= d` first records whether `d` divides `x`."""
  out, k = [], 0
  for line in src.split('\n'):
    m = re.match(r'^(\s*)(\S.*?) //= (.+)$', line)
    if m and not line.lstrip().startswith('#'):
      out.append('%s_EXACT.append((%s) %% (%s) == 0)' % (m.group(1), m.group(2), m.group(3)))
      k += 1
    out.append(line)
  return '_EXACT = []\n' + '\n'.join(out), k


class Impl:
  """real / fixed / instrumented-fixed versions of linalg_util."""

  def __init__(self, rep):
    from paranoid_crypto.lib import linalg_util
    self.real = linalg_util
    path = os.path.join(fw.REPO, REL)
    src = open(path).read()
    assert os.path.realpath(linalg_util.__file__) == os.path.realpath(path), linalg_util.__file__
    fixed_src, self.status = apply_unified_diff(src, open(DIFF).read())
    if self.status == 'failed':
      rep.broken.append('fixes/D7-solve-right.diff applies neither forwards nor backwards to %s'
                        % path)
      self.fixed = linalg_util
    elif self.status == 'already':
      self.fixed = linalg_util
    else:
      self.fixed = module_from_source('linalg_util_d7fixed', fixed_src)
    isrc, k = instrument_exact(fixed_src)
    if k != 2:
      rep.broken.append('expected 2 `//=` statements in linalg_util.py, found %d' % k)
    self.instr = module_from_source('linalg_util_d7fixed_instr', isrc)
    rep.extra['d7_patch_status'] = self.status


# ----------------------------------------------------------------------------
# formatting

def fmt_q(x):
  return '%s/%s' % (H(int(x.numerator)), H(int(x.denominator)))


def fmt_qlist(r):
  if r is None:
    return 'none'
  return ','.join(fmt_q(x) for x in r) if r else '[]'


def fmt_optlist(b):
  return '-' if b is None else L(b)


def copy_mat(a):
  return [list(r) for r in a]


def run_solve(mod, a, b):
  try:
    return 'ok ' + fmt_qlist(mod.solve_right(copy_mat(a), list(b)))
  except Exception as e:  # noqa
    return 'err ' + fw.exc_name(e)


def run_uts(mod, a, b):
  try:
    return 'ok ' + fmt_qlist(mod.upper_triangular_solve(copy_mat(a), list(b)))
  except Exception as e:  # noqa
    return 'err ' + fw.exc_name(e)


def run_echelon(mod, a, b):
  a2 = copy_mat(a)
  b2 = None if b is None else list(b)
  try:
    r = mod.echelon_form(a2, b2)
  except Exception as e:  # noqa
    return 'err ' + fw.exc_name(e)
  return 'ok %s %s %s' % (H(r), M(a2), fmt_optlist(b2))


def run_exact(instr, a, b):
  del instr._EXACT[:]
  try:
    instr.solve_right(copy_mat(a), list(b))
  except Exception as e:  # noqa
    return 'err ' + fw.exc_name(e)
  return 'ok ' + B(all(instr._EXACT))


# ----------------------------------------------------------------------------
# exact rational reference (property side; never the model)

def rational_solution(a, b):
  """(consistent, x0, rank): x0 a particular solution over Q of a x = b (free variables 0)."""
  m = len(a)
  n = len(a[0]) if a else 0
  rows = [[Fraction(v) for v in r] + [Fraction(bv)] for r, bv in zip(a, b)]
  piv, r = [], 0
  for c in range(n):
    p = next((i for i in range(r, m) if rows[i][c] != 0), None)
    if p is None:
      continue
    rows[r], rows[p] = rows[p], rows[r]
    rows[r] = [x / rows[r][c] for x in rows[r]]
    for i in range(m):
      if i != r and rows[i][c] != 0:
        f = rows[i][c]
        rows[i] = [x - f * y for x, y in zip(rows[i], rows[r])]
    piv.append(c)
    r += 1
  if any(rows[i][n] != 0 for i in range(r, m)):
    return False, None, r
  x0 = [Fraction(0)] * n
  for i, c in enumerate(piv):
    x0[c] = rows[i][n]
  return True, x0, r


def rectangular(a, b=None):
  return (len(a) >= 1 and all(len(r) == len(a[0]) for r in a) and
          (b is None or len(b) == len(a)))


def to_frac(x):
  return Fraction(int(x.numerator), int(x.denominator))


def solve_pred(mod, a, b):
  """property on the implementation: a returned vector solves a consistent system."""
  def pred():
    if not rectangular(a, b):
      return None
    try:
      x = mod.solve_right(copy_mat(a), list(b))
    except Exception:  # noqa
      return None
    if x is None:
      return None
    cons, _, _ = rational_solution(a, b)
    if not cons:
      return None
    xs = [to_frac(v) for v in x]
    for r, bv in zip(a, b):
      if sum(Fraction(v) * xv for v, xv in zip(r, xs)) != bv:
        return ('solve_right returned %s for the consistent system a=%s b=%s but a*x != b'
                % ([str(v) for v in xs], a, list(b)))
    return None
  return pred


def uts_pred(mod, a, b):
  """returned x solves (upper triangle of a) x = b; None iff a zero on the diagonal."""
  def pred():
    n = len(a)
    if not (rectangular(a, b) and len(a[0]) == n):
      return None
    try:
      x = mod.upper_triangular_solve(copy_mat(a), list(b))
    except Exception as e:  # noqa
      return 'upper_triangular_solve raised %r on a well-formed input a=%s b=%s' % (e, a, b)
    zero_diag = any(a[i][i] == 0 for i in range(n))
    if (x is None) != zero_diag:
      return 'upper_triangular_solve: None=%s but zero on diagonal=%s, a=%s' % (x is None, zero_diag, a)
    if x is None:
      return None
    xs = [to_frac(v) for v in x]
    for i in range(n):
      if sum(Fraction(a[i][j]) * xs[j] for j in range(i, n)) != b[i]:
        return 'upper_triangular_solve: row %d of a*x != b, a=%s b=%s x=%s' % (i, a, b, xs)
    return None
  return pred


def echelon_pred(mod, a, b):
  """every rational solution of the input system still solves the transformed system (checked on
  one particular solution plus the kernel being preserved is not needed for soundness)."""
  def pred():
    if b is None or not b or not rectangular(a, b):
      return None
    cons, x0, _ = rational_solution(a, b)
    if not cons:
      return None
    a2, b2 = copy_mat(a), list(b)
    try:
      mod.echelon_form(a2, b2)
    except Exception:  # noqa
      return None
    for r, bv in zip(a2, b2):
      if sum(Fraction(v) * xv for v, xv in zip(r, x0)) != bv:
        return ('echelon_form: a solution %s of the input system a=%s b=%s does not solve the '
                'output system' % ([str(v) for v in x0], a, list(b)))
    return None
  return pred


# ----------------------------------------------------------------------------
# generators

D7_MINIMAL = ([[0, 0, 0, 0], [0, 0, 1, 0], [1, 0, 0, 0], [0, 0, 1, 1], [0, 1, 0, 0]], [0, 1, 0, 0, 0])
D7_OTHERS = [
    ([[-1, -1, -1, -1], [-1, -1, -1, -1], [-1, -1, 0, -1], [-1, -1, 0, 0], [-1, 0, -1, -1]],
     [-1, -1, 0, -1, -1]),
    ([[2, -2, 0, 2], [2, -2, 0, 2], [1, -1, 1, 0], [1, 2, 1, 1], [2, 2, 2, 0]], [-8, -8, -5, 1, -2]),
    ([[0, 1, 1, 1], [0, 0, 0, 0], [1, -1, -1, 0], [1, -1, 1, 1], [1, 0, -1, -1], [1, 0, 0, 1]],
     [1, 0, 1, 4, -1, 2]),
]
UPSTREAM = [
    ([[8, 7, 4, 1], [4, 6, 7, 3], [6, 3, 4, 6], [4, 5, 8, 2]], [45, 30, 40, 30]),
    ([[8, 7, 4, 1], [4, 6, 7, 3], [16, 14, 8, 2], [6, 3, 4, 6], [4, 5, 8, 2]], [45, 30, 90, 40, 30]),
    ([[8, 7, 4, 1], [4, 6, 7, 3], [0, 0, 0, 0], [0, 0, 0, 0], [6, 3, 4, 6], [4, 5, 8, 2]],
     [45, 30, 0, 0, 40, 30]),
    ([[7, 4, 1, 8], [6, 7, 3, 4], [3, 4, 6, 6], [5, 8, 2, 4]], [1, 2, 3, 4]),
]


def all_vectors(k, lo=-2, hi=2):
  import itertools
  return itertools.product(range(lo, hi + 1), repeat=k)


def small_systems(rng, tier):
  """(tag, a, b) for all / sampled integer systems up to 3x3 with entries and b in [-2,2]."""
  import itertools
  out = []
  thorough = tier == 'thorough'
  for m in (1, 2, 3):
    for n in range(1, m + 1):
      total = 5 ** (m * n)
      if total <= 625 or (thorough and total <= 15625):
        mats = [[list(t[i * n:(i + 1) * n]) for i in range(m)] for t in all_vectors(m * n)]
        mtag = 'allA'
      elif thorough and (m, n) == (3, 3):
        mats = [[list(t[i * n:(i + 1) * n]) for i in range(m)] for t in all_vectors(m * n, -1, 1)]
        mats += [[[rng.randint(-2, 2) for _ in range(n)] for _ in range(m)] for _ in range(6000)]
        mtag = 'allA[-1,1]+sample'
      else:
        k = {(2, 2): 625, (3, 1): 125, (3, 2): 3000, (3, 3): 5000}[(m, n)]
        if thorough:
          k *= 8
        if k >= total:
          mats = [[list(t[i * n:(i + 1) * n]) for i in range(m)] for t in all_vectors(m * n)]
          mtag = 'allA'
        else:
          mats = [[[rng.randint(-2, 2) for _ in range(n)] for _ in range(m)] for _ in range(k)]
          mtag = 'sampleA'
      nb = 5 ** m
      for a in mats:
        if nb * len(mats) <= (400000 if thorough else 700):
          bs, btag = list(all_vectors(m)), 'allb'
        else:
          kb = (12 if thorough else 3) if m == 3 else (25 if thorough else 4)
          bs = [tuple(rng.randint(-2, 2) for _ in range(m)) for _ in range(kb)]
          # always one consistent right-hand side
          x0 = [rng.randint(-1, 1) for _ in range(n)]
          cb = tuple(sum(v * x for v, x in zip(r, x0)) for r in a)
          if all(-2 <= v <= 2 for v in cb):
            bs.append(cb)
          btag = 'sampleb'
        for b in bs:
          out.append(('%dx%d/%s/%s' % (m, n, mtag, btag), a, list(b)))
  return out


def planted_system(rng, m, n, E):
  """rows with planted zero rows, zero leading entries (zero pivots), dependent rows."""
  a = []
  zero_cols = [c for c in range(n) if rng.random() < 0.12]
  for r in range(m):
    t = rng.random()
    if t < 0.15:
      row = [0] * n
    elif t < 0.35 and a:
      k = rng.choice([-2, -1, 1, 1, 2, 3])
      row = [k * v for v in rng.choice(a)]
    elif t < 0.45 and len(a) >= 2:
      r1, r2 = rng.sample(a, 2)
      k1, k2 = rng.choice([-1, 1, 2]), rng.choice([-1, 1, 2])
      row = [k1 * u + k2 * v for u, v in zip(r1, r2)]
    elif t < 0.65:
      z = rng.randint(1, n)        # leading zeros: zero pivot candidates
      row = [0] * z + [rng.randint(-E, E) for _ in range(n - z)]
    else:
      row = [rng.randint(-E, E) for _ in range(n)]
    for c in zero_cols:
      if rng.random() < 0.8:
        row[c] = 0
    a.append(row)
  t = rng.random()
  if t < 0.7:
    x0 = [rng.randint(-3, 3) for _ in range(n)]
    b = [sum(v * x for v, x in zip(r, x0)) for r in a]          # consistent, integer solution
    tag = 'consistent'
  elif t < 0.8:
    d = rng.choice([2, 3, 5])
    x0 = [rng.randint(-4, 4) for _ in range(n)]                   # solution x0/d
    a = [[d * v for v in r] for r in a]
    b = [sum((v // d) * x for v, x in zip(r, x0)) for r in a]
    tag = 'consistent-rational'
  else:
    b = [rng.randint(-E, E) for _ in range(m)]
    tag = 'random-b'
  return tag, a, b


def planted_systems(rng, tier):
  out = []
  k = 8000 if tier == 'thorough' else 2500
  for _ in range(k):
    n = rng.randint(1, 5)
    m = rng.randint(n, 8)
    E = rng.choice([1, 2, 2, 3, 9])
    tag, a, b = planted_system(rng, m, n, E)
    out.append(('planted/%s' % tag, a, b))
  # D7 shape: >= 5 rows, >= 4 columns, small entries, many planted structures
  for _ in range(k):
    n = rng.randint(4, 5)
    m = rng.randint(n + 1, 8)
    tag, a, b = planted_system(rng, m, n, rng.choice([1, 1, 2]))
    out.append(('planted-d7shape/%s' % tag, a, b))
  for a, b in [D7_MINIMAL] + D7_OTHERS:
    out.append(('d7-regression', a, b))
  for a, b in UPSTREAM:
    out.append(('upstream-test', a, b))
  return out


def malformed_systems(rng, count):
  """(tag, a, b): shape errors and ragged rows."""
  out = [('empty-a', [], []), ('empty-a', [], [1]), ('zero-cols', [[], []], [1, 2]),
         ('zero-cols', [[], []], [0, 0]), ('empty-b', [[1, 2], [3, 4]], [])]
  for _ in range(count):
    n = rng.randint(1, 4)
    m = rng.randint(1, 6)
    a = [[rng.randint(-2, 2) for _ in range(n)] for _ in range(m)]
    b = [rng.randint(-2, 2) for _ in range(m)]
    t = rng.random()
    if t < 0.3:
      b = b + [1] if rng.random() < 0.5 else b[:-1]
      tag = 'len(b)-mismatch'
    elif t < 0.5:
      n2 = m + rng.randint(1, 2)
      a = [[rng.randint(-2, 2) for _ in range(n2)] for _ in range(m)]
      tag = 'nrows<ncols'
    elif t < 0.75:
      r = rng.randrange(m)
      a[r] = a[r][:rng.randint(0, n - 1)]
      tag = 'ragged-short'
    else:
      r = rng.randrange(m)
      a[r] = a[r] + [rng.randint(-2, 2) for _ in range(rng.randint(1, 2))]
      tag = 'ragged-long'
    if a != [[]]:          # `[[]]` and `[]` have the same encoding on the line protocol
      out.append((tag, a, b))
  return out


def uts_inputs(rng, tier):
  out = []
  k = 6000 if tier == 'thorough' else 1500
  for _ in range(k):
    n = rng.randint(1, 6)
    E = rng.choice([1, 2, 5, 20, 1000])
    t = rng.random()
    a = [[(rng.randint(-E, E) if j >= i else 0) for j in range(n)] for i in range(n)]
    for i in range(n):
      if a[i][i] == 0 and rng.random() < 0.8:
        a[i][i] = rng.choice([-3, -1, 1, 2, 7])
    tag = 'upper'
    if t < 0.25:
      i = rng.randrange(n)
      a[i][i] = 0
      tag = 'upper/zero-diag'
    elif t < 0.33:
      a = [[rng.randint(-E, E) for _ in range(n)] for _ in range(n)]
      tag = 'full-square'
    b = [rng.randint(-E, E) for _ in range(n)]
    if rng.random() < 0.3:
      x0 = [rng.randint(-3, 3) for _ in range(n)]
      b = [sum(a[i][j] * x0[j] for j in range(i, n)) for i in range(n)]
    out.append((tag, a, b))
  bad = [('empty-a', [], []), ('zero-cols', [[], []], [1, 2])]
  for _ in range(k // 12):
    n = rng.randint(1, 4)
    a = [[(rng.randint(-3, 3) if j >= i else 0) for j in range(n)] for i in range(n)]
    b = [rng.randint(-3, 3) for _ in range(n)]
    t = rng.random()
    if t < 0.35:
      a = a + [[0] * n] if rng.random() < 0.5 else [r + [1] for r in a]
      tag = 'non-square'
    elif t < 0.7:
      b = b + [0] if rng.random() < 0.5 else b[:-1]
      tag = 'len(b)-mismatch'
    else:
      r = rng.randrange(n)
      a[r] = a[r][:rng.randint(0, n - 1)] if rng.random() < 0.6 else a[r] + [5]
      tag = 'ragged'
    if a != [[]]:
      bad.append((tag, a, b))
  return out + bad


# ----------------------------------------------------------------------------

def outcome_tag(s):
  if s.startswith('err'):
    return s[4:]
  return 'none' if s == 'ok none' else 'solved'


def correspondence(rep, rng, tier):
  impl = Impl(rep)
  real, fixed = impl.real, impl.fixed
  systems = small_systems(rng, tier) + planted_systems(rng, tier)
  n_mal = max(20, len(systems) // 12)
  systems += malformed_systems(rng, n_mal)

  stats = dict(systems=0, differ=0, wrong=0, inexact=0, example=None, wrong_example=None)

  bs = Batch('la.solve_right')
  be = Batch('la.echelon')
  bx = Batch('la.exact')
  seen_a = set()
  for idx, (tag, a, b) in enumerate(systems):
    arg = '%s %s' % (M(a), L(b))
    stats['systems'] += 1
    # solve_right
    r_real = run_solve(real, a, b)
    r_fixed = r_real if fixed is real else run_solve(fixed, a, b)
    bs.add('la.solve_right repaired ' + arg, r_fixed, tag=tag.split('/')[0] + ':' + outcome_tag(r_fixed),
           pred=solve_pred(real, a, b), info=dict(a=a, b=b))
    differs = r_real != r_fixed
    if differs:
      bs.add('la.solve_right pinned ' + arg, r_real, tag='pinned-variant:' + outcome_tag(r_real),
             pred=solve_pred(real, a, b), info=dict(a=a, b=b))
      failing = solve_pred(real, a, b)()
      if failing:
        stats['wrong'] += 1
        if stats['wrong_example'] is None or len(arg) < len(stats['wrong_example'][2]):
          stats['wrong_example'] = (a, b, arg, r_real, r_fixed)
    # echelon_form with b
    e_real = run_echelon(real, a, b)
    e_fixed = e_real if fixed is real else run_echelon(fixed, a, b)
    be.add('la.echelon repaired ' + arg, e_fixed, tag=tag.split('/')[0] + ':' + ('err' if e_fixed.startswith('err') else 'ok'),
           pred=echelon_pred(real, a, b), info=dict(a=a, b=b))
    if e_real != e_fixed:
      differs = True
      be.add('la.echelon pinned ' + arg, e_real, tag='pinned-variant', pred=echelon_pred(real, a, b),
             info=dict(a=a, b=b))
    if differs:
      stats['differ'] += 1
      if stats['example'] is None:
        stats['example'] = (a, b)
    # echelon_form without b / with the empty list, once per matrix
    key = M(a)
    if key not in seen_a and (len(seen_a) < 4000 or tier == 'thorough'):
      seen_a.add(key)
      for bb in (None, []):
        e_real = run_echelon(real, a, bb)
        e_fixed = e_real if fixed is real else run_echelon(fixed, a, bb)
        line = '%s %s' % (key, fmt_optlist(bb))
        be.add('la.echelon repaired ' + line, e_fixed, tag='b=' + fmt_optlist(bb), info=dict(a=a, b=bb))
        if e_real != e_fixed:
          be.add('la.echelon pinned ' + line, e_real, tag='pinned-variant', info=dict(a=a, b=bb))
    # ghost exactness flag against the instrumented copy of the fixed code
    if idx % 3 == 0 or tag.startswith('planted') or tag.startswith('d7'):
      x = run_exact(impl.instr, a, b)
      if x == 'ok 0':
        stats['inexact'] += 1
      bx.add('la.exact repaired ' + arg, x, tag='exact=' + x, info=dict(a=a, b=b))
  for bt in (bs, be, bx):
    rep.absorb(bt, bt.run())

  bu = Batch('la.uts')
  for tag, a, b in uts_inputs(rng, tier):
    r = run_uts(real, a, b)
    bu.add('la.uts %s %s' % (M(a), L(b)), r, tag=tag + ':' + outcome_tag(r), pred=uts_pred(real, a, b),
           info=dict(a=a, b=b))
  rep.absorb(bu, bu.run())

  rep.extra['d7'] = dict(systems=stats['systems'], pinned_differs_from_fixed=stats['differ'],
                         pinned_wrong_solution_of_consistent_system=stats['wrong'],
                         inexact_division_runs=stats['inexact'])
  if stats['wrong']:
    a, b, _, r_real, r_fixed = stats['wrong_example']
    _known_or_violation(rep, 'D7', 
        'D7 solve_right: pinned code returns a wrong solution for a consistent system, e.g. '
        'a=%s b=%s gives %s, fixed code %s (%d of %d sampled systems; on %d systems the pinned and '
        'the fixed code differ at all); model follows fixes/D7-solve-right.diff'
        % (a, b, r_real[3:], r_fixed[3:], stats['wrong'], stats['systems'], stats['differ']))
  elif stats['differ']:
    a, b = stats['example']
    _known_or_violation(rep, 'D7', 
        'D7 echelon_form: pinned zero-pivot row move differs from fixes/D7-solve-right.diff, e.g. '
        'a=%s b=%s (%d of %d sampled systems, none with a wrong solve_right answer); model follows '
        'fixes/D7-solve-right.diff' % (a, b, stats['differ'], stats['systems']))


def known_findings(rep):
  """the minimal D7 system, evaluated on the tree under test (informational; the KNOWN-FINDING
  line itself is produced by `correspondence`)."""
  from paranoid_crypto.lib import linalg_util
  a, b = D7_MINIMAL
  failing = solve_pred(linalg_util, a, b)()
  rep.extra['d7_minimal_reproduces'] = bool(failing)
