"""C19 (misc part) — PseudoAverage / Bias (lattice_suite), UniformSumCdf / CombinedPValue
(randomness_tests/util) and the acceptance guards of small_roots.py.

Imported by corr/c19.py:  `from corr import c19_misc; c19_misc.correspondence(rep, rng, tier)`.

Float boundary.  The Lean model works on exact rationals.  A Python float is a dyadic
rational, `Fraction(x)` is exact, so inputs go to the model exactly.  What Python computes
in floating point afterwards is compared with tolerance against an mpmath (50 digits) /
Fraction re-evaluation *by the definition* on the Python side; the verdict of that
comparison is part of the implementation's answer string (`tol-ok` / `tol-FAIL:<value>`),
the model prints the constant suffix `tol-ok`; so a float outside tolerance is a divergence.
"""
import inspect
import itertools
import json
import math
import os
import sys
import time
from fractions import Fraction as F

import mpmath

import framework as fw
from framework import H, L, M, O, B, Batch, call

mpmath.mp.dps = 50

META = dict(
    trusted_base=[
        'sympy polynomial algebra, LLL (fpylll) and linalg_util.solve_right are oracles of the '
        'small-root finders: only the final acceptance guard is modelled, candidates are recorded '
        'at the guard with sys.settrace (no change to /repo)',
        'float tail of UniformSumCdf / CombinedPValue / Bias re-evaluated with mpmath at 50 digits '
        'and with exact Fractions; tolerances: 1e-9 absolute (UniformSumCdf n<=36, NormalCdf), '
        '1e-3 for n>36 against the exact Irwin-Hall CDF (delta stated in util_test.py), '
        'max(1e-9, 1e-7*p) for Igamc',
    ],
    assumptions=[
        'Model/Lattice.lean mirrors lattice_suite.PseudoAverage/Bias, util.UniformSumCdf/'
        'CombinedPValue and the guards of small_roots.py; tie checked by this correspondence run',
        'UniformSumCdf: the model reflects with the exact n - x; Python uses the rounded float '
        'n - x (absorbed in the 1e-9 tolerance: the density is <= 1)',
    ])

TOL = 1e-9
TOL_NORMAL_VS_EXACT = 1e-3    # util_test.py: delta=1e-3 for n > 36



def _known_or_violation(rep, fid, text):
  """pinned defect: KNOWN-FINDING only while its id is listed in known_findings.json."""
  import framework as _fw
  if any(f.get('id') == fid for f in _fw.load_known_findings()):
    rep.known.append(text)
  else:
    rep.violations.append(dict(op='c19.defect', line=fid, what=text, impl='pinned', model='repaired', info=None))


def R(q):
  """exact rational as the model prints it."""
  q = F(q)
  return '%s/%s' % (H(q.numerator), H(q.denominator))


# ----------------------------------------------------------------------------
# (A) PseudoAverage / Bias

def pa_definition(a, n):
  """PseudoAverage by its definition (n > 0, a non-empty): among the m+1 lists b_j (the j
  smallest elements incremented by n) take the first with minimal variance, return
  round-half-up mean of b_j, mod n.  Returns (value, [m*sum(b^2) - sum(b)^2 for j])."""
  s = sorted(a)
  m = len(s)
  vs = []
  for j in range(m + 1):
    b = [x + n for x in s[:j]] + s[j:]
    vs.append(m * sum(x * x for x in b) - sum(b) ** 2)
  j = vs.index(min(vs))
  b = [x + n for x in s[:j]] + s[j:]
  return (sum(b) + m // 2) // m % n, vs, j


def pa_pred(ls, a, n):
  def pred():
    try:
      r = ls.PseudoAverage(list(a), n)
    except ZeroDivisionError:
      return None if (not a or n == 0) else 'ZeroDivisionError for non-empty list, n != 0'
    if not a or n == 0:
      return 'no exception for empty list / n = 0: %r' % (r,)
    if n > 0:
      want, _, _ = pa_definition(a, n)
      if r != want:
        return 'PseudoAverage(%r, %d) = %d, definition (min-variance prefix shift) gives %d' % (
            a, n, r, want)
      if not 0 <= r < n:
        return 'result %d outside [0, n)' % r
    else:
      # n < 0 (theorems C19Shipped.pseudoAverage_range_neg / _neg_max_variance): result in
      # (n, 0]; the chosen prefix shift has MAXIMAL variance
      if not n < r <= 0:
        return 'n < 0: result %d outside (n, 0]' % r
      s = sorted(a)
      m = len(s)
      vs = [m * sum(y * y for y in bb) - sum(bb) ** 2
            for bb in ([y + n for y in s[:j]] + s[j:] for j in range(m + 1))]
      j = vs.index(max(vs))
      want = (sum(s) + n * j + m // 2) // m % n
      if r != want:
        return 'n < 0: PseudoAverage(%r, %d) = %d, first max-variance prefix shift gives %d' % (
            a, n, r, want)
    return None
  return pred


def gen_pa_cases(rng, tier):
  cases = []
  # exhaustive small residue lists
  for n in range(1, 5 if tier == 'quick' else 7):
    for m in range(0, 5 if tier == 'quick' else 6):
      for a in itertools.product(range(n), repeat=m):
        cases.append(('exh', list(a), n))
  # all sorted residue lists mod 10 / 7 of length <= 10 would be too many: sample
  for _ in range(2500 if tier == 'quick' else 20000):
    m = rng.randrange(0, 11)
    kind = rng.choice(['res', 'res', 'cluster', 'wrap', 'big', 'unreduced', 'negn', 'zero'])
    if kind == 'res':
      n = rng.choice([2, 3, 7, 10, 16, 97, 256, 2**32, 2**64 - 59])
      a = [rng.randrange(n) for _ in range(m)]
    elif kind == 'cluster':
      n = rng.choice([10, 1000, 2**32, 2**256 - 189])
      c = rng.randrange(n)
      w = max(1, n // rng.choice([3, 4, 16, 1000]))
      a = [(c + rng.randrange(w)) % n for _ in range(m)]
    elif kind == 'wrap':   # cluster straddling 0, ties between equal variances
      n = rng.choice([10, 12, 100, 2**16])
      a = [rng.choice([0, 1, n - 1, n - 2, n // 2, n // 2 - 1]) for _ in range(m)]
    elif kind == 'big':
      n = rng.getrandbits(rng.choice([128, 256, 521])) | 1
      a = [rng.randrange(n) for _ in range(m)]
    elif kind == 'unreduced':
      n = rng.choice([1, 5, 10, 1000])
      a = [rng.randrange(-3 * n, 4 * n) for _ in range(m)]
    elif kind == 'negn':
      n = -rng.choice([1, 2, 7, 10, 2**32])
      a = [rng.randrange(-20, 20) for _ in range(m)]
    else:
      n = 0
      a = [rng.randrange(10) for _ in range(m)]
    cases.append((kind, a, n))
  for m in (20, 72, 200):
    n = 2**64
    cases.append(('long', [rng.randrange(n) for _ in range(m)], n))
  cases.append(('doc', [0, 6, 7, 8, 9], 10))
  return cases


def corr_pseudoavg(rep, rng, tier, ls):
  b = Batch('lat.pseudoavg')
  bd = Batch('lat.padiff')
  for tag, a, n in gen_pa_cases(rng, tier):
    r = call(H, ls.PseudoAverage, list(a), n)
    b.add('lat.pseudoavg %s %s' % (L(a), H(n)), r,
          tag=tag + (':err' if r.startswith('err') else ''), pred=pa_pred(ls, a, n),
          nontrivial=len(a) > 1, always=(n <= 0))
    # model's diff_j / best_j against the definition (variance differences), n > 0
    if n > 0 and a and (tag != 'exh' or len(a) == 4):
      _, vs, j = pa_definition(a, n)
      diffs = []
      for v in vs:
        assert (v - vs[0]) % n == 0
        diffs.append((v - vs[0]) // n)
      extra = ''
      if len(a) <= 8:
        # docstring definition: minimal variance over ALL 2^m selections b[i] in {a[i], a[i]+n}
        m = len(a)
        best = min(m * sum(y * y for y in bb) - sum(bb) ** 2
                   for bb in itertools.product(*[(y, y + n) for y in a]))
        if best != vs[j]:
          extra = ' prefix-shift-not-globally-optimal:%d<%d' % (best, vs[j])
      bd.add('lat.padiff %s %s' % (L(a), H(n)), '%s %s' % (L(diffs), H(j)) + extra,
             tag=tag + (':allsel' if len(a) <= 8 else ''))
  rep.absorb(b, b.run())
  rep.absorb(bd, bd.run())


def corr_bias(rep, rng, tier, ls):
  from paranoid_crypto.lib.randomness_tests import util
  rec = {}

  class N(int):
    """modulus that records the exact numerator of `2 * t / n`."""

    def __rtruediv__(self, other):
      rec['num'] = other
      return int(other) / int(self)

  class Proxy:
    def __getattr__(self, k):
      return getattr(util, k)
  proxy = Proxy()

  def rec_cdf(n, x):
    rec['len'], rec['x'] = n, x
    return util.UniformSumCdf(n, x)
  proxy.UniformSumCdf = rec_cdf

  def run(sample, n, tr):
    rec.clear()
    ls.util = proxy
    try:
      try:
        p = ls.Bias(list(sample), N(n), list(tr))
      except Exception as e:  # noqa
        return 'err ' + type(e).__name__, None
    finally:
      ls.util = util
    num = rec['num']
    notes = []
    if num % 2:
      notes.append('odd numerator')
    if rec['x'] != num / n:
      notes.append('normalized %r != 2t/n' % rec['x'])
    if p != util.UniformSumCdf(rec['len'], rec['x']) and not (p != p):
      notes.append('p-value is not UniformSumCdf(len, normalized)')
    # plain call (without the recording subclass) must give the same p-value
    p2 = ls.Bias(list(sample), n, list(tr))
    if p2 != p and not (p != p):
      notes.append('recording changed the result')
    return 'ok %s %s' % (H(num // 2), H(rec['len'])) + ''.join(' ' + x for x in notes), p

  def pred_for(sample, n, tr):
    def pred():
      if n == 0:
        s, _ = run(sample, n, tr)
        return None if s == 'err ZeroDivisionError' else 'Bias with n = 0: %s' % s
      if n < 0:
        # theorems C19Shipped.bias_term_neg / bias_normalized_range_neg: every summand in
        # [n, n/2], normalized in [len, 2 len], p-value 1.0 for len > 0
        s, p = run(sample, n, tr)
        if s.startswith('err'):
          return 'Bias raised ' + s
        t = int(s.split()[1].replace('-', '-0x') if s.split()[1].startswith('-') else '0x' + s.split()[1], 16)
        ln = len(sample) * len(tr)
        if not (ln * n <= t and 2 * t <= ln * n):
          return 'n < 0: t = %d outside [len*n, len*n/2]' % t
        if ln > 0 and p != 1.0:
          return 'n < 0: p-value %r != 1.0' % (p,)
        return None
      s, p = run(sample, n, tr)
      if s.startswith('err'):
        return 'Bias raised ' + s
      t = int(s.split()[1].replace('-', '-0x') if s.split()[1].startswith('-') else '0x' + s.split()[1], 16)
      want = 0
      for x in sample:
        for (a, c) in tr:
          v = a * x + c
          k = v // n
          want += min(abs(v - k * n), abs(v - (k + 1) * n))
      if t != want:
        return 't = %d but the sum of distances to the nearest multiple of n is %d' % (t, want)
      if len(s.split()) > 3:
        return s
      ln = len(sample) * len(tr)
      if not (0 <= 2 * t <= ln * n):
        return 'normalized outside [0, len]'
      return None
    return pred

  b = Batch('lat.bias_t')
  cases = []
  for n in range(1, 7):
    for s in range(-2, n + 2):
      for a in range(-2, 3):
        for c in (-1, 0, 1, n // 2):
          cases.append(('exh', [s], n, [(a, c)]))
  for _ in range(300 if tier == 'quick' else 3000):
    kind = rng.choice(['small', 'big', 'big', 'negn', 'zero', 'empty'])
    if kind == 'small':
      n = rng.randrange(1, 50)
    elif kind == 'big':
      n = rng.getrandbits(rng.choice([32, 64, 256])) + 1
    elif kind == 'negn':
      n = -rng.randrange(1, 50)
    elif kind == 'zero':
      n = 0
    else:
      n = rng.randrange(1, 50)
    ns = rng.randrange(0, 8) if kind != 'empty' else rng.choice([0, 0, 3])
    nt = rng.randrange(1, 4) if kind != 'empty' else rng.choice([0, 2])
    bound = abs(n) * 2 + 3
    sample = [rng.randrange(-bound, bound) for _ in range(ns)]
    tr = [(rng.randrange(-bound, bound), rng.randrange(-bound, bound)) for _ in range(nt)]
    cases.append((kind, sample, n, tr))
  for tag, sample, n, tr in cases:
    s, _ = run(sample, n, tr)
    b.add('lat.bias_t %s %s %s %s' % (L(sample), H(n), L([a for a, _ in tr]), L([c for _, c in tr])),
          s, tag=tag + (':err' if s.startswith('err') else ''), pred=pred_for(sample, n, tr),
          nontrivial=bool(sample and tr), always=(n <= 0))
  rep.absorb(b, b.run())


# ----------------------------------------------------------------------------
# (B) UniformSumCdf / CombinedPValue

def irwin_hall(n, x):
  """Irwin-Hall CDF by the closed formula, exact (x a Fraction, any x)."""
  if x <= 0:
    return F(0)
  if x >= n:
    return F(1)
  return sum((-1) ** k * math.comb(n, k) * (x - k) ** n
             for k in range(math.floor(x) + 1)) / math.factorial(n)


def normal_cdf_mp(x, n):
  x = mpmath.mpf(x.numerator) / x.denominator
  mean = mpmath.mpf(n) / 2
  var = mpmath.mpf(n) / 12
  return (1 + mpmath.erf((x - mean) / mpmath.sqrt(2 * var))) / 2


def us_expected(n, x):
  """(model answer string without suffix, exact/mp value the float must match)."""
  if x <= 0:
    return 'exact ' + R(0), F(0), 'x<=0'
  if n > 36:
    if 2 * x > n:
      xr = n - x
      if xr <= 0:
        return 'exact ' + R(1), F(1), 'reflect:x>=n'
      return 'normal 1 ' + R(xr), 1 - normal_cdf_mp(xr, n), 'reflect:normal'
    return 'normal 0 ' + R(x), normal_cdf_mp(x, n), 'normal'
  v = irwin_hall(n, x)      # the closed formula directly at x (no reflection)
  if 2 * x > n:
    return 'exact ' + R(v), v, 'reflect:x>=n' if x >= n else 'reflect:sum'
  return 'exact ' + R(v), v, 'sum'


def us_points(n, rng, tier):
  fine = n <= 36 or tier == 'thorough'
  step = 8 if fine else 2
  pts = [F(i, step) for i in range(-step, step * (n + 1) + 1)]
  pts += [F(rng.uniform(-1, n + 1)) for _ in range(20)]
  pts += [F(rng.uniform(0, 1) * 2.0 ** -rng.randrange(0, 60)) for _ in range(4)]
  eps = 2.0 ** -40
  for c in (0.0, n / 2, float(n)):
    pts += [F(c - eps), F(c), F(c + eps), F(math.nextafter(c, -1e9)), F(math.nextafter(c, 1e9))]
  ks = range(0, n + 1) if (n <= 36 or tier == 'thorough') else (0, 1, n // 2, n)
  for k in ks:
    pts += [F(k - eps), F(k + eps)]
  pts += [F(5e-324), F(-5e-324), F(1e300), F(-1e300)]
  return pts


def corr_uniformsum(rep, rng, tier):
  from paranoid_crypto.lib.randomness_tests import util
  b = Batch('u.uniformsum')
  worst = {}
  worst_normal = (0.0, None)
  for n in range(0, 101):
    w = (0.0, None)
    for x in us_points(n, rng, tier):
      fx = x.numerator / x.denominator
      assert F(fx) == x
      exp, val, tag = us_expected(n, x)
      try:
        v = util.UniformSumCdf(n, fx)
        if isinstance(val, F):
          err = abs(F(v) - val)
          err = float(err)
        else:
          err = float(abs(mpmath.mpf(v) - val))
        impl = exp + (' tol-ok' if err <= TOL else ' tol-FAIL:%r' % v)
        if err > w[0]:
          w = (err, fx)
      except Exception as e:  # noqa
        impl = 'err ' + type(e).__name__
        v = None

      def pred(n=n, fx=fx, val=val):
        try:
          v = util.UniformSumCdf(n, fx)
        except Exception as e:  # noqa
          return 'UniformSumCdf(%d, %r) raised %r' % (n, fx, e)
        d = float(abs(mpmath.mpf(v) - (mpmath.mpf(val.numerator) / val.denominator
                                        if isinstance(val, F) else val)))
        if not d <= TOL:
          return 'UniformSumCdf(%d, %r) = %r differs from the definition by %.3g' % (n, fx, v, d)
        return None
      b.add('u.uniformsum %s %s %s' % (H(n), H(x.numerator), H(x.denominator)), impl,
            tag=('n<=36:' if n <= 36 else 'n>36:') + tag, pred=pred, nontrivial=x > 0)
    worst[n] = w
    # n > 36: the code's normal approximation against the exact Irwin-Hall CDF
    if n > 36:
      sd = math.sqrt(n / 12)
      xs = [n / 2 + c * sd for c in (-2.33, -1.0, -0.74, 0.74, 1.0, 2.33)]
      xs += [float(n // 2), n / 2 - 1.5]
      if tier == 'thorough':
        xs += [i / 4 for i in range(0, 4 * n + 1)]
      for fx in xs:
        d = float(abs(F(util.UniformSumCdf(n, fx)) - irwin_hall(n, F(fx))))
        if d > worst_normal[0]:
          worst_normal = (d, (n, fx))
  rep.absorb(b, b.run())
  w36 = max((worst[n][0], n, worst[n][1]) for n in range(0, 37))
  rep.extra['uniformsum_max_abs_error_n_le_36'] = dict(err=w36[0], n=w36[1], x=w36[2])
  rep.extra['uniformsum_max_abs_error_by_n'] = {str(n): worst[n][0] for n in range(0, 37)}
  rep.extra['uniformsum_normal_vs_exact_irwin_hall'] = dict(err=worst_normal[0], at=worst_normal[1])
  if worst_normal[0] > TOL_NORMAL_VS_EXACT:
    rep.divergences.append(dict(op='u.uniformsum', line='normal-approximation', tag='n>36',
                                impl=repr(worst_normal), model='<= 1e-3', info=None,
                                property_fails='normal approximation off by more than 1e-3'))
  # within the tolerance the repo states (util_test.py delta=1e-3): a note, not a finding
  rep.notes.append(
      'UniformSumCdf n>36 is the normal approximation, not the Irwin-Hall CDF: max |impl - exact| '
      '= %.3g at (n, x) = %r; inside the delta=1e-3 stated in util_test.py, outside 1e-9 '
      '(n<=36: max abs error %.3g at n=%d, x=%r)' % (
          worst_normal[0], worst_normal[1], w36[0], w36[1], w36[2]))


def igamc_mp(k, ps):
  s = -sum(mpmath.log(mpmath.mpf(p.numerator) / p.denominator) for p in ps)
  return s, mpmath.gammainc(k, s, mpmath.inf, regularized=True)


def comb_expected(ps):
  """decision logic of CombinedPValue by its docstring / code, on exact rationals."""
  if not ps:
    return 'err ValueError', None
  if len(ps) == 1:
    return 'ok value ' + R(ps[0]), None
  if min(ps) == 0:
    return 'ok zero', None
  if any(p <= 0 for p in ps):
    return 'err ValueError', None
  return 'ok fisher %s' % H(len(ps)), igamc_mp(len(ps), ps)


def corr_combined(rep, rng, tier):
  from paranoid_crypto.lib.randomness_tests import util
  b = Batch('u.combined')
  cases = [[], [0.3], [0.0], [-0.0], [-1.0], [2.0], [0.0, 0.5], [0.5, 0.0], [-0.1, 0.0], [0.0, -0.1],
           [0.5, -0.5], [1.0, 1.0], [0.5, 0.5], [1e-300, 1e-300], [5e-324, 1.0], [1.5, 1.5],
           [1.5, 0.1], [0.782334, 0.618821], [0.125421, 0.123541, 0.125134],
           [0.000001, 0.0002, 0.9999, 1.0], [0.1 * i for i in range(1, 10)],
           [0.001 * i for i in range(1, 1000)], [-0.0, 0.5], [0.5, -0.0, 0.25]]
  for _ in range(300 if tier == 'quick' else 3000):
    k = rng.choice([1, 2, 2, 3, 5, 12, 40])
    kind = rng.choice(['unif', 'unif', 'tiny', 'withzero', 'withneg', 'gt1', 'mixed'])
    ps = [rng.random() for _ in range(k)]
    if kind == 'tiny':
      ps = [p * 2.0 ** -rng.randrange(0, 1070) for p in ps]
    elif kind == 'withzero':
      ps[rng.randrange(k)] = rng.choice([0.0, -0.0])
    elif kind == 'withneg':
      ps[rng.randrange(k)] = -rng.random()
      if rng.random() < 0.5:
        ps[rng.randrange(k)] = 0.0
    elif kind == 'gt1':
      ps[rng.randrange(k)] = 1.0 + rng.random() * rng.choice([1e-9, 1, 100])
    elif kind == 'mixed':
      ps = [rng.choice([0.0, 1.0, 0.5, 1e-310, -1e-310, 0.999999]) for _ in range(k)]
    cases.append(ps)
  nan_seen = []
  for ps in cases:
    fr = [F(p) for p in ps]
    exp, tail = comb_expected(fr)
    tag = exp.split()[1] if exp.startswith('ok') else 'err'
    try:
      r = util.CombinedPValue(list(ps))
      if len(ps) == 1:
        impl = 'ok value ' + R(F(r)) if r is ps[0] else 'ok value-not-identical'
      elif type(r) is int and r == 0:
        impl = 'ok zero'
      else:
        s, want = tail if tail else (None, None)
        r = float(r)
        if s is not None and s < 0:
          # some p > 1 made the Fisher statistic negative: scipy's gammaincc returns nan
          tag = 'fisher:s<0'
          ok = r != r
          if ok:
            nan_seen.append(ps)
        else:
          ok = want is not None and abs(mpmath.mpf(r) - want) <= max(TOL, 1e-7 * want)
        impl = 'ok fisher %s' % H(len(ps)) + (' tol-ok' if ok else ' tol-FAIL:%r' % r)
    except Exception as e:  # noqa
      impl = 'err ' + type(e).__name__

    def pred(ps=ps, exp=exp, tail=tail):
      try:
        r = util.CombinedPValue(list(ps))
      except ValueError:
        return None if exp == 'err ValueError' else 'ValueError, expected ' + exp
      except Exception as e:  # noqa
        return 'raised %r' % (e,)
      if exp == 'err ValueError':
        return 'returned %r where the definition has no value (empty / log of p <= 0)' % (r,)
      if exp.startswith('ok value'):
        return None if r is ps[0] else 'single p-value not returned unchanged'
      if exp == 'ok zero':
        return None if r == 0 else 'min = 0 but result %r' % (r,)
      s, want = tail
      if s < 0:
        return None
      if not abs(mpmath.mpf(float(r)) - want) <= max(TOL, 1e-7 * want):
        return 'CombinedPValue = %r, Fisher/Igamc by definition = %s' % (r, mpmath.nstr(want, 15))
      return None
    b.add('u.combined %s %s' % (L([q.numerator for q in fr]), L([q.denominator for q in fr])),
          impl, tag=tag, pred=pred, nontrivial=len(ps) > 1)
  rep.absorb(b, b.run())
  if nan_seen:
    rep.notes.append('CombinedPValue returns nan when some p > 1 makes -sum(log p) negative '
                     '(%d generated inputs, e.g. %r); inputs outside [0,1] are not p-values' %
                     (len(nan_seen), nan_seen[0]))

  # the running binomial of UniformSumCdf against math.comb, all n <= 100 (theorem: all n)
  bb = Batch('u.binom')
  for n in list(range(0, 101)) + [1000, 4097]:
    for k in sorted({0, 1, 2, n // 3, n // 2, n - 1 if n else 0, n}):
      bb.add('u.binom %s %s' % (H(n), H(k)), H(math.comb(n, k)), tag='k<=n')
  rep.absorb(bb, bb.run())


# ----------------------------------------------------------------------------
# (C) small_roots guards

def correspondence(rep, rng, tier):
  from paranoid_crypto.lib.randomness_tests import lattice_suite as ls
  t0 = time.time()
  corr_pseudoavg(rep, rng, tier, ls)
  corr_bias(rep, rng, tier, ls)
  t1 = time.time()
  corr_uniformsum(rep, rng, tier)
  corr_combined(rep, rng, tier)
  t2 = time.time()
  corr_small_roots(rep, rng, tier)
  t3 = time.time()
  rep.extra['c19_misc_wall_s'] = dict(lattice=round(t1 - t0, 2), util=round(t2 - t1, 2),
                                      small_roots=round(t3 - t2, 2))



# guard statements, located by source text; fallback: the line after the given statement
GUARD_P = ('if y != 0 and n % y == 0', ('y = f(rx)', 'y = int(f(*roots))'))
GUARD_N = ('if int(f(*roots)) % n == 0', ('for roots in sympy.solve(',))


def run_traced(func, needle, names, *args, **kw):
  """Runs func and records the named locals each time the guard line (found by its source
  text) is about to execute.  Recording only; nothing in /repo is changed."""
  code = func.__code__
  src, start = inspect.getsourcelines(func)
  needle, fallbacks = needle
  lines = {start + i for i, l in enumerate(src) if needle in l}
  if not lines:   # the guard itself was edited: take the statement after the evaluation of y
    lines = {start + i + 1 for i, l in enumerate(src) if any(fb in l for fb in fallbacks)}
  rec = []

  def local(frame, event, arg):
    if event == 'line' and frame.f_lineno in lines:
      rec.append({k: frame.f_locals.get(k) for k in names})
    return local

  def tracer(frame, event, arg):
    if event == 'call' and frame.f_code is code:
      return local
    return None
  old = sys.gettrace()
  sys.settrace(tracer)
  try:
    try:
      r = func(*args, **kw)
    except Exception as e:  # noqa
      return ('err', type(e).__name__), rec
  finally:
    sys.settrace(old)
  return ('ok', r), rec


def rprime(rng, bits):
  import gmpy2
  while True:
    p = rng.getrandbits(bits) | (1 << (bits - 1)) | 1
    if gmpy2.is_prime(p):
      return int(p)


def uni_coeffs(f):
  return [int(c) for c in f.all_coeffs()[::-1]]


def mono_rows(f):
  return [[int(c)] + [int(e) for e in exps] for exps, c in f.terms()]


def peval(coeffs, r):
  return sum(c * r ** i for i, c in enumerate(coeffs))


def mpeval(rows, roots):
  t = 0
  for row in rows:
    v = row[0]
    for e, r in zip(row[1:], roots):
      v *= r ** e
    t += v
  return t


PLANTED_ROOT_GATE = (
    'n = p*q, p and q random primes of `bits` bits. '
    'univariate_modp(f, 2^ub, k), k in {2,3}, 64 <= bits <= 1024, f in {p0 + x (high bits known), '
    'p + rx - x (negative coefficient), x*2^l + (p mod 2^l) (low bits known)} and the cubic '
    'p - rx^3 + x^3 with bound 2^max(2, ub//4): inside iff ub <= floor((k-1)*bits/(2k-1)) - 2 '
    '(the determinant bound of the 2k-dimensional lattice is X < p^((k-1)/(2k-1)); 2 bits of margin). '
    'multivariate_modp(p0 + x1*2^l + x2, [2^u1, 2^u2], m), |u1-u2| <= 1, 64 <= bits <= 1024: inside iff '
    '(m = 3 and u1+u2 <= floor(3*bits/16) - 3) or (m = 4 and u1+u2 <= floor(bits/4) - 3). '
    'multivariate_modn((p0+x1)(q0+x2), [2^u1, 2^u2], 1), |u1-u2| <= 1, 64 <= bits <= 256: inside iff '
    'u1+u2 <= floor(2*bits/3) - 10. '
    'RECORDED MEASUREMENT (review-2 M7): harness/corpus/c19_gate_measurement.json, written by '
    'harness/measure_c19_gate.py (real LLL / solve_right / sympy, instances built by the same functions as '
    'here, seeds independent of VERIF_SEED, 8 workers, 27 min): every family of the tables below that lies inside the '
    'region - 20000 instances for each family AT THE EDGE of the region (the largest bound the formula admits for '
    'its bits / k / m), 4000 for the families further inside, 2000 for each 512- and 1024-bit family (which nobody '
    'had measured): 691 989 of 692 000 found. All 40 univariate families (incl. 512 / 1024 bits): no miss. 11 misses: '
    'multivariate_modp m=3 64-bit, 4+5 unknown bits: 8 of 20000; multivariate_modn 128-bit 37+38 bits: 2 of 20000; '
    '96-bit 27+27 bits: 1 of 20000 (replays in the file). These are NOT margin failures - one or two bits further '
    'inside the miss rate is the same (margin_probe in the file: modp 64-bit 4+4: 4 of 20000, 3+4: 3 of 20000; modn '
    '128-bit 37+37: 2 of 20000; a missed instance stays missed with a smaller bound and is found when the root '
    'changes) - so the gate is not repaired by moving its edge; the earlier "2000/2000, 500/500" was too small to '
    'see a rate of 1e-4. '
    'What a miss of a family inside the region means (no gate may be seed-dependent on the unchanged tree): '
    '(1) FIXED CORPUS - per family that has a measurement the instances built from '
    'random.Random("c19-gate-corpus-v1/<family>/<i>"), i < 6 (2 in the quick tier), independent of VERIF_SEED; the '
    'finders are deterministic and every member was found on the unchanged tree (corpus_found in the file, with a '
    'digest): a miss is a VIOLATION, never a false alarm. '
    '(2) FRESH instances (VERIF_SEED-dependent, same families and counts): k misses in N measured instances bound '
    'the miss rate of a family by poisson_upper(k)/N (95 %; 3/N for k = 0) only, so ONE fresh miss in a run is not '
    'distinguishable from the unchanged tree at the 1e-4 level: it is recorded with its replay in '
    'extra.planted_root_gate.fresh and in the notes; the run is a VIOLATION when the number of fresh '
    'misses reaches the smallest t with P[Poisson(sum of the bounds over the fresh gated instances) >= t] < 1e-4 '
    '(t = 2 in the quick tier, 3 in the thorough tier), i.e. when the misses are inconsistent with the recorded '
    'measurement. Families whose bound exceeds 5e-4 (modp m=3 64-bit: 14.4/20000; every 512- and 1024-bit family: 3/2000) '
    'have their fresh instances as statistics only - their fixed corpus stays gated. '
    'At margin 0 or 1 bit success drops to 52..99.8 %, one bit beyond to 0..85 % (harness/measure_small_roots.py): '
    'the region is sharp; families outside it are statistics only.')

# (bits, ub, k) of the univariate families; (bits, (u1, u2), m) of the bivariate ones.  Which of them are
# inside the region is decided by uni_gate / modp_gate / modn_gate, which of those are gated by the recorded
# measurement (gate_entry).  harness/measure_c19_gate.py measures exactly these tables.
UNI_SIZES = [(64, 19, 2), (64, 20, 2), (64, 23, 3), (64, 24, 3), (96, 30, 2), (128, 40, 2),
             (128, 49, 3), (128, 50, 3), (256, 100, 3), (64, 21, 2), (128, 51, 3),
             (64, 31, 3), (128, 62, 2)]
UNI_SIZES_THOROUGH = [(512, 200, 3), (512, 202, 3), (1024, 400, 3), (1024, 407, 3), (1024, 480, 3)]
UNI_SUBFAMILIES = ('high', 'neg', 'low', 'deg3')
MODP_FAMS = [(128, (8, 8), 3), (128, (10, 10), 3), (128, (10, 11), 3), (64, (4, 5), 3),
             (128, (14, 14), 4), (128, (12, 12), 3), (128, (13, 13), 3)]
MODP_FAMS_THOROUGH = [(256, (22, 23), 3), (128, (14, 15), 4), (256, (24, 24), 4), (512, (50, 50), 4),
                      (1024, (120, 120), 4)]
MODN_FAMS = [(64, (16, 16), 1), (96, (27, 27), 1), (128, (37, 38), 1), (64, (20, 20), 1),
             (128, (40, 40), 1), (64, (30, 30), 1)]
MODN_FAMS_THOROUGH = [(256, (80, 80), 1), (64, (24, 24), 2), (512, (170, 170), 1), (1024, (340, 340), 1)]
GATE_MEASUREMENT_FILE = os.path.join(os.path.dirname(os.path.dirname(os.path.abspath(__file__))), 'corpus',
                                     'c19_gate_measurement.json')
GATE_CORPUS_SEED = 'c19-gate-corpus-v1'
_GATE_MEASUREMENT = None


def uni_family(sub, bits, ub, k):
  return 'uni-%s-k%d-%dbit-ub%d' % (sub, k, bits, ub)


def modp_family(bits, u1, u2, m):
  return 'modp-bivariate-m%d-%dbit-unknown-%d' % (m, bits, u1 + u2)


def modn_family(bits, u1, u2, m):
  return 'modn-bivariate-m%d-%dbit-unknown-%d' % (m, bits, u1 + u2)


def gate_measurement():
  global _GATE_MEASUREMENT
  if _GATE_MEASUREMENT is None:
    try:
      _GATE_MEASUREMENT = json.load(open(GATE_MEASUREMENT_FILE))
    except Exception:  # noqa  (no file: nothing is gated, everything is a statistic)
      _GATE_MEASUREMENT = dict(families={})
  return _GATE_MEASUREMENT


def gate_entry(family):
  """the recorded measurement of exactly this family if it supports gating (>= 2000 measured instances, every member
  of its fixed corpus found on the unchanged tree), else None (the family is a statistic)."""
  e = gate_measurement().get('families', {}).get(family)
  if e and e.get('instances', 0) >= 2000 and e.get('found', 0) + e.get('misses', 0) == e.get('instances') \
      and e.get('corpus_instances', 0) > 0 and e.get('corpus_found') == e.get('corpus_instances'):
    return e
  return None


def poisson_upper(k, conf=0.95):
  """mu with P[Poisson(mu) <= k] = 1 - conf (3.0 for k = 0)."""
  lo, hi = 0.0, 10.0 + 3 * k
  for _ in range(80):
    mu = (lo + hi) / 2
    term = cdf = math.exp(-mu)
    for i in range(1, k + 1):
      term *= mu / i
      cdf += term
    lo, hi = (mu, hi) if cdf > 1 - conf else (lo, mu)
  return hi


FRESH_RATE_CAP = 5e-4


def fresh_rate(family):
  """95 % upper bound of the miss rate of a FRESH instance of a gated family, from the recorded measurement
  (k misses in N instances: poisson_upper(k)/N, 3/N for k = 0); None when the family is not gated or the bound
  exceeds FRESH_RATE_CAP (then fresh instances of the family are statistics only; its fixed corpus stays gated)."""
  e = gate_entry(family)
  if e is None:
    return None
  r = poisson_upper(int(e.get('misses', 0))) / e['instances']
  return r if r <= FRESH_RATE_CAP else None


def uni_instances(rng, bits, ub, k, sympy, x):
  """the four univariate planted-root instances of one key pair: (sub-family, f, bound, planted, p, q, n)."""
  p, q = rprime(rng, bits), rprime(rng, bits)
  n = p * q
  bnd = 2 ** ub
  out = []
  p0 = (p >> ub) << ub
  out.append(('high', sympy.Poly(p0 + x, modulus=n), bnd, p - p0, p, q, n))        # high bits known
  rx = rng.randrange(1, bnd)
  out.append(('neg', sympy.Poly(p + rx - x, modulus=n), bnd, rx, p, q, n))         # negative coefficient
  l = bits - ub
  out.append(('low', sympy.Poly(x * 2 ** l + p % 2 ** l, modulus=n), bnd, p >> l, p, q, n))   # low bits known
  ub3 = max(2, ub // 4)
  rx = rng.randrange(1, 2 ** ub3)
  out.append(('deg3', sympy.Poly(p - rx ** 3 + x ** 3, modulus=n), 2 ** ub3, rx, p, q, n))    # higher degree
  return out


def modp_instance(rng, bits, u1, u2, sympy, x1, x2):
  """(f, bounds, planted, p, q, n): middle bits of p known."""
  p, q = rprime(rng, bits), rprime(rng, bits)
  n = p * q
  known = bits - u1 - u2
  lx1 = known + u2
  p0 = ((p >> u2) % 2 ** known) << u2
  return sympy.Poly(p0 + x1 * 2 ** lx1 + x2, modulus=n), [2 ** u1, 2 ** u2], [p >> lx1, p % 2 ** u2], p, q, n


def modn_instance(rng, bits, u1, u2, sympy, x1, x2):
  """(f, bounds, planted, p, q, n): high bits of both factors known."""
  p, q = rprime(rng, bits), rprime(rng, bits)
  n = p * q
  p0 = (p >> u1) << u1
  q0 = (q >> u2) << u2
  return sympy.Poly((p0 + x1) * (q0 + x2), modulus=n), [2 ** u1, 2 ** u2], [p - p0, q - q0], p, q, n


def corpus_rng(family, i):
  import random
  return random.Random('%s/%s/%d' % (GATE_CORPUS_SEED, family, i))


def fresh_miss_threshold(lam):
  """smallest t >= 1 with P[Poisson(lam) >= t] < 1e-4."""
  t, term, cdf = 0, math.exp(-lam), 0.0
  while True:
    cdf += term
    t += 1
    term *= lam / t
    if 1.0 - cdf < 1e-4:
      return t


def uni_gate(bits, ub, k):
  return k in (2, 3) and 64 <= bits <= 1024 and ub <= (k - 1) * bits // (2 * k - 1) - 2


def modp_gate(bits, u1, u2, m):
  tot = u1 + u2
  return (abs(u1 - u2) <= 1 and 64 <= bits <= 1024 and
          ((m == 3 and tot <= 3 * bits // 16 - 3) or (m == 4 and tot <= bits // 4 - 3)))


def modn_gate(bits, u1, u2, m):
  return m == 1 and abs(u1 - u2) <= 1 and 64 <= bits <= 256 and u1 + u2 <= 2 * bits // 3 - 10


def corr_small_roots(rep, rng, tier):
  import sympy
  from paranoid_crypto.lib import small_roots as sr
  x = sympy.Symbol('x')
  x1, x2 = sympy.symbols('x1, x2')
  # pinned guard `y != 0 and n % y == 0`, or the repaired one of fixes/small-roots-unit-guard.diff
  repaired = 'abs(y) > 1 and n % y == 0' in inspect.getsource(sr.univariate_modp)
  sfx = '_r' if repaired else ''
  rep.extra['small_roots_guard_variant'] = 'repaired' if repaired else 'pinned'
  stats = {}
  gate = dict(runs=0, misses=[], families=set(), fresh_runs=0, fresh_misses=[], lam=0.0)

  def stat(fam, ok, gated=False, replay=None):
    """planted-root bookkeeping.  `gated`: None / False = statistics only (outside PLANTED_ROOT_GATE or no
    recorded measurement of this family); 'corpus' = member of the fixed corpus of a gated family
    (deterministic, found on the unchanged tree: a miss is a failing input of "do find the planted root ...
    below the documented bound with margin"); 'fresh' = VERIF_SEED-dependent instance of a gated family
    (judged against the recorded measurement at the end of the run, see PLANTED_ROOT_GATE)."""
    a = stats.setdefault(fam + (':%s' % gated if gated else ':stat'), [0, 0])
    a[1] += 1
    a[0] += 1 if ok else 0
    if gated == 'corpus':
      gate['runs'] += 1
      gate['families'].add(fam)
      if not ok:
        gate['misses'].append(dict(family=fam, source='fixed corpus', **(replay or {})))
    elif gated == 'fresh':
      gate['fresh_runs'] += 1
      gate['lam'] += fresh_rate(fam)
      if not ok:
        gate['fresh_misses'].append(dict(family=fam, source='fresh (VERIF_SEED)', **(replay or {})))
  d9 = []    # accepted candidates that are a root modulo no prime factor of n

  bg = Batch('sr.guard_uni')
  bt = Batch('sr.uni_tail')

  def uni_case(f, n, p, q, bnd, k, tag, planted=None, fam=None, gated=False):
    """one run of the real univariate_modp (whatever small_roots.lll.reduce currently is)."""
    coeffs = uni_coeffs(f)
    (st, r), rec = run_traced(sr.univariate_modp, GUARD_P, ['rx', 'y'], f, bnd, k)
    if st == 'err':
      return
    res = None if r is None else int(r)
    if res is not None and (not rec or int(rec[-1]['rx']) != res):
      rec = rec + [dict(rx=res, y=f(res))]     # guard line not traced: use the returned root
    cands = [int(c['rx']) for c in rec]
    if fam:
      stat(fam, r is not None and int(r) == planted, gated,
           dict(fn='univariate_modp', p=p, q=q, coeffs=coeffs, b=bnd, k=k, planted=planted,
                returned=None if r is None else int(r)))

    def pred(f=f, bnd=bnd, k=k, p=p, q=q, coeffs=coeffs, red=sr.lll.reduce):
      keep = sr.lll.reduce
      sr.lll.reduce = red
      try:
        r = sr.univariate_modp(f, bnd, k)
      finally:
        sr.lll.reduce = keep
      if r is None:
        return None
      v = peval(coeffs, int(r))
      if v % p and v % q:
        return 'returned root %d: f(r) = %d is 0 modulo neither factor of n = %d * %d' % (r, v, p, q)
      return None
    if res is not None:
      v = peval(coeffs, res)
      if v % p and v % q:
        d9.append(dict(fn='univariate_modp', n=n, p=p, q=q, coeffs=coeffs, b=bnd, k=k, root=res,
                       y=int(rec[-1]['y']), oracle=tag))
    bt.add('sr.uni_tail%s %s %s %s' % (sfx, L(coeffs), H(n), L(cands)), O(res),
           tag=tag + (':found' if res is not None else ':none'), pred=pred)
    for i, c in enumerate(rec):
      acc = (i == len(rec) - 1 and res is not None)
      if acc and int(c['rx']) != res:
        acc = False
      bg.add('sr.guard_uni%s %s %s %s' % (sfx, L(coeffs), H(n), H(int(c['rx']))),
             '%s %s' % (O(int(c['rx'])) if acc else '-', H(int(c['y']))),
             tag=tag + (':accept' if acc else ':reject0' if int(c['y']) == 0 else ':reject'))

  real_reduce = sr.lll.reduce
  try:
    # --- pass 1: planted roots, real LLL (families of small_roots_test.py, scaled down)
    # gated (margin >= 2 bits below the lattice bound, see PLANTED_ROOT_GATE), margin 0/1
    # (statistics), and beyond the bound (statistics; test file: 400/1024 works with k=3,
    # 480/1024 does not)
    sizes = UNI_SIZES + (UNI_SIZES_THOROUGH if tier == 'thorough' else [])
    reps = 2 if tier == 'quick' else 6
    for bits, ub, k in sizes:
      inside = uni_gate(bits, ub, k)
      for src in (('corpus', 'fresh') if inside else ('fresh',)):
        for i_ in range(reps):
          r_ = corpus_rng('uni-k%d-%dbit-ub%d' % (k, bits, ub), i_) if src == 'corpus' else rng
          for sub, f, bnd, planted, p, q, n in uni_instances(r_, bits, ub, k, sympy, x):
            fam = uni_family(sub, bits, ub, k)
            e = gate_entry(fam) if inside else None
            if src == 'corpus' and (e is None or i_ >= e['corpus_instances']):
              continue
            uni_case(f, n, p, q, bnd, k, 'real:' + sub, planted, fam,
                     'corpus' if src == 'corpus' else 'fresh' if (inside and fresh_rate(fam) is not None) else None)
    # --- small moduli, real LLL: garbage candidates (non-linear factors) reach the guard
    primes = list(sympy.primerange(3, 80))
    for _ in range(250 if tier == 'quick' else 2500):
      p, q = rng.sample(primes, 2)
      n = p * q
      deg = rng.choice([1, 1, 2, 3])
      cs = [rng.randrange(n) for _ in range(deg)] + [rng.choice([1, 1, rng.randrange(1, n)])]
      try:
        f = sympy.Poly(sum(c * x ** i for i, c in enumerate(cs)), x, modulus=n)
        if f.degree() < 1:
          continue
        f.monic()
      except Exception:  # noqa  (leading coefficient not invertible)
        continue
      uni_case(f, n, p, q, rng.choice([2, 3, 4, 8, 16]), rng.choice([1, 2, 3]), 'real:small-n')
    # --- pass 2: adversarial lll.reduce: first row encodes c * prod(x - r_i)
    for _ in range(40 if tier == 'quick' else 400):
      bits = rng.choice([16, 32, 64])
      p, q = rprime(rng, bits), rprime(rng, bits)
      n = p * q
      ub, k = bits // 3, rng.choice([2, 3])
      bnd = 2 ** ub
      kind = rng.choice(['lin', 'lin', 'mul', 'deg2'])
      if kind == 'deg2':
        r0 = rng.randrange(1, bnd)
        c1 = rng.randrange(n)
        f = sympy.Poly(x ** 2 + c1 * x + (p - r0 * r0 - c1 * r0), modulus=n)
      elif kind == 'mul':
        r0 = rng.randrange(1, bnd)
        a = rng.randrange(2, 2 ** 8) | 1
        f = sympy.Poly(a * x + (p - a * r0), modulus=n)
      else:
        r0 = p % bnd
        f = sympy.Poly(x + p - r0, modulus=n)
      coeffs = uni_coeffs(f)
      d = f.degree()
      dim = 2 * k * d
      # candidate roots to inject
      inj = []
      for _ in range(rng.randrange(1, 4)):
        w = rng.choice(['true', 'unit', 'unit', 'zero', 'rand', 'q-multiple', 'far-true'])
        if w == 'true':
          inj.append(r0)
        elif w == 'far-true':
          inj.append(r0 + p * rng.randrange(-5, 6))
        elif w == 'rand':
          inj.append(rng.randrange(-bnd, bnd))
        elif d == 1:
          # solve a*r + c = target (mod n) for unit / zero / multiple of q
          a, c = coeffs[1], coeffs[0]
          target = {'unit': rng.choice([1, -1]), 'zero': 0,
                    'q-multiple': q * rng.randrange(1, 4)}[w]
          try:
            r = (target - c) * pow(a, -1, n) % n
          except ValueError:
            continue
          inj.append(r - rng.choice([0, n]))
        else:
          inj.append(rng.randrange(-bnd, bnd))
      inj = inj[:dim - 1]
      poly = sympy.Poly(rng.choice([1, 1, 3, -2]), x)
      for r in inj:
        poly = poly * sympy.Poly(x - r, x)
      cf = [int(c) for c in poly.all_coeffs()[::-1]]
      row = [(cf[i] if i < len(cf) else 0) * bnd ** i for i in range(dim)]
      rows = [row] + [[0] * dim for _ in range(dim - 1)]
      sr.lll.reduce = lambda lat, rows=rows: rows
      uni_case(f, n, p, q, bnd, k, 'adversarial')
      sr.lll.reduce = real_reduce
  finally:
    sr.lll.reduce = real_reduce
  rep.absorb(bt, bt.run())
  rep.absorb(bg, bg.run())

  # --- symmetric residue system of sympy against symMod (glue)
  bs = Batch('sr.symmod')
  for n in list(range(1, 40)) + [rng.getrandbits(64) | 1, rng.getrandbits(65) * 2 + 2]:
    f = sympy.Poly(x, x, modulus=n) if n > 1 else None
    for a in ([*range(-n - 1, 2 * n + 2)] if n < 40 else [rng.randrange(-n * 3, n * 3) for _ in range(20)] + [n // 2, n // 2 + 1, -(n // 2), -(n // 2) - 1, (n + 1) // 2]):
      if f is None:
        continue
      bs.add('sr.symmod %s %s' % (H(a), H(n)), H(int(f(a))), tag='even' if n % 2 == 0 else 'odd')
  rep.absorb(bs, bs.run())

  # --- multivariate_modp
  bm = Batch('sr.guard_multi')

  def multi_case(f, n, p, q, bounds, m, tag, planted=None, fam=None, gated=False):
    rows = mono_rows(f)
    (st, r), rec = run_traced(sr.multivariate_modp, GUARD_P, ['roots', 'y'], f, bounds, m)
    if st == 'err':
      if fam:
        stat(fam, False, gated, dict(fn='multivariate_modp', p=p, q=q, monomials=rows,
                                     bounds=bounds, m=m, planted=planted, returned='raised %s' % r))
      return None
    if fam:
      stat(fam, r is not None and [int(v) for v in r] == planted, gated,
           dict(fn='multivariate_modp', p=p, q=q, monomials=rows, bounds=bounds, m=m,
                planted=planted, returned=None if r is None else [int(v) for v in r]))
    res = None if r is None else [int(v) for v in r]
    if res is not None and (not rec or [int(v) for v in rec[-1]['roots']] != res):
      rec = rec + [dict(roots=res, y=int(f(*res)))]
    if not rec:
      return None
    roots = [int(v) for v in rec[-1]['roots']]
    if res is not None:
      v = mpeval(rows, res)
      if v % p and v % q:
        d9.append(dict(fn='multivariate_modp', n=n, p=p, q=q, monomials=rows, root=res,
                       y=int(rec[-1]['y']), oracle=tag))

    def pred(res=res, rows=rows, p=p, q=q):
      if res is None:
        return None
      v = mpeval(rows, res)
      if v % p and v % q:
        return 'returned roots %r: f = %d is 0 modulo neither factor of n' % (res, v)
      return None
    bm.add('sr.guard_multi%s %s %s %s' % (sfx, M(rows), H(n), L(roots)),
           '%s %s' % ('-' if res is None else L(res), H(int(rec[-1]['y']))),
           tag=tag + (':accept' if res is not None else ':reject'), pred=pred)
    return roots

  real_solve = sr.linalg_util.solve_right
  try:
    # The former family (128, (6, 6), 2) is gone: with m = 2 (6 x 5 linearised system) the
    # real multivariate_modp returned None on 0 of 1500 planted instances at any bound
    # (measured: (128,(1,1)), (128,(3,3)), (128,(6,6)), (64,(2,2)), 300 seeds each) — m = 2 can
    # never succeed, so it said nothing about "finds the planted root" (noted in evidence).
    # gated: m = 3 / m = 4 with >= 3 bits of margin; (128,(12,12),3) margin 0 and
    # (128,(13,13),3) beyond the bound are statistics.
    fams = MODP_FAMS + (MODP_FAMS_THOROUGH if tier == 'thorough' else [])
    reps = 2 if tier == 'quick' else 4
    for bits, (u1, u2), m in fams:
      fam = modp_family(bits, u1, u2, m)
      e = gate_entry(fam) if modp_gate(bits, u1, u2, m) else None
      for src in (('corpus', 'fresh') if e is not None else ('fresh',)):
        for i_ in range(reps):
          if src == 'corpus' and i_ >= e['corpus_instances']:
            continue
          r_ = corpus_rng(fam, i_) if src == 'corpus' else rng
          f, bounds, planted, p, q, n = modp_instance(r_, bits, u1, u2, sympy, x1, x2)
          multi_case(f, n, p, q, bounds, m, 'real', planted, fam,
                     'corpus' if src == 'corpus' else 'fresh' if (e is not None and fresh_rate(fam) is not None) else None)
    # adversarial solve_right: first learn which solution index feeds which variable
    for _ in range(6 if tier == 'quick' else 40):
      bits = rng.choice([32, 64])
      p, q = rprime(rng, bits), rprime(rng, bits)
      n = p * q
      u1 = u2 = 4
      known = bits - u1 - u2
      lx1 = known + u2
      p0 = ((p >> u2) % 2 ** known) << u2
      a1 = 2 ** lx1
      f = sympy.Poly(p0 + x1 * a1 + x2, modulus=n)
      m = 2
      sr.linalg_util.solve_right = lambda a, b: list(range(1000, 1000 + len(b) - 1))
      (st, r), rec = run_traced(sr.multivariate_modp, GUARD_P, ['roots', 'y'], f, [2 ** u1, 2 ** u2], m)
      if not rec:
        continue
      idx = [int(v) - 1000 for v in rec[-1]['roots']]
      for w in ('true', 'unit', 'unit-', 'zero', 'rand', 'q-multiple'):
        r1 = rng.randrange(-16, 16)
        if w == 'true':
          r1, r2 = p >> lx1, p % 2 ** u2
        elif w == 'rand':
          r2 = rng.randrange(-16, 16)
        else:
          target = {'unit': 1, 'unit-': -1, 'zero': 0, 'q-multiple': q * rng.randrange(1, 4)}[w]
          r2 = (target - p0 - a1 * r1) % n - rng.choice([0, n])

        def fake(a, b, idx=idx, r1=r1, r2=r2):
          sol = [0] * (len(b) - 1)
          sol[idx[0]], sol[idx[1]] = r1, r2
          return sol
        sr.linalg_util.solve_right = fake
        multi_case(f, n, p, q, [2 ** u1, 2 ** u2], m, 'adversarial:' + w.rstrip('-'))
  finally:
    sr.linalg_util.solve_right = real_solve
  rep.absorb(bm, bm.run())

  # --- multivariate_modn
  bn = Batch('sr.modn_tail')
  bng = Batch('sr.guard_modn')
  nonint = 0

  def modn_case(f, n, bounds, m, tag, planted=None, fam=None, gated=False):
    nonlocal nonint
    rows = mono_rows(f)
    (st, r), rec = run_traced(sr.multivariate_modn, GUARD_N, ['roots'], f, bounds, m)
    if st == 'err':
      rep.notes.append('multivariate_modn raised %s (%s)' % (r, tag))
      if fam:
        stat(fam, False, gated, dict(fn='multivariate_modn', n=n, monomials=rows, bounds=bounds,
                                     m=m, planted=planted, returned='raised %s' % r))
      return
    if fam:
      stat(fam, r is not None and [int(v) for v in r] == planted, gated,
           dict(fn='multivariate_modn', n=n, monomials=rows, bounds=bounds, m=m, planted=planted,
                returned=None if r is None else [int(v) for v in r]))
    cands = []
    for c in rec:
      try:
        if not all(sympy.sympify(v).is_Integer for v in c['roots']):
          raise ValueError
        cands.append([int(v) for v in c['roots']])
      except Exception:  # noqa
        nonint += 1
        return
    res = None if r is None else [int(v) for v in r]
    if res is not None and (not cands or cands[-1] != res):
      cands.append(res)

    def pred(res=res, rows=rows, n=n):
      if res is None:
        return None
      if mpeval(rows, res) % n:
        return 'returned roots %r are not a root modulo n' % (res,)
      return None
    bn.add('sr.modn_tail %s %s %s' % (M(rows), H(n), M(cands)), '-' if res is None else L(res),
           tag=tag + (':found' if res is not None else ':none'), pred=pred)
    for i, c in enumerate(cands):
      acc = res is not None and i == len(cands) - 1
      bng.add('sr.guard_modn %s %s %s' % (M(rows), H(n), L(c)),
              '%s %s' % (L(c) if acc else '-', H(int(f(*c)))),
              tag=tag + (':accept' if acc else ':reject'))

  real_sympy_solve = sympy.solve
  try:
    # gated: m = 1, u1 + u2 <= 2*bits/3 - 10; the others are statistics (margin < 10 bits or
    # beyond the bound bits/3 per unknown)
    fams = MODN_FAMS + (MODN_FAMS_THOROUGH if tier == 'thorough' else [])
    reps = 2 if tier == 'quick' else 5
    for bits, (u1, u2), m in fams:
      fam = modn_family(bits, u1, u2, m)
      e = gate_entry(fam) if modn_gate(bits, u1, u2, m) else None
      for i_ in range(min(reps, e['corpus_instances']) if e is not None else 0):
        f, bounds, planted, p, q, n = modn_instance(corpus_rng(fam, i_), bits, u1, u2, sympy, x1, x2)
        modn_case(f, n, bounds, m, 'real', planted, fam, 'corpus')
      for _ in range(reps):
        f, bounds, planted, p, q, n = modn_instance(rng, bits, u1, u2, sympy, x1, x2)
        p0, q0 = p - planted[0], q - planted[1]
        modn_case(f, n, bounds, m, 'real', planted, fam, 'fresh' if (e is not None and fresh_rate(fam) is not None) else None)
        # adversarial sympy.solve: wrong candidates first, then (sometimes) a true root
        cands = []
        for _ in range(rng.randrange(0, 3)):
          cands.append((sympy.Integer(rng.randrange(-2 ** u1, 2 ** u1)),
                        sympy.Integer(rng.randrange(-2 ** u2, 2 ** u2))))
        w = rng.choice(['true', 'shifted', 'unit', 'none'])
        if w == 'true':
          cands.append((sympy.Integer(p - p0), sympy.Integer(q - q0)))
        elif w == 'shifted':   # root modulo n that is not small: (p0+x1) = p + n
          cands.append((sympy.Integer(p - p0 + n), sympy.Integer(rng.randrange(2 ** u2))))
        elif w == 'unit':      # f = 1 (mod n): x1 with (p0+x1)(q0+x2) = 1
          r2 = rng.randrange(2 ** u2)
          try:
            cands.append((sympy.Integer((pow(q0 + r2, -1, n) - p0) % n), sympy.Integer(r2)))
          except ValueError:
            pass
        cands.append((sympy.Integer(1), sympy.Integer(2)))
        sympy.solve = lambda *a, cands=cands, **kw: cands
        try:
          modn_case(f, n, [2 ** u1, 2 ** u2], m, 'adversarial:' + w)
        finally:
          sympy.solve = real_sympy_solve
  finally:
    sympy.solve = real_sympy_solve
  rep.absorb(bn, bn.run())
  rep.absorb(bng, bng.run())

  rep.extra['planted_root_found'] = {k: '%d/%d' % tuple(v) for k, v in sorted(stats.items())}
  thr = fresh_miss_threshold(gate['lam']) if gate['fresh_runs'] else 1
  meas = gate_measurement()
  rep.extra['planted_root_gate'] = dict(
      region=PLANTED_ROOT_GATE, gated_runs=gate['runs'], gated_misses=len(gate['misses']),
      gated_families=sorted(gate['families']),
      measurement=dict(file=os.path.relpath(GATE_MEASUREMENT_FILE, fw.VERIF), written=meas.get('written'),
                       families=len(meas.get('families', {})),
                       instances=sum(e.get('instances', 0) for e in meas.get('families', {}).values()),
                       misses=sum(e.get('misses', 0) for e in meas.get('families', {}).values())),
      fresh=dict(runs=gate['fresh_runs'], misses=len(gate['fresh_misses']),
                 expected_misses_upper_bound=round(gate['lam'], 6), violation_threshold=thr,
                 rule='sum over the fresh gated instances of poisson_upper(k_family)/N_family (95 % upper bound of the miss '
                      'rate after k misses in N measured instances; 3/N for k = 0) = expected_misses_upper_bound; the run is a '
                      'violation when misses >= the smallest t with P[Poisson >= t] < 1e-4; families with a bound above 5e-4 '
                      'are statistics only (their fixed corpus stays gated)',
                 recorded_misses=gate['fresh_misses'][:10]),
      outside='families tagged :stat in planted_root_found are statistics only (margin below '
              'the gate, beyond the lattice bound, or no recorded measurement of that family)',
      m2='multivariate_modp with m = 2 never finds a planted root (0/1500 measured): dropped '
         'from the planted-root families')
  viol = list(gate['misses'])
  if len(gate['fresh_misses']) >= thr:
    viol += gate['fresh_misses']
  elif gate['fresh_misses']:
    rep.notes.append('planted-root gate: %d fresh miss(es) inside the gated region, below the violation threshold %d '
                     '(consistent with the recorded measurement at the 1e-4 level; replay in '
                     'extra.planted_root_gate.fresh.recorded_misses): %s' % (
                         len(gate['fresh_misses']), thr, [m_['family'] for m_ in gate['fresh_misses']]))
  for miss in viol:
    rep.violations.append(dict(
        op='sr.planted_root', line='%s %s' % (miss['fn'], miss['family']),
        what='planted small root NOT found inside the gated region (%s, %s): %s planted=%r returned=%r'
             % (miss['family'], miss['source'], miss['fn'], miss.get('planted'), miss.get('returned')),
        impl=repr(miss.get('returned')), model=repr(miss.get('planted')), info=miss))
  rep.extra['small_roots_false_roots_accepted'] = dict(count=len(d9), examples=d9[:6])
  if nonint:
    rep.notes.append('multivariate_modn: %d runs skipped (sympy.solve returned non-integer '
                     'candidates; the guard model takes integer candidates only)' % nonint)
  real9 = [e for e in d9 if e['oracle'].startswith('real')]
  if d9:
    e = (real9 or d9)[0]
    _known_or_violation(rep, 'D9', 
        'D9 small_roots guard accepts y = +-1: %d accepted candidates are a root modulo no prime '
        'factor of n (%d of them with the REAL lll.reduce), e.g. %s n=%d=%d*%d f=%s (constant '
        'term first) b=%s k=%s -> %r with f(r) mod n = %d' % (
            len(d9), len(real9), e['fn'], e['n'], e['p'], e['q'],
            e.get('coeffs', e.get('monomials')), e.get('b'), e.get('k'), e['root'], e['y']))


def replay_planted_root(doc):
  """`./check C19 --replay` of a planted-root miss (op sr.planted_root): the stored polynomial, bounds and parameter
  through the REAL finder; exit 1 iff the planted root is missed again."""
  import sympy
  from paranoid_crypto.lib import small_roots as sr

  def I(v):
    return int(v, 16) if isinstance(v, str) else int(v)
  info = doc.get('info') or {}
  fn = info.get('fn')
  planted = info.get('planted')
  if fn == 'univariate_modp':
    x = sympy.Symbol('x')
    n = I(info['p']) * I(info['q'])
    f = sympy.Poly(sum(I(c) * x ** i for i, c in enumerate(info['coeffs'])), x, modulus=n)
    r = sr.univariate_modp(f, I(info['b']), I(info['k']))
    got, want = (None if r is None else int(r)), I(planted)
  elif fn in ('multivariate_modp', 'multivariate_modn'):
    x1, x2 = sympy.symbols('x1, x2')
    n = I(info['n']) if 'n' in info else I(info['p']) * I(info['q'])
    f = sympy.Poly(sum(I(row[0]) * x1 ** I(row[1]) * x2 ** I(row[2]) for row in info['monomials']), x1, x2, modulus=n)
    r = getattr(sr, fn)(f, [I(b) for b in info['bounds']], I(info['m']))
    got, want = (None if r is None else [int(v) for v in r]), [I(v) for v in planted]
  else:
    print('replay: not a planted-root record')
    return 2
  print('replay: %s (%s, %s) planted %r -> returned %r' % (fn, info.get('family'), info.get('source'), want, got))
  if got != want:
    print('VIOLATION property=C19 planted small root not found inside the gated region')
    return 1
  print('replay: not reproduced on the current tree (the planted root is found)')
  return 0


# known finding D26: planted roots INSIDE the margin that the real multivariate finders miss (recorded by
# harness/measure_c19_gate.py; (fn, bits, p, q, u1, u2, m)).  Deterministic replays.
D26_REPLAYS = [
    ('multivariate_modp', 64, 0xcf78ad05a375191f, 0xa16497e160329859, 4, 5, 3),
    ('multivariate_modn', 128, 0xc60ab3f7d6137633ca625f454162d777, 0xd7cce215da545b1e5152849dc64d15f1, 37, 38, 1),
    ('multivariate_modn', 96, 0xa3cabdf206c897117e0c5c21, 0xdf25f52b0c9d5e1e60399a3f, 27, 27, 1),
]
D26_WHAT = ('small_roots.multivariate_modp / multivariate_modn return None on planted roots well inside their bound: '
            'multivariate_modp(p0 + x1*2^l + x2 mod n, [2^4, 2^5], 3), n = 0xcf78ad05a375191f * 0xa16497e160329859 (64-bit primes, '
            'planted (12, 31)); multivariate_modn((p0+x1)(q0+x2) mod n, [2^37, 2^38], 1) for the 128-bit primes '
            '0xc60ab3f7d6137633ca625f454162d777, 0xd7cce215da545b1e5152849dc64d15f1 (roots of 35 and 37 bits); about 1e-4 .. 4e-4 of the '
            'instances of these families, independent of the margin (harness/corpus/c19_gate_measurement.json); no miss of '
            'univariate_modp in 480 000 measured instances')


def d25_probe():
  import sympy
  from paranoid_crypto.lib import small_roots as sr
  x1, x2 = sympy.symbols('x1, x2')
  out = []
  for fn, bits, p, q, u1, u2, m in D26_REPLAYS:
    n = p * q
    if fn == 'multivariate_modp':
      known = bits - u1 - u2
      lx1 = known + u2
      p0 = ((p >> u2) % 2 ** known) << u2
      f, planted = sympy.Poly(p0 + x1 * 2 ** lx1 + x2, modulus=n), [p >> lx1, p % 2 ** u2]
    else:
      p0, q0 = (p >> u1) << u1, (q >> u2) << u2
      f, planted = sympy.Poly((p0 + x1) * (q0 + x2), modulus=n), [p - p0, q - q0]
    try:
      r = getattr(sr, fn)(f, [2 ** u1, 2 ** u2], m)
      r = None if r is None else [int(v) for v in r]
    except Exception as e:  # noqa
      r = 'raised %r' % (e,)
    out.append((fn, bits, (u1, u2), m, planted, r, r == planted))
  return out


def known_findings(rep):
  """fixed replays: D26 (planted roots inside the margin that the multivariate finders miss) and D9 through the
  real univariate_modp with the real LLL."""
  import framework as _fw
  res = d25_probe()
  missed = [t for t in res if not t[-1]]
  rep.extra['d25_probe'] = [dict(fn=t[0], bits=t[1], unknown_bits=list(t[2]), m=t[3], found=t[-1]) for t in res]
  listed = any(f.get('id') == 'D26' for f in _fw.load_known_findings())
  if missed:
    _known_or_violation(rep, 'D26', 'D26 %s; %d of %d replays reproduce' % (D26_WHAT, len(missed), len(res)))
  elif listed:
    rep.notes.append('listed finding D26 no longer reproduces on its replay inputs')
  import sympy
  from paranoid_crypto.lib import small_roots as sr
  x = sympy.Symbol('x')
  try:
    r = sr.univariate_modp(sympy.Poly(-2 * x - 1, modulus=57), 4, 1)
  except Exception as e:  # noqa
    rep.notes.append('D9 replay raised %r' % (e,))
    return
  if r is not None and (-2 * int(r) - 1) % 3 and (-2 * int(r) - 1) % 19:
    _known_or_violation(rep, 'D9', 'D9 replay: small_roots.univariate_modp(Poly(-2*x - 1, modulus=57), 4, k=1) '
                     'returns %d, f(%d) = %d: not a root modulo 3 nor modulo 19 (guard accepts '
                     'y = 1 because n %% 1 == 0)' % (r, r, -2 * int(r) - 1))
